import FH.Driver.Rules
import FH.Driver.World
import FH.Driver.Select
import FH.Driver.PeMem
open FH FH.Driver

inductive DState where
  | none
  | x64 (s : WState archX64)
  | a64 (s : WState archA64)

def handleLine (st : DState) (line : String) : DState × String :=
  match (line.trimAscii.toString.splitOn " ") with
  | cmd :: id :: rest =>
    let fs := fields rest
    if cmd == "rule" then
      match handleRule fs with
      | some a => (st, id ++ " " ++ a)
      | none => (st, id ++ " bad-case")
    else if cmd == "regorder" then
      match handleRegOrder fs with
      | some a => (st, id ++ " " ++ a)
      | none => (st, id ++ " bad-case")
    else if cmd == "regdecode" then
      match handleRegDecode fs with
      | some a => (st, id ++ " " ++ a)
      | none => (st, id ++ " bad-case")
    else if cmd == "select" then
      match handleSelect fs with
      | some a => (st, id ++ " " ++ a)
      | none => (st, id ++ " bad-case")
    else if cmd == "maxmask" then
      match handleMaxMask fs with
      | some a => (st, id ++ " " ++ a)
      | none => (st, id ++ " bad-case")
    else if cmd == "pemem" then
      match handlePeMem fs with
      | some a => (st, id ++ " " ++ a)
      | none => (st, id ++ " bad-case")
    else if cmd == "ana" then
      match handleAna fs with
      | some a => (st, id ++ " " ++ a)
      | none => (st, id ++ " bad-case")
    else if cmd == "init" then
      match lookup fs "arch", (lookup fs "n").bind parseHex, (lookup fs "c0").bind parseHex with
      | some arch, some n, some c0 =>
        if arch == "x64" then (.x64 { n := n, counter := c0, mods := [], unws := [], caches := [] }, id ++ " ok")
        else if arch == "a64" then (.a64 { n := n, counter := c0, mods := [], unws := [], caches := [] }, id ++ " ok")
        else (st, id ++ " bad-case")
      | _, _, _ => (st, id ++ " bad-case")
    else
      match st with
      | .x64 s =>
        match handleWorld archX64 ioX64 s cmd fs with
        | some (s', a) => (.x64 s', id ++ " " ++ a)
        | none => (st, id ++ " bad-case")
      | .a64 s =>
        match handleWorld archA64 ioA64 s cmd fs with
        | some (s', a) => (.a64 s', id ++ " " ++ a)
        | none => (st, id ++ " bad-case")
      | .none => (st, id ++ " bad-case")
  | _ => (st, "? bad-line")

partial def loop (hin : IO.FS.Stream) (hout : IO.FS.Stream) (st : DState) : IO Unit := do
  let line ← hin.getLine
  if line.isEmpty then
    hout.flush
    return ()
  let (st', ans) := handleLine st line
  hout.putStrLn ans
  loop hin hout st'

def main : IO Unit := do
  loop (← IO.getStdin) (← IO.getStdout) .none
