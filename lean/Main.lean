import FH.Driver.Rules
open FH FH.Driver

def handleLine (line : String) : String :=
  match (line.trimAscii.toString.splitOn " ") with
  | cmd :: id :: rest =>
    let fs := fields rest
    let ans :=
      if cmd == "rule" then handleRule fs
      else none
    match ans with
    | some a => id ++ " " ++ a
    | none => id ++ " bad-case"
  | _ => "? bad-line"

partial def loop (hin : IO.FS.Stream) (hout : IO.FS.Stream) : IO Unit := do
  let line ← hin.getLine
  if line.isEmpty then
    hout.flush
    return ()
  hout.putStrLn (handleLine line)
  loop hin hout

def main : IO Unit := do
  loop (← IO.getStdin) (← IO.getStdout)
