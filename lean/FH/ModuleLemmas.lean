import FH.Modules
/-!
# The module list refines a finite set of non-overlapping ranges (C07, C13)
-/
namespace FH

/-- Registered modules are non-empty ranges that do not overlap, kept in address order. -/
def NonOverlap (mods : List Module) : Prop :=
  mods.Pairwise (fun a b => a.stop ≤ b.start) ∧ ∀ m ∈ mods, m.start < m.stop

def Module.contains (m : Module) (a : Nat) : Prop := m.start ≤ a ∧ a < m.stop

theorem lowerBound_le (key : Nat) (mods : List Module) : lowerBound key mods ≤ mods.length := by
  induction mods with
  | nil => simp [lowerBound]
  | cons m rest ih => simp only [lowerBound]; split <;> simp <;> omega

/-- Everything before the reported index starts below the key. -/
theorem lowerBound_before (key : Nat) (mods : List Module) (j : Nat) (m : Module)
    (hj : j < lowerBound key mods) (hm : mods[j]? = some m) : m.start < key := by
  induction mods generalizing j with
  | nil => simp [lowerBound] at hj
  | cons x rest ih =>
    simp only [lowerBound] at hj
    split at hj
    · cases j with
      | zero => simp at hm; subst hm; assumption
      | succ j => simp at hm; exact ih j (by omega) hm
    · omega

/-- The element at the reported index (if any) does not start below the key. -/
theorem lowerBound_at (key : Nat) (mods : List Module) (m : Module)
    (hm : mods[lowerBound key mods]? = some m) : key ≤ m.start := by
  induction mods with
  | nil => simp at hm
  | cons x rest ih =>
    simp only [lowerBound] at hm
    split at hm
    · simp at hm; exact ih hm
    · simp at hm; subst hm; omega

/-- In a non-overlapping list, starts increase strictly with the index. -/
theorem NonOverlap.start_lt {mods : List Module} (h : NonOverlap mods) {i j : Nat} {a b : Module}
    (hi : mods[i]? = some a) (hj : mods[j]? = some b) (hij : i < j) : a.stop ≤ b.start := by
  have hp := h.1
  rw [List.pairwise_iff_getElem] at hp
  have hil : i < mods.length := (List.getElem?_eq_some_iff.mp hi).1
  have hjl : j < mods.length := (List.getElem?_eq_some_iff.mp hj).1
  have := hp i j hil hjl hij
  rw [(List.getElem?_eq_some_iff.mp hi).2, (List.getElem?_eq_some_iff.mp hj).2] at this
  exact this

theorem prevCand_sound (mods : List Module) (a j : Nat) (m : Module)
    (h : prevCand mods (lowerBound a mods) a = some (j, m)) : mods[j]? = some m ∧ m.contains a := by
  unfold prevCand at h
  split at h
  · cases h
  · split at h
    · rename_i p hp
      split at h
      · cases h
      · injection h with h
        injection h with h1 h2
        subst h1 h2
        have := lowerBound_before a mods (lowerBound a mods - 1) p (by omega) hp
        exact ⟨hp, by omega, by omega⟩
    · cases h

theorem findCand_sound (mods : List Module) (a j : Nat)
    (m : Module) (h : findCand mods a = some (j, m)) : mods[j]? = some m ∧ m.contains a := by
  unfold findCand at h
  split at h
  · rename_i x hx
    split at h
    · split at h
      · cases h
      · injection h with h
        injection h with h1 h2
        subst h1 h2
        exact ⟨hx, by omega, by omega⟩
    · exact prevCand_sound mods a j m h
  · exact prevCand_sound mods a j m h

/-- Soundness of `find_module_for_address`: whatever it returns is a registered module
whose range contains the address, with the relative address computed from its base. -/
theorem findModule_sound (mods : List Module) (a j rel : Nat)
    (h : findModule mods a = some (j, rel)) :
    ∃ m, mods[j]? = some m ∧ m.contains a ∧ m.baseAvma ≤ a ∧ rel = a - m.baseAvma ∧ rel < U32 := by
  unfold findModule at h
  split at h
  · cases h
  · rename_i j' m hc
    have ⟨h1, h2⟩ := findCand_sound mods a j' m hc
    split at h
    · cases h
    · split at h
      · injection h with h
        injection h with e1 e2
        subst e1 e2
        exact ⟨m, h1, h2, by omega, rfl, by assumption⟩
      · cases h

/-- Completeness of the candidate search on non-overlapping lists. -/
theorem findCand_complete (mods : List Module) (h : NonOverlap mods) (a j : Nat) (m : Module)
    (hm : mods[j]? = some m) (hc : m.contains a) : findCand mods a = some (j, m) := by
  have hjl : j < mods.length := (List.getElem?_eq_some_iff.mp hm).1
  unfold findCand
  by_cases hs : m.start = a
  · have hidx : lowerBound a mods = j := by
      apply Nat.le_antisymm
      · apply Nat.le_of_not_lt
        intro hlt
        have := lowerBound_before a mods j m hlt hm
        omega
      · apply Nat.le_of_not_lt
        intro hlt
        have hl := lowerBound_le a mods
        obtain ⟨x, hx⟩ : ∃ x, mods[lowerBound a mods]? = some x :=
          ⟨mods[lowerBound a mods], List.getElem?_eq_getElem (by omega)⟩
        have h1 := lowerBound_at a mods x hx
        have h2 := h.start_lt hx hm hlt
        have h3 := h.2 x (List.mem_of_getElem? hx)
        omega
    rw [hidx, hm]
    have hns : ¬ m.stop ≤ a := by have := hc.2; omega
    simp [hs, hns]
  · have hlt : m.start < a := by have := hc.1; omega
    have hidx : lowerBound a mods = j + 1 := by
      apply Nat.le_antisymm
      · apply Nat.le_of_not_lt
        intro hgt
        have hl := lowerBound_le a mods
        obtain ⟨x, hx⟩ : ∃ x, mods[j + 1]? = some x :=
          ⟨mods[j + 1], List.getElem?_eq_getElem (by omega)⟩
        have h1 := lowerBound_before a mods (j + 1) x hgt hx
        have h2 := h.start_lt hm hx (by omega)
        have := hc.2
        omega
      · apply Nat.le_of_not_lt
        intro hle
        have hl := lowerBound_le a mods
        obtain ⟨x, hx⟩ : ∃ x, mods[lowerBound a mods]? = some x :=
          ⟨mods[lowerBound a mods], List.getElem?_eq_getElem (by omega)⟩
        have h1 := lowerBound_at a mods x hx
        by_cases e : lowerBound a mods = j
        · rw [e, hm] at hx; injection hx with hx; subst hx; omega
        · have h2 := h.start_lt hx hm (by omega)
          have h3 := h.2 x (List.mem_of_getElem? hx)
          omega
    rw [hidx]
    have hstop : ¬ m.stop ≤ a := by have := hc.2; omega
    have hprev : prevCand mods (j + 1) a = some (j, m) := by
      simp [prevCand, hm, hstop]
    cases hx : mods[j + 1]? with
    | none => simp [hprev]
    | some x =>
      have h2 := h.start_lt hm hx (by omega)
      have : ¬ x.start = a := by have := hc.2; omega
      simp [this, hprev]

/-- Completeness: the module containing an address is found (subject to the documented
`u32` relative-address representation and a base address not above the address). -/
theorem findModule_complete (mods : List Module) (h : NonOverlap mods) (a j : Nat) (m : Module)
    (hm : mods[j]? = some m) (hc : m.contains a) :
    findModule mods a =
      if a < m.baseAvma then none
      else if a - m.baseAvma < U32 then some (j, a - m.baseAvma) else none := by
  unfold findModule
  rw [findCand_complete mods h a j m hm hc]

/-- An address that no registered module contains is unknown. -/
theorem findModule_none (mods : List Module) (a : Nat)
    (h : ∀ m ∈ mods, ¬ m.contains a) : findModule mods a = none := by
  cases hf : findModule mods a with
  | none => rfl
  | some p =>
    obtain ⟨j, rel⟩ := p
    obtain ⟨m, hm, hc, _⟩ := findModule_sound mods a j rel hf
    exact (h m (List.mem_of_getElem? hm) hc).elim

/-- `add_module` keeps the list non-overlapping and adds exactly the new module. -/
theorem addModule_nonOverlap (mods : List Module) (m : Module) (h : NonOverlap mods)
    (hm : m.start < m.stop) (hd : ∀ x ∈ mods, x.stop ≤ m.start ∨ m.stop ≤ x.start) :
    NonOverlap (addModule mods m) ∧ ∀ x, x ∈ addModule mods m ↔ x = m ∨ x ∈ mods := by
  have mem : ∀ x, x ∈ addModule mods m ↔ x = m ∨ x ∈ mods := by
    intro x
    unfold addModule
    rw [List.mem_insertIdx (lowerBound_le _ _)]
  refine ⟨⟨?_, ?_⟩, mem⟩
  · unfold addModule
    induction mods with
    | nil => simp [lowerBound]
    | cons x rest ih =>
      have hx := h.2 x (by simp)
      have hrest : NonOverlap rest := ⟨(List.pairwise_cons.mp h.1).2, fun y hy => h.2 y (by simp [hy])⟩
      have hxr := (List.pairwise_cons.mp h.1).1
      simp only [lowerBound]
      split
      · rename_i hlt
        rw [List.insertIdx_succ_cons]
        refine List.pairwise_cons.mpr ⟨?_, ih hrest (fun y hy => hd y (by simp [hy]))
          (fun y => by unfold addModule; rw [List.mem_insertIdx (lowerBound_le _ _)])⟩
        intro y hy
        rw [List.mem_insertIdx (lowerBound_le _ _)] at hy
        rcases hy with rfl | hy
        · rcases hd x (by simp) with h1 | h1 <;> omega
        · exact hxr y hy
      · rename_i hge
        rw [List.insertIdx_zero]
        refine List.pairwise_cons.mpr ⟨?_, h.1⟩
        intro y hy
        have hy' := h.2 y hy
        rcases hd y hy with h1 | h1
        · rcases List.mem_cons.mp hy with rfl | hyr
          · omega
          · have := hxr y hyr; omega
        · exact h1
  · intro x hx
    rcases (mem x).mp hx with rfl | hx
    · exact hm
    · exact h.2 x hx

/-- Two non-overlapping lists with the same modules are the same list: the list is a
function of the *set* of registered modules, whatever the order of `add_module` calls. -/
theorem nonOverlap_unique (l₁ l₂ : List Module) (h₁ : NonOverlap l₁) (h₂ : NonOverlap l₂)
    (hp : l₁.Perm l₂) : l₁ = l₂ := by
  apply List.Perm.eq_of_pairwise (le := fun a b => a.stop ≤ b.start) _ h₁.1 h₂.1 hp
  intro a b ha hb hab hba
  have := h₁.2 a ha
  have := h₂.2 b hb
  omega

theorem addModule_perm (mods : List Module) (m : Module) : (addModule mods m).Perm (m :: mods) :=
  List.perm_insertIdx m mods (lowerBound_le _ _)

/-- `max_known_code_address`: the largest range end, or 0. -/
theorem maxKnown_is_max (mods : List Module) (h : NonOverlap mods) :
    (mods = [] → maxKnown mods = 0) ∧
    (∀ m ∈ mods, m.stop ≤ maxKnown mods) ∧ (mods ≠ [] → ∃ m ∈ mods, maxKnown mods = m.stop) := by
  unfold maxKnown
  refine ⟨fun e => by simp [e], ?_, ?_⟩
  · intro m hm
    cases hl : mods.getLast? with
    | none => simp [List.getLast?_eq_none_iff] at hl; subst hl; simp at hm
    | some l =>
      simp only []
      obtain ⟨i, hi⟩ := List.getElem?_of_mem hm
      have hlen : i < mods.length := (List.getElem?_eq_some_iff.mp hi).1
      have hlast : mods[mods.length - 1]? = some l := by
        rw [List.getLast?_eq_getElem?] at hl; exact hl
      by_cases e : i = mods.length - 1
      · rw [e, hlast] at hi; injection hi with hi; subst hi; omega
      · have := h.start_lt hi hlast (by omega)
        have := h.2 l (List.mem_of_getElem? hlast)
        omega
  · intro hne
    cases hl : mods.getLast? with
    | none => simp [List.getLast?_eq_none_iff] at hl; exact (hne hl).elim
    | some l => exact ⟨l, List.mem_of_getLast? hl, rfl⟩

/-- The binary search reports exactly the index of the module that starts at the key. -/
theorem lowerBound_of_start (mods : List Module) (h : NonOverlap mods) (j : Nat) (m : Module)
    (hm : mods[j]? = some m) : lowerBound m.start mods = j := by
  have hjl : j < mods.length := (List.getElem?_eq_some_iff.mp hm).1
  apply Nat.le_antisymm
  · apply Nat.le_of_not_lt
    intro hlt
    have := lowerBound_before m.start mods j m hlt hm
    omega
  · apply Nat.le_of_not_lt
    intro hlt
    have hl := lowerBound_le m.start mods
    obtain ⟨x, hx⟩ : ∃ x, mods[lowerBound m.start mods]? = some x :=
      ⟨mods[lowerBound m.start mods], List.getElem?_eq_getElem (by omega)⟩
    have h1 := lowerBound_at m.start mods x hx
    have h2 := h.start_lt hx hm hlt
    have h3 := h.2 x (List.mem_of_getElem? hx)
    omega

/-- `remove_module` of a start address no module has changes nothing (reports `none`). -/
theorem removeModule_absent (mods : List Module) (s : Nat) (h : ∀ m ∈ mods, m.start ≠ s) :
    removeModule mods s = none := by
  unfold removeModule
  simp only []
  split
  · rename_i m hm
    have := h m (List.mem_of_getElem? hm)
    simp [this]
  · rfl

/-- `remove_module` of a registered start removes exactly that module. -/
theorem removeModule_present (mods : List Module) (h : NonOverlap mods) (j : Nat) (m : Module)
    (hm : mods[j]? = some m) :
    removeModule mods m.start = some (mods.eraseIdx j) ∧ NonOverlap (mods.eraseIdx j) := by
  refine ⟨?_, ?_⟩
  · unfold removeModule
    simp only []
    rw [lowerBound_of_start mods h j m hm, hm]
    simp
  · exact ⟨List.Pairwise.sublist (List.eraseIdx_sublist _ _) h.1,
      fun x hx => h.2 x ((List.eraseIdx_sublist _ _).subset hx)⟩

end FH
