import FH.AnaX64
import FH.AnaA64
/-!
# Mach-O compact unwind info (`macho.rs`, `x86_64/macho.rs`, `aarch64/macho.rs`)

From the parsed `Function { start, end, opcode }` and the parsed opcode (macho-unwind-info's
`OpcodeX86_64::parse` / `OpcodeArm64::parse` are third-party and outside the model) onward.
-/
namespace FH

/-- Registers a compact unwind opcode can name (`RegisterNameX86_64`). -/
inductive CuiReg where
  | rbx | r12 | r13 | r14 | r15 | rbp
  deriving DecidableEq, Repr, Inhabited

/-- `OpcodeX86_64` -/
inductive CuiOpX64 where
  | null
  | frameBased
  | framelessImmediate (stackSize : Nat) (saved : List (Option CuiReg))
  | framelessIndirect (immOff : Nat) (adjust : Nat) (saved : List (Option CuiReg))
  | dwarf (fde : Nat)
  | invalidFrameless
  | unrecognized (kind : Nat)
  deriving DecidableEq, Repr, Inhabited

/-- `OpcodeArm64` -/
inductive CuiOpA64 where
  | null
  | frameless (stackSize : Nat)
  | dwarf (fde : Nat)
  | frameBased
  | unrecognized (kind : Nat)
  deriving DecidableEq, Repr, Inhabited

/-- `CuiUnwindResult` / error. -/
inductive CuiRes (Rule : Type) where
  | exec (r : Rule)
  | needDwarf (fde : Nat)
  | err
  deriving Repr

/-- Position of rbp among the saved registers counted from the outside
(`saved_regs.iter().rev().flatten().position(|r| *r == Rbp)`). -/
def bpPosFromOutside (saved : List (Option CuiReg)) : Option Nat :=
  (saved.reverse.filterMap id).findIdx? (· == .rbp)

/-- The rule for a frameless function of `stackSize` bytes with the given saved registers. -/
def framelessRuleX64 (stackSize : Nat) (saved : List (Option CuiReg)) : CuiRes RuleX64 :=
  match bpPosFromOutside saved with
  | some pos =>
    -- `stack_size as i32 - 2*8 - pos*8`, divided by 8 (truncating), must fit `i16`
    let off : Int := (stackSize : Int) - 16 - (pos : Int) * 8
    let d := off.tdiv 8
    if -32768 ≤ d ∧ d < 32768 then .exec (.offsetSpAndRestoreBp (stackSize / 8) d) else .err
  | none => .exec (.offsetSp (stackSize / 8))

/-- `<ArchX86_64 as CompactUnwindInfoUnwinding>::unwind_frame`. `fnBytes`: the text bytes of
the function if available. Outer `none` = panic (inside instruction analysis). -/
def cuiUnwindX64 (op : CuiOpX64) (first : Bool) (offsetInFn : Nat) (fnBytes : Option (List Nat)) :
    Option (CuiRes RuleX64) :=
  let body : CuiRes RuleX64 :=
    match op with
    | .null => .err
    | .framelessImmediate stackSize saved =>
      if stackSize = 8 then .exec .justReturn else framelessRuleX64 stackSize saved
    | .framelessIndirect immOff adjust saved =>
      match fnBytes with
      | none => .err
      | some bytes =>
        if immOff + 4 ≤ bytes.length then
          let sub := byteAt bytes immOff + byteAt bytes (immOff + 1) * 256 +
            byteAt bytes (immOff + 2) * 65536 + byteAt bytes (immOff + 3) * 16777216
          if sub + adjust < U32 then
            let size := sub + adjust
            if size / 8 < U16 then
              match bpPosFromOutside saved with
              | some pos =>
                -- `stack_size_in_bytes as i32` wraps for sizes >= 2^31; sizes here are < 2^19
                let off : Int := (size : Int) - 16 - (pos : Int) * 8
                let d := off.tdiv 8
                if -32768 ≤ d ∧ d < 32768 then .exec (.offsetSpAndRestoreBp (size / 8) d) else .err
              | none => .exec (.offsetSp (size / 8))
            else .err
          else .err
        else .err
    | .dwarf fde => .needDwarf fde
    | .frameBased => .exec .useFramePointer
    | .unrecognized _ => .err
    | .invalidFrameless => .err
  if first then
    match fnBytes with
    | some bytes =>
      match anaX64 bytes offsetInFn with
      | none => none
      | some (some rule) => some (.exec rule)
      | some none =>
        if op = .null ∧ bytes.take 4 = [0x55, 0x48, 0x89, 0xe5] then some (.exec .useFramePointer)
        else if op = .null then some (.exec .justReturn)
        else some body
    | none => if op = .null then some (.exec .justReturn) else some body
  else some body

/-- `<ArchX86_64>::rule_for_stub_helper` -/
def stubHelperRuleX64 (offset : Nat) : RuleX64 :=
  if offset < 0x7 then .offsetSp 2
  else if offset < 0x10 then .offsetSp 3
  else if (offset - 0x10) % 10 < 5 then .justReturn
  else .offsetSp 2

/-- `<ArchAarch64 as CompactUnwindInfoUnwinding>::unwind_frame` -/
def cuiUnwindA64 (op : CuiOpA64) (first : Bool) (offsetInFn : Nat) (fnBytes : Option (List Nat)) :
    Option (CuiRes RuleA64) :=
  let body : CuiRes RuleA64 :=
    match op with
    | .null => .err
    | .frameless stackSize =>
      if first then
        if stackSize = 0 then .exec .noOp else .exec (.offsetSp (stackSize / 16))
      else .err
    | .dwarf fde => .needDwarf fde
    | .frameBased => .exec .useFramePointer
    | .unrecognized _ => .err
  if first then
    if op = .null then some (.exec .noOp)
    else
      match fnBytes with
      | some bytes =>
        match anaA64 bytes offsetInFn with
        | none => none
        | some (some rule) => some (.exec rule)
        | some none => some body
      | none => some body
  else some body

/-- `<ArchAarch64>::rule_for_stub_helper` -/
def stubHelperRuleA64 (offset : Nat) : RuleA64 :=
  if offset < 0xc then .noOp
  else if offset < 0x18 then .offsetSp 1
  else .noOp

/-- One function entry as `UnwindInfo::lookup` reports it, with its opcode parsed for both
architectures' models. -/
structure CuiFunc (Op : Type) where
  start : Nat
  stop : Nat
  op : Op
  deriving Repr

/-- The Mach-O data of a module as far as the compact unwind path uses it. -/
structure CuiData (Op : Type) where
  funcs : List (CuiFunc Op)        -- contiguous, sorted by start
  stubs : Nat × Nat                -- relative range, (0,0) if absent
  stubHelper : Nat × Nat
  /-- Text bytes: offset of the first byte from the module base, and the bytes. -/
  text : Option (Nat × List Nat)
  deriving Repr

def cuiLookup {Op : Type} (funcs : List (CuiFunc Op)) (addr : Nat) : Option (CuiFunc Op) :=
  funcs.find? fun f => f.start ≤ addr ∧ addr < f.stop

/-- `CompactUnwindInfoUnwinder::unwind_frame` (the dispatch), generic in the architecture's
opcode handler `unwindFn`, stub rules and function-start rule. -/
def cuiDispatch {Op Rule : Type} (d : CuiData Op)
    (unwindFn : Op → Bool → Nat → Option (List Nat) → Option (CuiRes Rule))
    (stubRule fnStartRule : Rule) (stubHelperRule : Nat → Rule) (rel : Nat) (first : Bool) :
    Option (CuiRes Rule) :=
  if d.stubs.1 ≤ rel ∧ rel < d.stubs.2 then
    if !first then some .err else some (.exec stubRule)
  else if d.stubHelper.1 ≤ rel ∧ rel < d.stubHelper.2 then
    if !first then some .err else some (.exec (stubHelperRule (rel - d.stubHelper.1)))
  else
    match cuiLookup d.funcs rel with
    | none => if first then some (.exec stubRule) else some .err
    | some f =>
      if first ∧ rel = f.start then some (.exec fnStartRule)
      else
        let fnBytes : Option (List Nat) :=
          match d.text with
          | none => none
          | some (textOff, bytes) =>
            if textOff ≤ f.start ∧ textOff ≤ f.stop ∧ f.start - textOff ≤ f.stop - textOff ∧
                f.stop - textOff ≤ bytes.length then
              some ((bytes.drop (f.start - textOff)).take (f.stop - f.start))
            else none
        unwindFn f.op first (rel - f.start) fnBytes

end FH
