import FH.Basic
/-!
# Register files (`x86_64/unwindregs.rs`, `aarch64/unwindregs.rs`)
-/
namespace FH

/-- x86-64 register numbers in the order of `enum Reg`. -/
def RAX : Nat := 0
def RDX : Nat := 1
def RCX : Nat := 2
def RBX : Nat := 3
def RSI : Nat := 4
def RDI : Nat := 5
def RBP : Nat := 6
def RSP : Nat := 7

/-- `UnwindRegsX86_64`: `ip` plus the 16 general purpose registers, indexed by `Reg as usize`. -/
structure RegsX64 where
  ip : Nat
  r : Nat → Nat

/-- `regs.set(reg, value)` -/
def setReg (r : Nat → Nat) (i v : Nat) : Nat → Nat := fun j => if j = i then v else r j

@[simp] theorem setReg_same (r : Nat → Nat) (i v : Nat) : setReg r i v i = v := by simp [setReg]
@[simp] theorem setReg_other (r : Nat → Nat) (i v j : Nat) (h : j ≠ i) : setReg r i v j = r j := by
  simp [setReg, h]

def RegsX64.sp (g : RegsX64) : Nat := g.r RSP
def RegsX64.bp (g : RegsX64) : Nat := g.r RBP

def RegsX64.WF (g : RegsX64) : Prop := g.ip < U64 ∧ ∀ i, g.r i < U64

/-- `UnwindRegsAarch64` -/
structure RegsA64 where
  mask : Nat
  lr : Nat
  sp : Nat
  fp : Nat
  deriving DecidableEq, Repr

/-- `PtrAuthMask::strip_ptr_auth` -/
def strip (mask ptr : Nat) : Nat := ptr &&& mask

/-- `regs.set_lr(lr)` strips. -/
def RegsA64.setLr (g : RegsA64) (lr : Nat) : RegsA64 := { g with lr := strip g.mask lr }

def RegsA64.WF (g : RegsA64) : Prop := g.mask < U64 ∧ g.lr < U64 ∧ g.sp < U64 ∧ g.fp < U64

/-- `x` has no bits outside `mask`. -/
def Stripped (mask x : Nat) : Prop := x &&& mask = x

theorem strip_stripped (mask x : Nat) : Stripped mask (strip mask x) := by
  unfold Stripped strip
  rw [Nat.and_assoc, Nat.and_self]

theorem strip_le (mask x : Nat) : strip mask x ≤ x := Nat.and_le_left

theorem strip_lt {mask x : Nat} (h : x < U64) : strip mask x < U64 :=
  Nat.lt_of_le_of_lt (strip_le mask x) h

end FH
