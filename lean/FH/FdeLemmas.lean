import FH.Modules
/-!
# FDE resolution: the covering FDE is found, whatever the section order (C12)
-/
namespace FH

def Fde.stop (f : Fde) : Nat := f.start + f.len

/-- FDE ranges are non-empty and pairwise disjoint (as a set: no order is assumed). -/
def FdesDisjoint (l : List Fde) : Prop :=
  (∀ f ∈ l, 0 < f.len) ∧ l.Pairwise (fun a b => a.stop ≤ b.start ∨ b.stop ≤ a.start)

theorem insertByStart_perm (f : Fde) (l : List Fde) : (insertByStart f l).Perm (f :: l) := by
  induction l with
  | nil => exact List.Perm.refl _
  | cons g rest ih =>
    simp only [insertByStart]
    split
    · exact (List.Perm.cons g ih).trans (List.Perm.swap f g rest)
    · exact List.Perm.refl _

theorem sortByStart_perm (l : List Fde) : (sortByStart l).Perm l := by
  induction l with
  | nil => exact List.Perm.refl _
  | cons f rest ih =>
    simp only [sortByStart, List.foldr]
    exact (insertByStart_perm f _).trans (List.Perm.cons f ih)

theorem insertByStart_sorted (f : Fde) (l : List Fde)
    (h : l.Pairwise (fun a b => a.start ≤ b.start)) :
    (insertByStart f l).Pairwise (fun a b => a.start ≤ b.start) := by
  induction l with
  | nil => simp [insertByStart]
  | cons g rest ih =>
    simp only [insertByStart]
    have hg := List.pairwise_cons.mp h
    split
    · rename_i hle
      refine List.pairwise_cons.mpr ⟨?_, ih hg.2⟩
      intro x hx
      have hx' := (insertByStart_perm f rest).subset hx
      rcases List.mem_cons.mp hx' with rfl | hx''
      · exact hle
      · exact hg.1 x hx''
    · rename_i hlt
      refine List.pairwise_cons.mpr ⟨?_, h⟩
      intro x hx
      rcases List.mem_cons.mp hx with rfl | hx
      · omega
      · have := hg.1 x hx; omega

theorem sortByStart_sorted (l : List Fde) :
    (sortByStart l).Pairwise (fun a b => a.start ≤ b.start) := by
  induction l with
  | nil => simp [sortByStart]
  | cons f rest ih =>
    simp only [sortByStart, List.foldr]
    exact insertByStart_sorted f _ ih

/-- On a table sorted by start, `lastLE` returns the last entry starting at or before the key
(if there is one). -/
theorem lastLE_spec (key : Nat) (l : List Fde) (h : l.Pairwise (fun a b => a.start ≤ b.start))
    (f : Fde) (hf : f ∈ l) (hle : f.start ≤ key) :
    ∃ g, lastLE key l = some g ∧ g ∈ l ∧ g.start ≤ key ∧ f.start ≤ g.start := by
  induction l with
  | nil => simp at hf
  | cons x rest ih =>
    have hx := List.pairwise_cons.mp h
    simp only [lastLE]
    rcases List.mem_cons.mp hf with rfl | hfr
    · -- `f` is the head
      cases hr : lastLE key rest with
      | none => exact ⟨f, rfl, by simp, hle, Nat.le_refl _⟩
      | some g =>
        simp only []
        have hgm : g ∈ rest := by
          clear ih hx h hf
          induction rest generalizing g with
          | nil => simp [lastLE] at hr
          | cons y ys ihy =>
            simp only [lastLE] at hr
            split at hr
            · rename_i g' hg'
              split at hr
              · injection hr with hr; subst hr; exact List.mem_cons_of_mem _ (ihy g' hg')
              · injection hr with hr; subst hr; simp
            · injection hr with hr; subst hr; simp
        split
        · rename_i hgle
          exact ⟨g, rfl, List.mem_cons_of_mem _ hgm, hgle, hx.1 g hgm⟩
        · exact ⟨f, rfl, by simp, hle, Nat.le_refl _⟩
    · obtain ⟨g, hg, hgm, hgle, hfg⟩ := ih hx.2 hfr
      rw [hg]
      simp only [hgle, if_true]
      exact ⟨g, rfl, List.mem_cons_of_mem _ hgm, hgle, hfg⟩

/-- **The FDE consulted is the one covering the address, irrespective of the order of FDEs in
the section**: for pairwise disjoint FDEs in any order, the table lookup on the sorted table
returns the FDE whose range contains the address. -/
theorem lookup_finds_covering_fde (fdes : List Fde) (h : FdesDisjoint fdes) (f : Fde) (hf : f ∈ fdes)
    (a : Nat) (hc : f.start ≤ a ∧ a < f.stop) : lastLE a (sortByStart fdes) = some f := by
  have hp := sortByStart_perm fdes
  have hs := sortByStart_sorted fdes
  obtain ⟨g, hg, hgm, hgle, hfg⟩ := lastLE_spec a _ hs f (hp.symm.subset hf) hc.1
  rw [hg]
  congr 1
  have hgm' : g ∈ fdes := hp.subset hgm
  -- `g` starts inside `f`'s range, and the two are equal or disjoint
  by_cases e : g = f
  · exact e
  · have hd : g.stop ≤ f.start ∨ f.stop ≤ g.start := by
      have hpw := h.2
      rw [List.pairwise_iff_forall_sublist] at hpw
      rcases List.mem_iff_getElem.mp hgm' with ⟨i, hi, hgi⟩
      rcases List.mem_iff_getElem.mp hf with ⟨j, hj, hfj⟩
      have hpw2 := h.2
      rw [List.pairwise_iff_getElem] at hpw2
      by_cases hij : i < j
      · have := hpw2 i j hi hj hij; rw [hgi, hfj] at this; exact this
      · by_cases hji : j < i
        · have := hpw2 j i hj hi hji; rw [hgi, hfj] at this
          rcases this with h1 | h1
          · exact Or.inr h1
          · exact Or.inl h1
        · have : i = j := by omega
          subst this
          rw [hgi] at hfj
          exact (e hfj).elim
    have hglen := h.1 g hgm'
    unfold Fde.stop at *
    omega

/-- An address no FDE covers never gets a row: whatever FDE the table lookup lands on, its
range check fails (`uncovered`), in every presentation. -/
theorem uncovered_address_has_no_row (fdes : List Fde) (a : Nat)
    (hn : ∀ f ∈ fdes, ¬(f.start ≤ a ∧ a < f.stop)) (g : Fde) (hg : lastLE a (sortByStart fdes) = some g) :
    g.rowFor a = none := by
  have hgm : g ∈ fdes := by
    have hp := sortByStart_perm fdes
    apply hp.subset
    generalize sortByStart fdes = l at hg
    induction l generalizing g with
    | nil => simp [lastLE] at hg
    | cons y ys ihy =>
      simp only [lastLE] at hg
      split at hg
      · rename_i g' hg'
        split at hg
        · injection hg with hg; subst hg; exact List.mem_cons_of_mem _ (ihy g' hg')
        · injection hg with hg; subst hg; simp
      · injection hg with hg; subst hg; simp
  have hno := hn g hgm
  unfold Fde.stop at hno
  unfold Fde.rowFor
  by_cases he : g.evalFails = true
  · simp [he]
  · simp [he, hno]

end FH
