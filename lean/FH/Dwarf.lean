import FH.RuleX64
import FH.RuleA64
/-!
# DWARF rows: translation into cacheable rules and the generic evaluator
(`x86_64/dwarf.rs`, `aarch64/dwarf.rs`, `dwarf.rs::eval_cfa_rule / eval_register_rule`)

A row is what gimli hands to framehop: the CFA rule and the rules of the two registers
framehop looks at. Of DWARF expressions the single-operation form `DW_OP_breg<r> offset` is
modelled in all three places it can occur (CFA expression, `DW_CFA_expression`,
`DW_CFA_val_expression`), i.e. the whole of framehop's own `eval_expr` driver loop
(`RequiresRegister` answered from the unwind registers, anything else gives up); other
expressions (`RegRule.other`, `CfaRule.expr`) evaluate to "unknown", as the Rust code's
`_ => None` arms do - the harness writes them as expressions that need a memory read.
-/
namespace FH

/-- The DWARF registers the `DwarfUnwindRegs::get` implementations know. -/
inductive DReg where
  | sp | fp | ra | other
  deriving DecidableEq, Repr, Inhabited

inductive CfaRule where
  | regOff (reg : DReg) (off : Int)
  | expr
  /-- `DW_CFA_def_cfa_expression {DW_OP_breg<reg> off}`: the value `reg + off`, computed by the
  expression evaluator (`eval_expr`); never compressed into a rule. -/
  | exprRegOff (reg : DReg) (off : Int)
  deriving DecidableEq, Repr, Inhabited

inductive RegRule where
  | undefined
  | sameValue
  | offset (n : Int)
  | valOffset (n : Int)
  | register (r : DReg)
  | other
  /-- `DW_CFA_expression {DW_OP_breg<reg> off}`: saved at the address `reg + off`. -/
  | exprReg (reg : DReg) (off : Int)
  /-- `DW_CFA_val_expression {DW_OP_breg<reg> off}`: the value `reg + off`. -/
  | valExprReg (reg : DReg) (off : Int)
  deriving DecidableEq, Repr, Inhabited

/-- `cfa`, rule of the frame pointer register (rbp / x29), rule of the return address
register (RA / x30). -/
structure Row where
  cfa : CfaRule
  fp : RegRule
  ra : RegRule
  deriving DecidableEq, Repr, Inhabited

def InI64 (n : Int) : Prop := -9223372036854775808 ≤ n ∧ n < 9223372036854775808

def CfaRule.WF : CfaRule → Prop
  | .regOff _ off => InI64 off
  | .expr => True
  | .exprRegOff _ off => InI64 off

def RegRule.WF : RegRule → Prop
  | .offset n => InI64 n
  | .valOffset n => InI64 n
  | .exprReg _ off => InI64 off
  | .valExprReg _ off => InI64 off
  | _ => True

def Row.WF (r : Row) : Prop := r.cfa.WF ∧ r.fp.WF ∧ r.ra.WF

/-- `register_rule_to_cfa_offset`: `Ok(None)`, `Ok(Some n)` or `Err`. -/
inductive CfaOff where
  | none | some (n : Int) | err

def regRuleToCfaOffset : RegRule → CfaOff
  | .undefined => .none
  | .sameValue => .none
  | .offset n => .some n
  | _ => .err

/-- `i64::checked_add` -/
def caddI64 (a b : Int) : Option Int :=
  if -9223372036854775808 ≤ a + b ∧ a + b < 9223372036854775808 then some (a + b) else none

/-- Exact division by `g` of an `i64` followed by `u16::try_from`. Rust's `/` and `%`
truncate toward zero; for multiples of `g` that is ordinary division. -/
def exactDivU16 (x : Int) (g : Int) : Option Nat :=
  if x.tmod g ≠ 0 then none
  else if 0 ≤ x.tdiv g ∧ x.tdiv g < 65536 then some (x.tdiv g).toNat else none

/-- `(a + b)` without overflow, a multiple of 8, divided by 8, fitting `i16`. -/
def exactSumDiv8I16 (a b : Int) : Option Int :=
  match caddI64 a b with
  | none => none
  | some s =>
    if s.tmod 8 ≠ 0 then none
    else if -32768 ≤ s.tdiv 8 ∧ s.tdiv 8 < 32768 then some (s.tdiv 8) else none

/-- `x86_64::dwarf::translate_into_unwind_rule` (`Err _` ↦ `none`). -/
def translateX64 (row : Row) : Option RuleX64 :=
  match row.ra with
  | .undefined => some .endOfStack
  | .offset n =>
    if n ≠ -8 then none
    else
      match row.cfa with
      | .regOff .sp off =>
        match exactDivU16 off 8 with
        | none => none
        | some k =>
          match regRuleToCfaOffset row.fp with
          | .err => none
          | .none => some (.offsetSp k)
          | .some b =>
            match exactSumDiv8I16 off b with
            | none => none
            | some s => some (.offsetSpAndRestoreBp k s)
      | .regOff .fp off =>
        match regRuleToCfaOffset row.fp with
        | .some b => if off = 16 ∧ b = -16 then some .useFramePointer else none
        | _ => none
      | _ => none
  | _ => none

/-- `aarch64::dwarf::translate_into_unwind_rule`. -/
def translateA64 (row : Row) : Option RuleA64 :=
  match row.cfa with
  | .regOff .sp off =>
    match exactDivU16 off 16 with
    | none => none
    | some k =>
      match regRuleToCfaOffset row.ra, regRuleToCfaOffset row.fp with
      | .err, _ => none
      | _, .err => none
      | .none, .some _ => none
      | .none, .none =>
        if row.ra = .undefined then some (.offsetSpIfFirstFrameOtherwiseStackEndsHere k)
        else some (.offsetSp k)
      | .some l, .none =>
        match exactSumDiv8I16 off l with
        | none => none
        | some lo => some (.offsetSpAndRestoreLr k lo)
      | .some l, .some f =>
        match exactSumDiv8I16 off l, exactSumDiv8I16 off f with
        | some lo, some fo => some (.offsetSpAndRestoreFpAndLr k fo lo)
        | _, _ => none
  | .regOff .fp off =>
    match regRuleToCfaOffset row.ra, regRuleToCfaOffset row.fp with
    | .some l, .some f =>
      if off = 16 ∧ f = -16 ∧ l = -8 then some .useFramePointer
      else
        match exactDivU16 off 8, exactSumDiv8I16 off l, exactSumDiv8I16 off f with
        | some k, some lo, some fo => some (.useFramepointerWithOffsets k fo lo)
        | _, _, _ => none
    | _, _ => none
  | _ => none

/-- Errors of the generic path. All of them depend on the thread state, so
`with_cache` runs the fallback rule for this call without caching it. -/
inductive DwarfErr where
  | couldNotRecoverCfa | couldNotRecoverRa | couldNotRecoverFp
  | spMovedBackwards | didNotAdvance
  deriving DecidableEq, Repr

/-- Result of the uncacheable path: new registers and the return address, or an error
(registers untouched). -/
inductive GenOut (R : Type) where
  | ok (ra : Nat) (regs : R)
  | err (e : DwarfErr)
  /-- A panic inside the uncacheable path (only reachable in the PE interpreter, in
  pe-unwind-info's unchecked arithmetic). -/
  | panic (s : Site)

/-- gimli's evaluation of `DW_OP_breg<reg> off` as driven by `eval_expr`: the register value
(`RequiresRegister`, answered from `DwarfUnwindRegs::get`) plus the offset, *wrapping* in 64 bits
(gimli's generic-type arithmetic), as an address. -/
def evalBreg (get : DReg → Option Nat) (reg : DReg) (off : Int) : Option Nat :=
  match get reg with
  | none => none
  | some v => some (wrappingAddSigned v off)

/-- `eval_cfa_rule` given the architecture's `DwarfUnwindRegs::get`. -/
def evalCfa (get : DReg → Option Nat) : CfaRule → Option Nat
  | .regOff reg off =>
    match get reg with
    | none => none
    | some v => caddSigned v off
  | .expr => none
  | .exprRegOff reg off => evalBreg get reg off

/-- `eval_register_rule`. -/
def evalRegRule (get : DReg → Option Nat) (mem : Mem) (rule : RegRule) (cfa val : Nat) : Option Nat :=
  match rule with
  | .undefined => none
  | .sameValue => some val
  | .offset n =>
    match caddSigned cfa n with
    | none => none
    | some a => mem a
  | .valOffset n => caddSigned cfa n
  | .register r => get r
  | .other => none
  | .exprReg reg off =>
    match evalBreg get reg off with
    | none => none
    | some a => mem a
  | .valExprReg reg off => evalBreg get reg off

def getX64 (regs : RegsX64) : DReg → Option Nat
  | .ra => some regs.ip
  | .sp => some regs.sp
  | .fp => some regs.bp
  | .other => none

def getA64 (regs : RegsA64) : DReg → Option Nat
  | .sp => some regs.sp
  | .fp => some regs.fp
  | .ra => some regs.lr
  | .other => none

/-- The generic path of `<ArchX86_64 as DwarfUnwinding>::unwind_frame`. -/
def genericX64 (row : Row) (first : Bool) (regs : RegsX64) (mem : Mem) : GenOut RegsX64 :=
  match evalCfa (getX64 regs) row.cfa with
  | none => .err .couldNotRecoverCfa
  | some cfa =>
    let ip := regs.ip
    let bp := regs.bp
    let sp := regs.sp
    let newBp := (evalRegRule (getX64 regs) mem row.fp cfa bp).getD bp
    let raOpt :=
      match evalRegRule (getX64 regs) mem row.ra cfa ip with
      | some ra => some ra
      | none => if cfa < 8 then none else mem (cfa - 8)
    match raOpt with
    | none => .err .couldNotRecoverRa
    | some ra =>
      if cfa = sp ∧ ra = ip then .err .didNotAdvance
      else if !first ∧ cfa ≤ sp then .err .spMovedBackwards
      else .ok ra { ip := ra, r := setReg (setReg regs.r RBP newBp) RSP cfa }

/-- The generic path of `<ArchAarch64 as DwarfUnwinding>::unwind_frame`. The returned
address is the stripped `lr`. -/
def genericA64 (row : Row) (first : Bool) (regs : RegsA64) (mem : Mem) : GenOut RegsA64 :=
  -- a caller frame whose return address is undefined is the root: a null return address
  -- (registers untouched) ends the walk
  if !first ∧ row.ra = .undefined then .ok 0 regs else
  match evalCfa (getA64 regs) row.cfa with
  | none => .err .couldNotRecoverCfa
  | some cfa =>
    let lr := regs.lr
    let fp := regs.fp
    let sp := regs.sp
    if !first then
      if cfa ≤ sp then .err .spMovedBackwards
      else
        match evalRegRule (getA64 regs) mem row.fp cfa fp with
        | none => .err .couldNotRecoverFp
        | some fp' =>
          match evalRegRule (getA64 regs) mem row.ra cfa lr with
          | none => .err .couldNotRecoverRa
          | some lr' =>
            let regs' := ({ regs with fp := fp', sp := cfa } : RegsA64).setLr lr'
            .ok regs'.lr regs'
    else
      let fp' := (evalRegRule (getA64 regs) mem row.fp cfa fp).getD fp
      let lr' := (evalRegRule (getA64 regs) mem row.ra cfa lr).getD lr
      let regs' := ({ regs with fp := fp', sp := cfa } : RegsA64).setLr lr'
      .ok regs'.lr regs'

end FH
