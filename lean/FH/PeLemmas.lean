import FH.Pe
import FH.RuleLemmas
import FH.DwarfSpec
/-!
# PE: the cacheable pop rule and the operation interpreter agree with the documented
procedure for push/alloc prologs (C03)
-/
namespace FH

/-- The documented procedure for a frame whose prolog allocated `8·k` bytes after pushing the
registers `regs` (framehop numbering, innermost push first when unwinding): release the
allocation, pop the registers, pop the return address. Over unbounded naturals; `none` if a
slot is unreadable. Returns the return address and the register file. -/
def popSpecLoop (mem : Mem) : List Nat → Nat → (Nat → Nat) → Option (Nat × (Nat → Nat))
  | [], sp, r =>
    match mem sp with
    | none => none
    | some ra => some (ra, setReg r RSP (sp + 8))
  | reg :: rest, sp, r =>
    match mem sp with
    | none => none
    | some v => popSpecLoop mem rest (sp + 8) (setReg r reg v)

def popSpec (mem : Mem) (k : Nat) (regs : List Nat) (r : Nat → Nat) : Option (Nat × (Nat → Nat)) :=
  popSpecLoop mem regs (r RSP + 8 * k) r

theorem popSpecLoop_sp (mem : Mem) : ∀ (l : List Nat) (sp : Nat) (r : Nat → Nat) (ra : Nat)
    (r' : Nat → Nat), RSP ∉ l → popSpecLoop mem l sp r = some (ra, r') →
    r' RSP = sp + 8 * l.length + 8
  | [], sp, r, ra, r', _, h => by
    simp only [popSpecLoop] at h
    split at h
    · cases h
    · injection h with h; injection h with _ h2; subst h2; simp
  | reg :: rest, sp, r, ra, r', hn, h => by
    simp only [popSpecLoop] at h
    split at h
    · cases h
    · have := popSpecLoop_sp mem rest (sp + 8) _ ra r' (fun hm => hn (List.mem_cons_of_mem _ hm)) h
      simp only [List.length_cons]; omega

/-- The rule's pop loop computes the specification's registers (apart from RSP, which the
rule commits at the end). -/
theorem popLoop_of_spec (mem : Mem) : ∀ (l : List Nat) (sp : Nat) (r : Nat → Nat) (ra : Nat)
    (r' : Nat → Nat), RSP ∉ l → sp + 8 * l.length + 8 < U64 →
    popSpecLoop mem l sp r = some (ra, r') →
    ∃ r2, popLoop mem l sp r = .ok (sp + 8 * l.length) r2 ∧ mem (sp + 8 * l.length) = some ra ∧
      r' = setReg r2 RSP (sp + 8 * l.length + 8)
  | [], sp, r, ra, r', _, _, h => by
    simp only [popSpecLoop] at h
    split at h
    · cases h
    · rename_i v hv
      injection h with h; injection h with h1 h2; subst h1 h2
      exact ⟨r, by simp [popLoop], by simpa using hv, by simp⟩
  | reg :: rest, sp, r, ra, r', hn, hlt, h => by
    simp only [popSpecLoop] at h
    split at h
    · cases h
    · rename_i v hv
      simp only [List.length_cons] at hlt
      obtain ⟨r2, h1, h2, h3⟩ := popLoop_of_spec mem rest (sp + 8) _ ra r'
        (fun hm => hn (List.mem_cons_of_mem _ hm)) (by omega) h
      refine ⟨r2, ?_, ?_, ?_⟩
      · simp only [popLoop, hv, cadd_eq_some (show sp + 8 < U64 by omega)]
        rw [h1]; simp only [List.length_cons]; congr 1; omega
      · simp only [List.length_cons]; rw [← h2]; congr 1; omega
      · rw [h3]; simp only [List.length_cons]; congr 1; omega

/-- **The cacheable pop rule is lossless**: executing `OffsetSpAndPopRegisters` performs
exactly the documented procedure, provided the register order round-trips through its
16-bit encoding (`hdec`; exhaustively tested for all 109 601 orderings by the repository's own
`roundtrip_all` test and re-checked on the implementation by the `pe` engine). -/
theorem popRule_is_spec (k count enc : Nat) (regsList : List Nat) (first : Bool) (regs : RegsX64)
    (mem : Mem) (ra : Nat) (r' : Nat → Nat) (hk : k < U16)
    (hdec : decodeRegs count enc = regsList) (hn : RSP ∉ regsList)
    (hs : popSpec mem k regsList regs.r = some (ra, r')) (hlt : r' RSP < U64) (hra : ra ≠ 0) :
    execX64 (.offsetSpAndPopRegisters k count enc) first regs mem =
      .ret (.frame ra) { ip := ra, r := setReg r' RBP (r' RBP) } := by
  unfold popSpec at hs
  have hsp := popSpecLoop_sp mem regsList _ regs.r ra r' hn hs
  obtain ⟨r2, h1, h2, h3⟩ := popLoop_of_spec mem regsList _ regs.r ra r' hn (by omega) hs
  simp only [execX64, hdec]
  unfold U16 at hk
  rw [umul_eq _ (by unfold U64; omega)]
  have e : regs.sp = regs.r RSP := rfl
  have hc : cadd regs.sp (k * 8) = some (regs.r RSP + 8 * k) := by
    rw [e]; simp only [cadd]; rw [if_pos (by omega)]; congr 1; omega
  simp only [hc, h1]
  rw [cadd_eq_some (by omega)]
  simp only []
  have hfin := finishX64_ok (regs := { regs with r := r2 }) (sp := regs.sp)
    (newSp := regs.r RSP + 8 * k + 8 * regsList.length + 8) (newBp := r2 RBP) (ra := ra) (mem := mem)
    (by omega)
    (by
      have e8 : regs.r RSP + 8 * k + 8 * regsList.length + 8 - 8 = regs.r RSP + 8 * k + 8 * regsList.length := by omega
      rw [e8]; exact h2)
    hra (by intro ⟨a, _⟩; rw [e] at a; omega)
  rw [hfin]
  congr 1
  unfold afterX64
  congr 1
  rw [h3]
  funext j
  simp only [setReg, RSP, RBP]
  by_cases h6 : j = 6 <;> by_cases h7 : j = 7 <;> simp [h6, h7]

/-- The interpreter on the same prolog: `UnStackAlloc(8k)` followed by pops (PE register
numbers `pes`) performs the documented procedure too. -/
theorem interpOps_pops_of_spec (mem : Mem) : ∀ (pes : List Nat) (r : Nat → Nat) (ra : Nat)
    (r' : Nat → Nat), RSP ∉ pes.map peReg → r RSP + 8 * pes.length + 8 < U64 →
    popSpecLoop mem (pes.map peReg) (r RSP) r = some (ra, r') →
    interpOps none 0 mem (pes.map .popNonVolatile) r = .ok ra r'
  | [], r, ra, r', _, hlt, h => by
    simp only [List.map_nil, popSpecLoop] at h
    split at h
    · cases h
    · rename_i v hv
      injection h with h; injection h with h1 h2; subst h1 h2
      simp [interpOps, popReturnAddress, hv, cadd_eq_some (show r RSP + 8 < U64 by simpa using hlt)]
  | pe :: rest, r, ra, r', hn, hlt, h => by
    simp only [List.map_cons, popSpecLoop] at h
    split at h
    · cases h
    · rename_i v hv
      simp only [List.length_cons] at hlt
      have hne : peReg pe ≠ RSP := by
        intro e; apply hn; simp [e]
      have hrsp : setReg (setReg r (peReg pe) v) RSP (r RSP + 8) RSP = r RSP + 8 := by simp
      -- the interpreter keeps RSP in the register file; the specification threads it separately
      have key : popSpecLoop mem (rest.map peReg) (r RSP + 8) (setReg r (peReg pe) v) = some (ra, r') →
          popSpecLoop mem (rest.map peReg)
            ((setReg (setReg r (peReg pe) v) RSP (r RSP + 8)) RSP)
            (setReg (setReg r (peReg pe) v) RSP (r RSP + 8)) = some (ra, r') := by
        intro hh
        rw [hrsp]
        -- RSP is overwritten at the end and never read from the register file in between
        have gen : ∀ (l : List Nat) (sp : Nat) (ra : Nat) (ρ r' : Nat → Nat) (x : Nat), RSP ∉ l →
            popSpecLoop mem l sp ρ = some (ra, r') →
            popSpecLoop mem l sp (setReg ρ RSP x) = some (ra, r') := by
          intro l
          induction l with
          | nil =>
            intro sp ra ρ r' x _ hh
            cases hm : mem sp with
            | none => simp [popSpecLoop, hm] at hh
            | some w =>
              simp only [popSpecLoop, hm] at hh ⊢
              injection hh with hh; injection hh with a b; subst a b
              congr 2
              funext j; simp only [setReg]; split <;> rfl
          | cons y ys ih =>
            intro sp ra ρ r' x hny hh
            cases hm : mem sp with
            | none => simp [popSpecLoop, hm] at hh
            | some w =>
              simp only [popSpecLoop, hm] at hh ⊢
              have hy : y ≠ RSP := fun e => hny (by simp [e])
              have comm : setReg (setReg ρ RSP x) y w = setReg (setReg ρ y w) RSP x := by
                funext j; simp only [setReg]
                by_cases a : j = y
                · subst a; simp [hy]
                · by_cases b : j = RSP
                  · subst b; simp [a]
                  · simp [a, b]
              rw [comm]
              exact ih _ _ _ _ _ (fun hm => hny (List.mem_cons_of_mem _ hm)) hh
        exact gen _ _ _ _ _ _ (fun hm => hn (by simp [hm])) hh
      have ih := interpOps_pops_of_spec mem rest (setReg (setReg r (peReg pe) v) RSP (r RSP + 8)) ra r'
        (fun hm => hn (by simp at hm ⊢; exact Or.inr hm)) (by rw [hrsp]; omega) (key h)
      simp only [List.map_cons, interpOps, resolveOp, hv]
      rw [if_pos (by omega)]
      exact ih

end FH
