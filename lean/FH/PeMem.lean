import FH.Basic
/-!
# `pe.rs`: RVA -> section memory (`memory_at_rva`, `PeSections::unwind_info_memory_at_rva`,
`text_memory_at_rva`)

A section is described by its RVA range and the number of data bytes actually supplied (the two
need not agree: hostile or truncated data). The result is the slice `data[offset..]`, given as
(offset, length).
-/
namespace FH

/-- `DataAtRvaRange`: `rva_range` and `data.len()`. -/
structure Sect where
  start : Nat
  stop : Nat
  len : Nat
  deriving DecidableEq, Repr, Inhabited

/-- `memory_at_rva`: `rva_range.contains(&address)` (false for empty and inverted ranges),
then `data.get(offset..)` (none if the offset lies beyond the data; an empty slice at the
very end). -/
def memAtRva (s : Sect) (addr : Nat) : Option (Nat × Nat) :=
  if s.start ≤ addr ∧ addr < s.stop then
    let off := addr - s.start
    if off ≤ s.len then some (off, s.len - off) else none
  else none

/-- `unwind_info_memory_at_rva`: `.rdata` first, then `.xdata` (tag 0 / 1). A section whose
range contains the address but whose data is too short is skipped, not an error. -/
def unwindInfoMemAtRva (rdata xdata : Option Sect) (addr : Nat) : Option (Nat × Nat × Nat) :=
  match rdata.bind (memAtRva · addr) with
  | some (o, l) => some (0, o, l)
  | none =>
    match xdata.bind (memAtRva · addr) with
    | some (o, l) => some (1, o, l)
    | none => none

/-- `text_memory_at_rva` (tag 2). -/
def textMemAtRva (text : Option Sect) (addr : Nat) : Option (Nat × Nat × Nat) :=
  match text.bind (memAtRva · addr) with
  | some (o, l) => some (2, o, l)
  | none => none

theorem memAtRva_some {s : Sect} {addr off len : Nat} (h : memAtRva s addr = some (off, len)) :
    s.start ≤ addr ∧ addr < s.stop ∧ off = addr - s.start ∧ off + len = s.len := by
  unfold memAtRva at h
  split at h
  · rename_i hc
    simp only [] at h
    split at h
    · injection h with h; injection h with h1 h2
      subst h1 h2
      exact ⟨hc.1, hc.2, rfl, by omega⟩
    · cases h
  · cases h

theorem memAtRva_none {s : Sect} {addr : Nat} (h : memAtRva s addr = none) :
    ¬(s.start ≤ addr ∧ addr < s.stop) ∨ s.len < addr - s.start := by
  unfold memAtRva at h
  split at h
  · simp only [] at h
    split at h
    · cases h
    · right; omega
  · left; assumption

end FH
