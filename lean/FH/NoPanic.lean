import FH.World
import FH.RuleLemmas
import FH.Props.C14
/-!
# No panic outcome is reachable in a whole `unwind_frame` call outside the PE interpreter

Every rule the miss path can produce (DWARF translation, compact-unwind opcodes and
instruction analysis, PE compression, fallback rules) has fields within the ranges for which
rule execution is panic free; the generic DWARF path has no panic outcome; the rule cache only
ever holds such rules. Hence `unwindFrame` panics only where the PE operation interpreter
(pe-unwind-info's `resolve_operation`, third-party, F8-dep) does.
-/
namespace FH

/-- Field ranges under which rule execution is panic free (weaker than `RuleX64.WF`: the
register encoding of the pop rule is decoded by total functions). -/
def RuleX64.Safe : RuleX64 → Prop
  | .offsetSp k => k < U16
  | .offsetSpAndRestoreBp k b => k < U16 ∧ -32768 ≤ b ∧ b < 32768
  | .offsetSpAndPopRegisters k _ _ => k < U16
  | _ => True

theorem execX64_no_panic_safe (rule : RuleX64) (first : Bool) (regs : RegsX64) (mem : Mem)
    (hr : rule.Safe) (s : Site) : execX64 rule first regs mem ≠ .panic s := by
  cases rule with
  | offsetSpAndPopRegisters k c e =>
    simp only [RuleX64.Safe, U16] at hr
    simp only [execX64]
    rw [umul_eq _ (by unfold U64; omega)]
    split
    · simp
    · split
      · simp
      · split
        · simp
        · exact finishX64_no_panic _ _ _ _ _ _
  | endOfStack => exact execX64_no_panic _ _ _ _ (by simp [RuleX64.WF]) _
  | justReturn => exact execX64_no_panic _ _ _ _ (by simp [RuleX64.WF]) _
  | justReturnIfFirstFrameOtherwiseFp => exact execX64_no_panic _ _ _ _ (by simp [RuleX64.WF]) _
  | useFramePointer => exact execX64_no_panic _ _ _ _ (by simp [RuleX64.WF]) _
  | offsetSp k => exact execX64_no_panic _ _ _ _ (by simpa [RuleX64.WF, RuleX64.Safe] using hr) _
  | offsetSpAndRestoreBp k b =>
    exact execX64_no_panic _ _ _ _ (by simpa [RuleX64.WF, RuleX64.Safe] using hr) _

/-! ## DWARF translation -/

theorem exactDivU16_lt {x g : Int} {k : Nat} (h : exactDivU16 x g = some k) : k < U16 := by
  unfold exactDivU16 at h
  split at h
  · cases h
  · split at h
    · injection h with h; subst h; unfold U16; omega
    · cases h

theorem exactSumDiv8I16_in {a b s : Int} (h : exactSumDiv8I16 a b = some s) :
    -32768 ≤ s ∧ s < 32768 := by
  unfold exactSumDiv8I16 at h
  split at h
  · cases h
  · split at h
    · cases h
    · split at h
      · injection h with h; subst h; assumption
      · cases h

theorem translateX64_safe {row : Row} {r : RuleX64} (h : translateX64 row = some r) : r.Safe := by
  unfold translateX64 at h
  repeat' split at h
  all_goals first
    | (injection h with h; subst h
       simp only [RuleX64.Safe] <;> first
         | exact exactDivU16_lt (by assumption)
         | exact ⟨exactDivU16_lt (by assumption), exactSumDiv8I16_in (by assumption)⟩)
    | cases h

theorem translateA64_wf {row : Row} {r : RuleA64} (h : translateA64 row = some r) : r.WF := by
  unfold translateA64 at h
  repeat' split at h
  all_goals first
    | (injection h with h; subst h
       simp only [RuleA64.WF, InI16] <;> first
         | exact exactDivU16_lt (by assumption)
         | exact ⟨exactDivU16_lt (by assumption), exactSumDiv8I16_in (by assumption)⟩
         | exact ⟨exactDivU16_lt (by assumption), exactSumDiv8I16_in (by assumption),
             exactSumDiv8I16_in (by assumption)⟩)
    | cases h

/-! ## The generic DWARF path has no panic outcome -/

theorem genericX64_no_panic (row : Row) (first : Bool) (regs : RegsX64) (mem : Mem) (s : Site) :
    genericX64 row first regs mem ≠ .panic s := by
  unfold genericX64
  split
  · simp
  · simp only []
    split
    · simp
    · split
      · simp
      · split <;> simp

theorem genericA64_no_panic (row : Row) (first : Bool) (regs : RegsA64) (mem : Mem) (s : Site) :
    genericA64 row first regs mem ≠ .panic s := by
  unfold genericA64
  split
  · simp
  · split
    · simp
    · simp only []
      split
      · split
        · simp
        · split
          · simp
          · split <;> simp
      · simp

/-! ## Instruction analysis -/

theorem prologueScanX64_safe : ∀ (fuel : Nat) (rev : List Nat) (n : Nat) (r : RuleX64),
    prologueScanX64 fuel rev n = some r → r.Safe
  | 0, rev, n, r, h => by
    simp only [prologueScanX64] at h
    split at h
    · injection h with h; subst h; simpa [RuleX64.Safe]
    · cases h
  | fuel + 1, rev, n, r, h => by
    simp only [prologueScanX64] at h
    split at h
    · injection h with h; subst h; simp [RuleX64.Safe]
    · split at h
      · split at h
        · split at h
          · split at h
            · split at h
              · exact prologueScanX64_safe fuel _ _ r h
              · exact prologueScanX64_safe fuel _ _ r h
            · exact prologueScanX64_safe fuel _ _ r h
          · cases h
        · split at h
          · injection h with h; subst h; simpa [RuleX64.Safe]
          · cases h
      · split at h
        · injection h with h; subst h; simpa [RuleX64.Safe]
        · cases h

theorem epilogueScanX64_safe (prev : Bool) : ∀ (fuel : Nat) (l : List Nat) (n : Nat)
    (acc : Option Nat) (r : RuleX64), (∀ b, acc = some b → b < 32768) →
    epilogueScanX64 prev l n acc fuel = some r → r.Safe
  | 0, l, n, acc, r, _, h => by cases l <;> simp [epilogueScanX64] at h
  | fuel + 1, [], n, acc, r, _, h => by simp [epilogueScanX64] at h
  | fuel + 1, b0 :: rest, n, acc, r, hacc, h => by
    have fin' : ∀ r, (if n + 1 < U16 then
          match acc with
          | some b => some (RuleX64.offsetSpAndRestoreBp (n + 1) b)
          | none => some (RuleX64.offsetSp (n + 1))
        else none) = some r → r.Safe := by
      intro r hf
      split at hf
      · split at hf
        · rename_i b
          injection hf with hf; subst hf
          have := hacc b rfl
          simp only [RuleX64.Safe]
          refine ⟨by assumption, by omega, by omega⟩
        · injection hf with hf; subst hf; simpa [RuleX64.Safe]
      · cases hf
    have fin : ∀ r, (if n = 0 then some RuleX64.justReturn
        else if n + 1 < U16 then
          match acc with
          | some b => some (RuleX64.offsetSpAndRestoreBp (n + 1) b)
          | none => some (RuleX64.offsetSp (n + 1))
        else none) = some r → r.Safe := by
      intro r hf
      split at hf
      · injection hf with hf; subst hf; simp [RuleX64.Safe]
      · exact fin' r hf
    simp only [epilogueScanX64] at h
    split at h
    · exact fin r h
    · split at h
      · split at h
        · first | exact fin r h | exact fin' r h
        · split at h
          · first | exact fin r h | exact fin' r h
          · cases h
      · split at h
        · split at h
          · exact epilogueScanX64_safe prev fuel rest (n + 1) (some n) r
              (by intro b hb; injection hb with hb; subst hb; omega) h
          · cases h
        · split at h
          · split at h
            · exact epilogueScanX64_safe prev fuel rest (n + 1) acc r hacc h
            · cases h
          · split at h
            · split at h
              · exact epilogueScanX64_safe prev fuel _ (n + 1) acc r hacc h
              · cases h
            · cases h

/-- Whatever the bytes, a rule found by x86-64 instruction analysis is within the safe ranges. -/
theorem anaX64_safe (text : List Nat) (pc : Nat) (r : RuleX64)
    (h : anaX64 text pc = some (some r)) : r.Safe := by
  unfold anaX64 at h
  cases hp : anaPrologueX64 text pc with
  | none => simp [hp] at h
  | some o =>
    cases o with
    | some r' =>
      simp only [hp] at h
      injection h with h; injection h with h; subst h
      unfold anaPrologueX64 at hp
      split at hp
      · cases hp
      · dsimp only at hp
        split at hp
        · cases hp
        · injection hp with hp
          exact prologueScanX64_safe _ _ _ _ hp
    | none =>
      simp only [hp] at h
      unfold anaEpilogueX64 at h
      split at h
      · cases h
      · dsimp only at h
        injection h with h
        exact epilogueScanX64_safe _ _ _ _ _ _ (by intro b hb; cases hb) h

theorem epiFound_wf {s : EpiState} {r : RuleA64} (h : epiFound s = some r) : r.WF := by
  unfold epiFound at h
  dsimp only at h
  split at h
  · cases h
  · rename_i hq
    have hq' : 0 ≤ s.spOff.tdiv 16 ∧ s.spOff.tdiv 16 < 65536 := by
      by_cases c : 0 ≤ s.spOff.tdiv 16 ∧ s.spOff.tdiv 16 < 65536
      · exact c
      · exact absurd c hq
    have hk : (s.spOff.tdiv 16).toNat < U16 := by unfold U16; omega
    split at h
    · split at h
      · injection h with h; subst h; simp [RuleA64.WF]
      · injection h with h; subst h; simpa [RuleA64.WF]
    · split at h
      · simp only [Option.map_some, Option.some.injEq] at h
        subst h
        simp only [RuleA64.WF, InI16]
        exact ⟨hk, by assumption⟩
      · simp at h
    · cases h
    · split at h
      · rename_i f' l' hf hl
        injection h with h; subst h
        simp only [RuleA64.WF, InI16]
        split at hf
        · injection hf with hf; subst hf
          split at hl
          · injection hl with hl; subst hl
            exact ⟨hk, by assumption, by assumption⟩
          · cases hl
        · cases hf
      · cases h

/-- Whatever the bytes, a rule found by aarch64 instruction analysis has fields within the
rule's types. -/
theorem anaA64_wf (text : List Nat) (pc : Nat) (r : RuleA64)
    (h : anaA64 text pc = some (some r)) : r.WF := by
  unfold anaA64 at h
  cases hp : anaPrologueA64 text pc with
  | none => simp [hp] at h
  | some o =>
    cases o with
    | some r' =>
      simp only [hp] at h
      injection h with h; injection h with h; subst h
      unfold anaPrologueA64 at hp
      dsimp only at hp
      repeat' split at hp
      all_goals first
        | (injection hp with hp; injection hp with hp; subst hp
           simp only [RuleA64.WF] <;> (unfold U16; omega))
        | cases hp
        | (injection hp with hp; cases hp)
    | none =>
      simp only [hp] at h
      unfold anaEpilogueA64 at h
      dsimp only at h
      repeat' split at h
      all_goals first
        | (injection h with h; exact epiFound_wf h)
        | (injection h with h
           obtain ⟨s, _, hs⟩ := Option.bind_eq_some_iff.mp h
           exact epiFound_wf hs)
        | cases h
        | (injection h with h; cases h)

/-! ## Compact unwind -/

/-- Field ranges of the parsed opcodes (`stack_size_in_bytes` is a `u16` in macho-unwind-info:
an 8-bit field times 8 on x86-64, a 12-bit field times 16 on arm64). -/
def CuiOpX64.WF : CuiOpX64 → Prop
  | .framelessImmediate s _ => s < 65536
  | _ => True

def CuiOpA64.WF : CuiOpA64 → Prop
  | .frameless s => s < 65536
  | _ => True

theorem framelessRuleX64_safe {s : Nat} {saved : List (Option CuiReg)} {r : RuleX64}
    (hs : s < 524288) (h : framelessRuleX64 s saved = .exec r) : r.Safe := by
  unfold framelessRuleX64 at h
  split at h
  · dsimp only at h
    split at h
    · injection h with h; subst h
      simp only [RuleX64.Safe]
      refine ⟨by unfold U16; omega, by omega, by omega⟩
    · cases h
  · injection h with h; subst h
    simp only [RuleX64.Safe]; unfold U16; omega

theorem cuiUnwindX64_safe {op : CuiOpX64} {first : Bool} {off : Nat} {fb : Option (List Nat)}
    {r : RuleX64} (hop : op.WF) (h : cuiUnwindX64 op first off fb = some (.exec r)) : r.Safe := by
  unfold cuiUnwindX64 at h
  extract_lets body at h
  have hbody : ∀ r, body = .exec r → r.Safe := by
    intro r hb
    cases op with
    | null => simp only [body] at hb; cases hb
    | framelessImmediate s saved =>
      simp only [body] at hb
      split at hb
      · injection hb with hb; subst hb; simp [RuleX64.Safe]
      · exact framelessRuleX64_safe (by simp only [CuiOpX64.WF] at hop; omega) hb
    | framelessIndirect i a saved =>
      simp only [body] at hb
      repeat' split at hb
      all_goals first
        | (injection hb with hb; subst hb; simp only [RuleX64.Safe]
           first | assumption | exact ⟨by assumption, by assumption⟩)
        | cases hb
    | dwarf f => simp only [body] at hb; cases hb
    | frameBased => simp only [body] at hb; injection hb with hb; subst hb; simp [RuleX64.Safe]
    | unrecognized k => simp only [body] at hb; cases hb
    | invalidFrameless => simp only [body] at hb; cases hb
  clear_value body
  split at h
  · split at h
    · split at h
      · cases h
      · rename_i rule ha
        injection h with h; injection h with h; subst h
        exact anaX64_safe _ _ _ ha
      · split at h
        · injection h with h; injection h with h; subst h; simp [RuleX64.Safe]
        · split at h
          · injection h with h; injection h with h; subst h; simp [RuleX64.Safe]
          · injection h with h; exact hbody r h
    · split at h
      · injection h with h; injection h with h; subst h; simp [RuleX64.Safe]
      · injection h with h; exact hbody r h
  · injection h with h; exact hbody r h

theorem cuiUnwindA64_wf {op : CuiOpA64} {first : Bool} {off : Nat} {fb : Option (List Nat)}
    {r : RuleA64} (hop : op.WF) (h : cuiUnwindA64 op first off fb = some (.exec r)) : r.WF := by
  unfold cuiUnwindA64 at h
  extract_lets body at h
  have hbody : ∀ r, body = .exec r → r.WF := by
    intro r hb
    cases op with
    | null => simp only [body] at hb; cases hb
    | frameless s =>
      simp only [body] at hb
      repeat' split at hb
      all_goals first
        | (injection hb with hb; subst hb; simp only [RuleA64.WF]
           try (simp only [CuiOpA64.WF] at hop; unfold U16; omega))
        | cases hb
    | dwarf f => simp only [body] at hb; cases hb
    | frameBased => simp only [body] at hb; injection hb with hb; subst hb; simp [RuleA64.WF]
    | unrecognized k => simp only [body] at hb; cases hb
  clear_value body
  split at h
  · split at h
    · injection h with h; injection h with h; subst h; simp [RuleA64.WF]
    · split at h
      · split at h
        · cases h
        · rename_i rule ha
          injection h with h; injection h with h; subst h
          exact anaA64_wf _ _ _ ha
        · injection h with h; exact hbody r h
      · injection h with h; exact hbody r h
  · injection h with h; exact hbody r h

/-- Every rule the dispatch can return is one of: the stub rule, the function start rule, a stub
helper rule, a rule of the architecture's opcode handler (for an opcode of the table). -/
theorem cuiDispatch_rule {Op Rule : Type} (P : Rule → Prop) (Q : Op → Prop) (d : CuiData Op)
    (unwindFn : Op → Bool → Nat → Option (List Nat) → Option (CuiRes Rule))
    (stubRule fnStartRule : Rule) (stubHelperRule : Nat → Rule) (rel : Nat) (first : Bool)
    (h1 : P stubRule) (h2 : P fnStartRule) (h3 : ∀ o, P (stubHelperRule o))
    (hd : ∀ f ∈ d.funcs, Q f.op)
    (h4 : ∀ op f o fb r, Q op → unwindFn op f o fb = some (.exec r) → P r) (r : Rule)
    (h : cuiDispatch d unwindFn stubRule fnStartRule stubHelperRule rel first = some (.exec r)) :
    P r := by
  unfold cuiDispatch at h
  split at h
  · split at h
    · cases h
    · injection h with h; injection h with h; subst h; exact h1
  · split at h
    · split at h
      · cases h
      · injection h with h; injection h with h; subst h; exact h3 _
    · split at h
      · split at h
        · injection h with h; injection h with h; subst h; exact h1
        · cases h
      · rename_i f hl
        split at h
        · injection h with h; injection h with h; subst h; exact h2
        · exact h4 _ _ _ _ _ (hd f (List.mem_of_find?_eq_some hl)) h

theorem stubHelperRuleX64_safe (o : Nat) : (stubHelperRuleX64 o).Safe := by
  unfold stubHelperRuleX64
  repeat' split
  all_goals simp [RuleX64.Safe, U16]

theorem stubHelperRuleA64_wf (o : Nat) : (stubHelperRuleA64 o).WF := by
  unfold stubHelperRuleA64
  repeat' split
  all_goals simp [RuleA64.WF, U16]

/-! ## PE -/

theorem forSeq_safe {items : List OffsetOrPop} {r : RuleX64}
    (hitems : ∀ k, OffsetOrPop.offsetBy8 k ∈ items → k < U16) (h : forSeq items = some r) :
    r.Safe := by
  unfold forSeq at h
  split at h
  rename_i k rest hk
  have hklt : k < U16 := by
    split at hk
    · rename_i k' rest'
      injection hk with hk1 hk2
      subst hk1
      exact hitems _ (by simp)
    · injection hk with hk1 hk2
      subst hk1; unfold U16; omega
  split at h
  · cases h
  · split at h
    · injection h with h; subst h; simp [RuleX64.Safe]
    · split at h
      · cases h
      · injection h with h; subst h; simpa [RuleX64.Safe] using hklt

theorem pePlan_safe {funcs : List PeFunc} {rel : Nat} {first : Bool} {r : RuleX64}
    (h : pePlan funcs rel first = .exec r) : r.Safe := by
  have hop : ∀ (ops : List PeOp) k, OffsetOrPop.offsetBy8 k ∈ ops.map oopOfOp → k < U16 := by
    intro ops k hk
    simp only [List.mem_map] at hk
    obtain ⟨op, _, ho⟩ := hk
    unfold oopOfOp at ho
    split at ho
    · split at ho
      · rename_i hc; injection ho with ho; subst ho; exact hc.2
      · cases ho
    · cases ho
    · cases ho
  have hepi : ∀ (insns : List EpiInsn) k, OffsetOrPop.offsetBy8 k ∈ insns.map oopOfEpi → k < U16 := by
    intro insns k hk
    simp only [List.mem_map] at hk
    obtain ⟨op, _, ho⟩ := hk
    unfold oopOfEpi at ho
    split at ho
    · split at ho
      · rename_i hc; injection ho with ho; subst ho; exact hc.2
      · cases ho
    · cases ho
    · cases ho
  unfold pePlan at h
  split at h
  · injection h with h; subst h; simp [RuleX64.Safe]
  · split at h
    · cases h
    · dsimp only at h
      split at h
      · cases h
      · rename_i p hp
        subst h
        -- the epilog branch
        split at hp
        · split at hp
          · cases hp
          · split at hp
            · split at hp
              · rename_i rule hr
                injection hp with hp; injection hp with hp; injection hp with hp; subst hp
                exact forSeq_safe (hepi _) hr
              · injection hp with hp; injection hp with hp; cases hp
            · cases hp
        · cases hp
      · split at h
        · cases h
        · split at h
          · rename_i rule hr
            injection h with h; subst h
            exact forSeq_safe (hop _) hr
          · cases h

/-! ## The plan and the miss path -/

/-- Field ranges of the parsed opcodes in a module's compact unwind table (the only module data
whose numeric ranges the rule types depend on; DWARF and PE quantities are range-checked by
framehop itself when it builds a rule). -/
def UnwindData.WF : UnwindData → Prop
  | .macho d _ => ∀ f ∈ d.funcs, f.op.1.WF ∧ f.op.2.WF
  | _ => True

theorem planForFde_x64_safe {fde : Fde} {svma : Nat} {r : RuleX64}
    (h : planForFde archX64 fde svma = .exec r) : r.Safe := by
  unfold planForFde at h
  split at h
  · injection h with h; subst h; simp [archX64, RuleX64.Safe]
  · split at h
    · rename_i rule ht
      injection h with h; subst h
      exact translateX64_safe ht
    · cases h

theorem planForFde_a64_wf {fde : Fde} {svma : Nat} {r : RuleA64}
    (h : planForFde archA64 fde svma = .exec r) : r.WF := by
  unfold planForFde at h
  split at h
  · injection h with h; subst h; simp [archA64, RuleA64.WF]
  · split at h
    · rename_i rule ht
      injection h with h; subst h
      exact translateA64_wf ht
    · cases h

/-- **Every rule the x86-64 plan produces is within the safe ranges.** -/
theorem plan_x64_safe (m : Module) (hm : m.data.WF) (rel : Nat) (first : Bool) (r : RuleX64)
    (h : plan archX64 m rel first = .exec r) : r.Safe := by
  unfold plan at h
  cases hd : m.data with
  | none => simp [hd] at h
  | dwarf pres fdes =>
    simp only [hd] at h
    split at h
    · cases h
    · cases h
    · injection h with h; subst h; simp [archX64, RuleX64.Safe]
    · split at h
      · rename_i rule ht
        injection h with h; subst h
        exact translateX64_safe ht
      · cases h
  | pe funcs =>
    simp only [hd] at h
    split at h
    · cases h
    · rename_i p rule hp
      injection h with h; subst h
      simp only [archX64] at hp
      injection hp with hp
      injection hp with hp1 hp2
      split at hp2
      · rename_i r' hr
        injection hp2 with hp2; subst hp2
        exact pePlan_safe hr
      · cases hp2
    · cases h
    · cases h
  | macho d eh =>
    simp only [hd] at h
    rw [hd] at hm
    split at h
    · cases h
    · cases h
    · rename_i r' hc
      injection h with h; subst h
      exact cuiDispatch_rule RuleX64.Safe (fun op => op.1.WF) d (fun op => cuiUnwindX64 op.1)
        RuleX64.justReturn RuleX64.justReturn stubHelperRuleX64 rel first
        (by simp [RuleX64.Safe]) (by simp [RuleX64.Safe]) stubHelperRuleX64_safe
        (fun f hf => (hm f hf).1)
        (fun op f o fb r hq hh => cuiUnwindX64_safe hq hh) _ hc
    · split at h
      · cases h
      · split at h
        · cases h
        · split at h
          · cases h
          · exact planForFde_x64_safe h

/-- **Every rule the aarch64 plan produces has fields within the rule's types.** -/
theorem plan_a64_wf (m : Module) (hm : m.data.WF) (rel : Nat) (first : Bool) (r : RuleA64)
    (h : plan archA64 m rel first = .exec r) : r.WF := by
  unfold plan at h
  cases hd : m.data with
  | none => simp [hd] at h
  | dwarf pres fdes =>
    simp only [hd] at h
    split at h
    · cases h
    · cases h
    · injection h with h; subst h; simp [archA64, RuleA64.WF]
    · split at h
      · rename_i rule ht
        injection h with h; subst h
        exact translateA64_wf ht
      · cases h
  | pe funcs =>
    simp only [hd] at h
    split at h
    · cases h
    · rename_i p rule hp
      simp [archA64] at hp
    · cases h
    · cases h
  | macho d eh =>
    simp only [hd] at h
    rw [hd] at hm
    split at h
    · cases h
    · cases h
    · rename_i r' hc
      injection h with h; subst h
      exact cuiDispatch_rule RuleA64.WF (fun op => op.2.WF) d (fun op => cuiUnwindA64 op.2)
        RuleA64.noOp RuleA64.noOp stubHelperRuleA64 rel first
        (by simp [RuleA64.WF]) (by simp [RuleA64.WF]) stubHelperRuleA64_wf
        (fun f hf => (hm f hf).2)
        (fun op f o fb r hq hh => cuiUnwindA64_wf hq hh) _ hc
    · split at h
      · cases h
      · split at h
        · cases h
        · split at h
          · cases h
          · exact planForFde_a64_wf h

/-- All modules of an unwinder have their opcode fields in range. -/
def Unw.WF (u : Unw) : Prop := ∀ m ∈ u.mods, m.data.WF

theorem missPath_x64 (u : Unw) (hu : u.WF) (addr : FrameAddr) (regs : RegsX64) (mem : Mem) :
    (∀ r, (missPath archX64 u addr regs mem).1 = some r → RuleX64.Safe r) ∧
    (∀ s, (missPath archX64 u addr regs mem).2 = .panic s →
      ∃ i rel m p, findModule u.mods addr.lookup = some (i, rel) ∧ u.mods[i]? = some m ∧
        plan archX64 m rel (!addr.isReturn) = .pe p ∧
        peRun p (!addr.isReturn) regs mem = .panic s) := by
  have hfb : ∀ s, execX64 .useFramePointer (!addr.isReturn) regs mem ≠ .panic s :=
    fun s => execX64_no_panic_safe _ _ _ _ (by simp [RuleX64.Safe]) s
  unfold missPath
  dsimp only
  cases hf : findModule u.mods addr.lookup with
  | none =>
    refine ⟨?_, ?_⟩
    · intro r h; injection h with h; subst h; simp [archX64, RuleX64.Safe]
    · intro s h; exact absurd h (hfb s)
  | some ir =>
    obtain ⟨i, rel⟩ := ir
    dsimp only
    cases hm : u.mods[i]? with
    | none =>
      refine ⟨?_, ?_⟩
      · intro r h; injection h with h; subst h; simp [archX64, RuleX64.Safe]
      · intro s h; exact absurd h (hfb s)
    | some m =>
      dsimp only
      have hmw : m.data.WF := hu m (List.mem_of_getElem? hm)
      cases hp : plan archX64 m rel (!addr.isReturn) with
      | exec r =>
        have hs := plan_x64_safe m hmw rel _ r hp
        refine ⟨?_, ?_⟩
        · intro r' h; injection h with h; subst h; exact hs
        · intro s h; exact absurd h (execX64_no_panic_safe _ _ _ _ hs s)
      | staticErr =>
        refine ⟨?_, ?_⟩
        · intro r h; injection h with h; subst h; simp [archX64, RuleX64.Safe]
        · intro s h; exact absurd h (hfb s)
      | panic => exact absurd hp (C14_plan_x64_never_panics m rel _)
      | generic row =>
        dsimp only
        cases hg : archX64.generic row (!addr.isReturn) regs mem with
        | ok ra regs' => refine ⟨?_, ?_⟩ <;> intro x h <;> simp at h
        | err e =>
          refine ⟨?_, ?_⟩
          · intro r h; simp at h
          · intro s h; exact absurd h (hfb s)
        | panic s' => exact absurd hg (genericX64_no_panic _ _ _ _ _)
      | pe p =>
        dsimp only
        cases hg : archX64.peRun p (!addr.isReturn) regs mem with
        | ok ra regs' => refine ⟨?_, ?_⟩ <;> intro x h <;> simp at h
        | err e =>
          refine ⟨?_, ?_⟩
          · intro r h; simp at h
          · intro s h; exact absurd h (hfb s)
        | panic s' =>
          refine ⟨?_, ?_⟩
          · intro r h; simp at h
          · intro s h
            dsimp only at h
            injection h with h; subst h
            exact ⟨i, rel, m, p, rfl, hm, hp, hg⟩

theorem missPath_a64 (u : Unw) (hu : u.WF) (addr : FrameAddr) (regs : RegsA64) (mem : Mem) :
    (∀ r, (missPath archA64 u addr regs mem).1 = some r → RuleA64.WF r) ∧
    (∀ s, (missPath archA64 u addr regs mem).2 ≠ .panic s) := by
  have hfb : ∀ s, execA64 .useFramePointer (!addr.isReturn) regs mem ≠ .panic s :=
    fun s => execA64_no_panic _ _ _ _ (by simp [RuleA64.WF]) s
  unfold missPath
  dsimp only
  cases hf : findModule u.mods addr.lookup with
  | none =>
    refine ⟨?_, ?_⟩
    · intro r h; injection h with h; subst h; simp [archA64, RuleA64.WF]
    · intro s h; exact absurd h (hfb s)
  | some ir =>
    obtain ⟨i, rel⟩ := ir
    dsimp only
    cases hm : u.mods[i]? with
    | none =>
      refine ⟨?_, ?_⟩
      · intro r h; injection h with h; subst h; simp [archA64, RuleA64.WF]
      · intro s h; exact absurd h (hfb s)
    | some m =>
      dsimp only
      have hmw : m.data.WF := hu m (List.mem_of_getElem? hm)
      cases hp : plan archA64 m rel (!addr.isReturn) with
      | exec r =>
        have hs := plan_a64_wf m hmw rel _ r hp
        refine ⟨?_, ?_⟩
        · intro r' h; injection h with h; subst h; exact hs
        · intro s h; exact absurd h (execA64_no_panic _ _ _ _ hs s)
      | staticErr =>
        refine ⟨?_, ?_⟩
        · intro r h; injection h with h; subst h; simp [archA64, RuleA64.WF]
        · intro s h; exact absurd h (hfb s)
      | panic => exact absurd hp (C14_plan_a64_never_panics m rel _)
      | generic row =>
        dsimp only
        cases hg : archA64.generic row (!addr.isReturn) regs mem with
        | ok ra regs' => refine ⟨?_, ?_⟩ <;> intro x h <;> simp at h
        | err e =>
          refine ⟨?_, ?_⟩
          · intro r h; simp at h
          · intro s h; exact absurd h (hfb s)
        | panic s' => exact absurd hg (genericA64_no_panic _ _ _ _ _)
      | pe p =>
        dsimp only
        have : archA64.peRun p (!addr.isReturn) regs mem = .err .couldNotRecoverCfa := rfl
        rw [this]
        refine ⟨?_, ?_⟩
        · intro r h; simp at h
        · intro s h; exact absurd h (hfb s)

/-! ## The whole call -/

def CacheSafeX64 (c : Cache RuleX64) : Prop := ∀ s e, c.slots s = some e → e.rule.Safe
def CacheWFA64 (c : Cache RuleA64) : Prop := ∀ s e, c.slots s = some e → e.rule.WF

theorem lookup_slots {Rule : Type} (N : Nat) (c : Cache Rule) (a g : Nat) :
    (c.lookup N a g).1.slots = c.slots := by
  unfold Cache.lookup
  split
  · rfl
  · split
    · split <;> rfl
    · rfl

theorem lookup_hit_mem {Rule : Type} (N : Nat) (c : Cache Rule) (a g : Nat) (r : Rule)
    (h : (c.lookup N a g).2 = .hit r) : ∃ s e, c.slots s = some e ∧ e.rule = r := by
  unfold Cache.lookup at h
  split at h
  · cases h
  · rename_i e he
    split at h
    · split at h
      · injection h with h; exact ⟨_, e, he, h⟩
      · cases h
    · cases h

end FH
