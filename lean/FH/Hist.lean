import FH.World
/-!
# Histories of operations over unwinders sharing one cache (C06, C18, C20)

`HWorld` is the state of a process: the global generation counter, the live unwinders,
one shared cache. `ghost` is proof-only: the module list each drawn generation stands for.
-/
namespace FH

/-- The rule a cache miss would insert for lookup address `la` under module list `L`
(`none` when the uncacheable path is taken and nothing is inserted). -/
def staticRule (A : Arch) (L : List Module) (la : Nat) (first : Bool) : Option A.Rule :=
  match findModule L la with
  | none => some A.fallback
  | some (i, rel) =>
    match L[i]? with
    | none => some A.fallback
    | some m =>
      match plan A m rel first with
      | .exec r => some r
      | .staticErr => some A.fallback
      | .generic _ => none
      | .pe _ => none
      | .panic => none

/-- The miss path inserts exactly `staticRule`, and when it inserts a rule its outcome is the
execution of that rule: what is cached never depends on registers or memory. -/
theorem missPath_static (A : Arch) (u : Unw) (addr : FrameAddr) (regs : A.Regs) (mem : Mem) :
    (missPath A u addr regs mem).1 = staticRule A u.mods addr.lookup (!addr.isReturn) ∧
    ∀ r, (missPath A u addr regs mem).1 = some r →
      (missPath A u addr regs mem).2 = A.exec r (!addr.isReturn) regs mem := by
  unfold missPath staticRule
  simp only []
  cases findModule u.mods addr.lookup with
  | none => simp
  | some p =>
    obtain ⟨i, rel⟩ := p
    simp only []
    cases u.mods[i]? with
    | none => simp
    | some m =>
      simp only []
      cases plan A m rel (!addr.isReturn) with
      | exec r => simp
      | staticErr => simp
      | panic => simp
      | generic row =>
        simp only []
        cases A.generic row (!addr.isReturn) regs mem <;> simp
      | pe p =>
        simp only []
        cases A.peRun p (!addr.isReturn) regs mem <;> simp

theorem lookup_empty {Rule : Type} (N a g : Nat) :
    ((Cache.empty : Cache Rule).lookup N a g).2 = .miss := by
  simp [Cache.lookup, Cache.empty]

theorem lookup_slots {Rule : Type} (N : Nat) (c : Cache Rule) (a g : Nat) :
    (c.lookup N a g).1.slots = c.slots := by
  unfold Cache.lookup
  split
  · rfl
  · split
    · split <;> rfl
    · rfl

theorem lookup_hit {Rule : Type} {N : Nat} {c : Cache Rule} {a g : Nat} {r : Rule}
    (h : (c.lookup N a g).2 = .hit r) :
    ∃ e, c.slots (a % N) = some e ∧ e.gen = g ∧ e.addr = a ∧ e.rule = r := by
  unfold Cache.lookup at h
  split at h
  · simp at h
  · rename_i e he
    split at h
    · split at h
      · rename_i hg ha
        simp at h
        exact ⟨e, he, hg, ha, h⟩
      · simp at h
    · simp at h

/-- Outcome of `unwindFrame` on a fresh cache: the miss path. -/
theorem unwindFrame_empty (A : Arch) (N : Nat) (u : Unw) (addr : FrameAddr) (regs : A.Regs)
    (mem : Mem) :
    (unwindFrame A N u Cache.empty addr regs mem).2 = (missPath A u addr regs mem).2 := by
  unfold unwindFrame
  simp only [lookup_empty]
  split <;> rfl

/-- Entries of the cache are justified by the ghost map: the entry's rule is what a miss
for its address under the module list of its generation would insert. `kind` fixes, per
lookup address, whether it is used as instruction pointer (`true` = first frame) or as
return address. -/
def EntriesOK (A : Arch) (kind : Nat → Bool) (ghost : Nat → Option (List Module))
    (c : Cache A.Rule) : Prop :=
  ∀ s e, c.slots s = some e →
    ∃ L, ghost e.gen = some L ∧ staticRule A L e.addr (kind e.addr) = some e.rule

/-- **Core of C06.** If the cache's entries are justified and the unwinder's own
generation stands for its module list, the outcome of a call does not depend on the cache. -/
theorem unwindFrame_cache_independent (A : Arch) (N : Nat) (kind : Nat → Bool)
    (ghost : Nat → Option (List Module)) (u : Unw) (c : Cache A.Rule) (addr : FrameAddr)
    (regs : A.Regs) (mem : Mem) (hc : EntriesOK A kind ghost c) (hu : ghost u.gen = some u.mods)
    (hk : kind addr.lookup = !addr.isReturn) :
    (unwindFrame A N u c addr regs mem).2 = (unwindFrame A N u Cache.empty addr regs mem).2 := by
  rw [unwindFrame_empty]
  unfold unwindFrame
  simp only []
  cases hl : (c.lookup N addr.lookup u.gen).2 with
  | miss => simp only []; split <;> rfl
  | hit rule =>
    simp only []
    obtain ⟨e, he, hg, ha, hr⟩ := lookup_hit hl
    obtain ⟨L, hL, hs⟩ := hc _ e he
    rw [hg, hu] at hL
    injection hL with hL
    subst hL
    rw [ha, hk, hr] at hs
    have ⟨h1, h2⟩ := missPath_static A u addr regs mem
    rw [← h1] at hs
    rw [h2 _ hs]

/-- The cache after a call is still justified. -/
theorem unwindFrame_entriesOK (A : Arch) (N : Nat) (kind : Nat → Bool)
    (ghost : Nat → Option (List Module)) (u : Unw) (c : Cache A.Rule) (addr : FrameAddr)
    (regs : A.Regs) (mem : Mem) (hc : EntriesOK A kind ghost c) (hu : ghost u.gen = some u.mods)
    (hk : kind addr.lookup = !addr.isReturn) :
    EntriesOK A kind ghost (unwindFrame A N u c addr regs mem).1 := by
  have st : EntriesOK A kind ghost (c.lookup N addr.lookup u.gen).1 := by
    intro s e he
    rw [lookup_slots] at he
    exact hc s e he
  unfold unwindFrame
  simp only []
  cases (c.lookup N addr.lookup u.gen).2 with
  | hit rule => exact st
  | miss =>
    simp only []
    cases hm : (missPath A u addr regs mem).1 with
    | none => exact st
    | some r =>
      simp only []
      intro s e he
      simp only [Cache.insert] at he
      split at he
      · injection he with he
        subst he
        refine ⟨u.mods, hu, ?_⟩
        simp only []
        rw [hk, ← (missPath_static A u addr regs mem).1]
        exact hm
      · exact st s e he

/-! ## Whole histories -/

structure HWorld (A : Arch) where
  c0 : Nat                 -- counter value at process start (ghost)
  draws : Nat              -- number of generation draws so far (ghost)
  counter : Nat
  unws : List Unw
  cache : Cache A.Rule
  ghost : Nat → Option (List Module)

inductive HOp (A : Arch) where
  | new
  | clone (i : Nat)
  | add (i : Nat) (m : Module)
  | remove (i : Nat) (start : Nat)
  | unwind (i : Nat) (addr : FrameAddr) (regs : A.Regs) (mem : Mem)

def setGhost (ghost : Nat → Option (List Module)) (g : Nat) (L : List Module) :
    Nat → Option (List Module) := fun x => if x = g then some L else ghost x

/-- One operation. The optional output is the outcome of an `unwind`. -/
def hstep (A : Arch) (N : Nat) (w : HWorld A) : HOp A → HWorld A × Option (Out A.Regs)
  | .new =>
    let (g, c') := drawGen w.counter
    ({ w with counter := c', draws := w.draws + 1, unws := w.unws ++ [{ mods := [], gen := g }],
              ghost := setGhost w.ghost g [] }, none)
  | .clone i =>
    match w.unws[i]? with
    | some u => ({ w with unws := w.unws ++ [u] }, none)
    | none => (w, none)
  | .add i m =>
    match w.unws[i]? with
    | some u =>
      let (g, c') := drawGen w.counter
      let L := addModule u.mods m
      ({ w with counter := c', draws := w.draws + 1, unws := w.unws.set i { mods := L, gen := g },
                ghost := setGhost w.ghost g L }, none)
    | none => (w, none)
  | .remove i start =>
    match w.unws[i]? with
    | some u =>
      match removeModule u.mods start with
      | some L =>
        let (g, c') := drawGen w.counter
        ({ w with counter := c', draws := w.draws + 1, unws := w.unws.set i { mods := L, gen := g },
                  ghost := setGhost w.ghost g L }, none)
      | none => (w, none)
    | none => (w, none)
  | .unwind i addr regs mem =>
    match w.unws[i]? with
    | some u =>
      let (c', out) := unwindFrame A N u w.cache addr regs mem
      ({ w with cache := c' }, some out)
    | none => (w, none)

/-- The history invariant. -/
structure HInv (A : Arch) (kind : Nat → Bool) (w : HWorld A) : Prop where
  counter_eq : w.counter = (w.c0 + w.draws) % U16
  unws_ok : ∀ u, u ∈ w.unws → w.ghost u.gen = some u.mods
  entries_ok : EntriesOK A kind w.ghost w.cache
  ghost_drawn : ∀ g, w.ghost g ≠ none → ∃ k, k < w.draws ∧ g = (w.c0 + k) % U16

/-- An operation respects the consistent use of addresses. -/
def HOp.Consistent {A : Arch} (kind : Nat → Bool) : HOp A → Prop
  | .unwind _ addr _ _ => kind addr.lookup = !addr.isReturn
  | _ => True

theorem fresh_gen_unused {A : Arch} {kind : Nat → Bool} {w : HWorld A} (h : HInv A kind w)
    (hd : w.draws < U16) : w.ghost w.counter = none := by
  by_cases hn : w.ghost w.counter = none
  · exact hn
  · obtain ⟨k, hk, he⟩ := h.ghost_drawn _ hn
    rw [h.counter_eq] at he
    unfold U16 at *
    omega

/-- Drawing a fresh generation for a new module list keeps the invariant, whatever happens to
the list of unwinders as long as each of them is either an old one or carries the new pair. -/
theorem hinv_draw {A : Arch} {kind : Nat → Bool} {w : HWorld A} (h : HInv A kind w)
    (hd : w.draws < U16) (L : List Module) (unws' : List Unw)
    (hu : ∀ u, u ∈ unws' → u ∈ w.unws ∨ (u.gen = w.counter ∧ u.mods = L)) :
    HInv A kind { w with counter := (w.counter + 1) % U16, draws := w.draws + 1, unws := unws',
                         ghost := setGhost w.ghost w.counter L } := by
  have fresh := fresh_gen_unused h hd
  refine ⟨?_, ?_, ?_, ?_⟩
  · simp only []
    rw [h.counter_eq]
    unfold U16
    omega
  · intro u hu'
    simp only [setGhost]
    rcases hu u hu' with hold | ⟨hg, hm⟩
    · have := h.unws_ok u hold
      split
      · rename_i e; rw [e, fresh] at this; cases this
      · exact this
    · simp [hg, hm]
  · intro s e he
    obtain ⟨L', hL', hs⟩ := h.entries_ok s e he
    refine ⟨L', ?_, hs⟩
    simp only [setGhost]
    split
    · rename_i e'; rw [e', fresh] at hL'; cases hL'
    · exact hL'
  · intro g hg
    simp only [setGhost] at hg
    split at hg
    · rename_i e
      exact ⟨w.draws, by simp, by rw [e, h.counter_eq]⟩
    · obtain ⟨k, hk, he⟩ := h.ghost_drawn g hg
      exact ⟨k, by simp only []; omega, he⟩

theorem mem_set_cases {α} {l : List α} {i : Nat} {a x : α} (h : x ∈ l.set i a) : x ∈ l ∨ x = a := by
  rcases List.mem_or_eq_of_mem_set h with h | h
  · exact Or.inl h
  · exact Or.inr h

/-- Every operation preserves the invariant (fewer than 65 536 draws so far). -/
theorem hinv_step {A : Arch} {N : Nat} {kind : Nat → Bool} {w : HWorld A} (op : HOp A)
    (h : HInv A kind w) (hd : w.draws < U16) (hc : op.Consistent kind) :
    HInv A kind (hstep A N w op).1 := by
  cases op with
  | new =>
    simp only [hstep, drawGen]
    apply hinv_draw h hd
    intro u hu
    rcases List.mem_append.mp hu with h1 | h1
    · exact Or.inl h1
    · simp at h1; subst h1; exact Or.inr ⟨rfl, rfl⟩
  | clone i =>
    simp only [hstep]
    split
    · rename_i u hu
      refine ⟨h.counter_eq, ?_, h.entries_ok, h.ghost_drawn⟩
      intro u' hu'
      rcases List.mem_append.mp hu' with h1 | h1
      · exact h.unws_ok u' h1
      · have hm := List.mem_of_getElem? hu
        simp at h1
        rw [h1]
        exact h.unws_ok u hm
    · exact h
  | add i m =>
    simp only [hstep]
    split
    · rename_i u hu
      simp only [drawGen]
      apply hinv_draw h hd
      intro u' hu'
      rcases mem_set_cases hu' with h1 | h1
      · exact Or.inl h1
      · subst h1; exact Or.inr ⟨rfl, rfl⟩
    · exact h
  | remove i start =>
    simp only [hstep]
    split
    · split
      · simp only [drawGen]
        apply hinv_draw h hd
        intro u' hu'
        rcases mem_set_cases hu' with h1 | h1
        · exact Or.inl h1
        · subst h1; exact Or.inr ⟨rfl, rfl⟩
      · exact h
    · exact h
  | unwind i addr regs mem =>
    simp only [hstep]
    split
    · rename_i u hu
      have hu' := h.unws_ok u (List.mem_of_getElem? hu)
      exact ⟨h.counter_eq, h.unws_ok,
        unwindFrame_entriesOK A N kind w.ghost u w.cache addr regs mem h.entries_ok hu' hc,
        h.ghost_drawn⟩
    · exact h

def HWorld.init (A : Arch) (c0 : Nat) : HWorld A :=
  { c0 := c0 % U16, draws := 0, counter := c0 % U16, unws := [], cache := Cache.empty,
    ghost := fun _ => none }

theorem hinv_init (A : Arch) (kind : Nat → Bool) (c0 : Nat) : HInv A kind (HWorld.init A c0) := by
  refine ⟨?_, ?_, ?_, ?_⟩
  · simp [HWorld.init, U16]
  · intro u hu; simp [HWorld.init] at hu
  · intro s e he; simp [HWorld.init, Cache.empty] at he
  · intro g hg; simp [HWorld.init] at hg

/-- Run a history. -/
def hrun (A : Arch) (N : Nat) (w : HWorld A) : List (HOp A) → HWorld A
  | [] => w
  | op :: ops => hrun A N (hstep A N w op).1 ops

def drawsOf {A : Arch} : HOp A → Nat
  | .unwind .. => 0
  | .clone _ => 0
  | _ => 1

theorem hstep_draws_le {A : Arch} {N : Nat} (w : HWorld A) (op : HOp A) :
    (hstep A N w op).1.draws ≤ w.draws + drawsOf op := by
  cases op <;> simp only [hstep, drawsOf, drawGen] <;> (repeat' split) <;> simp

/-- The invariant holds after any history with fewer than 65 536 module-set changes. -/
theorem hinv_run {A : Arch} {N : Nat} {kind : Nat → Bool} :
    ∀ (ops : List (HOp A)) (w : HWorld A), HInv A kind w →
      w.draws + (ops.map drawsOf).sum < U16 → (∀ op ∈ ops, op.Consistent kind) →
      HInv A kind (hrun A N w ops)
  | [], w, h, _, _ => h
  | op :: ops, w, h, hd, hc => by
    simp only [hrun]
    have h1 : w.draws < U16 := by simp at hd; omega
    apply hinv_run ops _ (hinv_step op h h1 (hc op (by simp)))
    · have := hstep_draws_le (N := N) w op
      simp at hd
      omega
    · intro op' ho; exact hc op' (by simp [ho])

end FH
