import FH.Pe
/-!
# `register_ordering`: decode ∘ encode = id

For every register sequence that `encode` accepts, `decode` of its result is that sequence -
proved for all sequences (no enumeration), from the mixed-radix structure of the encoding.
-/
namespace FH

theorem swapAt_length (l : List Nat) (i j : Nat) : (swapAt l i j).length = l.length := by
  unfold swapAt; split <;> simp

theorem swapAt_take (l : List Nat) (i j : Nat) (hij : i ≤ j) : (swapAt l i j).take i = l.take i := by
  unfold swapAt
  split
  · rw [List.take_set_of_le (by omega), List.take_set_of_le (by omega)]
  · rfl

theorem swapAt_get_i (l : List Nat) (i j : Nat) (hi : i < l.length) (hj : j < l.length) (hij : i ≤ j) :
    (swapAt l i j)[i]? = l[j]? := by
  unfold swapAt
  rw [dif_pos ⟨hi, hj⟩]
  by_cases h : i = j
  · subst h; simp
  · rw [List.getElem?_set_ne (by omega)]
    simp [hi]

/-- Horner form of the encoding loop. -/
theorem encodeLoop_horner : ∀ (regs : List Nat) (i : Nat) (order : List Nat) (r scale : Nat),
    encodeLoop regs i order r scale = (encodeLoop regs i order 0 1).map (fun x => r + scale * x)
  | [], i, order, r, scale => by simp [encodeLoop]
  | reg :: rest, i, order, r, scale => by
    simp only [encodeLoop]
    cases (order.drop i).findIdx? (· == reg) with
    | none => simp
    | some index =>
      simp only []
      rw [encodeLoop_horner rest (i + 1) _ (r + index * scale) (scale * (8 - i)),
        encodeLoop_horner rest (i + 1) _ (0 + index * 1) (1 * (8 - i))]
      cases encodeLoop rest (i + 1) _ 0 1 with
      | none => simp
      | some x =>
        simp only [Option.map_some, Option.some.injEq]
        rw [Nat.mul_add, ← Nat.mul_assoc, Nat.add_assoc]
        simp [Nat.mul_comm]

theorem decodeLoop_zero (n : Nat) (regs : List Nat) : decodeLoop n 0 regs = regs := by
  cases n <;> simp [decodeLoop]

/-- One decoding step undoes one encoding digit. -/
theorem decodeLoop_step (n index x : Nat) (regs : List Nat) (hn : 1 ≤ n) (hidx : index < n + 1) :
    decodeLoop (n + 1) (index + (n + 1) * x) regs =
      decodeLoop n x (if index ≠ 0 then swapAt regs (8 - (n + 1)) (8 - (n + 1) + index) else regs) := by
  by_cases hr : index + (n + 1) * x = 0
  · have h1 : index = 0 := by omega
    have h2 : x = 0 := by
      rcases Nat.eq_zero_or_pos x with h | h
      · exact h
      · have : 0 < (n + 1) * x := Nat.mul_pos (by omega) h
        omega
    subst h1 h2
    simp [decodeLoop, decodeLoop_zero]
  · have hmod : (index + (n + 1) * x) % (n + 1) = index := by
      rw [Nat.add_mul_mod_self_left]; exact Nat.mod_eq_of_lt hidx
    have hdiv : (index + (n + 1) * x) / (n + 1) = x := by
      rw [Nat.add_mul_div_left _ _ (by omega : 0 < n + 1), Nat.div_eq_of_lt hidx]; omega
    simp only [decodeLoop, hr, if_false]
    rw [if_neg (by omega)]
    simp only [hmod, hdiv]

/-- **Decoding inverts encoding**, by induction over the register sequence: the decoder's list
after undoing the digits of `regs` starts with what was already fixed followed by `regs`. -/
theorem encodeLoop_roundtrip : ∀ (regs : List Nat) (i : Nat) (order : List Nat) (e : Nat),
    order.length = 8 → i + regs.length ≤ 8 → encodeLoop regs i order 0 1 = some e →
    (decodeLoop (8 - i) e order).take (i + regs.length) = order.take i ++ regs
  | [], i, order, e, _, _, h => by
    simp only [encodeLoop, Option.some.injEq] at h
    subst h
    simp [decodeLoop_zero]
  | reg :: rest, i, order, e, hlen, hi, h => by
    simp only [List.length_cons] at hi
    simp only [encodeLoop] at h
    cases hf : (order.drop i).findIdx? (· == reg) with
    | none => simp [hf] at h
    | some index =>
      simp only [hf] at h
      obtain ⟨hidx, hreg, _⟩ := List.findIdx?_eq_some_iff_getElem.mp hf
      have hidx' : index < 8 - i := by simpa [hlen] using hidx
      have hreg' : order[i + index]? = some reg := by
        have : (order.drop i)[index]? = some reg := by
          rw [List.getElem?_eq_getElem hidx]; simpa using hreg
        rwa [List.getElem?_drop] at this
      -- the permuted list after this step
      generalize hod : (if index ≠ 0 then swapAt order i (i + index) else order) = order' at h
      have hlen' : order'.length = 8 := by
        subst hod; split
        · rw [swapAt_length]; exact hlen
        · exact hlen
      have htake : order'.take (i + 1) = order.take i ++ [reg] := by
        subst hod
        rw [List.take_add_one]
        split
        · rw [swapAt_take _ _ _ (by omega), swapAt_get_i _ _ _ (by omega) (by omega) (by omega), hreg']
          rfl
        · rename_i h0
          have : index = 0 := by omega
          subst this
          rw [show i + 0 = i by rfl] at hreg'
          rw [hreg']; rfl
      rw [encodeLoop_horner] at h
      cases hx : encodeLoop rest (i + 1) order' 0 1 with
      | none => simp [hx] at h
      | some x =>
        simp only [hx, Option.map_some, Option.some.injEq] at h
        have he : e = index + (8 - i) * x := by
          simp only [Nat.zero_add, Nat.mul_one, Nat.one_mul] at h; exact h.symm
        have ih := encodeLoop_roundtrip rest (i + 1) order' x hlen' (by omega) hx
        by_cases h7 : i = 7
        · -- the last position: nothing left to choose
          subst h7
          have hr : rest = [] := by
            cases rest with
            | nil => rfl
            | cons a b => simp at hi; omega
          subst hr
          have h0 : index = 0 := by omega
          subst h0
          simp only [encodeLoop, Option.some.injEq] at hx
          subst hx
          subst he
          simp only [Nat.mul_zero, Nat.add_zero, decodeLoop_zero, List.length_nil]
          rw [← htake]
          subst hod
          simp
        · obtain ⟨n, hn⟩ : ∃ n, 8 - i = n + 1 := ⟨8 - i - 1, by omega⟩
          have hn1 : 1 ≤ n := by omega
          rw [he, hn, decodeLoop_step n index x order hn1 (by omega)]
          have e1 : 8 - (n + 1) = i := by omega
          rw [e1, hod]
          have e2 : n = 8 - (i + 1) := by omega
          rw [e2]
          have e3 : i + (rest.length + 1) = i + 1 + rest.length := by omega
          simp only [List.length_cons]
          rw [e3, ih, htake]
          simp

/-- **`decode (encode regs) = regs`** for every sequence `encode` accepts. -/
theorem decodeRegs_encodeRegs (regs : List Nat) (c e : Nat) (h : encodeRegs regs = some (c, e)) :
    decodeRegs c e = regs := by
  unfold encodeRegs at h
  split at h
  · cases h
  · rename_i hl
    cases he : encodeLoop regs 0 encodeRegisters 0 1 with
    | none => simp [he] at h
    | some r =>
      simp only [he, Option.map_some, Option.some.injEq, Prod.mk.injEq] at h
      obtain ⟨hc, hr⟩ := h
      subst hc hr
      have := encodeLoop_roundtrip regs 0 encodeRegisters r (by decide) (by omega) he
      simpa [decodeRegs] using this

/-- `n!` -/
def fac : Nat → Nat
  | 0 => 1
  | n + 1 => (n + 1) * fac n

theorem fac_pos : ∀ n, 0 < fac n
  | 0 => by simp [fac]
  | n + 1 => by simp only [fac]; exact Nat.mul_pos (by omega) (fac_pos n)

/-- The encoding of a sequence starting at position `i` is below `(8 - i)!`. -/
theorem encodeLoop_bound : ∀ (regs : List Nat) (i : Nat) (order : List Nat) (e : Nat),
    order.length = 8 → i + regs.length ≤ 8 → encodeLoop regs i order 0 1 = some e →
    e < fac (8 - i)
  | [], i, order, e, _, _, h => by
    simp only [encodeLoop, Option.some.injEq] at h
    subst h
    exact fac_pos _
  | reg :: rest, i, order, e, hlen, hi, h => by
    simp only [List.length_cons] at hi
    simp only [encodeLoop] at h
    cases hf : (order.drop i).findIdx? (· == reg) with
    | none => simp [hf] at h
    | some index =>
      simp only [hf] at h
      obtain ⟨hidx, _, _⟩ := List.findIdx?_eq_some_iff_getElem.mp hf
      have hidx' : index < 8 - i := by simpa [hlen] using hidx
      generalize hod : (if index ≠ 0 then swapAt order i (i + index) else order) = order' at h
      have hlen' : order'.length = 8 := by
        subst hod; split
        · rw [swapAt_length]; exact hlen
        · exact hlen
      rw [encodeLoop_horner] at h
      cases hx : encodeLoop rest (i + 1) order' 0 1 with
      | none => simp [hx] at h
      | some x =>
        simp only [hx, Option.map_some, Option.some.injEq] at h
        have he : e = index + (8 - i) * x := by
          simp only [Nat.zero_add, Nat.mul_one, Nat.one_mul] at h; exact h.symm
        have ih := encodeLoop_bound rest (i + 1) order' x hlen' (by omega) hx
        obtain ⟨n, hn⟩ : ∃ n, 8 - i = n + 1 := ⟨8 - i - 1, by omega⟩
        have e2 : 8 - (i + 1) = n := by omega
        rw [e2] at ih
        rw [he, hn]
        simp only [fac]
        -- index + (n+1)*x < (n+1)*(x+1) <= (n+1) * n!
        have h1 : index + (n + 1) * x < (n + 1) * (x + 1) := by
          rw [Nat.mul_add, Nat.mul_one]; omega
        exact Nat.lt_of_lt_of_le h1 (Nat.mul_le_mul_left _ ih)

/-- Every accepted encoding fits the rule's `u16` field (it is below `8! = 40320`). -/
theorem encodeRegs_fits_u16 (regs : List Nat) (c e : Nat) (h : encodeRegs regs = some (c, e)) :
    e < 40320 ∧ c ≤ 8 := by
  unfold encodeRegs at h
  split at h
  · cases h
  · rename_i hl
    cases he : encodeLoop regs 0 encodeRegisters 0 1 with
    | none => simp [he] at h
    | some r =>
      simp only [he, Option.map_some, Option.some.injEq, Prod.mk.injEq] at h
      obtain ⟨hc, hr⟩ := h
      subst hc hr
      have := encodeLoop_bound regs 0 encodeRegisters r (by decide) (by omega) he
      exact ⟨by simpa [fac] using this, by omega⟩

end FH
