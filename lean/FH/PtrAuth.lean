import FH.Regs
/-!
# `PtrAuthMask` constructors (`aarch64/unwindregs.rs`)
-/
namespace FH

/-- `u64::leading_zeros` -/
def leadingZeros64 (a : Nat) : Nat := if a = 0 then 64 else 64 - (Nat.log2 a + 1)

/-- `PtrAuthMask::from_max_known_address`: `u64::MAX.checked_shr(lz).unwrap_or(0)`;
`checked_shr` is `None` exactly for a shift of 64 or more. -/
def fromMaxKnown (a : Nat) : Nat :=
  let lz := leadingZeros64 a
  if lz < 64 then (U64 - 1) >>> lz else 0

def maskNoStrip : Nat := U64 - 1
def mask2440 : Nat := (U64 - 1) >>> 24

theorem shift_table : ∀ n, n ≤ 64 → (18446744073709551616 - 1) >>> (64 - n) = 2 ^ n - 1 := by
  decide

theorem fromMaxKnown_preserves (a x : Nat) (ha : a < U64) (hx : x ≤ a) :
    x &&& fromMaxKnown a = x := by
  unfold fromMaxKnown leadingZeros64
  by_cases h0 : a = 0
  · subst h0
    have : x = 0 := by omega
    subst this
    simp
  · simp only [h0, if_false]
    have hlog : Nat.log2 a < 64 := by
      rw [Nat.log2_lt h0]; exact ha
    have h1 : 64 - (Nat.log2 a + 1) < 64 := by omega
    simp only [h1, if_true]
    have h2 : (U64 - 1) >>> (64 - (Nat.log2 a + 1)) = 2 ^ (Nat.log2 a + 1) - 1 := by
      unfold U64
      exact shift_table (Nat.log2 a + 1) (by omega)
    rw [h2, Nat.and_two_pow_sub_one_eq_mod]
    apply Nat.mod_eq_of_lt
    exact Nat.lt_of_le_of_lt hx Nat.lt_log2_self

end FH
