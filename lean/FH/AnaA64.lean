import FH.RuleA64
/-!
# aarch64 instruction analysis (`aarch64/instruction_analysis/{prologue,epilogue}.rs`)

Instruction words are `Nat` (`< 2^32`); the `i32` stack offset is an `Int` with the `i32`
range enforced where the Rust code uses checked arithmetic.
-/
namespace FH

def inI32 (x : Int) : Bool := decide (-2147483648 ≤ x) && decide (x < 2147483648)

/-- Little-endian word at byte offset `i`. -/
def wordAt (b : List Nat) (i : Nat) : Nat :=
  b.getD i 0 + b.getD (i + 1) 0 * 256 + b.getD (i + 2) 0 * 65536 + b.getD (i + 3) 0 * 16777216

/-- `((((w >> 15) & 0x7f) as i16) << 9) >> 6`: the signed 7-bit immediate times 8. -/
def imm7x8 (w : Nat) : Int :=
  let v := (w >>> 15) &&& 0x7f
  if v < 64 then (v : Int) * 8 else ((v : Int) - 128) * 8

/-- The 12-bit immediate, optionally shifted left by 12. -/
def imm12 (w : Nat) : Int :=
  let v := (w >>> 10) &&& 0xfff
  if (w >>> 22) &&& 1 = 1 then (v : Int) * 4096 else (v : Int)

inductive ProInsnType where
  | notExpected | couldBeWithSub | veryLikely
  deriving DecidableEq, Repr

/-- `analyze_prologue_instruction_type` -/
def proInsnType (w : Nat) : ProInsnType :=
  if w = 0xd503237f ∨ w = 0x910003fd then .veryLikely
  else
    let b := w >>> 22
    if b &&& 0b1011111001 = 0b1010100000 then
      let wb := b &&& 0b110
      let ref := (w >>> 5) &&& 0b11111
      if wb = 0 ∨ ref ≠ 31 then .notExpected
      else if wb = 0b100 then .couldBeWithSub
      else .veryLikely
    else if b &&& 0b1011111110 = 0b1001000100 then
      let res := w &&& 0b11111
      let inp := (w >>> 5) &&& 0b11111
      let isSub := (w >>> 30) &&& 1 = 1
      let expected := if isSub then 31 else 29
      if inp ≠ 31 ∨ res ≠ expected then .notExpected else .veryLikely
    else .notExpected

inductive ProStep where
  | valid (off : Int)
  | unexpected
  | fpSetUp

/-- `reverse_step_instruction` -/
def proReverseStep (w : Nat) (spOff : Int) : ProStep :=
  if w = 0xd503237f then .valid spOff
  else if (w >>> 22) &&& 0b1011111001 = 0b1010100000 then
    let wb := (w >>> 23) &&& 0b11
    if wb = 0 then .unexpected
    else if (w >>> 5) &&& 0b11111 ≠ 31 then .unexpected
    else if wb = 0b11 ∨ wb = 0b01 then
      if inI32 (spOff - imm7x8 w) then .valid (spOff - imm7x8 w) else .unexpected
    else .valid spOff
  else if (w >>> 23) &&& 0b111111111 = 0b100100010 ∧ w &&& 0b11111 = 29 ∧ (w >>> 5) &&& 0b11111 = 31 then
    .fpSetUp
  else if (w >>> 23) &&& 0b111111111 = 0b110100010 then
    if w &&& 0b11111 ≠ 31 ∨ (w >>> 5) &&& 0b11111 ≠ 31 then .unexpected
    else if inI32 (spOff + imm12 w) then .valid (spOff + imm12 w) else .unexpected
  else .unexpected

/-- Walk backwards over the words before pc until an unexpected instruction; `none` when the
walk meets `mov x29, sp` / `add x29, sp, #n` (the frame record is complete: body rule). -/
def proScan : List Nat → Int → Option Int
  | [], off => some off
  | w :: rest, off =>
    match proReverseStep w off with
    | .valid off' => proScan rest off'
    | .unexpected => some off
    | .fpSetUp => none

/-- The words of `slice_from_start` (complete 4-byte chunks from its start), last first. -/
def wordsRev (b : List Nat) : List Nat :=
  ((List.range (b.length / 4)).map fun i => wordAt b (4 * i)).reverse

/-- `unwind_rule_from_detected_prologue` (through `rule_from_prologue_analysis`). -/
def anaPrologueA64 (text : List Nat) (pc : Nat) : Option (Option RuleA64) :=
  if pc > text.length then none
  else
    let fromStart := text.take pc
    let toEnd := text.drop pc
    if toEnd.length < 4 then some none
    else
      let t := proInsnType (wordAt toEnd 0)
      if t = .notExpected then some none
      else
        match proScan (wordsRev fromStart) 0 with
        | none => some none
        | some off =>
          if t = .couldBeWithSub ∧ off = 0 then some none
          else
            let q := off.tdiv 16
            if 0 ≤ q ∧ q < 65536 then
              some (some (if q = 0 then .noOp else .offsetSp q.toNat))
            else some none

inductive EpiInsnType where
  | notExpected
  | couldBeTailCall (autibspOff : Nat)
  | couldBeAuthTailCall (autibspOff : Nat)
  | veryLikely
  deriving DecidableEq, Repr

/-- `analyze_instruction` -/
def epiInsnType (w : Nat) : EpiInsnType :=
  if w = 0xd65f03c0 ∨ w = 0xd65f0fff then .veryLikely
  else if w = 0xd50323ff then .couldBeAuthTailCall 0
  else if w = 0xca1e07d0 then .couldBeAuthTailCall 4
  else if w = 0xb6f00050 then .couldBeAuthTailCall 8
  else if w = 0xd4388e20 then .couldBeAuthTailCall 12
  else if w >>> 26 = 0b000101 ∨ w &&& 0xfffffc1f = 0xd61f0000 then .couldBeTailCall 16
  else if (w >>> 23) &&& 0b111000111 = 0b110000101 ∧ w &&& 0b11111 = 16 then .couldBeAuthTailCall 16
  else if w &&& 0xfffffc00 = 0xd71f0800 ∧ w &&& 0b11111 = 16 then .couldBeAuthTailCall 20
  else if (w >>> 22) &&& 0b1011111001 = 0b1010100001 then
    if (w >>> 23) &&& 0b11 = 0 then .notExpected
    else if (w >>> 5) &&& 0b11111 ≠ 31 then .notExpected
    else .veryLikely
  else if (w >>> 23) &&& 0b111111111 = 0b100100010 then
    if w &&& 0b11111 ≠ 31 ∨ (w >>> 5) &&& 0b11111 ≠ 31 then .notExpected else .veryLikely
  else .notExpected

/-- `is_auth_tail_call(bytes_after_autibsp)` -/
def isAuthTailCall (b : List Nat) : Bool :=
  if b.length < 16 then false
  else if wordAt b 0 ≠ 0xca1e07d0 ∨ wordAt b 4 ≠ 0xb6f00050 ∨ wordAt b 8 ≠ 0xd4388e20 then false
  else
    let first := wordAt b 12
    if first >>> 26 = 0b000101 then true
    else if b.length < 20 then false
    else if ¬ ((first >>> 23) &&& 0b111000111 = 0b110000101) ∨ first &&& 0b11111 ≠ 16 then false
    else
      let braa := wordAt b 16
      braa &&& 0xfffffc00 == 0xd71f0800 && braa &&& 0b11111 == 16

/-- `instruction_adjusts_stack_pointer` -/
def adjustsSp (w : Nat) : Bool :=
  ((w >>> 22) &&& 0b1011111011 == 0b1010100011 && (w >>> 5) &&& 0b11111 == 31) ||
  ((w >>> 23) &&& 0b111111111 == 0b100100010 && w &&& 0b11111 == 31 && (w >>> 5) &&& 0b11111 == 31)

structure EpiState where
  spOff : Int := 0
  fpOff : Option Int := none
  lrOff : Option Int := none
  deriving Repr

inductive EpiStep where
  | needMore (s : EpiState)
  | body
  | ret
  | tailCall
  | couldBeAuth

/-- `step_instruction` -/
def epiStep (w : Nat) (s : EpiState) : EpiStep :=
  if w = 0xd65f03c0 ∨ w = 0xd65f0fff then .ret
  else if w = 0xd50323ff then .couldBeAuth
  else if w >>> 26 = 0b000101 ∨ w &&& 0xfffffc1f = 0xd61f0000 then (if s.spOff ≠ 0 then .tailCall else .body)
  else if (w >>> 22) &&& 0b1011111001 = 0b1010100001 then
    let wb := (w >>> 23) &&& 0b11
    if wb = 0 then .body
    else if (w >>> 5) &&& 0b11111 ≠ 31 then .body
    else
      let pre := wb = 0b11
      let post := wb = 0b01
      let spPlus := s.spOff + imm7x8 w
      if !inI32 spPlus then .body
      else
        let regLoc := if post then s.spOff else spPlus
        if !inI32 (regLoc + 8) then .body
        else
          let r1 := w &&& 0b11111
          let s1 : EpiState :=
            if r1 = 29 then { s with fpOff := some regLoc }
            else if r1 = 30 then { s with lrOff := some regLoc } else s
          let r2 := (w >>> 10) &&& 0b11111
          let s2 : EpiState :=
            if r2 = 29 then { s1 with fpOff := some (regLoc + 8) }
            else if r2 = 30 then { s1 with lrOff := some (regLoc + 8) } else s1
          .needMore (if pre ∨ post then { s2 with spOff := spPlus } else s2)
  else if (w >>> 23) &&& 0b111111111 = 0b100100010 then
    if w &&& 0b11111 ≠ 31 ∨ (w >>> 5) &&& 0b11111 ≠ 31 then .body
    else if inI32 (s.spOff + imm12 w) then .needMore { s with spOff := s.spOff + imm12 w } else .body
  else .body

/-- The loop of `analyze_slice`: `bytes` is what follows the current word. -/
def epiLoop : Nat → Nat → List Nat → EpiState → Option EpiState
  | 0, _, _, _ => none
  | fuel + 1, w, bytes, s =>
    match epiStep w s with
    | .needMore s' =>
      if bytes.length < 4 then none else epiLoop fuel (wordAt bytes 0) (bytes.drop 4) s'
    | .body => none
    | .ret => some s
    | .tailCall => some s
    | .couldBeAuth => if isAuthTailCall bytes then some s else none

/-- `unwind_rule_from_detected_epilogue`: the rule for the accumulated effects of the rest of
the epilogue (`none` if a field does not fit the rule's types). -/
def epiFound (s : EpiState) : Option RuleA64 :=
  let q := s.spOff.tdiv 16
  if ¬ (0 ≤ q ∧ q < 65536) then none
  else
    let i16 (x : Int) : Option Int :=
      let d := x.tdiv 8
      if -32768 ≤ d ∧ d < 32768 then some d else none
    match s.fpOff, s.lrOff with
    | none, none => if q = 0 then some .noOp else some (.offsetSp q.toNat)
    | none, some l => (i16 l).map fun l' => .offsetSpAndRestoreLr q.toNat l'
    | some _, none => none
    | some f, some l =>
      match i16 f, i16 l with
      | some f', some l' => some (.offsetSpAndRestoreFpAndLr q.toNat f' l')
      | _, _ => none

/-- `analyze_slice` + `unwind_rule_from_detected_epilogue`. Outer `none` = panic. -/
def anaEpilogueA64 (text : List Nat) (pc : Nat) : Option (Option RuleA64) :=
  if pc > text.length then none
  else
    let bytes := text.drop pc
    if bytes.length < 4 then some none
    else
      let w := wordAt bytes 0
      let rest := bytes.drop 4
      match epiInsnType w with
      | .notExpected => some none
      | .couldBeTailCall a =>
        if pc ≥ a ∧ wordAt (text.drop (pc - a)) 0 = 0xd50323ff ∧ (text.drop (pc - a)).length ≥ 4 ∧
            isAuthTailCall (text.drop (pc - a + 4)) then some (epiFound {})
        else if pc ≥ 4 ∧ adjustsSp (wordAt text (pc - 4)) then some (epiFound {})
        else some none
      | .couldBeAuthTailCall a =>
        if pc ≥ a ∧ wordAt (text.drop (pc - a)) 0 = 0xd50323ff ∧ (text.drop (pc - a)).length ≥ 4 ∧
            isAuthTailCall (text.drop (pc - a + 4)) then some (epiFound {})
        else some none
      | .veryLikely =>
        some ((epiLoop (bytes.length + 1) w rest {}).bind epiFound)

def anaA64 (text : List Nat) (pc : Nat) : Option (Option RuleA64) :=
  match anaPrologueA64 text pc with
  | none => none
  | some (some r) => some (some r)
  | some none => anaEpilogueA64 text pc

end FH
