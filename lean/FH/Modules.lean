import FH.Dwarf
import FH.Pe
import FH.Cui
/-!
# Modules, the sorted module list, FDE lookup in the three presentations
(`unwinder.rs`: `add_module`, `remove_module`, `find_module_for_address`,
`max_known_code_address`; `dwarf.rs`: `DwarfCfiIndex`, `.eh_frame_hdr` lookup contract)
-/
namespace FH

/-- One FDE as gimli presents it: address range (stated addresses) and the rows of its
CFA program as `(offset of first covered address, row)`, ascending, first offset 0.
`evalFails` stands for a CFA program gimli cannot evaluate (unknown opcode, storage
limits): `unwind_info_for_address` then fails for every address. -/
structure Fde where
  start : Nat
  len : Nat
  rows : List (Nat × Row)
  evalFails : Bool
  deriving Repr, Inhabited

inductive Pres where
  | hdr          -- `.eh_frame` + `.eh_frame_hdr`
  | indexEh      -- `.eh_frame` alone: framehop builds a `DwarfCfiIndex`
  | indexDebug   -- `.debug_frame`
  deriving DecidableEq, Repr, Inhabited

inductive UnwindData where
  | none
  | dwarf (pres : Pres) (fdes : List Fde)   -- `fdes` in section order
  | pe (funcs : List PeFunc)                -- `.pdata` entries in table order
  /-- Mach-O: `__unwind_info` (each entry's opcode parsed for both architectures' opcode
  layouts), and `__eh_frame` FDEs with their section offsets, if present. -/
  | macho (d : CuiData (CuiOpX64 × CuiOpA64)) (eh : Option (List (Nat × Fde)))
  deriving Repr, Inhabited

structure Module where
  start : Nat       -- avma_range.start
  stop : Nat        -- avma_range.end
  baseAvma : Nat
  baseSvma : Nat
  data : UnwindData
  deriving Repr, Inhabited

/-! ## The sorted module list -/

/-- Index at which `binary_search_by_key(&key, |m| m.start)` reports `key`
(`Ok i` if some module starts there, else `Err i` with the insertion point), on a list
sorted by `start` with distinct starts. -/
def lowerBound (key : Nat) : List Module → Nat
  | [] => 0
  | m :: rest => if m.start < key then lowerBound key rest + 1 else 0

/-- `add_module` on the list (`Vec::insert` at the index the binary search reports). -/
def addModule (mods : List Module) (m : Module) : List Module :=
  mods.insertIdx (lowerBound m.start mods) m

/-- `remove_module`: `some` new list if a module started there. -/
def removeModule (mods : List Module) (start : Nat) : Option (List Module) :=
  let i := lowerBound start mods
  match mods[i]? with
  | some m => if m.start = start then some (mods.eraseIdx i) else none
  | none => none

/-- `max_known_code_address` -/
def maxKnown (mods : List Module) : Nat :=
  match mods.getLast? with
  | some m => m.stop
  | none => 0

/-- The `Err(insertion_index)` arm of `find_module_for_address`: the module before the
insertion point, if the address is below its end. -/
def prevCand (mods : List Module) (i address : Nat) : Option (Nat × Module) :=
  if i = 0 then none
  else
    match mods[i - 1]? with
    | some p => if p.stop ≤ address then none else some (i - 1, p)
    | none => none

/-- The module `find_module_for_address` settles on, before the base address checks. -/
def findCand (mods : List Module) (address : Nat) : Option (Nat × Module) :=
  match mods[lowerBound address mods]? with
  | some m => if m.start = address then
                -- (since 2a4e12e the end check applies here too: an empty range contains nothing)
                (if m.stop ≤ address then none else some (lowerBound address mods, m))
              else prevCand mods (lowerBound address mods) address
  | none => prevCand mods (lowerBound address mods) address

/-- `find_module_for_address`: module index and relative address. -/
def findModule (mods : List Module) (address : Nat) : Option (Nat × Nat) :=
  match findCand mods address with
  | none => none
  | some (j, m) =>
    if address < m.baseAvma then none
    else if address - m.baseAvma < U32 then some (j, address - m.baseAvma) else none

/-! ## FDE lookup -/

/-- Row of `fde` for a stated address: the last row starting at or before it, if the
FDE's range contains the address and its program evaluates. `none` = gimli's
`unwind_info_for_address` fails = "not covered". -/
def Fde.rowFor (fde : Fde) (svma : Nat) : Option Row :=
  if fde.evalFails then none
  else if fde.start ≤ svma ∧ svma < fde.start + fde.len then
    ((fde.rows.filter fun p => p.1 ≤ svma - fde.start).getLast?).map (·.2)
  else none

/-- Stable insertion sort by `start` (the behaviour of `sort_by_key` on the index, and of a
linker writing the `.eh_frame_hdr` table). -/
def insertByStart (f : Fde) : List Fde → List Fde
  | [] => [f]
  | g :: rest => if g.start ≤ f.start then g :: insertByStart f rest else f :: g :: rest

def sortByStart (l : List Fde) : List Fde := l.foldr insertByStart []

/-- Last entry whose start is `≤ key`, or the first entry if there is none, or `none` for
an empty table: the contract of gimli's `EhHdrTable::lookup` and (after looking at the
`Err(0)` arm) of `DwarfCfiIndex::fde_offset_for_relative_address`, on tables sorted by start. -/
def lastLE (key : Nat) : List Fde → Option Fde
  | [] => none
  | f :: rest =>
    match lastLE key rest with
    | some g => if g.start ≤ key then some g else some f
    | none => some f

inductive Lookup where
  | row (r : Row)      -- FDE found and it covers the address
  | uncovered          -- FDE found but `unwind_info_for_address` failed
  | failed             -- lookup itself failed (empty table)
  | noData             -- index could not be built: module has no unwind data
  deriving Repr

/-- Whether `DwarfCfiIndex::try_new` succeeds: every FDE start can be expressed as a
`u32` offset from the stated base address. -/
def indexBuilds (baseSvma : Nat) (fdes : List Fde) : Bool :=
  fdes.all fun f => baseSvma ≤ f.start ∧ f.start - baseSvma < U32

/-- FDEs that cover at least one address. `DwarfCfiIndex::try_new` skips zero-length FDEs (they
could shadow a real FDE with the same start); an `.eh_frame_hdr` search table is taken to list
the FDEs of code that exists (the table is the linker's, a binary search over it needs distinct
keys). -/
def liveFdes (fdes : List Fde) : List Fde := fdes.filter fun f => 0 < f.len

/-- Which row (if any) the DWARF data of a module yields for a relative lookup address. -/
def dwarfLookup (pres : Pres) (fdes : List Fde) (baseSvma rel : Nat) : Lookup :=
  let svma := baseSvma + rel
  let table := sortByStart (liveFdes fdes)
  if pres ≠ .hdr ∧ !indexBuilds baseSvma (liveFdes fdes) then .noData
  else if U64 ≤ svma then .failed          -- `base_svma.checked_add(rel)` (a corrupt image base)
  else
    match lastLE svma table with
    | none => .failed
    | some fde =>
      match fde.rowFor svma with
      | some r => .row r
      | none => .uncovered

end FH
