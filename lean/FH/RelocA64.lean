import FH.RelocLemmas
import FH.SignLemmas
/-!
# Stack relocation of aarch64 rule execution (C08)
-/
namespace FH

/-- aarch64 registers after relocation: `sp` moves with the stack, `lr` and `fp` hold words. -/
def relocA64 (σ : Nat → Nat) (d : Nat) (g : RegsA64) : RegsA64 :=
  { mask := g.mask, lr := σ g.lr, sp := g.sp + d, fp := σ g.fp }

def relocOutA64 (σ : Nat → Nat) (d : Nat) : Out RegsA64 → Out RegsA64
  | .ret res g => .ret (relocRes σ d res) (relocA64 σ d g)
  | .panic s => .panic s

/-- `finishA64` on the relocated state. -/
theorem finishA64_reloc (σ : Nat → Nat) (d : Nat) (hσ : Function.Injective σ) (h0 : σ 0 = 0)
    (first : Bool) (regs : RegsA64) (hstrip : ∀ v, strip regs.mask (σ v) = σ (strip regs.mask v))
    (newLr newSp newFp : Nat) :
    finishA64 first (relocA64 σ d regs) (σ newLr) (newSp + d) (σ newFp) =
      relocOutA64 σ d (finishA64 first regs newLr newSp newFp) := by
  unfold finishA64
  have hm : (relocA64 σ d regs).mask = regs.mask := rfl
  simp only [hm, hstrip]
  have e0 : (σ (strip regs.mask newLr) = 0) ↔ (strip regs.mask newLr = 0) :=
    ⟨fun h => hσ (h.trans h0.symm), fun h => by rw [h, h0]⟩
  by_cases hra : strip regs.mask newLr = 0
  · rw [if_pos (e0.mpr hra), if_pos hra]; rfl
  · rw [if_neg (fun h => hra (e0.mp h)), if_neg hra]
    have e1 : ((!first) = true ∧ newSp + d = (relocA64 σ d regs).sp) ↔ ((!first) = true ∧ newSp = regs.sp) := by
      simp only [relocA64]
      constructor
      · intro ⟨a, b⟩; exact ⟨a, by omega⟩
      · intro ⟨a, b⟩; exact ⟨a, by omega⟩
    by_cases hd : (!first) = true ∧ newSp = regs.sp
    · rw [if_pos (e1.mpr hd), if_pos hd]; rfl
    · rw [if_neg (fun h => hd (e1.mp h)), if_neg hd]
      simp only [relocOutA64, relocRes, relocA64, RegsA64.setLr, hstrip]

/-- Whether a rule uses the frame pointer as a base address in this kind of frame. -/
def usesFpA64 : RuleA64 → Bool → Bool
  | .useFramePointer, _ => true
  | .useFramepointerWithOffsets _ _ _, _ => true
  | .noOpIfFirstFrameOtherwiseFp, false => true
  | _, _ => false

/-- **One aarch64 rule step on the relocated thread state is the relocated outcome of the step
on the original state.** Beyond the x86-64 hypotheses: relocation commutes with stripping the
pointer-authentication bits (`σ` moves pointers within the mask), the frame pointer a rule
follows is a stack pointer, and so is the non-null caller frame pointer saved in the slot the rule
reads (the rules compare it with the current one). -/
theorem execA64_reloc (σ : Nat → Nat) (d : Nat) (hσ : Function.Injective σ) (h0 : σ 0 = 0)
    {mem mem' : Mem} (hm : MemReloc σ d mem mem') (rule : RuleA64) (hr : rule.WF) (first : Bool)
    (regs : RegsA64) (hstrip : ∀ v, strip regs.mask (σ v) = σ (strip regs.mask v))
    (hsp : Room d regs.sp)
    (hfp : usesFpA64 rule first = true → σ regs.fp = regs.fp + d ∧ Room d regs.fp)
    (hsaved : ∀ a v, fpSlotA64 rule first regs = some a → mem a = some v → v ≠ 0 → σ v = v + d) :
    execA64 rule first (relocA64 σ d regs) mem' = relocOutA64 σ d (execA64 rule first regs mem) := by
  have fin := finishA64_reloc σ d hσ h0 first regs hstrip
  have z0 : ∀ v, (σ v = 0) ↔ (v = 0) := fun v =>
    ⟨fun h => hσ (h.trans h0.symm), fun h => by rw [h, h0]⟩
  have hsp' : (relocA64 σ d regs).sp = regs.sp + d := rfl
  have hfp' : (relocA64 σ d regs).fp = σ regs.fp := rfl
  have hlr' : (relocA64 σ d regs).lr = σ regs.lr := rfl
  cases rule with
  | noOp =>
    simp only [execA64, hsp', hfp', hlr']
    split
    · rfl
    · exact fin _ _ _
  | offsetSp k =>
    simp only [RuleA64.WF, U16] at hr
    simp only [execA64, hsp', hfp', hlr']
    split
    · rfl
    · rw [umul_eq _ (by unfold U64; omega), umul_eq _ (by unfold U64; omega)]
      obtain ⟨c1, c2⟩ := cadd_room hsp (off := k * 16) (by omega)
      rw [c1, c2]
      exact fin _ _ _
  | offsetSpIfFirstFrameOtherwiseStackEndsHere k =>
    simp only [RuleA64.WF, U16] at hr
    simp only [execA64, hsp', hfp', hlr']
    split
    · rfl
    · rw [umul_eq _ (by unfold U64; omega), umul_eq _ (by unfold U64; omega)]
      obtain ⟨c1, c2⟩ := cadd_room hsp (off := k * 16) (by omega)
      rw [c1, c2]
      exact fin _ _ _
  | noOpIfFirstFrameOtherwiseFp =>
    cases first with
    | true =>
      simp only [execA64, hsp', hfp', hlr', if_true]
      exact fin _ _ _
    | false =>
      obtain ⟨efp, room⟩ := hfp rfl
      simp only [execA64, Bool.false_eq_true, if_false, hsp', hfp', efp]
      obtain ⟨c1, c2⟩ := cadd_room room (off := 16) (by omega)
      rw [c1, c2]
      simp only [uaddP]
      have a1 : regs.fp + 8 < U64 := by unfold Room at room; omega
      have a2 : regs.fp + d + 8 < U64 := by unfold Room at room; omega
      have a3 : regs.fp + d + 8 = regs.fp + 8 + d := by omega
      rw [if_pos a1, if_pos a2, a3, hm (regs.fp + 8), hm regs.fp]
      cases mem (regs.fp + 8) with
      | none => rfl
      | some newLr =>
        simp only [Option.map_some]
        cases mem regs.fp with
        | none => rfl
        | some newFp =>
          simp only [Option.map_some]
          by_cases hz : newFp = 0
          · rw [if_pos ((z0 newFp).mpr hz), if_pos hz]; rfl
          · rw [if_neg (fun h => hz ((z0 newFp).mp h)), if_neg hz]
            have : (regs.fp + 16 + d ≤ regs.sp + d) ↔ (regs.fp + 16 ≤ regs.sp) := by omega
            by_cases hle : regs.fp + 16 ≤ regs.sp
            · rw [if_pos (this.mpr hle), if_pos hle]; rfl
            · rw [if_neg (fun h => hle (this.mp h)), if_neg hle]
              exact fin _ _ _
  | useFramePointer =>
    obtain ⟨efp, room⟩ := hfp rfl
    simp only [execA64, hsp', hfp', efp]
    obtain ⟨c1, c2⟩ := cadd_room room (off := 16) (by omega)
    rw [c1, c2]
    simp only [uaddP]
    have a1 : regs.fp + 8 < U64 := by unfold Room at room; omega
    have a2 : regs.fp + d + 8 < U64 := by unfold Room at room; omega
    have a3 : regs.fp + d + 8 = regs.fp + 8 + d := by omega
    rw [if_pos a1, if_pos a2, a3, hm (regs.fp + 8), hm regs.fp]
    cases mem (regs.fp + 8) with
    | none => rfl
    | some newLr =>
      simp only [Option.map_some]
      cases hfpv : mem regs.fp with
      | none => rfl
      | some newFp =>
        simp only [Option.map_some]
        by_cases hz : newFp = 0
        · rw [if_pos ((z0 newFp).mpr hz), if_pos hz]; rfl
        · rw [if_neg (fun h => hz ((z0 newFp).mp h)), if_neg hz]
          have es := hsaved regs.fp newFp rfl hfpv hz
          rw [es]
          have : (newFp + d ≤ regs.fp + d ∨ regs.fp + 16 + d ≤ regs.sp + d) ↔
              (newFp ≤ regs.fp ∨ regs.fp + 16 ≤ regs.sp) := by omega
          by_cases hle : newFp ≤ regs.fp ∨ regs.fp + 16 ≤ regs.sp
          · rw [if_pos (this.mpr hle), if_pos hle]; rfl
          · rw [if_neg (fun h => hle (this.mp h)), if_neg hle, ← es]
            exact fin _ _ _
  | offsetSpAndRestoreLr k l =>
    simp only [RuleA64.WF, U16, InI16] at hr
    simp only [execA64, hsp', hfp', hlr']
    rw [umul_eq _ (by unfold U64; omega), umul_eq _ (by unfold U64; omega)]
    obtain ⟨c1, c2⟩ := cadd_room hsp (off := k * 16) (by omega)
    rw [c1, c2]
    simp only []
    rw [imul_eq _ (by omega), imul_eq _ (by omega)]
    obtain ⟨loc, l1, l2, _⟩ := caddSigned_room hsp (b := l * 8) (by omega)
    rw [l1, l2]
    simp only [hm loc]
    cases mem loc with
    | none => rfl
    | some newLr => exact fin _ _ _
  | offsetSpAndRestoreFpAndLr k f l =>
    simp only [RuleA64.WF, U16, InI16] at hr
    simp only [execA64, hsp', hfp', hlr']
    rw [umul_eq _ (by unfold U64; omega), umul_eq _ (by unfold U64; omega)]
    obtain ⟨c1, c2⟩ := cadd_room hsp (off := k * 16) (by omega)
    rw [c1, c2]
    simp only []
    rw [imul_eq _ (by omega), imul_eq _ (by omega)]
    obtain ⟨loc, l1, l2, _⟩ := caddSigned_room hsp (b := l * 8) (by omega)
    rw [l1, l2]
    simp only [hm loc]
    cases mem loc with
    | none => rfl
    | some newLr =>
      simp only [Option.map_some]
      rw [imul_eq _ (by omega), imul_eq _ (by omega)]
      obtain ⟨floc, f1, f2, _⟩ := caddSigned_room hsp (b := f * 8) (by omega)
      rw [f1, f2]
      simp only [hm floc]
      cases mem floc with
      | none => rfl
      | some newFp => exact fin _ _ _
  | useFramepointerWithOffsets k f l =>
    simp only [RuleA64.WF, U16, InI16] at hr
    obtain ⟨efp, room⟩ := hfp rfl
    simp only [execA64, hsp', hfp', hlr', efp]
    rw [umul_eq _ (by unfold U64; omega), umul_eq _ (by unfold U64; omega)]
    obtain ⟨c1, c2⟩ := cadd_room room (off := k * 8) (by omega)
    rw [c1, c2]
    simp only []
    rw [imul_eq _ (by omega), imul_eq _ (by omega)]
    obtain ⟨loc, l1, l2, _⟩ := caddSigned_room room (b := l * 8) (by omega)
    rw [l1, l2]
    simp only [hm loc]
    cases mem loc with
    | none => rfl
    | some newLr =>
      simp only [Option.map_some]
      rw [imul_eq _ (by omega), imul_eq _ (by omega)]
      obtain ⟨floc, f1, f2, _⟩ := caddSigned_room room (b := f * 8) (by omega)
      rw [f1, f2]
      simp only [hm floc]
      cases hfv : mem floc with
      | none => rfl
      | some newFp =>
        simp only [Option.map_some]
        by_cases hz : newFp = 0
        · rw [if_pos ((z0 newFp).mpr hz), if_pos hz]; rfl
        · rw [if_neg (fun h => hz ((z0 newFp).mp h)), if_neg hz]
          have es := hsaved floc newFp (by simp [fpSlotA64, f1]) hfv hz
          rw [es]
          have : (newFp + d ≤ regs.fp + d ∨ regs.fp + k * 8 + d ≤ regs.sp + d) ↔
              (newFp ≤ regs.fp ∨ regs.fp + k * 8 ≤ regs.sp) := by omega
          by_cases hle : newFp ≤ regs.fp ∨ regs.fp + k * 8 ≤ regs.sp
          · rw [if_pos (this.mpr hle), if_pos hle]; rfl
          · rw [if_neg (fun h => hle (this.mp h)), if_neg hle, ← es]
            exact fin _ _ _

end FH
