/-!
# Selection of the unwind-data variant when a module is created
(`ModuleUnwindDataInternal::new`, `unwinder.rs`) - the only place where the optional cargo
features select behaviour.
-/
namespace FH

/-- The optional cargo features. -/
structure Features where
  std : Bool
  macho : Bool
  pe : Bool
  deriving DecidableEq, Repr

/-- Which sections a module's `ModuleSectionInfo` offers (`section_data(..)` is `Some`), and
whether building the `DwarfCfiIndex` over the section succeeds. -/
structure SectionsOffered where
  unwindInfo : Bool
  pdata : Bool
  ehFrame : Bool
  ehFrameHdr : Bool
  debugFrame : Bool
  ehIndexBuilds : Bool
  debugIndexBuilds : Bool
  deriving DecidableEq, Repr

/-- The variants of `ModuleUnwindDataInternal`. -/
inductive DataKind where
  | compactUnwindInfoAndEhFrame
  | peUnwindInfo
  | ehFrameHdrAndEhFrame
  | dwarfCfiIndexAndEhFrame
  | dwarfCfiIndexAndDebugFrame
  | none
  deriving DecidableEq, Repr

/-- `ModuleUnwindDataInternal::new`, with the `#[cfg(feature = ..)]` blocks as conditions. -/
def selectUnwindData (f : Features) (s : SectionsOffered) : DataKind :=
  if f.macho ∧ s.unwindInfo then .compactUnwindInfoAndEhFrame
  else if f.pe ∧ s.pdata then .peUnwindInfo
  else if s.ehFrame then
    if s.ehFrameHdr then .ehFrameHdrAndEhFrame
    else if s.ehIndexBuilds then .dwarfCfiIndexAndEhFrame else .none
  else if s.debugFrame then
    if s.debugIndexBuilds then .dwarfCfiIndexAndDebugFrame else .none
  else .none

end FH
