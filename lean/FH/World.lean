import FH.Modules
/-!
# The rule cache, `with_cache`, format dispatch, the generation counter and the iterator
(`rule_cache.rs`, `unwinder.rs`, `code_address.rs`)

Everything is parametrised by an `Arch` record so that the cache and history theorems
are proved once.
-/
namespace FH

/-- `FrameAddress` -/
inductive FrameAddr where
  | ip (a : Nat)
  | ret (a : Nat)      -- non-zero by construction (`NonZeroU64`)
  deriving DecidableEq, Repr, Inhabited

def FrameAddr.address : FrameAddr → Nat
  | .ip a => a
  | .ret a => a

/-- `address_for_lookup` -/
def FrameAddr.lookup : FrameAddr → Nat
  | .ip a => a
  | .ret a => a - 1

def FrameAddr.isReturn : FrameAddr → Bool
  | .ip _ => false
  | .ret _ => true

/-- What the format-specific code decides for `(module, relative address, first?)` before it
looks at registers or memory. -/
inductive Plan (Rule : Type) where
  | exec (r : Rule)        -- `UnwindResult::ExecRule`: cacheable
  | generic (row : Row)    -- translation failed: generic DWARF evaluation
  | pe (p : PePlan)        -- PE epilog simulation / operation interpreter
  | staticErr              -- an error that does not depend on the thread state
  | panic                  -- the format-specific code panics (before looking at registers)

structure Arch where
  Rule : Type
  Regs : Type
  exec : Rule → Bool → Regs → Mem → Out Regs
  fallback : Rule
  uncovered : Rule
  translate : Row → Option Rule
  generic : Row → Bool → Regs → Mem → GenOut Regs
  /-- PE: what the module's `.pdata`/`UNWIND_INFO` decide before registers are consulted
  (`none`: PE is not supported on this architecture), and the dynamic part. -/
  pePlan : List PeFunc → Nat → Bool → Option (PePlan × Option Rule)
  peRun : PePlan → Bool → Regs → Mem → GenOut Regs
  /-- Compact unwind info: the dispatch for this architecture (`none` = panic). -/
  cui : CuiData (CuiOpX64 × CuiOpA64) → Nat → Bool → Option (CuiRes Rule)

def archX64 : Arch where
  Rule := RuleX64
  Regs := RegsX64
  exec := execX64
  fallback := .useFramePointer
  uncovered := .justReturnIfFirstFrameOtherwiseFp
  translate := translateX64
  generic := genericX64
  pePlan := fun funcs rel first =>
    let p := FH.pePlan funcs rel first
    some (p, match p with | .exec r => some r | _ => none)
  peRun := FH.peRun
  cui := fun d rel first =>
    cuiDispatch d (fun op => cuiUnwindX64 op.1) .justReturn .justReturn stubHelperRuleX64 rel first

def archA64 : Arch where
  Rule := RuleA64
  Regs := RegsA64
  exec := execA64
  fallback := .useFramePointer
  uncovered := .noOpIfFirstFrameOtherwiseFp
  translate := translateA64
  generic := genericA64
  pePlan := fun _ _ _ => none
  peRun := fun _ _ _ _ => .err .couldNotRecoverCfa
  cui := fun d rel first =>
    cuiDispatch d (fun op => cuiUnwindA64 op.2) .noOp .noOp stubHelperRuleA64 rel first

/-- `unwind_frame_with_fde` once the FDE is known: its row for the address, translated if
possible; an address the FDE does not cover gets the architecture's "uncovered" rule. -/
def planForFde (A : Arch) (fde : Fde) (svma : Nat) : Plan A.Rule :=
  match fde.rowFor svma with
  | none => .exec A.uncovered
  | some r =>
    match A.translate r with
    | some rule => .exec rule
    | none => .generic r

/-- `unwind_frame_impl` up to the point where registers are consulted. -/
def plan (A : Arch) (m : Module) (rel : Nat) (_first : Bool) : Plan A.Rule :=
  match m.data with
  | .none => .staticErr
  | .macho d eh =>
    match A.cui d rel _first with
    | none => .panic
    | some .err => .staticErr
    | some (.exec r) => .exec r
    | some (.needDwarf fdeOff) =>
      match eh with
      | none => .staticErr                        -- `NoDwarfData`
      | some fdes =>
        if U64 ≤ m.baseSvma + rel then .staticErr  -- `base_svma.checked_add(rel)` fails
        else
        match fdes.find? (fun p => p.1 = fdeOff) with
        | none => .staticErr                      -- `FdeFromOffsetFailed`
        | some (_, fde) => planForFde A fde (m.baseSvma + rel)
  | .dwarf pres fdes =>
    match dwarfLookup pres fdes m.baseSvma rel with
    | .noData => .staticErr
    | .failed => .staticErr
    | .uncovered => .exec A.uncovered
    | .row r =>
      match A.translate r with
      | some rule => .exec rule
      | none => .generic r
  | .pe funcs =>
    match A.pePlan funcs rel _first with
    | none => .staticErr                       -- `Aarch64Unsupported`
    | some (_, some rule) => .exec rule
    | some (.staticErr, none) => .staticErr
    | some (p, none) => .pe p

/-! ## Rule cache -/

structure Entry (Rule : Type) where
  addr : Nat
  gen : Nat
  rule : Rule

structure Stats where
  hit : Nat := 0
  missEmpty : Nat := 0
  missWrongModules : Nat := 0
  missWrongAddress : Nat := 0
  deriving DecidableEq, Repr, Inhabited

structure Cache (Rule : Type) where
  slots : Nat → Option (Entry Rule)
  stats : Stats

def Cache.empty {Rule : Type} : Cache Rule := { slots := fun _ => none, stats := {} }

inductive LookupRes (Rule : Type) where
  | hit (r : Rule)
  | miss

/-- `RuleCache::lookup`: which counter is bumped and whether it is a hit. -/
def Cache.lookup {Rule : Type} (N : Nat) (c : Cache Rule) (addr gen : Nat) : Cache Rule × LookupRes Rule :=
  match c.slots (addr % N) with
  | none => ({ c with stats := { c.stats with missEmpty := c.stats.missEmpty + 1 } }, .miss)
  | some e =>
    if e.gen = gen then
      if e.addr = addr then
        ({ c with stats := { c.stats with hit := c.stats.hit + 1 } }, .hit e.rule)
      else
        ({ c with stats := { c.stats with missWrongAddress := c.stats.missWrongAddress + 1 } }, .miss)
    else
      ({ c with stats := { c.stats with missWrongModules := c.stats.missWrongModules + 1 } }, .miss)

/-- `RuleCache::insert` -/
def Cache.insert {Rule : Type} (N : Nat) (c : Cache Rule) (addr gen : Nat) (rule : Rule) : Cache Rule :=
  { c with slots := fun s => if s = addr % N then some ⟨addr, gen, rule⟩ else c.slots s }

/-! ## Unwinder -/

structure Unw where
  mods : List Module
  gen : Nat
  deriving Repr, Inhabited

/-- Convert the result of an uncacheable step: a null return address is the end of stack. -/
def resOfRa (ra : Nat) : Res := if ra = 0 then .done else .frame ra

/-- The part of `with_cache` after a miss. Returns the rule to insert (if any) and the outcome. -/
def missPath (A : Arch) (u : Unw) (addr : FrameAddr) (regs : A.Regs) (mem : Mem) :
    Option A.Rule × Out A.Regs :=
  let la := addr.lookup
  let first := !addr.isReturn
  match findModule u.mods la with
  | none => (some A.fallback, A.exec A.fallback first regs mem)
  | some (i, rel) =>
    match u.mods[i]? with
    | none => (some A.fallback, A.exec A.fallback first regs mem)   -- unreachable
    | some m =>
      match plan A m rel first with
      | .exec r => (some r, A.exec r first regs mem)
      | .staticErr => (some A.fallback, A.exec A.fallback first regs mem)
      | .panic => (none, .panic (.other 5))
      | .generic row =>
        match A.generic row first regs mem with
        | .ok ra regs' => (none, .ret (resOfRa ra) regs')
        | .err _ => (none, A.exec A.fallback first regs mem)
        | .panic s => (none, .panic s)
      | .pe p =>
        match A.peRun p first regs mem with
        | .ok ra regs' => (none, .ret (resOfRa ra) regs')
        | .err _ => (none, A.exec A.fallback first regs mem)
        | .panic s => (none, .panic s)

/-- `Unwinder::unwind_frame` (= `with_cache(.., unwind_frame_impl)`). -/
def unwindFrame (A : Arch) (N : Nat) (u : Unw) (c : Cache A.Rule) (addr : FrameAddr)
    (regs : A.Regs) (mem : Mem) : Cache A.Rule × Out A.Regs :=
  let la := addr.lookup
  let first := !addr.isReturn
  let lr := c.lookup N la u.gen
  match lr.2 with
  | .hit rule => (lr.1, A.exec rule first regs mem)
  | .miss =>
    let mp := missPath A u addr regs mem
    match mp.1 with
    | some rule => (lr.1.insert N la u.gen rule, mp.2)
    | none => (lr.1, mp.2)

/-- Whether a call dereferences the module's unwind section data: never on a cache hit; on
a miss exactly when the address lies in a module that has unwind data. -/
def touchesSections (A : Arch) (N : Nat) (u : Unw) (c : Cache A.Rule) (addr : FrameAddr) : Bool :=
  match (c.lookup N addr.lookup u.gen).2 with
  | .hit _ => false
  | .miss =>
    match findModule u.mods addr.lookup with
    | none => false
    | some (i, _) =>
      match u.mods[i]? with
      | none => false
      | some m =>
        match m.data with
        | .none => false
        | .dwarf _ _ => true
        | .pe _ => true
        | .macho _ _ => true

/-! ## Iterator (`UnwindIterator`) -/

inductive IterState where
  | initial (pc : Nat)
  | unwinding (a : FrameAddr)
  | done
  deriving DecidableEq, Repr, Inhabited

/-- One item of the iterator: `Ok(Some addr)`, `Ok(None)`, `Err e`. -/
inductive Item where
  | some (a : FrameAddr)
  | none
  | err (e : Err)
  deriving DecidableEq, Repr, Inhabited

structure Iter (A : Arch) where
  state : IterState
  regs : A.Regs

/-- `UnwindIterator::next`. A panic of the step is propagated as `Option.none`. -/
def Iter.next (A : Arch) (N : Nat) (u : Unw) (mem : Mem) (it : Iter A) (c : Cache A.Rule) :
    Option (Iter A × Cache A.Rule × Item) :=
  match it.state with
  | .initial pc => some ({ it with state := .unwinding (.ip pc) }, c, .some (.ip pc))
  | .done => some (it, c, .none)
  | .unwinding a =>
    match unwindFrame A N u c a it.regs mem with
    | (_, .panic _) => none
    | (c', .ret res regs') =>
      match res with
      | .err e => some ({ it with regs := regs' }, c', .err e)
      | .done => some ({ state := .done, regs := regs' }, c', .none)
      | .frame ra =>
        if ra = 0 then some ({ it with regs := regs' }, c', .err .returnAddressIsNull)
        else some ({ state := .unwinding (.ret ra), regs := regs' }, c', .some (.ret ra))

/-! ## Generation counter -/

/-- `next_global_modules_generation`: `fetch_add(1)` on an `AtomicU16`: returns the old
value, the counter wraps at 2^16. -/
def drawGen (counter : Nat) : Nat × Nat := (counter, (counter + 1) % U16)

end FH
