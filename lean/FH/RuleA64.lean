import FH.Regs
import FH.RuleX64
/-!
# `aarch64/unwind_rule.rs`
-/
namespace FH

inductive RuleA64 where
  | noOp
  | noOpIfFirstFrameOtherwiseFp
  | offsetSp (spOffsetBy16 : Nat)
  | offsetSpIfFirstFrameOtherwiseStackEndsHere (spOffsetBy16 : Nat)
  | offsetSpAndRestoreLr (spOffsetBy16 : Nat) (lrStorageOffsetFromSpBy8 : Int)
  | offsetSpAndRestoreFpAndLr (spOffsetBy16 : Nat) (fpStorageOffsetFromSpBy8 : Int)
      (lrStorageOffsetFromSpBy8 : Int)
  | useFramePointer
  | useFramepointerWithOffsets (spOffsetFromFpBy8 : Nat) (fpStorageOffsetFromFpBy8 : Int)
      (lrStorageOffsetFromFpBy8 : Int)
  deriving DecidableEq, Repr, Inhabited

def InI16 (b : Int) : Prop := -32768 ≤ b ∧ b < 32768

def RuleA64.WF : RuleA64 → Prop
  | .offsetSp k => k < U16
  | .offsetSpIfFirstFrameOtherwiseStackEndsHere k => k < U16
  | .offsetSpAndRestoreLr k l => k < U16 ∧ InI16 l
  | .offsetSpAndRestoreFpAndLr k f l => k < U16 ∧ InI16 f ∧ InI16 l
  | .useFramepointerWithOffsets k f l => k < U16 ∧ InI16 f ∧ InI16 l
  | _ => True

/-- Unchecked `u64 + u64`. -/
def uaddP (a b : Nat) (site : Site) (k : Nat → Out R) : Out R :=
  if a + b < U64 then k (a + b) else .panic site

/-- Common tail of `exec`: strip, null test, progress test, commit. -/
def finishA64 (first : Bool) (regs : RegsA64) (newLr newSp newFp : Nat) : Out RegsA64 :=
  let ra := strip regs.mask newLr
  if ra = 0 then .ret .done regs
  else if !first ∧ newSp = regs.sp then .ret (.err .didNotAdvance) regs
  else .ret (.frame ra) { (regs.setLr newLr) with sp := newSp, fp := newFp }

/-- `UnwindRuleAarch64::exec` -/
def execA64 (rule : RuleA64) (first : Bool) (regs : RegsA64) (mem : Mem) : Out RegsA64 :=
  let lr := regs.lr
  let sp := regs.sp
  let fp := regs.fp
  match rule with
  | .noOp =>
    if !first then .ret (.err .didNotAdvance) regs
    else finishA64 first regs lr sp fp
  | .noOpIfFirstFrameOtherwiseFp =>
    if first then finishA64 first regs lr sp fp
    else
      match cadd fp 16 with
      | none => .ret (.err .integerOverflow) regs
      | some newSp =>
        uaddP fp 8 .a64FpPlus8 fun lrLoc =>
        match mem lrLoc with
        | none => .ret (.err (.couldNotReadStack lrLoc)) regs
        | some newLr =>
          match mem fp with
          | none => .ret (.err (.couldNotReadStack fp)) regs
          | some newFp =>
            if newFp = 0 then .ret .done regs
            else if newSp ≤ sp then .ret (.err .fpMovedBackwards) regs
            else finishA64 first regs newLr newSp newFp
  | .offsetSpIfFirstFrameOtherwiseStackEndsHere k =>
    if !first then .ret .done regs
    else
      umul k 16 fun spOffset =>
      match cadd sp spOffset with
      | none => .ret (.err .integerOverflow) regs
      | some newSp => finishA64 first regs lr newSp fp
  | .offsetSp k =>
    if !first then .ret (.err .didNotAdvance) regs
    else
      umul k 16 fun spOffset =>
      match cadd sp spOffset with
      | none => .ret (.err .integerOverflow) regs
      | some newSp => finishA64 first regs lr newSp fp
  | .offsetSpAndRestoreLr k l =>
    umul k 16 fun spOffset =>
    match cadd sp spOffset with
    | none => .ret (.err .integerOverflow) regs
    | some newSp =>
      imul l 8 fun lrOff =>
      match caddSigned sp lrOff with
      | none => .ret (.err .integerOverflow) regs
      | some lrLoc =>
        match mem lrLoc with
        | none => .ret (.err (.couldNotReadStack lrLoc)) regs
        | some newLr => finishA64 first regs newLr newSp fp
  | .offsetSpAndRestoreFpAndLr k f l =>
    umul k 16 fun spOffset =>
    match cadd sp spOffset with
    | none => .ret (.err .integerOverflow) regs
    | some newSp =>
      imul l 8 fun lrOff =>
      match caddSigned sp lrOff with
      | none => .ret (.err .integerOverflow) regs
      | some lrLoc =>
        match mem lrLoc with
        | none => .ret (.err (.couldNotReadStack lrLoc)) regs
        | some newLr =>
          imul f 8 fun fpOff =>
          match caddSigned sp fpOff with
          | none => .ret (.err .integerOverflow) regs
          | some fpLoc =>
            match mem fpLoc with
            | none => .ret (.err (.couldNotReadStack fpLoc)) regs
            | some newFp => finishA64 first regs newLr newSp newFp
  | .useFramePointer =>
    match cadd fp 16 with
    | none => .ret (.err .integerOverflow) regs
    | some newSp =>
      uaddP fp 8 .a64FpPlus8 fun lrLoc =>
      match mem lrLoc with
      | none => .ret (.err (.couldNotReadStack lrLoc)) regs
      | some newLr =>
        match mem fp with
        | none => .ret (.err (.couldNotReadStack fp)) regs
        | some newFp =>
          if newFp = 0 then .ret .done regs
          else if newFp ≤ fp ∨ newSp ≤ sp then .ret (.err .fpMovedBackwards) regs
          else finishA64 first regs newLr newSp newFp
  | .useFramepointerWithOffsets k f l =>
    umul k 8 fun spOffsetFromFp =>
    match cadd fp spOffsetFromFp with
    | none => .ret (.err .integerOverflow) regs
    | some newSp =>
      imul l 8 fun lrOff =>
      match caddSigned fp lrOff with
      | none => .ret (.err .integerOverflow) regs
      | some lrLoc =>
        match mem lrLoc with
        | none => .ret (.err (.couldNotReadStack lrLoc)) regs
        | some newLr =>
          imul f 8 fun fpOff =>
          match caddSigned fp fpOff with
          | none => .ret (.err .integerOverflow) regs
          | some fpLoc =>
            match mem fpLoc with
            | none => .ret (.err (.couldNotReadStack fpLoc)) regs
            | some newFp =>
              if newFp = 0 then .ret .done regs
              else if newFp ≤ fp ∨ newSp ≤ sp then .ret (.err .fpMovedBackwards) regs
              else finishA64 first regs newLr newSp newFp

end FH
