import FH.PeLemmas
/-!
# PE: unwinding from the body of a function with a standard prolog (C03)

The prolog `push r…; sub rsp, n; lea fr, [rsp + fo]; mov [rsp + off], r…` leaves a frame that
the Microsoft x64 documentation describes: with `A` the stack pointer after the allocation
("the established frame base" minus `fo`), the mov-saved registers sit at `A + off`, the
allocation is `[A, A + n)`, above it the pushed registers, then the return address. The unwind
codes, in array order, are the saves, `UWOP_SET_FPREG`, the allocation, the pushes.
`interpOps` on these operations computes exactly what that layout says - for any register
values in the body (with a frame register, *any* `rsp`: dynamic allocations), any stack contents.
-/
namespace FH

/-- Pops do not depend on the frame register. -/
theorem interpOps_pops_frameless (fr : Option Nat) (fo : Nat) (mem : Mem) :
    ∀ (pes : List Nat) (r : Nat → Nat),
      interpOps fr fo mem (pes.map .popNonVolatile) r = interpOps none 0 mem (pes.map .popNonVolatile) r
  | [], r => rfl
  | pe :: rest, r => by
    simp only [List.map_cons, interpOps, resolveOp]
    cases mem (r RSP) with
    | none => rfl
    | some v =>
      simp only []
      by_cases h : r RSP + 8 < U64
      · simp only [h, if_true]
        exact interpOps_pops_frameless fr fo mem rest _
      · simp only [h, if_false]

/-- The frame base condition: where `UWOP_SAVE_NONVOL` offsets are counted from. -/
def BaseIs (fr : Option Nat) (fo A : Nat) (r : Nat → Nat) : Prop :=
  match fr with
  | none => r RSP = A
  | some f => r (peReg f) = A + fo

/-- Restoring the mov-saved registers from their slots. -/
def restoreSaves (mem : Mem) (A : Nat) : List (Nat × Nat) → (Nat → Nat) → Nat → Nat
  | [], r => r
  | (reg, off) :: rest, r => restoreSaves mem A rest (setReg r (peReg reg) ((mem (A + off)).getD 0))

theorem interpOps_saves (fr : Option Nat) (fo A : Nat) (mem : Mem) (rest : List PeOp) :
    ∀ (saves : List (Nat × Nat)) (r : Nat → Nat), BaseIs fr fo A r →
      (∀ p ∈ saves, peReg p.1 ≠ RSP ∧ (∀ f, fr = some f → peReg p.1 ≠ peReg f) ∧
        mem (A + p.2) ≠ none ∧ A + p.2 < U64) →
      interpOps fr fo mem (saves.map (fun p => .readNonVolatile p.1 p.2) ++ rest) r =
        interpOps fr fo mem rest (restoreSaves mem A saves r) ∧
      BaseIs fr fo A (restoreSaves mem A saves r) ∧
      (restoreSaves mem A saves r) RSP = r RSP
  | [], r, hb, _ => ⟨rfl, hb, rfl⟩
  | (reg, off) :: more, r, hb, hs => by
    obtain ⟨h1, h2, h3, h4⟩ := hs (reg, off) (by simp)
    simp only [] at h1 h2 h3 h4
    cases hv : mem (A + off) with
    | none => exact absurd hv h3
    | some v =>
      have hb' : BaseIs fr fo A (setReg r (peReg reg) v) := by
        cases fr with
        | none => simp only [BaseIs] at hb ⊢; rw [setReg_other _ _ _ _ (Ne.symm h1)]; exact hb
        | some f =>
          simp only [BaseIs] at hb ⊢
          rw [setReg_other _ _ _ _ (Ne.symm (h2 f rfl))]; exact hb
      have ih := interpOps_saves fr fo A mem rest more (setReg r (peReg reg) v) hb'
        (fun p hp => hs p (by simp [hp]))
      have hres : resolveOp fr fo mem r (.readNonVolatile reg off) = .cont (setReg r (peReg reg) v) := by
        cases fr with
        | none =>
          simp only [BaseIs] at hb
          simp only [resolveOp, hb, h4, if_true, hv]
        | some f =>
          simp only [BaseIs] at hb
          have c : fo ≤ r (peReg f) ∧ r (peReg f) - fo + off < U64 := by omega
          have e : r (peReg f) - fo + off = A + off := by omega
          simp only [resolveOp, c.1, e, h4, true_and, if_true, hv]
      simp only [List.map_cons, List.cons_append, interpOps, hres, restoreSaves, hv, Option.getD_some]
      refine ⟨ih.1, ih.2.1, ?_⟩
      rw [ih.2.2, setReg_other _ _ _ _ (Ne.symm h1)]

/-- **Unwinding from the body.** -/
theorem interpOps_body (fr : Option Nat) (fo A n : Nat) (mem : Mem) (saves : List (Nat × Nat))
    (pops : List Nat) (r : Nat → Nat) (ra : Nat) (r' : Nat → Nat)
    (hb : BaseIs fr fo A r)
    (hs : ∀ p ∈ saves, peReg p.1 ≠ RSP ∧ (∀ f, fr = some f → peReg p.1 ≠ peReg f) ∧
      mem (A + p.2) ≠ none ∧ A + p.2 < U64)
    (hn : RSP ∉ pops.map peReg) (hlt : A + n + 8 * pops.length + 8 < U64)
    (hspec : popSpecLoop mem (pops.map peReg) (A + n)
      (setReg (restoreSaves mem A saves r) RSP (A + n)) = some (ra, r')) :
    interpOps fr fo mem
      (saves.map (fun p => .readNonVolatile p.1 p.2) ++
        ((if fr.isSome then [.restoreSPFromFP] else []) ++ ([.unStackAlloc n] ++
          pops.map .popNonVolatile))) r = .ok ra r' := by
  obtain ⟨e1, hb1, hsp1⟩ := interpOps_saves fr fo A mem
    ((if fr.isSome then [.restoreSPFromFP] else []) ++ ([.unStackAlloc n] ++ pops.map .popNonVolatile))
    saves r hb hs
  rw [e1]
  generalize restoreSaves mem A saves r = r1 at hb1 hsp1 hspec ⊢
  -- after UWOP_SET_FPREG (if any) rsp is the frame base
  have step2 : interpOps fr fo mem
      ((if fr.isSome then [.restoreSPFromFP] else []) ++ ([.unStackAlloc n] ++ pops.map .popNonVolatile)) r1 =
      interpOps fr fo mem ([.unStackAlloc n] ++ pops.map .popNonVolatile) (setReg r1 RSP A) := by
    cases fr with
    | none =>
      simp only [BaseIs] at hb1
      have : setReg r1 RSP A = r1 := by
        funext j; unfold setReg; by_cases hj : j = RSP <;> simp [hj, hb1]
      simp [this]
    | some f =>
      simp only [BaseIs] at hb1
      have : fo ≤ r1 (peReg f) := by omega
      have e : r1 (peReg f) - fo = A := by omega
      simp only [Option.isSome_some, if_true, List.cons_append, List.nil_append, interpOps, resolveOp,
        this, if_true, e]
  rw [step2]
  have hA : setReg r1 RSP A RSP + n < U64 := by simp; omega
  simp only [List.cons_append, List.nil_append, interpOps, resolveOp, hA, if_true]
  rw [interpOps_pops_frameless]
  have e3 : setReg (setReg r1 RSP A) RSP (setReg r1 RSP A RSP + n) = setReg r1 RSP (A + n) := by
    funext j; unfold setReg; by_cases hj : j = RSP <;> simp [hj]
  rw [e3]
  apply interpOps_pops_of_spec mem pops (setReg r1 RSP (A + n)) ra r' hn
  · simp; omega
  · simpa using hspec

end FH

namespace FH

/-- **Unwinding from any point of the prolog** `push…; sub rsp, n; lea fr, [rsp+fo]; mov […], r…`:
the operations that apply at a prolog offset are those of the instructions already executed
(`gatherOps` keeps the codes whose offset is not above the pc's). `allocDone` / `setfpDone` say
how far the thread got, `pops` are the pushes executed so far, `saves` the movs executed so far
(none before the allocation; with a frame register none before it is set). -/
theorem interpOps_prolog_prefix (fr : Option Nat) (fo A n : Nat) (mem : Mem)
    (saves : List (Nat × Nat)) (pops : List Nat) (allocDone setfpDone : Bool) (r : Nat → Nat)
    (ra : Nat) (r' : Nat → Nat)
    (hbase : if setfpDone then ∃ f, fr = some f ∧ r (peReg f) = A + fo
      else r RSP = (if allocDone then A else A + n))
    (horder : (setfpDone = true → allocDone = true) ∧
      (saves ≠ [] → allocDone = true ∧ (setfpDone = true ∨ fr = none)))
    (hs : ∀ p ∈ saves, peReg p.1 ≠ RSP ∧ (∀ f, fr = some f → peReg p.1 ≠ peReg f) ∧
      mem (A + p.2) ≠ none ∧ A + p.2 < U64)
    (hn : RSP ∉ pops.map peReg) (hlt : A + n + 8 * pops.length + 8 < U64)
    (hspec : popSpecLoop mem (pops.map peReg) (A + n)
      (setReg (restoreSaves mem A saves r) RSP (A + n)) = some (ra, r')) :
    interpOps fr fo mem
      (saves.map (fun p => .readNonVolatile p.1 p.2) ++
        ((if setfpDone then [.restoreSPFromFP] else []) ++ ((if allocDone then [.unStackAlloc n] else []) ++
          pops.map .popNonVolatile))) r = .ok ra r' := by
  -- the saves (if any) see the frame base
  have hb : saves ≠ [] → BaseIs fr fo A r := by
    intro hne
    obtain ⟨ha, hf⟩ := horder.2 hne
    rcases hf with hf | hf
    · simp only [hf, if_true] at hbase
      obtain ⟨f, e1, e2⟩ := hbase
      subst e1; exact e2
    · subst hf
      cases setfpDone with
      | true => simp only [if_true] at hbase; obtain ⟨f, e1, _⟩ := hbase; cases e1
      | false => simp only [Bool.false_eq_true, if_false, ha, if_true] at hbase; exact hbase
  have e1 : interpOps fr fo mem
      (saves.map (fun p => .readNonVolatile p.1 p.2) ++
        ((if setfpDone then [.restoreSPFromFP] else []) ++ ((if allocDone then [.unStackAlloc n] else []) ++
          pops.map .popNonVolatile))) r =
      interpOps fr fo mem ((if setfpDone then [.restoreSPFromFP] else []) ++
        ((if allocDone then [.unStackAlloc n] else []) ++ pops.map .popNonVolatile))
        (restoreSaves mem A saves r) ∧
      (restoreSaves mem A saves r) RSP = r RSP ∧
      (∀ f, fr = some f → restoreSaves mem A saves r (peReg f) = r (peReg f)) := by
    cases saves with
    | nil => exact ⟨rfl, rfl, fun _ _ => rfl⟩
    | cons p more =>
      have hbb := hb (by simp)
      obtain ⟨a, b, c⟩ := interpOps_saves fr fo A mem
        ((if setfpDone then [.restoreSPFromFP] else []) ++
          ((if allocDone then [.unStackAlloc n] else []) ++ pops.map .popNonVolatile)) (p :: more) r hbb hs
      refine ⟨a, c, ?_⟩
      intro f hf
      subst hf
      simp only [BaseIs] at hbb b
      rw [b, hbb]
  obtain ⟨e1a, e1b, e1c⟩ := e1
  rw [e1a]
  generalize restoreSaves mem A saves r = r1 at e1b e1c hspec ⊢
  -- UWOP_SET_FPREG
  have e2 : interpOps fr fo mem ((if setfpDone then [.restoreSPFromFP] else []) ++
        ((if allocDone then [.unStackAlloc n] else []) ++ pops.map .popNonVolatile)) r1 =
      interpOps fr fo mem ((if allocDone then [.unStackAlloc n] else []) ++ pops.map .popNonVolatile)
        (setReg r1 RSP (if allocDone then A else A + n)) := by
    cases setfpDone with
    | false =>
      simp only [Bool.false_eq_true, if_false] at hbase
      have : setReg r1 RSP (if allocDone then A else A + n) = r1 := by
        funext j; unfold setReg; by_cases hj : j = RSP
        · subst hj; simp [e1b, hbase]
        · simp [hj]
      simp [this]
    | true =>
      simp only [if_true] at hbase
      obtain ⟨f, ef, ebase⟩ := hbase
      subst ef
      have hal := horder.1 rfl
      have hv : r1 (peReg f) = A + fo := by rw [e1c f rfl]; exact ebase
      have c1 : fo ≤ r1 (peReg f) := by omega
      have c2 : r1 (peReg f) - fo = A := by omega
      simp only [if_true, List.cons_append, List.nil_append, interpOps, resolveOp, c1, c2, hal]
  rw [e2]
  -- the allocation
  have e3 : interpOps fr fo mem ((if allocDone then [.unStackAlloc n] else []) ++ pops.map .popNonVolatile)
        (setReg r1 RSP (if allocDone then A else A + n)) =
      interpOps fr fo mem (pops.map .popNonVolatile) (setReg r1 RSP (A + n)) := by
    cases allocDone with
    | false => simp
    | true =>
      have hA : setReg r1 RSP A RSP + n < U64 := by simp; omega
      simp only [if_true, List.cons_append, List.nil_append, interpOps, resolveOp, hA]
      congr 1
      funext j; unfold setReg; by_cases hj : j = RSP <;> simp [hj]
  rw [e3, interpOps_pops_frameless]
  apply interpOps_pops_of_spec mem pops (setReg r1 RSP (A + n)) ra r' hn
  · simp; omega
  · simpa using hspec

end FH

namespace FH

/-- On a code array sorted by descending prolog offset (as UNWIND_INFO stores it) skipping the
leading codes whose offset lies above the pc's keeps exactly the codes of the instructions that
have been executed. -/
theorem dropWhile_gt_eq_filter_le (o : Nat) : ∀ (l : List (Nat × PeOp)),
    l.Pairwise (fun a b => a.1 ≥ b.1) →
    l.dropWhile (fun p => p.1 > o) = l.filter (fun p => p.1 ≤ o)
  | [], _ => rfl
  | p :: rest, h => by
    have hr := (List.pairwise_cons.mp h).2
    have hp := (List.pairwise_cons.mp h).1
    by_cases hgt : p.1 > o
    · have : ¬ p.1 ≤ o := by omega
      simp only [List.dropWhile_cons, hgt, decide_true, if_true, List.filter_cons, this, decide_false,
        Bool.false_eq_true, if_false]
      exact dropWhile_gt_eq_filter_le o rest hr
    · have hle : p.1 ≤ o := by omega
      simp only [List.dropWhile_cons, hgt, decide_false, Bool.false_eq_true, if_false, List.filter_cons,
        hle, decide_true, if_true]
      congr 1
      symm
      apply List.filter_eq_self.mpr
      intro q hq
      have := hp q hq
      simp only [decide_eq_true_eq]
      omega

theorem gatherOps_single (codes : List (Nat × PeOp)) (o : Nat)
    (hsorted : codes.Pairwise (fun a b => a.1 ≥ b.1)) :
    gatherOps [⟨codes⟩] o = (codes.filter (fun p => p.1 ≤ o)).map (·.2) := by
  simp [gatherOps, dropWhile_gt_eq_filter_le o codes hsorted]

end FH
