import FH.RuleX64
/-!
# x86-64 instruction analysis (`x86_64/instruction_analysis/{prologue,epilogue}.rs`)

Text bytes are a `List Nat` (each `< 256`). Slice index panics are explicit (`none` of the
outer option = panic).
-/
namespace FH

def byteAt (l : List Nat) (i : Nat) : Nat := l.getD i 0

/-- `is_next_instruction_expected_in_prologue` -/
def nextExpectedInPrologueX64 (b : List Nat) : Bool :=
  if b.length < 4 then false
  else
    let b0 := byteAt b 0
    let b1 := byteAt b 1
    let b2 := byteAt b 2
    (b0 &&& 0xf8 == 0x50) ||
    (b0 &&& 0xfe == 0x40 && b1 &&& 0xf8 == 0x50) ||
    (b0 == 0x83 && b1 == 0xec) ||
    (b0 == 0x48 && b1 == 0x83 && b2 == 0xec) ||
    (b0 == 0x81 && b1 == 0xec) ||
    (b0 == 0x48 && b1 == 0x81 && b2 == 0xec) ||
    (b0 == 0x48 && b1 == 0x89 && b2 == 0xe5)

/-- The backward scan over `slice_from_start`, written over the *reversed* prefix (`rev` = the
bytes before pc, nearest first; `cursor` of the Rust loop = `rev.length`). `fuel` bounds the
iterations (each consumes at least one byte). Returns `none` when the `u16` counter would
overflow. -/
def prologueScanX64 : Nat → List Nat → Nat → Option RuleX64
  | 0, _, spBy8 => if spBy8 + 1 < U16 then some (.offsetSp (spBy8 + 1)) else none
  | fuel + 1, rev, spBy8 =>
    if rev.take 4 = [0xe5, 0x89, 0x48, 0x55] then
      some .useFramePointer
    else
      match rev with
      | b :: rest =>
        if b &&& 0xf8 = 0x50 then
          if spBy8 + 1 < U16 then
            match rest with
            | p :: rest2 =>
              if p &&& 0xfe = 0x40 then prologueScanX64 fuel rest2 (spBy8 + 1)
              else prologueScanX64 fuel rest (spBy8 + 1)
            | [] => prologueScanX64 fuel rest (spBy8 + 1)
          else none
        else if spBy8 + 1 < U16 then some (.offsetSp (spBy8 + 1)) else none
      | [] => if spBy8 + 1 < U16 then some (.offsetSp (spBy8 + 1)) else none

/-- `unwind_rule_from_detected_prologue`. Outer `none`: panic (`split_at` out of range). -/
def anaPrologueX64 (text : List Nat) (pc : Nat) : Option (Option RuleX64) :=
  if pc > text.length then none
  else
    let fromStart := text.take pc
    let toEnd := text.drop pc
    if !nextExpectedInPrologueX64 toEnd then some none
    else some (prologueScanX64 (fromStart.length + 1) fromStart.reverse 0)

/-- The forward scan of `unwind_rule_from_detected_epilogue`. `prevIsPop`: the byte before pc
looks like a `pop`. -/
def epilogueScanX64 (prevIsPop : Bool) : List Nat → Nat → Option Nat → Nat → Option RuleX64
  | _, _, _, 0 => none
  | [], _, _, _ => none
  | b0 :: rest, spBy8, bpOff, fuel + 1 =>
    let finish : Option RuleX64 :=
      if spBy8 = 0 then some .justReturn
      else if spBy8 + 1 < U16 then
        match bpOff with
        | some b => some (.offsetSpAndRestoreBp (spBy8 + 1) b)
        | none => some (.offsetSp (spBy8 + 1))
      else none
    if b0 = 0xc3 then finish
    else if b0 = 0xeb ∨ b0 = 0xe9 ∨ b0 = 0xff then
      if spBy8 ≠ 0 then finish
      else if prevIsPop then finish
      else none
    else if b0 = 0x5d then
      if spBy8 < 32768 ∧ spBy8 + 1 < U16 then epilogueScanX64 prevIsPop rest (spBy8 + 1) (some spBy8) fuel
      else none
    else if 0x58 ≤ b0 ∧ b0 ≤ 0x5f then
      if spBy8 + 1 < U16 then epilogueScanX64 prevIsPop rest (spBy8 + 1) bpOff fuel else none
    else if rest.length ≥ 1 ∧ b0 &&& 0xfe = 0x40 ∧ byteAt rest 0 &&& 0xf8 = 0x58 then
      if spBy8 + 1 < U16 then epilogueScanX64 prevIsPop (rest.drop 1) (spBy8 + 1) bpOff fuel else none
    else none

def anaEpilogueX64 (text : List Nat) (pc : Nat) : Option (Option RuleX64) :=
  if pc > text.length then none
  else
    let fromStart := text.take pc
    let toEnd := text.drop pc
    let n := fromStart.length
    let prevIsPop := (match fromStart.getLast? with
      | some b => b &&& 0xf8 == 0x58
      | none => false) ||
      -- `add rsp, imm8` / `add rsp, imm32` right before the jump
      (decide (n ≥ 4) && (fromStart.drop (n - 4)).take 3 == [0x48, 0x83, 0xc4]) ||
      (decide (n ≥ 7) && (fromStart.drop (n - 7)).take 3 == [0x48, 0x81, 0xc4])
    some (epilogueScanX64 prevIsPop toEnd 0 none (toEnd.length + 1))

/-- `rule_from_instruction_analysis`: prologue analysis first, then epilogue analysis. -/
def anaX64 (text : List Nat) (pc : Nat) : Option (Option RuleX64) :=
  match anaPrologueX64 text pc with
  | none => none
  | some (some r) => some (some r)
  | some none => anaEpilogueX64 text pc

end FH
