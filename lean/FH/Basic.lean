/-!
# Basic definitions shared by the whole model

Numbers are `Nat`/`Int`; the machine word bound `2^64` is explicit wherever the Rust code
relies on it. A Rust panic (unchecked arithmetic in an overflow-checked build, slice
index out of range, `unwrap` on `None`) is an explicit outcome `Out.panic`, so "never
panics" is a statement about the model, not an artefact of totality in Lean.
-/
namespace FH

/-- `2^64`. -/
def U64 : Nat := 18446744073709551616
/-- `2^63`. -/
def I64 : Nat := 9223372036854775808
/-- `2^32`. -/
def U32 : Nat := 4294967296
/-- `2^16`. -/
def U16 : Nat := 65536
/-- `2^15`. -/
def I16 : Nat := 32768

/-- `framehop::Error` -/
inductive Err where
  | couldNotReadStack (addr : Nat)
  | fpMovedBackwards
  | didNotAdvance
  | integerOverflow
  | returnAddressIsNull
  deriving DecidableEq, Repr, Inhabited

/-- `Result<Option<u64>, Error>` as returned by `unwind_frame` / rule `exec`. -/
inductive Res where
  | frame (ra : Nat)
  | done
  | err (e : Err)
  deriving DecidableEq, Repr, Inhabited

/-- Places where the Rust code can panic (in an overflow-checked build). -/
inductive Site where
  | a64FpPlus8            -- `fp + 8` in the aarch64 frame pointer rules
  | ptrAuthShift          -- `u64::MAX >> 64`
  | lookupMinus1          -- `address - 1` for a zero return address (excluded by NonZeroU64)
  | other (n : Nat)
  deriving DecidableEq, Repr, Inhabited

/-- Outcome of a model function: a result plus the register file after the call
(the Rust code mutates `regs` in place, also on some error paths), or a panic. -/
inductive Out (R : Type) where
  | ret (res : Res) (regs : R)
  | panic (site : Site)
  deriving Repr

/-- A stack reader: any contents, any subset of addresses failing. -/
abbrev Mem := Nat → Option Nat

/-- All values a reader returns are 64-bit. -/
def Mem.WF (m : Mem) : Prop := ∀ a v, m a = some v → v < U64

/-- `u64::checked_add`. -/
def cadd (a b : Nat) : Option Nat := if a + b < U64 then some (a + b) else none

/-- `AddSigned::wrapping_add_signed` for `u64` (`self.wrapping_add(rhs as u64)`). -/
def wrappingAddSigned (a : Nat) (b : Int) : Nat := (((a : Int) + b) % 18446744073709551616).toNat

/-- `AddSigned::checked_add_signed` for `u64`, as written in `add_signed.rs`
(wrapping add, then compare with the left operand). -/
def caddSigned (a : Nat) (b : Int) : Option Nat :=
  let res := wrappingAddSigned a b
  if (b ≥ 0 ∧ res ≥ a) ∨ (b < 0 ∧ res < a) then some res else none

/-- The mathematical meaning of a checked signed add. -/
def caddSignedSpec (a : Nat) (b : Int) : Option Nat :=
  if 0 ≤ (a : Int) + b ∧ (a : Int) + b < 18446744073709551616 then some ((a : Int) + b).toNat else none

theorem cadd_some {a b r : Nat} (h : cadd a b = some r) : r = a + b ∧ a + b < U64 := by
  unfold cadd at h; split at h <;> simp_all

theorem cadd_none {a b : Nat} (h : cadd a b = none) : U64 ≤ a + b := by
  unfold cadd at h; split at h <;> simp_all

/-- `checked_add_signed` as implemented equals the mathematical definition on the whole
`u64 × i64` domain. -/
theorem caddSigned_eq_spec (a : Nat) (b : Int) (ha : a < U64)
    (hb1 : -9223372036854775808 ≤ b) (hb2 : b < 9223372036854775808) :
    caddSigned a b = caddSignedSpec a b := by
  unfold caddSigned caddSignedSpec wrappingAddSigned
  unfold U64 at ha
  simp only []
  by_cases hneg : b < 0
  · by_cases hlo : 0 ≤ (a : Int) + b
    · have h1 : ((a : Int) + b) % 18446744073709551616 = (a : Int) + b := by omega
      rw [h1]
      have h2 : ((a : Int) + b).toNat < a := by omega
      have h3 : ¬ (b ≥ 0) := by omega
      have h4 : (a : Int) + b < 18446744073709551616 := by omega
      simp [h2, h3, hneg, hlo, h4]
    · have h1 : ((a : Int) + b) % 18446744073709551616
          = (a : Int) + b + 18446744073709551616 := by omega
      rw [h1]
      have h2 : ¬ (((a : Int) + b + 18446744073709551616).toNat < a) := by omega
      have h3 : ¬ (b ≥ 0) := by omega
      simp [h2, h3, hlo]
  · by_cases hhi : (a : Int) + b < 18446744073709551616
    · have h1 : ((a : Int) + b) % 18446744073709551616 = (a : Int) + b := by omega
      rw [h1]
      have h2 : ((a : Int) + b).toNat ≥ a := by omega
      have h3 : b ≥ 0 := by omega
      have h4 : 0 ≤ (a : Int) + b := by omega
      simp [h2, h3, h4, hhi]
    · have h1 : ((a : Int) + b) % 18446744073709551616
          = (a : Int) + b - 18446744073709551616 := by omega
      rw [h1]
      have h2 : ¬ (((a : Int) + b - 18446744073709551616).toNat ≥ a) := by omega
      have h3 : b ≥ 0 := by omega
      simp [h2, h3, hneg, hhi]

theorem caddSigned_some {a : Nat} {b : Int} {r : Nat} (ha : a < U64)
    (hb1 : -9223372036854775808 ≤ b) (hb2 : b < 9223372036854775808) (h : caddSigned a b = some r) :
    (r : Int) = (a : Int) + b ∧ r < U64 := by
  rw [caddSigned_eq_spec a b ha hb1 hb2] at h
  unfold caddSignedSpec at h
  split at h
  · simp at h; subst h; unfold U64 at *; omega
  · simp at h

end FH
