import FH.RuleLemmas
/-!
# Abstract progress argument for stack walks (used by C10)

A walk is a sequence of `(address, sp)` states. Every successful caller-frame step of
framehop satisfies `Advances`: the stack pointer does not decrease, and when it stays the
same the new address was read from `[sp - 8]` and differs from the old one. From this alone
no state can repeat, and every third state has a strictly larger stack pointer.
-/
namespace FH

structure St where
  ip : Nat
  sp : Nat
  deriving DecidableEq, Repr

/-- What one successful caller-frame step guarantees. -/
def Advances (mem : Mem) (s s' : St) : Prop :=
  s.sp ≤ s'.sp ∧ (s'.sp = s.sp → mem (s.sp - 8) = some s'.ip ∧ s'.ip ≠ s.ip)

theorem walk_sp_mono {mem : Mem} {f : Nat → St} {n : Nat}
    (h : ∀ i, i < n → Advances mem (f i) (f (i + 1))) :
    ∀ i j, i ≤ j → j ≤ n → (f i).sp ≤ (f j).sp := by
  intro i j hij
  induction j with
  | zero => intro _; have : i = 0 := by omega
            subst this; exact Nat.le_refl _
  | succ k ih =>
    intro hk
    by_cases e : i = k + 1
    · subst e; exact Nat.le_refl _
    · have := ih (by omega) (by omega)
      have := (h k (by omega)).1
      omega

theorem walk_two_steps {mem : Mem} {f : Nat → St} {n : Nat}
    (h : ∀ i, i < n → Advances mem (f i) (f (i + 1))) (i : Nat) (hi : i + 2 ≤ n) :
    (f i).sp < (f (i + 2)).sp := by
  have a := h i (by omega)
  have b := h (i + 1) (by omega)
  have e : i + 1 + 1 = i + 2 := rfl
  rw [e] at b
  by_cases e1 : (f (i + 1)).sp = (f i).sp
  · by_cases e2 : (f (i + 2)).sp = (f (i + 1)).sp
    · have ⟨r1, _⟩ := a.2 e1
      have ⟨r2, ne⟩ := b.2 e2
      rw [e1, r1] at r2
      injection r2 with r2
      exact (ne r2.symm).elim
    · have := b.1; omega
  · have := a.1; have := b.1; omega

/-- No `(address, sp)` state is visited twice. -/
theorem walk_no_repeat {mem : Mem} {f : Nat → St} {n : Nat}
    (h : ∀ i, i < n → Advances mem (f i) (f (i + 1))) :
    ∀ i j, i < j → j ≤ n → f i ≠ f j := by
  intro i j hij hj heq
  by_cases e : j = i + 1
  · subst e
    have a := h i (by omega)
    have := a.2 (by rw [← heq])
    exact this.2 (by rw [← heq])
  · have t := walk_two_steps h i (by omega)
    have m := walk_sp_mono h (i + 2) j (by omega) hj
    rw [← heq] at m
    omega

/-- A walk that starts at `sp₀` has, after `2k` caller-frame steps, a stack pointer of at
least `sp₀ + k`; since stack pointers are below `2^64`, every walk is finite. -/
theorem walk_sp_lower_bound {mem : Mem} {f : Nat → St} {n : Nat}
    (h : ∀ i, i < n → Advances mem (f i) (f (i + 1))) :
    ∀ k, 2 * k ≤ n → (f 0).sp + k ≤ (f (2 * k)).sp := by
  intro k
  induction k with
  | zero => intro _; simp
  | succ k ih =>
    intro hk
    have := ih (by omega)
    have t := walk_two_steps h (2 * k) (by omega)
    have e : 2 * (k + 1) = 2 * k + 2 := by omega
    rw [e]
    omega

theorem walk_length_bounded {mem : Mem} {f : Nat → St} {n : Nat}
    (h : ∀ i, i < n → Advances mem (f i) (f (i + 1)))
    (hb : ∀ i, i ≤ n → (f i).sp < U64) : n < 2 * U64 + 2 := by
  by_cases hn : n < 2 * U64 + 2
  · exact hn
  · have := walk_sp_lower_bound h (U64 + 1) (by omega)
    have := hb (2 * (U64 + 1)) (by omega)
    omega

/-- Strictly increasing stack pointers trivially advance (aarch64, generic DWARF, PE). -/
theorem advances_of_lt {mem : Mem} {s s' : St} (h : s.sp < s'.sp) : Advances mem s s' :=
  ⟨Nat.le_of_lt h, fun e => by omega⟩

/-- A successful x86-64 rule step advances in the above sense. -/
theorem advances_of_frameX64 {regs regs' : RegsX64} {ra : Nat} {mem : Mem}
    (h : FrameX64 regs regs' ra mem) :
    Advances mem ⟨regs.ip, regs.sp⟩ ⟨regs'.ip, regs'.sp⟩ := by
  refine ⟨h.sp_mono, fun e => ?_⟩
  simp only [] at e
  have r := h.ra_read
  rw [e] at r
  refine ⟨by rw [h.ip_eq]; exact r, ?_⟩
  intro c
  apply h.advance
  exact ⟨e, by rw [← h.ip_eq]; exact c⟩

end FH
