import FH.Regs
/-!
# `x86_64/unwind_rule.rs` and `x86_64/register_ordering.rs`

`execX64` follows `UnwindRuleX86_64::exec` statement by statement. Unchecked Rust
arithmetic is written with `umul`/`uaddP`, which produce `Out.panic` on overflow; the
theorems in `FH/Props/C09.lean` show these never fire.
-/
namespace FH

inductive RuleX64 where
  | endOfStack
  | justReturn
  | justReturnIfFirstFrameOtherwiseFp
  | offsetSp (spOffsetBy8 : Nat)
  | offsetSpAndRestoreBp (spOffsetBy8 : Nat) (bpStorageOffsetFromSpBy8 : Int)
  | useFramePointer
  | offsetSpAndPopRegisters (spOffsetBy8 : Nat) (registerCount : Nat) (encodedRegistersToPop : Nat)
  deriving DecidableEq, Repr, Inhabited

/-- Field ranges of the Rust enum (`u16`, `i16`, `u8`). -/
def RuleX64.WF : RuleX64 → Prop
  | .offsetSp k => k < U16
  | .offsetSpAndRestoreBp k b => k < U16 ∧ -32768 ≤ b ∧ b < 32768
  | .offsetSpAndPopRegisters k c e => k < U16 ∧ c < 256 ∧ e < U16
  | _ => True

/-- `ENCODE_REGISTERS` -/
def encodeRegisters : List Nat := [3, 6, 5, 4, 12, 13, 14, 15]

/-- `slice.swap(i, j)` on a list (indices in range). -/
def swapAt (l : List Nat) (i j : Nat) : List Nat :=
  if h : i < l.length ∧ j < l.length then (l.set i l[j]).set j l[i] else l

/-- The `while r != 0 && n > 1` loop of `register_ordering::decode`; `n` counts down from 8. -/
def decodeLoop : Nat → Nat → List Nat → List Nat
  | 0, _, regs => regs
  | n + 1, r, regs =>
    if r = 0 then regs
    else if n + 1 ≤ 1 then regs
    else
      let index := r % (n + 1)
      let regs' := if index ≠ 0 then swapAt regs (8 - (n + 1)) (8 - (n + 1) + index) else regs
      decodeLoop n (r / (n + 1)) regs'

/-- `register_ordering::decode` -/
def decodeRegs (count enc : Nat) : List Nat := (decodeLoop 8 enc encodeRegisters).take count

/-- Outcome of the pop loop of `OffsetSpAndPopRegisters`. Registers popped before an
error stay modified, as in the Rust code. -/
inductive PopOut where
  | ok (sp : Nat) (r : Nat → Nat)
  | fail (e : Err) (r : Nat → Nat)

def popLoop (mem : Mem) : List Nat → Nat → (Nat → Nat) → PopOut
  | [], sp, r => .ok sp r
  | reg :: rest, sp, r =>
    match mem sp with
    | none => .fail (.couldNotReadStack sp) r
    | some value =>
      match cadd sp 8 with
      | none => .fail .integerOverflow r
      | some sp' => popLoop mem rest sp' (setReg r reg value)

/-- Unchecked `u64 * u64`. -/
def umul (a b : Nat) (k : Nat → Out R) : Out R :=
  if a * b < U64 then k (a * b) else .panic (.other 1)

/-- Unchecked `i64 * i64`. -/
def imul (a b : Int) (k : Int → Out R) : Out R :=
  if -9223372036854775808 ≤ a * b ∧ a * b < 9223372036854775808 then k (a * b) else .panic (.other 2)

/-- Common tail of `exec`: read the return address at `new_sp - 8`, apply the null and
did-not-advance tests, commit the registers. `regs1` is the register file as modified by
the pop loop (equal to `regs` for every other rule); `sp` is the stack pointer on entry. -/
def finishX64 (regs1 : RegsX64) (sp newSp newBp : Nat) (mem : Mem) : Out RegsX64 :=
  if newSp < 8 then .ret (.err .integerOverflow) regs1
  else
    match mem (newSp - 8) with
    | none => .ret (.err (.couldNotReadStack (newSp - 8))) regs1
    | some ra =>
      if ra = 0 then .ret .done regs1
      else if newSp = sp ∧ ra = regs1.ip then .ret (.err .didNotAdvance) regs1
      else .ret (.frame ra) { ip := ra, r := setReg (setReg regs1.r RSP newSp) RBP newBp }

/-- The frame pointer step shared by `UseFramePointer` and the caller-frame half of
`JustReturnIfFirstFrameOtherwiseFp`. -/
def fpStepX64 (regs : RegsX64) (mem : Mem) : Out RegsX64 :=
  let sp := regs.sp
  let bp := regs.bp
  if bp = 0 then .ret .done regs
  else
    match cadd bp 16 with
    | none => .ret (.err .integerOverflow) regs
    | some newSp =>
      if newSp ≤ sp then .ret (.err .fpMovedBackwards) regs
      else
        match mem bp with
        | none => .ret (.err (.couldNotReadStack bp)) regs
        | some newBp => finishX64 regs sp newSp newBp mem

/-- `UnwindRuleX86_64::exec` -/
def execX64 (rule : RuleX64) (first : Bool) (regs : RegsX64) (mem : Mem) : Out RegsX64 :=
  let sp := regs.sp
  match rule with
  | .endOfStack => .ret .done regs
  | .justReturn =>
    match cadd sp 8 with
    | none => .ret (.err .integerOverflow) regs
    | some newSp => finishX64 regs sp newSp regs.bp mem
  | .justReturnIfFirstFrameOtherwiseFp =>
    if first then
      match cadd sp 8 with
      | none => .ret (.err .integerOverflow) regs
      | some newSp => finishX64 regs sp newSp regs.bp mem
    else fpStepX64 regs mem
  | .offsetSp k =>
    umul k 8 fun spOffset =>
    match cadd sp spOffset with
    | none => .ret (.err .integerOverflow) regs
    | some newSp => finishX64 regs sp newSp regs.bp mem
  | .offsetSpAndRestoreBp k b =>
    umul k 8 fun spOffset =>
    match cadd sp spOffset with
    | none => .ret (.err .integerOverflow) regs
    | some newSp =>
      imul b 8 fun bpOff =>
      match caddSigned sp bpOff with
      | none => .ret (.err .integerOverflow) regs
      | some bpLocation =>
        match mem bpLocation with
        | some newBp => finishX64 regs sp newSp newBp mem
        | none =>
          if first ∧ bpLocation < sp then finishX64 regs sp newSp regs.bp mem
          else .ret (.err (.couldNotReadStack bpLocation)) regs
  | .useFramePointer => fpStepX64 regs mem
  | .offsetSpAndPopRegisters k count enc =>
    umul k 8 fun spOffset =>
    match cadd sp spOffset with
    | none => .ret (.err .integerOverflow) regs
    | some sp1 =>
      match popLoop mem (decodeRegs count enc) sp1 regs.r with
      | .fail e r => .ret (.err e) { regs with r := r }
      | .ok sp2 r =>
        match cadd sp2 8 with
        | none => .ret (.err .integerOverflow) { regs with r := r }
        | some newSp => finishX64 { regs with r := r } sp newSp (r RBP) mem

end FH
