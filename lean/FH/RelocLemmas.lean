import FH.RuleLemmas
import FH.Trunc
/-!
# Stack relocation of rule execution (C08)

The thread's stack is placed `d` bytes higher and the code it returns into is mapped somewhere
else: every stored word `v` becomes `σ v` (stack pointers move by `d`, code pointers by the
module's shift, data and nulls stay - all that is needed of `σ` is that it is injective and fixes
0). A rule step on the relocated state is the relocated outcome of the step on the original
state: same kind of result, frames mapped by `σ`, unreadable addresses moved by `d`, registers
relocated. Hypotheses: the stack pointer (and the frame pointer, where the rule uses it) keeps
`2^20` bytes of room to both ends of the 64-bit range before and after the move - the brief's "for
all deltas keeping every address in range" - and a frame pointer the rule follows is a stack
pointer (`σ bp = bp + d`).
-/
namespace FH

/-- Room to both ends of the address space: no rule offset (less than `2^20` bytes up,
`2^18` bytes down) can wrap, before or after moving by `d`. -/
def Room (d x : Nat) : Prop := 1048576 ≤ x ∧ x + d + 1048576 < U64

/-- The relocated stack: the word at `a + d` is the relocated word at `a`. -/
def MemReloc (σ : Nat → Nat) (d : Nat) (mem mem' : Mem) : Prop :=
  ∀ a, mem' (a + d) = (mem a).map σ

def relocRes (σ : Nat → Nat) (d : Nat) : Res → Res
  | .frame ra => .frame (σ ra)
  | .done => .done
  | .err (.couldNotReadStack a) => .err (.couldNotReadStack (a + d))
  | .err e => .err e

/-- x86-64 registers after relocation: `rsp` moves with the stack, every other register and
the instruction pointer hold a word and move like one. -/
def relocR (σ : Nat → Nat) (d : Nat) (r : Nat → Nat) : Nat → Nat :=
  fun i => if i = RSP then r RSP + d else σ (r i)

def relocX64 (σ : Nat → Nat) (d : Nat) (g : RegsX64) : RegsX64 :=
  { ip := σ g.ip, r := relocR σ d g.r }

def relocOutX64 (σ : Nat → Nat) (d : Nat) : Out RegsX64 → Out RegsX64
  | .ret res g => .ret (relocRes σ d res) (relocX64 σ d g)
  | .panic s => .panic s

theorem relocR_setReg_other (σ : Nat → Nat) (d : Nat) (r : Nat → Nat) (i v : Nat) (hi : i ≠ RSP) :
    relocR σ d (setReg r i v) = setReg (relocR σ d r) i (σ v) := by
  funext j
  unfold relocR setReg
  by_cases hj : j = RSP
  · subst hj
    have : RSP ≠ i := fun e => hi e.symm
    simp [this]
  · by_cases hji : j = i
    · simp [hji, hi]
    · simp [hj, hji]

theorem relocR_setReg_sp (σ : Nat → Nat) (d : Nat) (r : Nat → Nat) (v : Nat) :
    relocR σ d (setReg r RSP v) = setReg (relocR σ d r) RSP (v + d) := by
  funext j
  unfold relocR setReg
  by_cases hj : j = RSP <;> simp [hj]

@[simp] theorem relocX64_sp (σ : Nat → Nat) (d : Nat) (g : RegsX64) :
    (relocX64 σ d g).sp = g.sp + d := by
  simp [relocX64, RegsX64.sp, relocR]

@[simp] theorem relocX64_bp (σ : Nat → Nat) (d : Nat) (g : RegsX64) :
    (relocX64 σ d g).bp = σ g.bp := by
  simp [relocX64, RegsX64.bp, relocR, RBP, RSP]

theorem cadd_reloc {x off r d : Nat} (h : cadd x off = some r) (hr : r + d < U64) :
    cadd (x + d) off = some (r + d) := by
  have ⟨e, _⟩ := cadd_some h
  subst e
  unfold cadd
  have : x + d + off < U64 := by omega
  simp only [this, if_true]
  congr 1; omega

/-- `finishX64` on the relocated state. -/
theorem finishX64_reloc (σ : Nat → Nat) (d : Nat) (hσ : Function.Injective σ) (h0 : σ 0 = 0)
    {mem mem' : Mem} (hm : MemReloc σ d mem mem') (regs1 : RegsX64) (sp newSp newBp : Nat)
    (h8 : 8 ≤ newSp) :
    finishX64 (relocX64 σ d regs1) (sp + d) (newSp + d) (σ newBp) mem' =
      relocOutX64 σ d (finishX64 regs1 sp newSp newBp mem) := by
  unfold finishX64
  have a1 : ¬ newSp + d < 8 := by omega
  have a2 : ¬ newSp < 8 := by omega
  have a3 : newSp + d - 8 = (newSp - 8) + d := by omega
  simp only [a1, a2, if_false, a3, hm (newSp - 8)]
  cases mem (newSp - 8) with
  | none => rfl
  | some ra =>
    simp only [Option.map_some]
    have e0 : (σ ra = 0) ↔ (ra = 0) := ⟨fun h => hσ (h.trans h0.symm), fun h => by rw [h, h0]⟩
    have e1 : (newSp + d = sp + d ∧ σ ra = (relocX64 σ d regs1).ip) ↔ (newSp = sp ∧ ra = regs1.ip) := by
      simp only [relocX64]
      constructor
      · intro ⟨a, b⟩; exact ⟨by omega, hσ b⟩
      · intro ⟨a, b⟩; exact ⟨by omega, by rw [b]⟩
    by_cases hra : ra = 0
    · rw [if_pos (e0.mpr hra), if_pos hra]; rfl
    · rw [if_neg (fun h => hra (e0.mp h)), if_neg hra]
      by_cases hdna : newSp = sp ∧ ra = regs1.ip
      · rw [if_pos (e1.mpr hdna), if_pos hdna]; rfl
      · rw [if_neg (fun h => hdna (e1.mp h)), if_neg hdna]
        simp only [relocOutX64, relocRes, relocX64]
        congr 2
        rw [relocR_setReg_other σ d _ RBP newBp (by decide), relocR_setReg_sp]


theorem caddSigned_room {x d : Nat} {b : Int} (hx : Room d x) (hb : -262144 ≤ b ∧ b < 262144) :
    ∃ loc, caddSigned x b = some loc ∧ caddSigned (x + d) b = some (loc + d) ∧
      (loc : Int) = (x : Int) + b := by
  unfold Room U64 at hx
  refine ⟨((x : Int) + b).toNat, ?_, ?_, by omega⟩
  · rw [caddSigned_eq_spec x b (by unfold U64; omega) (by omega) (by omega)]
    unfold caddSignedSpec
    have : 0 ≤ (x : Int) + b ∧ (x : Int) + b < 18446744073709551616 := by omega
    simp only [this, and_self, if_true]
  · rw [caddSigned_eq_spec (x + d) b (by unfold U64; omega) (by omega) (by omega)]
    unfold caddSignedSpec
    have : 0 ≤ ((x + d : Nat) : Int) + b ∧ ((x + d : Nat) : Int) + b < 18446744073709551616 := by omega
    simp only [this, and_self, if_true]
    congr 1
    omega

theorem cadd_room {x d off : Nat} (hx : Room d x) (ho : off < 1048576) :
    cadd x off = some (x + off) ∧ cadd (x + d) off = some (x + off + d) := by
  unfold Room U64 at hx
  unfold cadd U64
  have h1 : x + off < 18446744073709551616 := by omega
  have h2 : x + d + off < 18446744073709551616 := by omega
  simp only [h1, h2, if_true, true_and]
  congr 1; omega

/-- The frame pointer step on the relocated state. -/
theorem fpStepX64_reloc (σ : Nat → Nat) (d : Nat) (hσ : Function.Injective σ) (h0 : σ 0 = 0)
    {mem mem' : Mem} (hm : MemReloc σ d mem mem') (regs : RegsX64)
    (hbp : regs.bp ≠ 0 → σ regs.bp = regs.bp + d ∧ Room d regs.bp) :
    fpStepX64 (relocX64 σ d regs) mem' = relocOutX64 σ d (fpStepX64 regs mem) := by
  unfold fpStepX64
  simp only [relocX64_sp, relocX64_bp]
  by_cases hb : regs.bp = 0
  · rw [if_pos (by rw [hb, h0]), if_pos hb]; rfl
  · obtain ⟨e, room⟩ := hbp hb
    have hne : σ regs.bp ≠ 0 := by rw [e]; unfold Room at room; omega
    rw [if_neg hne, if_neg hb, e]
    obtain ⟨c1, c2⟩ := cadd_room room (off := 16) (by omega)
    rw [c1, c2]
    simp only []
    have : (regs.bp + 16 + d ≤ regs.sp + d) ↔ (regs.bp + 16 ≤ regs.sp) := by omega
    by_cases hle : regs.bp + 16 ≤ regs.sp
    · rw [if_pos (this.mpr hle), if_pos hle]; rfl
    · rw [if_neg (fun h => hle (this.mp h)), if_neg hle, hm regs.bp]
      cases mem regs.bp with
      | none => rfl
      | some newBp =>
        simp only [Option.map_some]
        exact finishX64_reloc σ d hσ h0 hm regs regs.sp (regs.bp + 16) newBp (by omega)

/-- Relocating the outcome of the pop loop. -/
def relocPop (σ : Nat → Nat) (d : Nat) : PopOut → PopOut
  | .ok sp r => .ok (sp + d) (relocR σ d r)
  | .fail (.couldNotReadStack a) r => .fail (.couldNotReadStack (a + d)) (relocR σ d r)
  | .fail e r => .fail e (relocR σ d r)

theorem popLoop_reloc (σ : Nat → Nat) (d : Nat) {mem mem' : Mem} (hm : MemReloc σ d mem mem') :
    ∀ (l : List Nat) (sp : Nat) (r : Nat → Nat), (∀ reg ∈ l, reg ≠ RSP) →
      sp + 8 * l.length + d < U64 →
      popLoop mem' l (sp + d) (relocR σ d r) = relocPop σ d (popLoop mem l sp r)
  | [], sp, r, _, _ => rfl
  | reg :: rest, sp, r, hreg, hfit => by
    simp only [popLoop, hm sp]
    cases mem sp with
    | none => rfl
    | some v =>
      simp only [Option.map_some]
      simp only [List.length_cons] at hfit
      have c1 : cadd sp 8 = some (sp + 8) := by unfold cadd; simp only [show sp + 8 < U64 by omega, if_true]
      have c2 : cadd (sp + d) 8 = some (sp + 8 + d) := by
        unfold cadd; simp only [show sp + d + 8 < U64 by omega, if_true]; congr 1; omega
      rw [c1, c2]
      simp only []
      rw [← relocR_setReg_other σ d r reg v (hreg reg (by simp))]
      exact popLoop_reloc σ d hm rest (sp + 8) _ (fun x hx => hreg x (by simp [hx])) (by omega)

theorem mem_swapAt {l : List Nat} {i j x : Nat} (h : x ∈ swapAt l i j) : x ∈ l := by
  unfold swapAt at h
  split at h
  · rename_i hij
    rcases List.mem_or_eq_of_mem_set h with h1 | h1
    · rcases List.mem_or_eq_of_mem_set h1 with h2 | h2
      · exact h2
      · rw [h2]; exact List.getElem_mem _
    · rw [h1]; exact List.getElem_mem _
  · exact h

theorem mem_decodeLoop : ∀ (n r : Nat) (regs : List Nat) (x : Nat), x ∈ decodeLoop n r regs → x ∈ regs
  | 0, _, _, _, h => h
  | n + 1, r, regs, x, h => by
    simp only [decodeLoop] at h
    split at h
    · exact h
    · split at h
      · exact h
      · have := mem_decodeLoop n _ _ x h
        split at this
        · exact mem_swapAt this
        · exact this

theorem decodeRegs_ne_rsp (count enc : Nat) : ∀ reg ∈ decodeRegs count enc, reg ≠ RSP := by
  intro reg h
  have h1 : reg ∈ decodeLoop 8 enc encodeRegisters := List.mem_of_mem_take h
  have h2 := mem_decodeLoop 8 enc encodeRegisters reg h1
  simp only [encodeRegisters, List.mem_cons, List.not_mem_nil, or_false] at h2
  unfold RSP
  omega

theorem decodeRegs_length_le (count enc : Nat) : (decodeRegs count enc).length ≤ count := by
  unfold decodeRegs
  simp only [List.length_take]
  omega

/-- Whether a rule follows the frame pointer in this kind of frame. -/
def usesBpX64 : RuleX64 → Bool → Bool
  | .useFramePointer, _ => true
  | .justReturnIfFirstFrameOtherwiseFp, false => true
  | _, _ => false

/-- **One x86-64 rule step on the relocated thread state is the relocated outcome of the step on
the original state** - every result kind, the registers (also after errors), the address named by
`CouldNotReadStack`. -/
theorem execX64_reloc (σ : Nat → Nat) (d : Nat) (hσ : Function.Injective σ) (h0 : σ 0 = 0)
    {mem mem' : Mem} (hm : MemReloc σ d mem mem') (rule : RuleX64) (hr : rule.WF) (first : Bool)
    (regs : RegsX64) (hsp : Room d regs.sp)
    (hbp : usesBpX64 rule first = true → regs.bp ≠ 0 → σ regs.bp = regs.bp + d ∧ Room d regs.bp) :
    execX64 rule first (relocX64 σ d regs) mem' = relocOutX64 σ d (execX64 rule first regs mem) := by
  have hsp8 : 8 ≤ regs.sp := by unfold Room at hsp; omega
  cases rule with
  | endOfStack => rfl
  | justReturn =>
    simp only [execX64, relocX64_sp, relocX64_bp]
    obtain ⟨c1, c2⟩ := cadd_room hsp (off := 8) (by omega)
    rw [c1, c2]
    exact finishX64_reloc σ d hσ h0 hm regs regs.sp (regs.sp + 8) regs.bp (by omega)
  | justReturnIfFirstFrameOtherwiseFp =>
    cases first with
    | true =>
      simp only [execX64, relocX64_sp, relocX64_bp, if_true]
      obtain ⟨c1, c2⟩ := cadd_room hsp (off := 8) (by omega)
      rw [c1, c2]
      exact finishX64_reloc σ d hσ h0 hm regs regs.sp (regs.sp + 8) regs.bp (by omega)
    | false =>
      simp only [execX64, Bool.false_eq_true, if_false]
      exact fpStepX64_reloc σ d hσ h0 hm regs (hbp rfl)
  | useFramePointer =>
    simp only [execX64]
    exact fpStepX64_reloc σ d hσ h0 hm regs (hbp rfl)
  | offsetSp k =>
    simp only [RuleX64.WF, U16] at hr
    simp only [execX64, relocX64_sp, relocX64_bp]
    rw [umul_eq _ (by unfold U64; omega), umul_eq _ (by unfold U64; omega)]
    obtain ⟨c1, c2⟩ := cadd_room hsp (off := k * 8) (by omega)
    rw [c1, c2]
    exact finishX64_reloc σ d hσ h0 hm regs regs.sp (regs.sp + k * 8) regs.bp (by omega)
  | offsetSpAndRestoreBp k b =>
    simp only [RuleX64.WF, U16] at hr
    simp only [execX64, relocX64_sp, relocX64_bp]
    rw [umul_eq _ (by unfold U64; omega), umul_eq _ (by unfold U64; omega)]
    obtain ⟨c1, c2⟩ := cadd_room hsp (off := k * 8) (by omega)
    rw [c1, c2]
    simp only []
    rw [imul_eq _ (by omega), imul_eq _ (by omega)]
    obtain ⟨loc, l1, l2, l3⟩ := caddSigned_room hsp (b := b * 8) (by omega)
    rw [l1, l2]
    simp only [hm loc]
    cases mem loc with
    | some newBp =>
      simp only [Option.map_some]
      exact finishX64_reloc σ d hσ h0 hm regs regs.sp (regs.sp + k * 8) newBp (by omega)
    | none =>
      simp only [Option.map_none]
      have : (loc + d < regs.sp + d) ↔ (loc < regs.sp) := by omega
      by_cases hl : first = true ∧ loc < regs.sp
      · rw [if_pos ⟨hl.1, this.mpr hl.2⟩, if_pos hl]
        exact finishX64_reloc σ d hσ h0 hm regs regs.sp (regs.sp + k * 8) regs.bp (by omega)
      · rw [if_neg (fun h => hl ⟨h.1, this.mp h.2⟩), if_neg hl]
        rfl
  | offsetSpAndPopRegisters k n e =>
    simp only [RuleX64.WF, U16] at hr
    simp only [execX64, relocX64_sp]
    rw [umul_eq _ (by unfold U64; omega), umul_eq _ (by unfold U64; omega)]
    obtain ⟨c1, c2⟩ := cadd_room hsp (off := k * 8) (by omega)
    rw [c1, c2]
    simp only []
    have hlen := decodeRegs_length_le n e
    have hroom : regs.sp + k * 8 + 8 * (decodeRegs n e).length + d < U64 := by
      unfold Room at hsp; omega
    have hp := popLoop_reloc σ d hm (decodeRegs n e) (regs.sp + k * 8) regs.r
      (decodeRegs_ne_rsp n e) hroom
    have hr0 : (relocX64 σ d regs).r = relocR σ d regs.r := rfl
    rw [hr0, hp]
    -- the final stack pointer after the pops stays within the room
    have hbound : ∀ sp2 r, popLoop mem (decodeRegs n e) (regs.sp + k * 8) regs.r = .ok sp2 r →
        sp2 = regs.sp + k * 8 + 8 * (decodeRegs n e).length := by
      intro sp2 r h
      have := popLoop_ok (decodeRegs n e) (regs.sp + k * 8) regs.r sp2 r h
      exact this.1
    cases hpl : popLoop mem (decodeRegs n e) (regs.sp + k * 8) regs.r with
    | fail err r =>
      cases err <;> rfl
    | ok sp2 r =>
      have e2 := hbound sp2 r hpl
      simp only [relocPop]
      have c3 : cadd sp2 8 = some (sp2 + 8) := by
        unfold cadd; simp only [show sp2 + 8 < U64 by unfold Room at hsp; omega, if_true]
      have c4 : cadd (sp2 + d) 8 = some (sp2 + 8 + d) := by
        unfold cadd
        simp only [show sp2 + d + 8 < U64 by unfold Room at hsp; omega, if_true]
        congr 1; omega
      rw [c3, c4]
      simp only []
      have hbpr : relocR σ d r RBP = σ (r RBP) := by simp [relocR, RBP, RSP]
      rw [hbpr]
      exact finishX64_reloc σ d hσ h0 hm { regs with r := r } regs.sp (sp2 + 8) (r RBP) (by omega)

/-- Mapping an outcome: result by `g`, state by `f`. -/
def mapOut {St : Type} (f : St → St) (g : Res → Res) : Out St → Out St
  | .ret r s => .ret (g r) (f s)
  | .panic p => .panic p

/-- A predicate holds at every state the walk on `mem` visits. -/
def AlongWalk {St : Type} (step : Mem → St → Out St) (mem : Mem) (P : St → Prop) : Nat → St → Prop
  | 0, _ => True
  | n + 1, s => P s ∧
    match step mem s with
    | .ret (.frame _) s' => AlongWalk step mem P n s'
    | _ => True

/-- **Simulation of walks.** If, wherever `P` holds, a step on `(mem', f s)` is the image of the
step on `(mem, s)`, and `g` maps frames to frames and endings to endings, then the whole walk on
`(mem', f s)` is the image of the walk on `(mem, s)` (any length). -/
theorem walk_sim {St : Type} (step : Mem → St → Out St) (mem mem' : Mem) (f : St → St)
    (g : Res → Res) (hgf : ∀ ra, ∃ ra', g (.frame ra) = .frame ra')
    (hgn : ∀ r, ¬ IsFrame r → ¬ IsFrame (g r)) (P : St → Prop)
    (hstep : ∀ s, P s → step mem' (f s) = mapOut f g (step mem s)) :
    ∀ n s, AlongWalk step mem P n s →
      walkWith step mem' n (f s) = (walkWith step mem n s).map g := by
  intro n
  induction n with
  | zero => intro s _; rfl
  | succ n ih =>
    intro s h
    simp only [AlongWalk] at h
    simp only [walkWith, hstep s h.1]
    cases hs : step mem s with
    | panic site => rfl
    | ret r s1 =>
      cases r with
      | frame ra =>
        obtain ⟨ra', hra⟩ := hgf ra
        have h2 := h.2
        rw [hs] at h2
        simp only [mapOut, hra, List.map_cons]
        rw [ih s1 h2]
      | done =>
        have := hgn .done (by simp [IsFrame])
        simp only [mapOut]
        cases hg : g .done with
        | frame x => rw [hg] at this; exact absurd trivial this
        | done => simp [hg]
        | err e => simp [hg]
      | err e =>
        have := hgn (.err e) (by simp [IsFrame])
        simp only [mapOut]
        cases hg : g (.err e) with
        | frame x => rw [hg] at this; exact absurd trivial this
        | done => simp [hg]
        | err e' => simp [hg]

theorem relocRes_frame (σ : Nat → Nat) (d ra : Nat) : ∃ ra', relocRes σ d (.frame ra) = .frame ra' :=
  ⟨σ ra, rfl⟩

theorem relocRes_not_frame (σ : Nat → Nat) (d : Nat) (r : Res) (h : ¬ IsFrame r) :
    ¬ IsFrame (relocRes σ d r) := by
  cases r with
  | frame ra => exact absurd trivial h
  | done => simp [relocRes, IsFrame]
  | err e => cases e <;> simp [relocRes, IsFrame]

end FH
