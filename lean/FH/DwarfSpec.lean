import FH.Dwarf
import FH.RuleLemmas
/-!
# DWARF semantics of one row (specification, over mathematical integers) and its relation
to framehop's two execution paths (C05)
-/
namespace FH

/-- What DWARF prescribes for a row whose CFA is register+offset and whose return-address /
frame-pointer rules are `undefined`, `same value` or `offset(n)`. -/
inductive SpecRes where
  | endOfStack                          -- return address rule is `undefined`
  | unreadable (a : Int)                -- a slot named by the row cannot be read
  | step (ra : Nat) (cfa : Int) (fp : Nat)
  | outside                             -- the row is outside the domain of C05
  deriving Repr

/-- Read a 64-bit word at a mathematical address. -/
def readAt (mem : Mem) (a : Int) : Option Nat :=
  if 0 ≤ a ∧ a < 18446744073709551616 then mem a.toNat else none

/-- Value of a register after the step according to its rule, `none` = slot unreadable. -/
def specReg (mem : Mem) (cfa : Int) (cur : Nat) : RegRule → Option (Option Nat)
  | .undefined => some (some cur)     -- framehop keeps the value of a register it cannot recover
  | .sameValue => some (some cur)
  | .offset n => some (readAt mem (cfa + n))
  | _ => none

/-- The DWARF meaning of `row` for a thread whose CFA base register holds `base`, whose
return-address register holds `curRa` and whose frame pointer holds `curFp`. -/
def dwarfSpec (row : Row) (spVal fpVal curRa : Nat) (mem : Mem) : SpecRes :=
  match row.cfa with
  | .regOff .sp off => go ((spVal : Int) + off)
  | .regOff .fp off => go ((fpVal : Int) + off)
  -- the same value computed by a DWARF expression (`DW_OP_breg<r> off`)
  | .exprRegOff .sp off => go ((spVal : Int) + off)
  | .exprRegOff .fp off => go ((fpVal : Int) + off)
  | _ => .outside
where
  go (cfa : Int) : SpecRes :=
    match row.ra with
    | .undefined => .endOfStack
    | .sameValue =>
      match specReg mem cfa fpVal row.fp with
      | none => .outside
      | some none => .unreadable 0
      | some (some fp') => .step curRa cfa fp'
    | .offset n =>
      match readAt mem (cfa + n) with
      | none => .unreadable (cfa + n)
      | some ra =>
        match specReg mem cfa fpVal row.fp with
        | none => .outside
        | some none => .unreadable 0
        | some (some fp') => .step ra cfa fp'
    | _ => .outside

theorem tdiv_exact {x g : Int} (h : x.tmod g = 0) : g * x.tdiv g = x := by
  have := Int.mul_tdiv_add_tmod x g
  rw [h] at this
  simpa using this

theorem exactDivU16_some {x : Int} {g : Int} {k : Nat} (h : exactDivU16 x g = some k) :
    g * (k : Int) = x ∧ k < 65536 := by
  unfold exactDivU16 at h
  split at h
  · cases h
  · rename_i hm
    split at h
    · rename_i hr
      injection h with h
      have e := tdiv_exact (Decidable.of_not_not hm)
      have : ((x.tdiv g).toNat : Int) = x.tdiv g := Int.toNat_of_nonneg hr.1
      subst h
      refine ⟨by rw [this]; exact e, by omega⟩
    · cases h

theorem exactSumDiv8I16_some {a b s : Int} (h : exactSumDiv8I16 a b = some s) :
    8 * s = a + b ∧ -32768 ≤ s ∧ s < 32768 := by
  unfold exactSumDiv8I16 caddI64 at h
  split at h
  · cases h
  · rename_i s' hs
    split at hs
    · injection hs with hs
      subst hs
      split at h
      · cases h
      · rename_i hm
        split at h
        · injection h with h
          subst h
          exact ⟨tdiv_exact (Decidable.of_not_not hm), by omega, by omega⟩
        · cases h
    · cases hs

end FH

namespace FH

/-- The register file after a successful x86-64 step. -/
def afterX64 (regs : RegsX64) (ra sp' bp' : Nat) : RegsX64 :=
  { ip := ra, r := setReg (setReg regs.r RSP sp') RBP bp' }

theorem finishX64_ok {regs : RegsX64} {sp newSp newBp ra : Nat} {mem : Mem} (h8 : 8 ≤ newSp)
    (hr : mem (newSp - 8) = some ra) (h0 : ra ≠ 0) (hadv : ¬(newSp = sp ∧ ra = regs.ip)) :
    finishX64 regs sp newSp newBp mem = .ret (.frame ra) (afterX64 regs ra newSp newBp) := by
  unfold finishX64 afterX64
  have : ¬ newSp < 8 := by omega
  simp [this, hr, h0, hadv]

theorem cadd_eq_some {a b : Nat} (h : a + b < U64) : cadd a b = some (a + b) := by
  simp [cadd, h]

theorem readAt_some {mem : Mem} {a : Int} {v : Nat} (h : readAt mem a = some v) :
    0 ≤ a ∧ a < 18446744073709551616 ∧ mem a.toNat = some v := by
  unfold readAt at h
  split at h
  · rename_i hr; exact ⟨hr.1, hr.2, h⟩
  · cases h

theorem caddSigned_of_int {a : Nat} {b : Int} {c : Nat} (ha : a < U64)
    (hb : InI64 b) (hc : (c : Int) = (a : Int) + b) (hlt : c < U64) : caddSigned a b = some c := by
  rw [caddSigned_eq_spec a b ha hb.1 hb.2]
  unfold caddSignedSpec
  unfold U64 at hlt
  have : 0 ≤ (a : Int) + b ∧ (a : Int) + b < 18446744073709551616 := by omega
  simp only [this, and_self, if_true]
  congr 1
  omega

/-- **Rule compression is lossless (x86-64).** If a row is compressed into a cacheable rule
and DWARF prescribes a step `(ra, cfa, fp')` for it, executing the rule performs exactly that
step — provided none of framehop's deliberate refusals applies: the CFA fits in 64 bits, the
return address is not null (end of stack), the step advances, and for the frame pointer rule
the frame pointer is not null and the CFA lies above the stack pointer. -/
theorem translateX64_exact (row : Row) (rule : RuleX64) (first : Bool) (regs : RegsX64) (mem : Mem)
    (ra : Nat) (cfa : Int) (fp' : Nat) (hrow : row.WF) (hregs : regs.WF)
    (ht : translateX64 row = some rule)
    (hs : dwarfSpec row regs.sp regs.bp regs.ip mem = .step ra cfa fp')
    (hcfa : 0 ≤ cfa ∧ cfa < 18446744073709551616) (hra : ra ≠ 0)
    (hadv : ¬(cfa = regs.sp ∧ ra = regs.ip))
    (hfp : rule = .useFramePointer → regs.bp ≠ 0 ∧ (regs.sp : Int) < cfa) :
    execX64 rule first regs mem = .ret (.frame ra) (afterX64 regs ra cfa.toNat fp') := by
  obtain ⟨hwc, hwf, hwr⟩ := hrow
  have hsp : regs.sp < U64 := hregs.2 RSP
  have hbp : regs.bp < U64 := hregs.2 RBP
  unfold translateX64 at ht
  cases hrar : row.ra with
  | undefined =>
    -- `EndOfStack`: the specification says end of stack, not a step
    simp only [dwarfSpec] at hs
    split at hs <;> simp [dwarfSpec.go, hrar] at hs
  | sameValue => simp [hrar] at ht
  | valOffset n => simp [hrar] at ht
  | register r => simp [hrar] at ht
  | other => simp [hrar] at ht
  | exprReg _ _ => simp [hrar] at ht
  | valExprReg _ _ => simp [hrar] at ht
  | offset n =>
    simp only [hrar] at ht
    split at ht
    · cases ht
    · rename_i hn
      have hn8 : n = -8 := Decidable.of_not_not hn
      subst hn8
      cases hc : row.cfa with
      | expr => simp [hc] at ht
      | exprRegOff _ _ => simp [hc] at ht
      | regOff reg off =>
        simp only [hc] at ht
        have hoff : InI64 off := by simpa [CfaRule.WF, hc] using hwc
        cases reg with
        | ra => simp at ht
        | other => simp at ht
        | sp =>
          simp only [] at ht
          cases hk : exactDivU16 off 8 with
          | none => simp [hk] at ht
          | some k =>
            simp only [hk] at ht
            obtain ⟨hk8, hklt⟩ := exactDivU16_some hk
            -- the specification
            simp only [dwarfSpec, hc, dwarfSpec.go, hrar] at hs
            cases hrd : readAt mem ((regs.sp : Int) + off + -8) with
            | none => simp [hrd] at hs
            | some ra' =>
              simp only [hrd] at hs
              obtain ⟨r1, r2, r3⟩ := readAt_some hrd
              cases hf : regRuleToCfaOffset row.fp with
              | err => simp [hf] at ht
              | none =>
                simp only [hf] at ht
                injection ht with ht
                subst ht
                have hfpr : specReg mem ((regs.sp : Int) + off) regs.bp row.fp = some (some regs.bp) := by
                  cases hfr : row.fp <;> simp [regRuleToCfaOffset, hfr] at hf <;> simp [specReg]
                simp only [hfpr] at hs
                injection hs with e1 e2 e3
                subst e1 e2 e3
                simp only [execX64]
                rw [umul_eq _ (by unfold U64; omega)]
                have hsum : regs.sp + k * 8 < U64 := by unfold U64; omega
                rw [cadd_eq_some hsum]
                simp only []
                have hto : ((regs.sp : Int) + off).toNat = regs.sp + k * 8 := by omega
                rw [hto]
                apply finishX64_ok
                · omega
                · have : regs.sp + k * 8 - 8 = ((regs.sp : Int) + off + -8).toNat := by omega
                  rw [this]; exact r3
                · exact hra
                · intro ⟨h1, h2⟩
                  apply hadv
                  exact ⟨by omega, h2⟩
              | some b =>
                simp only [hf] at ht
                cases hsd : exactSumDiv8I16 off b with
                | none => simp [hsd] at ht
                | some s =>
                  simp only [hsd] at ht
                  injection ht with ht
                  subst ht
                  obtain ⟨hs8, hs1, hs2⟩ := exactSumDiv8I16_some hsd
                  have hfr : row.fp = .offset b := by
                    cases hfr : row.fp <;> simp [regRuleToCfaOffset, hfr] at hf
                    subst hf; rfl
                  simp only [hfr, specReg] at hs
                  cases hrb : readAt mem ((regs.sp : Int) + off + b) with
                  | none => simp [hrb] at hs
                  | some bpv =>
                    simp only [hrb] at hs
                    injection hs with e1 e2 e3
                    subst e1 e2 e3
                    obtain ⟨b1, b2, b3⟩ := readAt_some hrb
                    simp only [execX64]
                    rw [umul_eq _ (by unfold U64; omega)]
                    have hsum : regs.sp + k * 8 < U64 := by unfold U64; omega
                    rw [cadd_eq_some hsum]
                    simp only []
                    rw [imul_eq _ (by omega)]
                    have hloc : caddSigned regs.sp (s * 8) = some ((regs.sp : Int) + off + b).toNat := by
                      apply caddSigned_of_int hsp ⟨by omega, by omega⟩
                      · omega
                      · unfold U64; omega
                    rw [hloc]
                    simp only [b3]
                    have hto : ((regs.sp : Int) + off).toNat = regs.sp + k * 8 := by omega
                    rw [hto]
                    apply finishX64_ok
                    · omega
                    · have : regs.sp + k * 8 - 8 = ((regs.sp : Int) + off + -8).toNat := by omega
                      rw [this]; exact r3
                    · exact hra
                    · intro ⟨h1, h2⟩
                      apply hadv
                      exact ⟨by omega, h2⟩
        | fp =>
          simp only [] at ht
          cases hf : regRuleToCfaOffset row.fp with
          | err => simp [hf] at ht
          | none => simp [hf] at ht
          | some b =>
            simp only [hf] at ht
            split at ht
            · rename_i h16
              injection ht with ht
              subst ht
              obtain ⟨ho, hb⟩ := h16
              subst ho hb
              have hfr : row.fp = .offset (-16) := by
                cases hfr : row.fp <;> simp [regRuleToCfaOffset, hfr] at hf
                subst hf; rfl
              simp only [dwarfSpec, hc, dwarfSpec.go, hrar, hfr, specReg] at hs
              cases hrd : readAt mem ((regs.bp : Int) + 16 + -8) with
              | none => simp [hrd] at hs
              | some ra' =>
                simp only [hrd] at hs
                cases hrb : readAt mem ((regs.bp : Int) + 16 + -16) with
                | none => simp [hrb] at hs
                | some bpv =>
                  simp only [hrb] at hs
                  injection hs with e1 e2 e3
                  subst e1 e2 e3
                  obtain ⟨r1, r2, r3⟩ := readAt_some hrd
                  obtain ⟨b1, b2, b3⟩ := readAt_some hrb
                  obtain ⟨hbp0, hgt⟩ := hfp rfl
                  simp only [execX64, fpStepX64]
                  simp only [hbp0, if_false]
                  have hsum : regs.bp + 16 < U64 := by unfold U64; omega
                  rw [cadd_eq_some hsum]
                  simp only []
                  have hnle : ¬ (regs.bp + 16 ≤ regs.sp) := by omega
                  simp only [hnle, if_false]
                  have hb3 := b3
                  have e16 : ((regs.bp : Int) + 16 + -16).toNat = regs.bp := by omega
                  rw [e16] at hb3
                  simp only [hb3]
                  have hto : ((regs.bp : Int) + 16).toNat = regs.bp + 16 := by omega
                  rw [hto]
                  apply finishX64_ok
                  · omega
                  · have : regs.bp + 16 - 8 = ((regs.bp : Int) + 16 + -8).toNat := by omega
                    rw [this]; exact r3
                  · exact hra
                  · intro ⟨h1, h2⟩
                    omega
            · cases ht

end FH

namespace FH

theorem afterX64_eq (regs : RegsX64) (ra sp' bp' : Nat) :
    ({ ip := ra, r := setReg (setReg regs.r RBP bp') RSP sp' } : RegsX64) = afterX64 regs ra sp' bp' := by
  unfold afterX64
  congr 1
  funext j
  simp only [setReg, RSP, RBP]
  by_cases h7 : j = 7 <;> by_cases h6 : j = 6 <;> simp [h7, h6]

/-- What `evalRegRule` yields on rules of the C05 domain agrees with the specification. -/
theorem evalRegRule_spec {get : DReg → Option Nat} {mem : Mem} {rule : RegRule} {cfa : Nat} {cur : Nat}
    {v : Nat} (hc : cfa < U64) (hw : rule.WF)
    (hs : specReg mem (cfa : Int) cur rule = some (some v)) :
    (evalRegRule get mem rule cfa cur).getD cur = v := by
  cases rule with
  | undefined => simp [specReg] at hs; simp [evalRegRule, hs]
  | sameValue => simp [specReg] at hs; simp [evalRegRule, hs]
  | offset n =>
    simp only [specReg] at hs
    injection hs with hs
    obtain ⟨r1, r2, r3⟩ := readAt_some hs
    have hloc : caddSigned cfa n = some ((cfa : Int) + n).toNat := by
      apply caddSigned_of_int hc hw
      · omega
      · unfold U64; omega
    simp [evalRegRule, hloc, r3]
  | valOffset n => simp [specReg] at hs
  | register r => simp [specReg] at hs
  | other => simp [specReg] at hs
  | exprReg _ _ => simp [specReg] at hs
  | valExprReg _ _ => simp [specReg] at hs

/-- **The generic evaluator implements DWARF (x86-64).** For a row of the C05 domain that is
not compressed (or for any such row), if DWARF prescribes a step and no refusal applies,
the generic path performs exactly that step. -/
theorem genericX64_exact (row : Row) (first : Bool) (regs : RegsX64) (mem : Mem)
    (ra : Nat) (cfa : Int) (fp' : Nat) (hrow : row.WF) (hregs : regs.WF)
    (hs : dwarfSpec row regs.sp regs.bp regs.ip mem = .step ra cfa fp')
    (hcfa : 0 ≤ cfa ∧ cfa < 18446744073709551616)
    (hadv : ¬(cfa = regs.sp ∧ ra = regs.ip))
    (hcaller : first = false → (regs.sp : Int) < cfa) :
    genericX64 row first regs mem = .ok ra (afterX64 regs ra cfa.toNat fp') := by
  obtain ⟨hwc, hwf, hwr⟩ := hrow
  have hsp : regs.sp < U64 := hregs.2 RSP
  have hbp : regs.bp < U64 := hregs.2 RBP
  -- the CFA
  have key : ∀ (base : Nat) (off : Int), base < U64 → InI64 off → cfa = (base : Int) + off →
      caddSigned base off = some cfa.toNat := by
    intro base off hb ho he
    apply caddSigned_of_int hb ho
    · omega
    · unfold U64; omega
  have main : ∀ (cfaN : Nat), cfaN = cfa.toNat → evalCfa (getX64 regs) row.cfa = some cfaN →
      dwarfSpec.go row regs.bp regs.ip mem cfa = .step ra cfa fp' →
      genericX64 row first regs mem = .ok ra (afterX64 regs ra cfa.toNat fp') := by
    intro cfaN hN hev hgo
    have hcn : (cfaN : Int) = cfa := by omega
    have hclt : cfaN < U64 := by unfold U64; omega
    unfold genericX64
    simp only [hev]
    unfold dwarfSpec.go at hgo
    cases hrar : row.ra with
    | undefined => simp [hrar] at hgo
    | valOffset n => simp [hrar] at hgo
    | register r => simp [hrar] at hgo
    | other => simp [hrar] at hgo
    | exprReg _ _ => simp [hrar] at hgo
    | valExprReg _ _ => simp [hrar] at hgo
    | sameValue =>
      simp only [hrar] at hgo
      cases hsr : specReg mem cfa regs.bp row.fp with
      | none => simp [hsr] at hgo
      | some o =>
        cases o with
        | none => simp [hsr] at hgo
        | some v =>
          simp only [hsr] at hgo
          injection hgo with e1 e2 e3
          subst e1 e3
          rw [← hcn] at hsr
          have hbpv := evalRegRule_spec (get := getX64 regs) hclt hwf hsr
          have era : evalRegRule (getX64 regs) mem .sameValue cfaN regs.ip = some regs.ip := rfl
          simp only [hrar, era, hbpv]
          have h1 : ¬ (cfaN = regs.sp ∧ True) := by
            intro ⟨a, _⟩; apply hadv; exact ⟨by omega, rfl⟩
          have h2 : ¬ ((!first) = true ∧ cfaN ≤ regs.sp) := by
            intro ⟨a, b⟩
            have := hcaller (by simpa using a)
            omega
          simp only [h1, h2, if_false]
          rw [afterX64_eq, ← hN]
    | offset n =>
      simp only [hrar] at hgo
      cases hrd : readAt mem (cfa + n) with
      | none => simp [hrd] at hgo
      | some ra' =>
        simp only [hrd] at hgo
        cases hsr : specReg mem cfa regs.bp row.fp with
        | none => simp [hsr] at hgo
        | some o =>
          cases o with
          | none => simp [hsr] at hgo
          | some v =>
            simp only [hsr] at hgo
            injection hgo with e1 e2 e3
            subst e1 e3
            rw [← hcn] at hsr
            have hbpv := evalRegRule_spec (get := getX64 regs) hclt hwf hsr
            obtain ⟨r1, r2, r3⟩ := readAt_some hrd
            have hn : InI64 n := by simpa [RegRule.WF, hrar] using hwr
            have hloc : caddSigned cfaN n = some (cfa + n).toNat := by
              apply caddSigned_of_int hclt hn
              · omega
              · unfold U64; omega
            have era : evalRegRule (getX64 regs) mem (.offset n) cfaN regs.ip = some ra' := by
              simp [evalRegRule, hloc, r3]
            simp only [hrar, era, hbpv]
            have h1 : ¬ (cfaN = regs.sp ∧ ra' = regs.ip) := by
              intro ⟨a, b⟩; apply hadv; exact ⟨by omega, b⟩
            have h2 : ¬ ((!first) = true ∧ cfaN ≤ regs.sp) := by
              intro ⟨a, b⟩
              have := hcaller (by simpa using a)
              omega
            simp only [h1, h2, if_false]
            rw [afterX64_eq, ← hN]
  unfold dwarfSpec at hs
  cases hc : row.cfa with
  | expr => simp [hc] at hs
  | exprRegOff reg off =>
    -- the expression evaluator adds with wrap-around; within 64 bits that is the sum
    have wrap : ∀ base : Nat, cfa = (base : Int) + off →
        wrappingAddSigned base off = cfa.toNat := by
      intro base he
      unfold wrappingAddSigned
      rw [← he, Int.emod_eq_of_lt hcfa.1 hcfa.2]
    cases reg with
    | ra => simp [hc] at hs
    | other => simp [hc] at hs
    | sp =>
      simp only [hc] at hs
      have hgo := hs
      have hcfaeq : cfa = (regs.sp : Int) + off := by
        unfold dwarfSpec.go at hs
        split at hs <;> (try (simp at hs)) <;> (repeat' split at hs) <;>
          first | (injection hs with _ e _; exact e.symm) | (simp at hs)
      apply main cfa.toNat rfl
      · simp only [hc, evalCfa, evalBreg, getX64, wrap regs.sp hcfaeq]
      · rw [← hcfaeq] at hgo; exact hgo
    | fp =>
      simp only [hc] at hs
      have hgo := hs
      have hcfaeq : cfa = (regs.bp : Int) + off := by
        unfold dwarfSpec.go at hs
        split at hs <;> (try (simp at hs)) <;> (repeat' split at hs) <;>
          first | (injection hs with _ e _; exact e.symm) | (simp at hs)
      apply main cfa.toNat rfl
      · simp only [hc, evalCfa, evalBreg, getX64, wrap regs.bp hcfaeq]
      · rw [← hcfaeq] at hgo; exact hgo
  | regOff reg off =>
    have hoff : InI64 off := by simpa [CfaRule.WF, hc] using hwc
    cases reg with
    | ra => simp [hc] at hs
    | other => simp [hc] at hs
    | sp =>
      simp only [hc] at hs
      have hgo := hs
      have hcfaeq : cfa = (regs.sp : Int) + off := by
        unfold dwarfSpec.go at hs
        split at hs <;> (try (simp at hs)) <;> (repeat' split at hs) <;>
          first | (injection hs with _ e _; exact e.symm) | (simp at hs)
      apply main cfa.toNat rfl
      · simp only [hc, evalCfa, getX64]; exact key regs.sp off hsp hoff hcfaeq
      · rw [← hcfaeq] at hgo; exact hgo
    | fp =>
      simp only [hc] at hs
      have hgo := hs
      have hcfaeq : cfa = (regs.bp : Int) + off := by
        unfold dwarfSpec.go at hs
        split at hs <;> (try (simp at hs)) <;> (repeat' split at hs) <;>
          first | (injection hs with _ e _; exact e.symm) | (simp at hs)
      apply main cfa.toNat rfl
      · simp only [hc, evalCfa, getX64]; exact key regs.bp off hbp hoff hcfaeq
      · rw [← hcfaeq] at hgo; exact hgo

end FH

namespace FH

/-- The register file after a successful aarch64 step. -/
def afterA64 (regs : RegsA64) (raRaw sp' fp' : Nat) : RegsA64 :=
  { mask := regs.mask, lr := strip regs.mask raRaw, sp := sp', fp := fp' }

theorem finishA64_ok {first : Bool} {regs : RegsA64} {newLr newSp newFp : Nat}
    (h0 : strip regs.mask newLr ≠ 0) (hadv : first = false → newSp ≠ regs.sp) :
    finishA64 first regs newLr newSp newFp =
      .ret (.frame (strip regs.mask newLr)) (afterA64 regs newLr newSp newFp) := by
  unfold finishA64 afterA64 RegsA64.setLr
  have h2 : ¬ ((!first) = true ∧ newSp = regs.sp) := by
    intro ⟨a, b⟩
    exact hadv (by simpa using a) b
  simp only [h0, h2, if_false]

/-- Reading the slot `base + 8·s` where `8·s = off + n` is reading `cfa + n`. -/
theorem slot_read {mem : Mem} {base : Nat} {off n s : Int} {v : Nat} (hb : base < U64)
    (hs8 : 8 * s = off + n) (hs1 : -32768 ≤ s) (hs2 : s < 32768)
    (hrd : readAt mem ((base : Int) + off + n) = some v) :
    caddSigned base (s * 8) = some ((base : Int) + off + n).toNat ∧
      mem ((base : Int) + off + n).toNat = some v := by
  obtain ⟨r1, r2, r3⟩ := readAt_some hrd
  refine ⟨?_, r3⟩
  apply caddSigned_of_int hb ⟨by omega, by omega⟩
  · omega
  · unfold U64; omega

/-- **Rule compression is lossless (aarch64).** -/
theorem translateA64_exact (row : Row) (rule : RuleA64) (first : Bool) (regs : RegsA64) (mem : Mem)
    (raRaw : Nat) (cfa : Int) (fp' : Nat) (hrow : row.WF) (hregs : regs.WF)
    (ht : translateA64 row = some rule)
    (hs : dwarfSpec row regs.sp regs.fp regs.lr mem = .step raRaw cfa fp')
    (hcfa : 0 ≤ cfa ∧ cfa < 18446744073709551616) (hra : strip regs.mask raRaw ≠ 0)
    (hcaller : first = false → (regs.sp : Int) < cfa ∧ ∃ n, row.ra = .offset n)
    (hfp : (∃ off, row.cfa = .regOff .fp off) → fp' ≠ 0 ∧ regs.fp < fp' ∧ (regs.sp : Int) < cfa) :
    execA64 rule first regs mem =
      .ret (.frame (strip regs.mask raRaw)) (afterA64 regs raRaw cfa.toNat fp') := by
  obtain ⟨hwc, hwf, hwr⟩ := hrow
  obtain ⟨_, _, hsp, hfpl⟩ := hregs
  unfold translateA64 at ht
  cases hc : row.cfa with
  | expr => simp [hc] at ht
  | exprRegOff _ _ => simp [hc] at ht
  | regOff reg off =>
    simp only [hc] at ht
    have hoff : InI64 off := by simpa [CfaRule.WF, hc] using hwc
    cases reg with
    | ra => simp at ht
    | other => simp at ht
    | sp =>
      simp only [] at ht
      cases hk : exactDivU16 off 16 with
      | none => simp [hk] at ht
      | some k =>
        simp only [hk] at ht
        obtain ⟨hk16, hklt⟩ := exactDivU16_some hk
        simp only [dwarfSpec, hc] at hs
        have hcfaeq : cfa = (regs.sp : Int) + off := by
          unfold dwarfSpec.go at hs
          split at hs <;> (try (simp at hs)) <;> (repeat' split at hs) <;>
            first | (injection hs with _ e _; exact e.symm) | (simp at hs)
        subst hcfaeq
        have hsum : regs.sp + k * 16 < U64 := by unfold U64; omega
        have hto : ((regs.sp : Int) + off).toNat = regs.sp + k * 16 := by omega
        have adv : first = false → regs.sp + k * 16 ≠ regs.sp := by
          intro hf; have := (hcaller hf).1; omega
        cases hrar : row.ra with
        | undefined =>
          simp only [dwarfSpec.go, hrar] at hs
          cases hs
        | valOffset n =>
          have hrl : regRuleToCfaOffset row.ra = .err := by simp [regRuleToCfaOffset, hrar]
          simp [hrl] at ht
        | register r =>
          have hrl : regRuleToCfaOffset row.ra = .err := by simp [regRuleToCfaOffset, hrar]
          simp [hrl] at ht
        | other =>
          have hrl : regRuleToCfaOffset row.ra = .err := by simp [regRuleToCfaOffset, hrar]
          simp [hrl] at ht
        | exprReg _ _ =>
          have hrl : regRuleToCfaOffset row.ra = .err := by simp [regRuleToCfaOffset, hrar]
          simp [hrl] at ht
        | valExprReg _ _ =>
          have hrl : regRuleToCfaOffset row.ra = .err := by simp [regRuleToCfaOffset, hrar]
          simp [hrl] at ht
        | sameValue =>
          have hrl : regRuleToCfaOffset row.ra = .none := by simp [regRuleToCfaOffset, hrar]
          -- lr is not restored: only possible in the first frame
          have hfirst : first = true := by
            cases first with
            | true => rfl
            | false => obtain ⟨_, n, hn⟩ := hcaller rfl; rw [hrar] at hn; cases hn
          subst hfirst
          simp only [dwarfSpec.go, hrar] at hs
          cases hf : regRuleToCfaOffset row.fp with
          | err => simp [hrl, hf] at ht
          | some b => simp [hrl, hf] at ht
          | none =>
            simp only [hrl, hf] at ht
            simp [hrar] at ht
            subst ht
            have hfpr : specReg mem ((regs.sp : Int) + off) regs.fp row.fp = some (some regs.fp) := by
              cases hfr : row.fp <;> simp [regRuleToCfaOffset, hfr] at hf <;> simp [specReg]
            simp only [hfpr] at hs
            injection hs with e1 e2 e3
            subst e1 e3
            simp only [execA64]
            rw [umul_eq _ (by unfold U64; omega), cadd_eq_some hsum]
            simp only [Bool.not_true, Bool.false_eq_true, if_false]
            rw [hto]
            exact finishA64_ok hra (by intro h; cases h)
        | offset n =>
          have hrl : regRuleToCfaOffset row.ra = .some n := by simp [regRuleToCfaOffset, hrar]
          simp only [dwarfSpec.go, hrar] at hs
          cases hrd : readAt mem ((regs.sp : Int) + off + n) with
          | none => simp [hrd] at hs
          | some lrv =>
            simp only [hrd] at hs
            cases hf : regRuleToCfaOffset row.fp with
            | err => simp [hrl, hf] at ht
            | none =>
              simp only [hrl, hf] at ht
              cases hsd : exactSumDiv8I16 off n with
              | none => simp [hsd] at ht
              | some s =>
                simp only [hsd] at ht
                injection ht with ht
                subst ht
                obtain ⟨hs8, hs1, hs2⟩ := exactSumDiv8I16_some hsd
                have hfpr : specReg mem ((regs.sp : Int) + off) regs.fp row.fp = some (some regs.fp) := by
                  cases hfr : row.fp <;> simp [regRuleToCfaOffset, hfr] at hf <;> simp [specReg]
                simp only [hfpr] at hs
                injection hs with e1 e2 e3
                subst e1 e3
                obtain ⟨l1, l2⟩ := slot_read hsp hs8 hs1 hs2 hrd
                simp only [execA64]
                rw [umul_eq _ (by unfold U64; omega), cadd_eq_some hsum]
                simp only []
                rw [imul_eq _ (by omega), l1]
                simp only [l2]
                rw [hto]
                exact finishA64_ok hra adv
            | some b =>
              simp only [hrl, hf] at ht
              cases hsd : exactSumDiv8I16 off n with
              | none => simp [hsd] at ht
              | some s =>
                cases hsd2 : exactSumDiv8I16 off b with
                | none => simp [hsd, hsd2] at ht
                | some s2 =>
                  simp only [hsd, hsd2] at ht
                  injection ht with ht
                  subst ht
                  obtain ⟨hs8, hs1, hs2⟩ := exactSumDiv8I16_some hsd
                  obtain ⟨ht8, ht1, ht2⟩ := exactSumDiv8I16_some hsd2
                  have hfr : row.fp = .offset b := by
                    cases hfr : row.fp <;> simp [regRuleToCfaOffset, hfr] at hf
                    subst hf; rfl
                  simp only [hfr, specReg] at hs
                  cases hrb : readAt mem ((regs.sp : Int) + off + b) with
                  | none => simp [hrb] at hs
                  | some fpv =>
                    simp only [hrb] at hs
                    injection hs with e1 e2 e3
                    subst e1 e3
                    obtain ⟨l1, l2⟩ := slot_read hsp hs8 hs1 hs2 hrd
                    obtain ⟨f1, f2⟩ := slot_read hsp ht8 ht1 ht2 hrb
                    simp only [execA64]
                    rw [umul_eq _ (by unfold U64; omega), cadd_eq_some hsum]
                    simp only []
                    rw [imul_eq _ (by omega), l1]
                    simp only [l2]
                    rw [imul_eq _ (by omega), f1]
                    simp only [f2]
                    rw [hto]
                    exact finishA64_ok hra adv
    | fp =>
      simp only [] at ht
      obtain ⟨hfp0, hfpgt, hspgt⟩ := hfp ⟨off, hc⟩
      simp only [dwarfSpec, hc] at hs
      have hcfaeq : cfa = (regs.fp : Int) + off := by
        unfold dwarfSpec.go at hs
        split at hs <;> (try (simp at hs)) <;> (repeat' split at hs) <;>
          first | (injection hs with _ e _; exact e.symm) | (simp at hs)
      subst hcfaeq
      cases hrl : regRuleToCfaOffset row.ra with
      | err => simp [hrl] at ht
      | none => simp [hrl] at ht
      | some l =>
        cases hf : regRuleToCfaOffset row.fp with
        | err => simp [hrl, hf] at ht
        | none => simp [hrl, hf] at ht
        | some f =>
          simp only [hrl, hf] at ht
          have hrar : row.ra = .offset l := by
            cases hrr : row.ra <;> simp [regRuleToCfaOffset, hrr] at hrl
            subst hrl; rfl
          have hfr : row.fp = .offset f := by
            cases hfr : row.fp <;> simp [regRuleToCfaOffset, hfr] at hf
            subst hf; rfl
          simp only [dwarfSpec.go, hrar, hfr, specReg] at hs
          cases hrd : readAt mem ((regs.fp : Int) + off + l) with
          | none => simp [hrd] at hs
          | some lrv =>
            simp only [hrd] at hs
            cases hrb : readAt mem ((regs.fp : Int) + off + f) with
            | none => simp [hrb] at hs
            | some fpv =>
              simp only [hrb] at hs
              injection hs with e1 e2 e3
              subst e1 e3
              have adv : first = false → ((regs.fp : Int) + off).toNat ≠ regs.sp := by
                intro _; omega
              split at ht
              · -- the standard frame record: UseFramePointer
                rename_i hstd
                obtain ⟨ho, hf16, hl8⟩ := hstd
                subst ho hf16 hl8
                injection ht with ht
                subst ht
                obtain ⟨r1, r2, r3⟩ := readAt_some hrd
                obtain ⟨b1, b2, b3⟩ := readAt_some hrb
                have hsum : regs.fp + 16 < U64 := by unfold U64; omega
                simp only [execA64]
                rw [cadd_eq_some hsum]
                simp only []
                rw [uaddP_eq _ _ (by omega)]
                have e8 : ((regs.fp : Int) + 16 + -8).toNat = regs.fp + 8 := by omega
                have e0 : ((regs.fp : Int) + 16 + -16).toNat = regs.fp := by omega
                rw [e8] at r3
                rw [e0] at b3
                simp only [r3, b3]
                have h1 : ¬ (fpv ≤ regs.fp ∨ regs.fp + 16 ≤ regs.sp) := by omega
                simp only [hfp0, h1, if_false]
                have hto : ((regs.fp : Int) + 16).toNat = regs.fp + 16 := by omega
                rw [hto]
                exact finishA64_ok hra (by intro _; omega)
              · cases hk : exactDivU16 off 8 with
                | none => simp [hk] at ht
                | some k =>
                  cases hsd : exactSumDiv8I16 off l with
                  | none => simp [hk, hsd] at ht
                  | some s =>
                    cases hsd2 : exactSumDiv8I16 off f with
                    | none => simp [hk, hsd, hsd2] at ht
                    | some s2 =>
                      simp only [hk, hsd, hsd2] at ht
                      injection ht with ht
                      subst ht
                      obtain ⟨hk8, hklt⟩ := exactDivU16_some hk
                      obtain ⟨hs8, hs1, hs2⟩ := exactSumDiv8I16_some hsd
                      obtain ⟨ht8, ht1, ht2⟩ := exactSumDiv8I16_some hsd2
                      obtain ⟨l1, l2⟩ := slot_read hfpl hs8 hs1 hs2 hrd
                      obtain ⟨f1, f2⟩ := slot_read hfpl ht8 ht1 ht2 hrb
                      have hsum : regs.fp + k * 8 < U64 := by unfold U64; omega
                      have hto : ((regs.fp : Int) + off).toNat = regs.fp + k * 8 := by omega
                      simp only [execA64]
                      rw [umul_eq _ (by unfold U64; omega), cadd_eq_some hsum]
                      simp only []
                      rw [imul_eq _ (by omega), l1]
                      simp only [l2]
                      rw [imul_eq _ (by omega), f1]
                      simp only [f2]
                      have h1 : ¬ (fpv ≤ regs.fp ∨ regs.fp + k * 8 ≤ regs.sp) := by omega
                      simp only [hfp0, h1, if_false]
                      rw [hto]
                      exact finishA64_ok hra (by intro _; omega)

end FH

namespace FH

theorem evalRegRule_spec_some {get : DReg → Option Nat} {mem : Mem} {rule : RegRule} {cfa : Nat}
    {cur : Nat} {v : Nat} (hc : cfa < U64) (hw : rule.WF) (hne : rule ≠ .undefined)
    (hs : specReg mem (cfa : Int) cur rule = some (some v)) :
    evalRegRule get mem rule cfa cur = some v := by
  cases rule with
  | undefined => exact (hne rfl).elim
  | sameValue => simp [specReg] at hs; simp [evalRegRule, hs]
  | offset n =>
    simp only [specReg] at hs
    injection hs with hs
    obtain ⟨r1, r2, r3⟩ := readAt_some hs
    have hloc : caddSigned cfa n = some ((cfa : Int) + n).toNat := by
      apply caddSigned_of_int hc hw
      · omega
      · unfold U64; omega
    simp [evalRegRule, hloc, r3]
  | valOffset n => simp [specReg] at hs
  | register r => simp [specReg] at hs
  | other => simp [specReg] at hs
  | exprReg _ _ => simp [specReg] at hs
  | valExprReg _ _ => simp [specReg] at hs

/-- **The generic evaluator implements DWARF (aarch64).** In caller frames framehop insists
on recovering the frame pointer, so there the row must say how (`same value` or a slot). -/
theorem genericA64_exact (row : Row) (first : Bool) (regs : RegsA64) (mem : Mem)
    (raRaw : Nat) (cfa : Int) (fp' : Nat) (hrow : row.WF) (hregs : regs.WF)
    (hs : dwarfSpec row regs.sp regs.fp regs.lr mem = .step raRaw cfa fp')
    (hcfa : 0 ≤ cfa ∧ cfa < 18446744073709551616)
    (hcaller : first = false → (regs.sp : Int) < cfa ∧ row.fp ≠ .undefined) :
    genericA64 row first regs mem =
      .ok (strip regs.mask raRaw) (afterA64 regs raRaw cfa.toNat fp') := by
  obtain ⟨hwc, hwf, hwr⟩ := hrow
  obtain ⟨_, _, hsp, hfpl⟩ := hregs
  have key : ∀ (base : Nat) (off : Int), base < U64 → InI64 off → cfa = (base : Int) + off →
      caddSigned base off = some cfa.toNat := by
    intro base off hb ho he
    apply caddSigned_of_int hb ho
    · omega
    · unfold U64; omega
  have main : evalCfa (getA64 regs) row.cfa = some cfa.toNat →
      dwarfSpec.go row regs.fp regs.lr mem cfa = .step raRaw cfa fp' →
      genericA64 row first regs mem =
        .ok (strip regs.mask raRaw) (afterA64 regs raRaw cfa.toNat fp') := by
    intro hev hgo
    have hcn : ((cfa.toNat : Nat) : Int) = cfa := by omega
    have hclt : cfa.toNat < U64 := by unfold U64; omega
    unfold genericA64
    simp only [hev]
    unfold dwarfSpec.go at hgo
    -- what the two register rules evaluate to
    have both : ∃ (raRule : RegRule), row.ra = raRule ∧ raRule ≠ .undefined ∧
        specReg mem cfa regs.lr raRule = some (some raRaw) ∧
        specReg mem cfa regs.fp row.fp = some (some fp') := by
      cases hrar : row.ra with
      | undefined => simp [hrar] at hgo
      | valOffset n => simp [hrar] at hgo
      | register r => simp [hrar] at hgo
      | other => simp [hrar] at hgo
      | exprReg _ _ => simp [hrar] at hgo
      | valExprReg _ _ => simp [hrar] at hgo
      | sameValue =>
        simp only [hrar] at hgo
        cases hsr : specReg mem cfa regs.fp row.fp with
        | none => simp [hsr] at hgo
        | some o =>
          cases o with
          | none => simp [hsr] at hgo
          | some v =>
            simp only [hsr] at hgo
            injection hgo with e1 e2 e3
            subst e1 e3
            exact ⟨_, rfl, by simp, by simp [specReg], rfl⟩
      | offset n =>
        simp only [hrar] at hgo
        cases hrd : readAt mem (cfa + n) with
        | none => simp [hrd] at hgo
        | some ra' =>
          simp only [hrd] at hgo
          cases hsr : specReg mem cfa regs.fp row.fp with
          | none => simp [hsr] at hgo
          | some o =>
            cases o with
            | none => simp [hsr] at hgo
            | some v =>
              simp only [hsr] at hgo
              injection hgo with e1 e2 e3
              subst e1 e3
              exact ⟨_, rfl, by simp, by simp [specReg, hrd], rfl⟩
    obtain ⟨raRule, hrr, hrne, hsra, hsfp⟩ := both
    have hnroot : ¬ ((!first) = true ∧ row.ra = .undefined) := by
      intro ⟨_, h⟩; rw [hrr] at h; exact hrne h
    simp only [hnroot, if_false]
    rw [← hcn] at hsra hsfp
    have hwr' : raRule.WF := by rw [← hrr]; exact hwr
    have elr := evalRegRule_spec_some (get := getA64 regs) hclt hwr' hrne hsra
    rw [hrr]
    cases first with
    | true =>
      have efp := evalRegRule_spec (get := getA64 regs) hclt hwf hsfp
      simp only [Bool.not_true, Bool.false_eq_true, if_false, elr, efp, Option.getD_some]
      rfl
    | false =>
      obtain ⟨hgt, hfne⟩ := hcaller rfl
      have efp := evalRegRule_spec_some (get := getA64 regs) hclt hwf hfne hsfp
      have hnle : ¬ (cfa.toNat ≤ regs.sp) := by omega
      simp only [Bool.not_false, if_true, hnle, if_false, efp, elr]
      rfl
  unfold dwarfSpec at hs
  cases hc : row.cfa with
  | expr => simp [hc] at hs
  | exprRegOff reg off =>
    have wrap : ∀ base : Nat, cfa = (base : Int) + off →
        wrappingAddSigned base off = cfa.toNat := by
      intro base he
      unfold wrappingAddSigned
      rw [← he, Int.emod_eq_of_lt hcfa.1 hcfa.2]
    cases reg with
    | ra => simp [hc] at hs
    | other => simp [hc] at hs
    | sp =>
      simp only [hc] at hs
      have hgo := hs
      have hcfaeq : cfa = (regs.sp : Int) + off := by
        unfold dwarfSpec.go at hs
        split at hs <;> (try (simp at hs)) <;> (repeat' split at hs) <;>
          first | (injection hs with _ e _; exact e.symm) | (simp at hs)
      apply main
      · simp only [hc, evalCfa, evalBreg, getA64, wrap regs.sp hcfaeq]
      · rw [← hcfaeq] at hgo; exact hgo
    | fp =>
      simp only [hc] at hs
      have hgo := hs
      have hcfaeq : cfa = (regs.fp : Int) + off := by
        unfold dwarfSpec.go at hs
        split at hs <;> (try (simp at hs)) <;> (repeat' split at hs) <;>
          first | (injection hs with _ e _; exact e.symm) | (simp at hs)
      apply main
      · simp only [hc, evalCfa, evalBreg, getA64, wrap regs.fp hcfaeq]
      · rw [← hcfaeq] at hgo; exact hgo
  | regOff reg off =>
    have hoff : InI64 off := by simpa [CfaRule.WF, hc] using hwc
    cases reg with
    | ra => simp [hc] at hs
    | other => simp [hc] at hs
    | sp =>
      simp only [hc] at hs
      have hgo := hs
      have hcfaeq : cfa = (regs.sp : Int) + off := by
        unfold dwarfSpec.go at hs
        split at hs <;> (try (simp at hs)) <;> (repeat' split at hs) <;>
          first | (injection hs with _ e _; exact e.symm) | (simp at hs)
      apply main
      · simp only [hc, evalCfa, getA64]; exact key regs.sp off hsp hoff hcfaeq
      · rw [← hcfaeq] at hgo; exact hgo
    | fp =>
      simp only [hc] at hs
      have hgo := hs
      have hcfaeq : cfa = (regs.fp : Int) + off := by
        unfold dwarfSpec.go at hs
        split at hs <;> (try (simp at hs)) <;> (repeat' split at hs) <;>
          first | (injection hs with _ e _; exact e.symm) | (simp at hs)
      apply main
      · simp only [hc, evalCfa, getA64]; exact key regs.fp off hfpl hoff hcfaeq
      · rw [← hcfaeq] at hgo; exact hgo

end FH
