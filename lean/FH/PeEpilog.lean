import FH.PeBody
/-!
# PE: unwinding from inside an epilog (C03)

The epilog `add rsp, n` / `lea rsp, [fr + x]`; `pop r…`; `ret` undoes the prolog. framehop
simulates the instructions that remain at the pc (`interpEpilog`). The theorems: at every
instruction boundary of the epilog the simulation performs exactly the documented pop procedure on
what is left of the frame, and at the start of the epilog it agrees with unwinding from the body
through the unwind codes - so the first-frame switch between the two paths cannot be observed.
-/
namespace FH

/-- `popSpecLoop` never reads rsp from the register file (it threads the stack pointer itself
and overwrites the register at the end). -/
theorem popSpecLoop_setRsp (mem : Mem) : ∀ (l : List Nat) (sp : Nat) (ra : Nat) (ρ r' : Nat → Nat)
    (x : Nat), RSP ∉ l → popSpecLoop mem l sp ρ = some (ra, r') →
    popSpecLoop mem l sp (setReg ρ RSP x) = some (ra, r') := by
  intro l
  induction l with
  | nil =>
    intro sp ra ρ r' x _ hh
    cases hm : mem sp with
    | none => simp [popSpecLoop, hm] at hh
    | some w =>
      simp only [popSpecLoop, hm] at hh ⊢
      injection hh with hh; injection hh with a b; subst a b
      congr 2
      funext j; simp only [setReg]; split <;> rfl
  | cons y ys ih =>
    intro sp ra ρ r' x hny hh
    cases hm : mem sp with
    | none => simp [popSpecLoop, hm] at hh
    | some w =>
      simp only [popSpecLoop, hm] at hh ⊢
      have hy : y ≠ RSP := fun e => hny (by simp [e])
      have comm : setReg (setReg ρ RSP x) y w = setReg (setReg ρ y w) RSP x := by
        funext j; simp only [setReg]
        by_cases a : j = y
        · subst a; simp [hy]
        · by_cases b : j = RSP
          · subst b; simp [a]
          · simp [a, b]
      rw [comm]
      exact ih _ _ _ _ _ (fun hm => hny (List.mem_cons_of_mem _ hm)) hh

/-- The remaining pops of an epilog, then `ret`. -/
theorem interpEpilog_pops_of_spec (fr : Option Nat) (mem : Mem) :
    ∀ (pes : List Nat) (r : Nat → Nat) (ra : Nat) (r' : Nat → Nat), RSP ∉ pes.map peReg →
      r RSP + 8 * pes.length + 8 < U64 →
      popSpecLoop mem (pes.map peReg) (r RSP) r = some (ra, r') →
      interpEpilog fr mem (pes.map .pop) r = .ok ra r'
  | [], r, ra, r', _, hlt, h => by
    simp only [List.map_nil, popSpecLoop] at h
    split at h
    · cases h
    · rename_i v hv
      injection h with h; injection h with h1 h2; subst h1 h2
      simp [interpEpilog, popReturnAddress, hv, cadd_eq_some (show r RSP + 8 < U64 by simpa using hlt)]
  | pe :: rest, r, ra, r', hn, hlt, h => by
    simp only [List.map_cons, popSpecLoop] at h
    split at h
    · cases h
    · rename_i v hv
      simp only [List.length_cons] at hlt
      have c : cadd (r RSP) 8 = some (r RSP + 8) := cadd_eq_some (by omega)
      simp only [List.map_cons, interpEpilog, hv, c]
      have hne : peReg pe ≠ RSP := by intro e; apply hn; simp [e]
      have hrest : RSP ∉ rest.map peReg := by intro hm; apply hn; simp [hm]
      -- both continue from the same registers; conclude by the induction hypothesis through
      -- the specification of the rest
      have hsp : (setReg (setReg r (peReg pe) v) RSP (r RSP + 8)) RSP = r RSP + 8 := by simp
      have key : popSpecLoop mem (rest.map peReg)
          ((setReg (setReg r (peReg pe) v) RSP (r RSP + 8)) RSP)
          (setReg (setReg r (peReg pe) v) RSP (r RSP + 8)) = some (ra, r') := by
        rw [hsp]
        exact popSpecLoop_setRsp mem (rest.map peReg) (r RSP + 8) ra (setReg r (peReg pe) v) r' (r RSP + 8) hrest h
      exact interpEpilog_pops_of_spec fr mem rest _ ra r' hrest (by rw [hsp]; omega) key

/-- **At the start of the epilog of a frame-register-free function** (`add rsp, n; pop…; ret`),
and from there at every later boundary (take `n = 0` and the pops that are left). -/
theorem interpEpilog_addSP (fr : Option Nat) (A n : Nat) (mem : Mem) (pops : List Nat)
    (r : Nat → Nat) (ra : Nat) (r' : Nat → Nat) (hsp : r RSP = A)
    (hn : RSP ∉ pops.map peReg) (hlt : A + n + 8 * pops.length + 8 < U64)
    (hspec : popSpecLoop mem (pops.map peReg) (A + n) (setReg r RSP (A + n)) = some (ra, r')) :
    interpEpilog fr mem (.addSP n :: pops.map .pop) r = .ok ra r' := by
  have c : cadd (r RSP) n = some (A + n) := by rw [hsp]; exact cadd_eq_some (by omega)
  simp only [interpEpilog, c]
  apply interpEpilog_pops_of_spec fr mem pops (setReg r RSP (A + n)) ra r' hn
  · simp; omega
  · simpa using hspec

/-- **At the start of the epilog of a function with a frame register** (`lea rsp, [fr + x]`
with `x = n - fo`, i.e. the address `A + n` just below the pushed registers; `rsp` itself may be
anywhere: dynamic allocations). -/
theorem interpEpilog_addSPFromFP (f fo A n x : Nat) (mem : Mem) (pops : List Nat)
    (r : Nat → Nat) (ra : Nat) (r' : Nat → Nat) (hfp : r (peReg f) = A + fo) (hx : fo + x = n)
    (hn : RSP ∉ pops.map peReg) (hlt : A + n + 8 * pops.length + 8 < U64)
    (hspec : popSpecLoop mem (pops.map peReg) (A + n) (setReg r RSP (A + n)) = some (ra, r')) :
    interpEpilog (some f) mem (.addSPFromFP x :: pops.map .pop) r = .ok ra r' := by
  have e : A + fo + x = A + n := by omega
  have c : cadd (r (peReg f)) x = some (A + n) := by rw [hfp, ← e]; exact cadd_eq_some (by omega)
  simp only [interpEpilog, c]
  apply interpEpilog_pops_of_spec (some f) mem pops (setReg r RSP (A + n)) ra r' hn
  · simp; omega
  · simpa using hspec

/-- **Body and epilog agree.** For a function without mov-saved registers, stopped at the first
instruction of its epilog, simulating the epilog and interpreting the unwind codes give the same
result - the first-frame switch between the two mechanisms cannot be observed. -/
theorem epilog_agrees_with_body (A n : Nat) (mem : Mem) (pops : List Nat) (r : Nat → Nat)
    (ra : Nat) (r' : Nat → Nat) (hsp : r RSP = A) (hn : RSP ∉ pops.map peReg)
    (hlt : A + n + 8 * pops.length + 8 < U64)
    (hspec : popSpecLoop mem (pops.map peReg) (A + n) (setReg r RSP (A + n)) = some (ra, r')) :
    interpEpilog none mem (.addSP n :: pops.map .pop) r =
      interpOps none 0 mem ([.unStackAlloc n] ++ pops.map .popNonVolatile) r := by
  rw [interpEpilog_addSP none A n mem pops r ra r' hsp hn hlt hspec]
  have hb := interpOps_body none 0 A n mem [] pops r ra r' (by simpa [BaseIs] using hsp)
    (by intro p hp; cases hp) hn hlt (by simpa [restoreSaves] using hspec)
  simpa using hb.symm

end FH
