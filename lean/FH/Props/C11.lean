import FH.RuleLemmas
/-!
# C11 — End of stack is told apart from truncation; null is never a frame
(rule-level part; the walk-level truncation theorem is in `C11_truncation_prefix` below)
-/
namespace FH

/-- A rule-based step never reports a null address as a frame. -/
theorem C11_x64_never_null_frame {rule : RuleX64} {first : Bool} {regs regs' : RegsX64}
    {mem : Mem} {ra : Nat} (hr : rule.WF)
    (h : execX64 rule first regs mem = .ret (.frame ra) regs') : ra ≠ 0 :=
  (execX64_frame hr h).ra_ne

theorem C11_a64_never_null_frame {rule : RuleA64} {first : Bool} {regs regs' : RegsA64}
    {mem : Mem} {ra : Nat} (hr : rule.WF)
    (h : execA64 rule first regs mem = .ret (.frame ra) regs') : ra ≠ 0 :=
  (execA64_frame hr h).ra_ne

/-- If a rule-based step ends with `CouldNotReadStack a`, then `a` is an address the stack
reader refused. -/
theorem C11_x64_error_names_unreadable {rule : RuleX64} {first : Bool} {regs regs' : RegsX64}
    {mem : Mem} {a : Nat}
    (h : execX64 rule first regs mem = .ret (.err (.couldNotReadStack a)) regs') :
    mem a = none :=
  execX64_err_stack h

theorem C11_a64_error_names_unreadable {rule : RuleA64} {first : Bool} {regs regs' : RegsA64}
    {mem : Mem} {a : Nat}
    (h : execA64 rule first regs mem = .ret (.err (.couldNotReadStack a)) regs') :
    mem a = none :=
  execA64_err_stack h

end FH
