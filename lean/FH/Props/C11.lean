import FH.RuleLemmas
import FH.Trunc
import FH.World
import FH.DoneLemmas
/-!
# C11 — End of stack is told apart from truncation; null is never a frame
(rule-level part; the walk-level truncation theorem is in `C11_truncation_prefix` below)
-/
namespace FH

/-- A rule-based step never reports a null address as a frame. -/
theorem C11_x64_never_null_frame {rule : RuleX64} {first : Bool} {regs regs' : RegsX64}
    {mem : Mem} {ra : Nat} (hr : rule.WF)
    (h : execX64 rule first regs mem = .ret (.frame ra) regs') : ra ≠ 0 :=
  (execX64_frame hr h).ra_ne

theorem C11_a64_never_null_frame {rule : RuleA64} {first : Bool} {regs regs' : RegsA64}
    {mem : Mem} {ra : Nat} (hr : rule.WF)
    (h : execA64 rule first regs mem = .ret (.frame ra) regs') : ra ≠ 0 :=
  (execA64_frame hr h).ra_ne

/-- **Ok(None) only at a root marker (x86-64).** If a rule step completes the walk, then the
rule is the "return address undefined" rule, or the step followed a null frame pointer, or a null
return address was read from the stack. -/
theorem C11_x64_done_only_at_root_marker {rule : RuleX64} {first : Bool} {regs regs' : RegsX64}
    {mem : Mem} (h : execX64 rule first regs mem = .ret .done regs') :
    rule = .endOfStack ∨ (usesBpX64 rule first = true ∧ regs.bp = 0) ∨ ∃ a, mem a = some 0 :=
  execX64_done h

/-- **Ok(None) only at a root marker (aarch64)**: the "stack ends here" rule in a caller frame
(return address undefined), a null saved frame pointer in the slot the rule reads, or a return
address (in `lr` or loaded from the stack) that is null once stripped. -/
theorem C11_a64_done_only_at_root_marker {rule : RuleA64} {first : Bool} {regs regs' : RegsA64}
    {mem : Mem} (h : execA64 rule first regs mem = .ret .done regs') :
    ((∃ k, rule = .offsetSpIfFirstFrameOtherwiseStackEndsHere k) ∧ first = false) ∨
      (∃ a, fpSlotA64 rule first regs = some a ∧ mem a = some 0) ∨ NullRaA64 regs mem :=
  execA64_done h

/-- Conversely the "return address undefined" rules complete the walk. -/
theorem C11_undefined_ra_rules_complete (regsX : RegsX64) (regsA : RegsA64) (mem : Mem) (first : Bool)
    (k : Nat) :
    execX64 .endOfStack first regsX mem = .ret .done regsX ∧
      execA64 (.offsetSpIfFirstFrameOtherwiseStackEndsHere k) false regsA mem = .ret .done regsA :=
  ⟨rfl, rfl⟩

/-- If a rule-based step ends with `CouldNotReadStack a`, then `a` is an address the stack
reader refused. -/
theorem C11_x64_error_names_unreadable {rule : RuleX64} {first : Bool} {regs regs' : RegsX64}
    {mem : Mem} {a : Nat}
    (h : execX64 rule first regs mem = .ret (.err (.couldNotReadStack a)) regs') :
    mem a = none :=
  execX64_err_stack h

theorem C11_a64_error_names_unreadable {rule : RuleA64} {first : Bool} {regs regs' : RegsA64}
    {mem : Mem} {a : Nat}
    (h : execA64 rule first regs mem = .ret (.err (.couldNotReadStack a)) regs') :
    mem a = none :=
  execA64_err_stack h

/-- Truncation, one step: with reads at or above `c` failing, a rule-based step either behaves
as before or reports `CouldNotReadStack(a)` for an unreadable `a ≥ c`. -/
theorem C11_x64_step_truncation (c : Nat) (rule : RuleX64) (first : Bool) (regs : RegsX64)
    (mem : Mem) (hr : rule.WF) :
    TruncOK c (execX64 rule first regs mem) (execX64 rule first regs (cutMem c mem)) :=
  execX64_trunc c rule first regs mem hr

theorem C11_a64_step_truncation (c : Nat) (rule : RuleA64) (first : Bool) (regs : RegsA64)
    (mem : Mem) :
    TruncOK c (execA64 rule first regs mem) (execA64 rule first regs (cutMem c mem)) :=
  execA64_trunc c rule first regs mem

/-- Truncation, whole walk: for any walk made of truncation-safe steps (any assignment of rules
to frames, both architectures), cutting the readable stack at `c` yields the same walk or a
prefix of its frames followed by `Err(CouldNotReadStack(a))` with `a ≥ c`. -/
theorem C11_truncation_prefix {S : Type} (step : Mem → S → Out S) (mem : Mem) (c : Nat)
    (hstep : ∀ s, TruncOK c (step mem s) (step (cutMem c mem) s)) (n : Nat) (s : S) :
    walkWith step (cutMem c mem) n s = walkWith step mem n s ∨
      ∃ k a, a ≥ c ∧
        walkWith step (cutMem c mem) n s =
          (walkWith step mem n s).take k ++ [.err (.couldNotReadStack a)] ∧
        ∀ r ∈ (walkWith step mem n s).take k, IsFrame r :=
  walk_trunc step mem c hstep n s

/-- Instance: an x86-64 walk whose frames are unwound by arbitrary cached rules. -/
theorem C11_x64_rule_walk_truncation (rules : Nat → RuleX64) (hr : ∀ i, (rules i).WF) (mem : Mem)
    (c n : Nat) (regs : RegsX64) :
    let step : Mem → (Nat × RegsX64) → Out (Nat × RegsX64) := fun m s =>
      match execX64 (rules s.1) (s.1 == 0) s.2 m with
      | .ret r g => .ret r (s.1 + 1, g)
      | .panic p => .panic p
    walkWith step (cutMem c mem) n (0, regs) = walkWith step mem n (0, regs) ∨
      ∃ k a, a ≥ c ∧
        walkWith step (cutMem c mem) n (0, regs) =
          (walkWith step mem n (0, regs)).take k ++ [.err (.couldNotReadStack a)] ∧
        ∀ r ∈ (walkWith step mem n (0, regs)).take k, IsFrame r := by
  intro step
  apply walk_trunc
  intro s
  rcases execX64_trunc c (rules s.1) (s.1 == 0) s.2 mem (hr s.1) with h | ⟨a, g, ha, h⟩
  · left; simp only [step, h]
  · right; exact ⟨a, (s.1 + 1, g), ha, by simp only [step, h]⟩

/-- Instance: an aarch64 walk whose frames are unwound by arbitrary cached rules. -/
theorem C11_a64_rule_walk_truncation (rules : Nat → RuleA64) (mem : Mem) (c n : Nat)
    (regs : RegsA64) :
    let step : Mem → (Nat × RegsA64) → Out (Nat × RegsA64) := fun m s =>
      match execA64 (rules s.1) (s.1 == 0) s.2 m with
      | .ret r g => .ret r (s.1 + 1, g)
      | .panic p => .panic p
    walkWith step (cutMem c mem) n (0, regs) = walkWith step mem n (0, regs) ∨
      ∃ k a, a ≥ c ∧
        walkWith step (cutMem c mem) n (0, regs) =
          (walkWith step mem n (0, regs)).take k ++ [.err (.couldNotReadStack a)] ∧
        ∀ r ∈ (walkWith step mem n (0, regs)).take k, IsFrame r := by
  intro step
  apply walk_trunc
  intro s
  rcases execA64_trunc c (rules s.1) (s.1 == 0) s.2 mem with h | ⟨a, g, ha, h⟩
  · left; simp only [step, h]
  · right; exact ⟨a, (s.1 + 1, g), ha, by simp only [step, h]⟩

/-- On the uncacheable paths a null return address is end of stack too (`with_cache`). -/
theorem C11_uncacheable_null_is_end_of_stack : resOfRa 0 = .done ∧ ∀ ra, ra ≠ 0 → resOfRa ra = .frame ra := by
  refine ⟨rfl, fun ra h => by simp [resOfRa, h]⟩

end FH
