import FH.ModuleLemmas
import FH.Hist
/-!
# C07 — Module set semantics: containment lookup, order independence, removal

The module list refines a finite set of non-overlapping, non-empty address ranges.
-/
namespace FH

/-- An address inside a registered module's range is resolved to that module (its index
in the list and the address relative to its base), provided the base address is not above
the address and the offset fits the `u32` relative-address representation. -/
theorem C07_contained_address_found (mods : List Module) (h : NonOverlap mods) (a j : Nat)
    (m : Module) (hm : mods[j]? = some m) (hc : m.contains a) :
    findModule mods a =
      if a < m.baseAvma then none
      else if a - m.baseAvma < U32 then some (j, a - m.baseAvma) else none :=
  findModule_complete mods h a j m hm hc

/-- Whatever is returned is a registered module that contains the address (any module list). -/
theorem C07_found_module_contains (mods : List Module) (a j rel : Nat)
    (hf : findModule mods a = some (j, rel)) :
    ∃ m, mods[j]? = some m ∧ m.contains a ∧ rel = a - m.baseAvma :=
  let ⟨m, h1, h2, _, h4, _⟩ := findModule_sound mods a j rel hf
  ⟨m, h1, h2, h4⟩

/-- An address no registered module contains is unwound with no module's data - for any module
list whatsoever (overlapping, empty ranges: since 2a4e12e a module with an empty range no longer
claims its start address). -/
theorem C07_uncontained_address_unknown (mods : List Module) (a : Nat)
    (hn : ∀ m ∈ mods, ¬ m.contains a) : findModule mods a = none :=
  findModule_none mods a hn

/-- Adding a module that overlaps none of the registered ones keeps the structure and adds
exactly that module. -/
theorem C07_add (mods : List Module) (m : Module) (h : NonOverlap mods) (hm : m.start < m.stop)
    (hd : ∀ x ∈ mods, x.stop ≤ m.start ∨ m.stop ≤ x.start) :
    NonOverlap (addModule mods m) ∧ ∀ x, x ∈ addModule mods m ↔ x = m ∨ x ∈ mods :=
  addModule_nonOverlap mods m h hm hd

/-- Order independence: the list (hence every lookup) is determined by the *set* of
registered modules. In particular two orders of adding the same modules give equal lists. -/
theorem C07_order_independent (l₁ l₂ : List Module) (h₁ : NonOverlap l₁) (h₂ : NonOverlap l₂)
    (hp : l₁.Perm l₂) : l₁ = l₂ :=
  nonOverlap_unique l₁ l₂ h₁ h₂ hp

theorem C07_add_commutes (mods : List Module) (a b : Module) (h : NonOverlap mods)
    (ha : a.start < a.stop) (hb : b.start < b.stop)
    (hda : ∀ x ∈ mods, x.stop ≤ a.start ∨ a.stop ≤ x.start)
    (hdb : ∀ x ∈ mods, x.stop ≤ b.start ∨ b.stop ≤ x.start)
    (hab : a.stop ≤ b.start ∨ b.stop ≤ a.start) :
    addModule (addModule mods a) b = addModule (addModule mods b) a := by
  have A := addModule_nonOverlap mods a h ha hda
  have B := addModule_nonOverlap mods b h hb hdb
  have AB := addModule_nonOverlap (addModule mods a) b A.1 hb (by
    intro x hx
    rcases (A.2 x).mp hx with rfl | hx
    · exact hab
    · exact hdb x hx)
  have BA := addModule_nonOverlap (addModule mods b) a B.1 ha (by
    intro x hx
    rcases (B.2 x).mp hx with rfl | hx
    · rcases hab with h1 | h1
      · exact Or.inr h1
      · exact Or.inl h1
    · exact hda x hx)
  apply nonOverlap_unique _ _ AB.1 BA.1
  have p1 := (addModule_perm (addModule mods a) b).trans ((addModule_perm mods a).cons b)
  have p2 := (addModule_perm (addModule mods b) a).trans ((addModule_perm mods b).cons a)
  exact p1.trans ((List.Perm.swap a b mods).trans p2.symm)

/-- Removing a registered range start removes exactly that module; removing an unknown
start changes nothing (and, see `hstep`, draws no new generation). -/
theorem C07_remove_present (mods : List Module) (h : NonOverlap mods) (j : Nat) (m : Module)
    (hm : mods[j]? = some m) :
    removeModule mods m.start = some (mods.eraseIdx j) ∧ NonOverlap (mods.eraseIdx j) :=
  removeModule_present mods h j m hm

theorem C07_remove_absent (mods : List Module) (s : Nat) (h : ∀ m ∈ mods, m.start ≠ s) :
    removeModule mods s = none :=
  removeModule_absent mods s h

/-- After removal the range is unknown again. -/
theorem C07_removed_range_unknown (mods : List Module) (h : NonOverlap mods) (j : Nat) (m : Module)
    (hm : mods[j]? = some m) (a : Nat) (hc : m.contains a) :
    findModule (mods.eraseIdx j) a = none := by
  have hno := (removeModule_present mods h j m hm).2
  apply findModule_none _
  intro x hx hcx
  -- `x` is a module of the original list other than the one at index `j`
  have hjl : j < mods.length := (List.getElem?_eq_some_iff.mp hm).1
  obtain ⟨i, hi⟩ := List.getElem?_of_mem hx
  rw [List.getElem?_eraseIdx] at hi
  split at hi
  · rename_i hlt
    have := h.start_lt hi hm hlt
    have := hc.1; have := hcx.2; omega
  · rename_i hge
    have := h.start_lt hm hi (by omega)
    have := hc.2; have := hcx.1; omega

/-- The highest known code address is the largest range end, or 0 without modules. -/
theorem C07_max_known (mods : List Module) (h : NonOverlap mods) :
    (mods = [] → maxKnown mods = 0) ∧
    (∀ m ∈ mods, m.stop ≤ maxKnown mods) ∧ (mods ≠ [] → ∃ m ∈ mods, maxKnown mods = m.stop) :=
  maxKnown_is_max mods h

/-- Clones evolve independently: an operation on one unwinder leaves every other
unwinder's module list (and generation) untouched. -/
theorem C07_clones_independent (A : Arch) (N : Nat) (w : HWorld A) (i k : Nat) (m : Module)
    (hik : i ≠ k) : ((hstep A N w (.add i m)).1.unws)[k]? = w.unws[k]? ∧
      ∀ s, ((hstep A N w (.remove i s)).1.unws)[k]? = w.unws[k]? := by
  refine ⟨?_, fun s => ?_⟩
  · simp only [hstep]
    split
    · simp [drawGen, hik]
    · rfl
  · simp only [hstep]
    split
    · split
      · simp [drawGen, hik]
      · rfl
    · rfl

-- Non-vacuity: two adjacent modules, one with its base below the range start.
example : NonOverlap [⟨0x1000, 0x2000, 0x800, 0, .none⟩, ⟨0x2000, 0x2001, 0x2000, 0, .none⟩] := by
  refine ⟨by simp, ?_⟩
  intro m hm
  simp at hm
  rcases hm with rfl | rfl <;> decide

end FH
