import FH.ModuleLemmas
/-!
# C07 (beyond its stated domain) — what `find_module_for_address` means for *any* module list

C07 speaks about non-overlapping ranges. The implementation accepts any ranges; `add_module`
keeps the list sorted by range start, and the binary search then settles on **the module with the
greatest start at or below the address - if that one contains the address - and on no module
otherwise**, even when an enclosing module would contain it. These theorems state exactly that,
for any list sorted by start (nested and overlapping ranges, empty ranges). The histories of the
`hist` engine contain nested mappings since round 12; the C06 theorem makes no assumption on the
ranges, and this is the reference semantics the model and the implementation are compared on
(a cache-side hint that accepts "any module containing the address" differs from it - C06-12).
-/
namespace FH

/-- Sorted by range start, starts distinct (what `add_module` maintains for distinct starts). -/
def SortedByStart (mods : List Module) : Prop := mods.Pairwise (fun a b => a.start < b.start)

theorem SortedByStart.lt {mods : List Module} (h : SortedByStart mods) {i j : Nat} {a b : Module}
    (hi : mods[i]? = some a) (hj : mods[j]? = some b) (hij : i < j) : a.start < b.start := by
  have hp := h
  unfold SortedByStart at hp
  rw [List.pairwise_iff_getElem] at hp
  have hil : i < mods.length := (List.getElem?_eq_some_iff.mp hi).1
  have hjl : j < mods.length := (List.getElem?_eq_some_iff.mp hj).1
  have := hp i j hil hjl hij
  rw [(List.getElem?_eq_some_iff.mp hi).2, (List.getElem?_eq_some_iff.mp hj).2] at this
  exact this

/-- The module with the greatest start at or below the address decides: it is returned if the
address lies below its end, and otherwise nothing is - whatever other modules enclose the
address. -/
theorem C07_greatest_start_decides (mods : List Module) (hs : SortedByStart mods) (a j : Nat)
    (m : Module) (hm : mods[j]? = some m) (hle : m.start ≤ a)
    (hg : ∀ k x, mods[k]? = some x → x.start ≤ a → k ≤ j) :
    findCand mods a = if m.stop ≤ a then none else some (j, m) := by
  have hjl : j < mods.length := (List.getElem?_eq_some_iff.mp hm).1
  by_cases heq : m.start = a
  · -- the search reports the module itself
    have hlbj : lowerBound a mods ≤ j := by
      by_cases hlt : j < lowerBound a mods
      · have := lowerBound_before a mods j m hlt hm; omega
      · omega
    have hex : ∃ x, mods[lowerBound a mods]? = some x :=
      ⟨mods[lowerBound a mods]'(by omega), List.getElem?_eq_getElem (by omega)⟩
    obtain ⟨x, hx⟩ := hex
    have hax := lowerBound_at a mods x hx
    have hlb : lowerBound a mods = j := by
      by_cases hlt : lowerBound a mods < j
      · have := hs.lt hx hm hlt; omega
      · omega
    rw [hlb] at hx
    rw [hm] at hx
    injection hx with hx
    subst hx
    unfold findCand
    simp only [hlb, hm, heq, if_true]
  · -- the module before the insertion point
    have hlt : m.start < a := by omega
    have hjlb : j < lowerBound a mods := by
      by_cases h : j < lowerBound a mods
      · exact h
      · exfalso
        have hex : ∃ x, mods[lowerBound a mods]? = some x :=
          ⟨mods[lowerBound a mods]'(by omega), List.getElem?_eq_getElem (by omega)⟩
        obtain ⟨x, hx⟩ := hex
        have hax := lowerBound_at a mods x hx
        by_cases he : lowerBound a mods = j
        · rw [he, hm] at hx; injection hx with hx; subst hx; omega
        · have := hs.lt hx hm (by omega); omega
    have hlb : lowerBound a mods = j + 1 := by
      by_cases h : lowerBound a mods = j + 1
      · exact h
      · exfalso
        have hlen := lowerBound_le a mods
        have hk : j + 1 < lowerBound a mods := by omega
        have hex : ∃ x, mods[j + 1]? = some x :=
          ⟨mods[j + 1]'(by omega), List.getElem?_eq_getElem (by omega)⟩
        obtain ⟨x, hx⟩ := hex
        have := lowerBound_before a mods (j + 1) x hk hx
        have := hg (j + 1) x hx (by omega)
        omega
    unfold findCand
    have hnot : ∀ x, mods[lowerBound a mods]? = some x → ¬ x.start = a := by
      intro x hx he
      have := hg (lowerBound a mods) x hx (by omega)
      omega
    have hprev : prevCand mods (lowerBound a mods) a = if m.stop ≤ a then none else some (j, m) := by
      unfold prevCand
      rw [hlb]
      simp only [Nat.add_one_ne_zero, if_false, Nat.add_sub_cancel, hm]
    cases hx : mods[lowerBound a mods]? with
    | none => simp only [hprev]
    | some x => simp only [if_neg (hnot x hx), hprev]

/-- An address below every range start belongs to no module. -/
theorem C07_below_every_start (mods : List Module) (a : Nat) (h : ∀ x ∈ mods, a < x.start) :
    findCand mods a = none := by
  cases hf : findCand mods a with
  | none => rfl
  | some p =>
    obtain ⟨j, m⟩ := p
    have ⟨hm, hc⟩ := findCand_sound mods a j m hf
    have := h m (List.mem_of_getElem? hm)
    have := hc.1
    omega

-- Non-vacuity: an inner mapping nested in an outer one. Behind the inner mapping's end the
-- address lies in the outer range, but it is given to no module; inside, to the inner one.
example : findCand [⟨0x1000, 0x8000, 0x1000, 0, .none⟩, ⟨0x3000, 0x4000, 0x3000, 0, .none⟩] 0x5000
    = none := by decide
example : (findCand [⟨0x1000, 0x8000, 0x1000, 0, .none⟩, ⟨0x3000, 0x4000, 0x3000, 0, .none⟩] 0x3100).map
    (·.1) = some 1 := by decide
example : SortedByStart [⟨0x1000, 0x8000, 0x1000, 0, .none⟩, ⟨0x3000, 0x4000, 0x3000, 0, .none⟩] := by
  simp [SortedByStart]

end FH
