import FH.DwarfSpec
import FH.World
/-!
# C05 — One DWARF step equals DWARF semantics of the row; rule compression is lossless

`dwarfSpec` is the meaning of a row over mathematical integers (CFA = register + offset;
return address / frame pointer `undefined`, `same value` or saved at a CFA-relative slot).
framehop deliberately refuses some steps DWARF would allow (null return address = end of
stack, no progress, caller frames that do not move the stack pointer, values that do not fit
64 bits, frame-pointer sanity checks); these refusals are the explicit hypotheses.
-/
namespace FH

/-- x86-64, compressed rows: executing the cacheable rule is exactly the DWARF step. -/
theorem C05_x64_compressed_rule_is_dwarf_step (row : Row) (rule : RuleX64) (first : Bool)
    (regs : RegsX64) (mem : Mem) (ra : Nat) (cfa : Int) (fp' : Nat) (hrow : row.WF)
    (hregs : regs.WF) (ht : translateX64 row = some rule)
    (hs : dwarfSpec row regs.sp regs.bp regs.ip mem = .step ra cfa fp')
    (hcfa : 0 ≤ cfa ∧ cfa < 18446744073709551616) (hra : ra ≠ 0)
    (hadv : ¬(cfa = regs.sp ∧ ra = regs.ip))
    (hfp : rule = .useFramePointer → regs.bp ≠ 0 ∧ (regs.sp : Int) < cfa) :
    execX64 rule first regs mem = .ret (.frame ra) (afterX64 regs ra cfa.toNat fp') :=
  translateX64_exact row rule first regs mem ra cfa fp' hrow hregs ht hs hcfa hra hadv hfp

/-- x86-64, generic evaluation: exactly the DWARF step as well. -/
theorem C05_x64_generic_is_dwarf_step (row : Row) (first : Bool) (regs : RegsX64) (mem : Mem)
    (ra : Nat) (cfa : Int) (fp' : Nat) (hrow : row.WF) (hregs : regs.WF)
    (hs : dwarfSpec row regs.sp regs.bp regs.ip mem = .step ra cfa fp')
    (hcfa : 0 ≤ cfa ∧ cfa < 18446744073709551616) (hadv : ¬(cfa = regs.sp ∧ ra = regs.ip))
    (hcaller : first = false → (regs.sp : Int) < cfa) :
    genericX64 row first regs mem = .ok ra (afterX64 regs ra cfa.toNat fp') :=
  genericX64_exact row first regs mem ra cfa fp' hrow hregs hs hcfa hadv hcaller

/-- x86-64: whether a row is compressed or evaluated generically cannot change the outcome
(both paths produce the same address and the same register file). -/
theorem C05_x64_paths_agree (row : Row) (rule : RuleX64) (first : Bool) (regs : RegsX64)
    (mem : Mem) (ra : Nat) (cfa : Int) (fp' : Nat) (hrow : row.WF) (hregs : regs.WF)
    (ht : translateX64 row = some rule)
    (hs : dwarfSpec row regs.sp regs.bp regs.ip mem = .step ra cfa fp')
    (hcfa : 0 ≤ cfa ∧ cfa < 18446744073709551616) (hra : ra ≠ 0)
    (hadv : ¬(cfa = regs.sp ∧ ra = regs.ip)) (hcaller : first = false → (regs.sp : Int) < cfa)
    (hfp : rule = .useFramePointer → regs.bp ≠ 0 ∧ (regs.sp : Int) < cfa) :
    ∃ regs', execX64 rule first regs mem = .ret (.frame ra) regs' ∧
      genericX64 row first regs mem = .ok ra regs' :=
  ⟨_, translateX64_exact row rule first regs mem ra cfa fp' hrow hregs ht hs hcfa hra hadv hfp,
    genericX64_exact row first regs mem ra cfa fp' hrow hregs hs hcfa hadv hcaller⟩

/-- x86-64: "return address undefined" is the end of the stack, whatever the rest of the row. -/
theorem C05_x64_undefined_ra_ends_stack (row : Row) (first : Bool) (regs : RegsX64) (mem : Mem)
    (h : row.ra = .undefined) :
    translateX64 row = some .endOfStack ∧ execX64 .endOfStack first regs mem = .ret .done regs := by
  simp [translateX64, h, execX64]

/-- aarch64, compressed rows. `raRaw` is the word DWARF prescribes for the return address;
framehop reports it with the pointer-authentication bits stripped (C16). -/
theorem C05_a64_compressed_rule_is_dwarf_step (row : Row) (rule : RuleA64) (first : Bool)
    (regs : RegsA64) (mem : Mem) (raRaw : Nat) (cfa : Int) (fp' : Nat) (hrow : row.WF)
    (hregs : regs.WF) (ht : translateA64 row = some rule)
    (hs : dwarfSpec row regs.sp regs.fp regs.lr mem = .step raRaw cfa fp')
    (hcfa : 0 ≤ cfa ∧ cfa < 18446744073709551616) (hra : strip regs.mask raRaw ≠ 0)
    (hcaller : first = false → (regs.sp : Int) < cfa ∧ ∃ n, row.ra = .offset n)
    (hfp : (∃ off, row.cfa = .regOff .fp off) → fp' ≠ 0 ∧ regs.fp < fp' ∧ (regs.sp : Int) < cfa) :
    execA64 rule first regs mem =
      .ret (.frame (strip regs.mask raRaw)) (afterA64 regs raRaw cfa.toNat fp') :=
  translateA64_exact row rule first regs mem raRaw cfa fp' hrow hregs ht hs hcfa hra hcaller hfp

/-- aarch64, generic evaluation. -/
theorem C05_a64_generic_is_dwarf_step (row : Row) (first : Bool) (regs : RegsA64) (mem : Mem)
    (raRaw : Nat) (cfa : Int) (fp' : Nat) (hrow : row.WF) (hregs : regs.WF)
    (hs : dwarfSpec row regs.sp regs.fp regs.lr mem = .step raRaw cfa fp')
    (hcfa : 0 ≤ cfa ∧ cfa < 18446744073709551616)
    (hcaller : first = false → (regs.sp : Int) < cfa ∧ row.fp ≠ .undefined) :
    genericA64 row first regs mem =
      .ok (strip regs.mask raRaw) (afterA64 regs raRaw cfa.toNat fp') :=
  genericA64_exact row first regs mem raRaw cfa fp' hrow hregs hs hcfa hcaller

/-- aarch64, caller frames: a stack-pointer based row with an undefined return address ends
the stack. -/
theorem C05_a64_undefined_ra_ends_stack_in_caller_frames (row : Row) (off : Int) (k : Nat)
    (regs : RegsA64) (mem : Mem) (hc : row.cfa = .regOff .sp off) (hk : exactDivU16 off 16 = some k)
    (hra : row.ra = .undefined) (hfp : regRuleToCfaOffset row.fp = .none) :
    translateA64 row = some (.offsetSpIfFirstFrameOtherwiseStackEndsHere k) ∧
      execA64 (.offsetSpIfFirstFrameOtherwiseStackEndsHere k) false regs mem = .ret .done regs := by
  have hrl : regRuleToCfaOffset row.ra = .none := by simp [regRuleToCfaOffset, hra]
  refine ⟨?_, by simp [execA64]⟩
  unfold translateA64
  simp only [hc, hk, hrl, hfp]
  simp [hra]

/-- aarch64, caller frames, rows that are not compressed: an undefined return address ends the
stack as well (the generic path hands back a null return address, which `with_cache` turns
into `Ok(None)`; registers untouched). -/
theorem C05_a64_generic_undefined_ra_ends_stack_in_caller_frames (row : Row) (regs : RegsA64)
    (mem : Mem) (hra : row.ra = .undefined) :
    genericA64 row false regs mem = .ok 0 regs ∧ resOfRa 0 = .done := by
  simp [genericA64, hra, resOfRa]

/-- **Recorded finding (F14), as a theorem about the model**: in the *first* frame aarch64
treats an undefined return address as "same value" (a documented choice in the source:
gimli cannot tell an omitted column from `DW_CFA_undefined`), so the step reports `lr`
instead of ending the stack as DWARF prescribes. -/
theorem C05_a64_first_frame_undefined_ra_counterexample :
    let row : Row := { cfa := .regOff .sp 16, fp := .sameValue, ra := .undefined }
    let regs : RegsA64 := { mask := U64 - 1, lr := 0x1234, sp := 0x1000, fp := 0x2000 }
    dwarfSpec row regs.sp regs.fp regs.lr (fun _ => none) = .endOfStack ∧
    translateA64 row = some (.offsetSpIfFirstFrameOtherwiseStackEndsHere 1) ∧
    ∃ regs', execA64 (.offsetSpIfFirstFrameOtherwiseStackEndsHere 1) true regs (fun _ => none) =
      .ret (.frame 0x1234) regs' := by
  refine ⟨rfl, by decide, _, rfl⟩

-- Non-vacuity: a frame-pointer row on a concrete stack satisfies every hypothesis of the
-- compressed-rule theorem.
example :
    let row : Row := { cfa := .regOff .fp 16, fp := .offset (-16), ra := .offset (-8) }
    let mem : Mem := fun a => if a = 0x28 then some 0x100200 else if a = 0x20 then some 0x40 else none
    translateX64 row = some .useFramePointer ∧
      dwarfSpec row 0x18 0x20 0x100300 mem = .step 0x100200 0x30 0x40 := by
  refine ⟨by decide, ?_⟩
  simp [dwarfSpec, dwarfSpec.go, readAt, specReg]

end FH
