import FH.ModuleLemmas
import FH.Hist
/-!
# C07 — an address is unwound with the data of the module that contains it, and only with it

`C07.lean` states what `find_module_for_address` returns. This file carries that through the
whole miss path of `unwind_frame`: the outcome of a call (rule to cache + result + registers)
for an address inside a registered module is a function of *that module alone* - the other
registered modules, their number, their data, the position of the module in the list and the
unwinder's identity do not enter. (A memo that lets a lookup in one module answer a lookup in
another, seeded changes C12-10 and C02-11, is exactly a violation of this.)
-/
namespace FH

/-- What the miss path does given only the module the address belongs to. -/
def missPathIn (A : Arch) (m : Module) (addr : FrameAddr) (regs : A.Regs) (mem : Mem) :
    Option A.Rule × Out A.Regs :=
  let la := addr.lookup
  let first := !addr.isReturn
  if la < m.baseAvma then (some A.fallback, A.exec A.fallback first regs mem)
  else if la - m.baseAvma < U32 then
    match plan A m (la - m.baseAvma) first with
    | .exec r => (some r, A.exec r first regs mem)
    | .staticErr => (some A.fallback, A.exec A.fallback first regs mem)
    | .panic => (none, .panic (.other 5))
    | .generic row =>
      match A.generic row first regs mem with
      | .ok ra regs' => (none, .ret (resOfRa ra) regs')
      | .err _ => (none, A.exec A.fallback first regs mem)
      | .panic s => (none, .panic s)
    | .pe p =>
      match A.peRun p first regs mem with
      | .ok ra regs' => (none, .ret (resOfRa ra) regs')
      | .err _ => (none, A.exec A.fallback first regs mem)
      | .panic s => (none, .panic s)
  else (some A.fallback, A.exec A.fallback first regs mem)

/-- The miss path for an address inside a registered module is determined by that module. -/
theorem C07_unwound_with_the_containing_module (A : Arch) (u : Unw) (h : NonOverlap u.mods)
    (j : Nat) (m : Module) (hm : u.mods[j]? = some m) (addr : FrameAddr)
    (hc : m.contains addr.lookup) (regs : A.Regs) (mem : Mem) :
    missPath A u addr regs mem = missPathIn A m addr regs mem := by
  unfold missPath missPathIn
  simp only [findModule_complete u.mods h addr.lookup j m hm hc]
  by_cases h1 : addr.lookup < m.baseAvma
  · simp only [if_pos h1]
  · simp only [if_neg h1]
    by_cases h2 : addr.lookup - m.baseAvma < U32
    · simp only [if_pos h2, hm]
      cases plan A m (addr.lookup - m.baseAvma) (!addr.isReturn) with
      | exec r => rfl
      | staticErr => rfl
      | panic => rfl
      | generic row => cases hg : A.generic row (!addr.isReturn) regs mem <;> simp only [hg]
      | pe p => cases hg : A.peRun p (!addr.isReturn) regs mem <;> simp only [hg]
    · simp only [if_neg h2]

/-- Two unwinders that both hold a module (whatever else they hold, in whatever order it was
added, whatever their identities) unwind every address inside it alike. -/
theorem C07_other_modules_do_not_matter (A : Arch) (u₁ u₂ : Unw)
    (h₁ : NonOverlap u₁.mods) (h₂ : NonOverlap u₂.mods) (m : Module)
    (hm₁ : m ∈ u₁.mods) (hm₂ : m ∈ u₂.mods) (addr : FrameAddr)
    (hc : m.contains addr.lookup) (regs : A.Regs) (mem : Mem) :
    missPath A u₁ addr regs mem = missPath A u₂ addr regs mem := by
  obtain ⟨j₁, hj₁⟩ := List.getElem?_of_mem hm₁
  obtain ⟨j₂, hj₂⟩ := List.getElem?_of_mem hm₂
  rw [C07_unwound_with_the_containing_module A u₁ h₁ j₁ m hj₁ addr hc,
    C07_unwound_with_the_containing_module A u₂ h₂ j₂ m hj₂ addr hc]

/-- Adding a module elsewhere changes nothing for the addresses of a module already there. -/
theorem C07_add_elsewhere_changes_nothing (A : Arch) (u : Unw) (h : NonOverlap u.mods)
    (m x : Module) (hm : m ∈ u.mods) (hx : x.start < x.stop)
    (hd : ∀ y ∈ u.mods, y.stop ≤ x.start ∨ x.stop ≤ y.start) (g : Nat) (addr : FrameAddr)
    (hc : m.contains addr.lookup) (regs : A.Regs) (mem : Mem) :
    missPath A ⟨addModule u.mods x, g⟩ addr regs mem = missPath A u addr regs mem := by
  have ha := addModule_nonOverlap u.mods x h hx hd
  exact C07_other_modules_do_not_matter A ⟨addModule u.mods x, g⟩ u ha.1 h m
    ((ha.2 m).2 (Or.inr hm)) hm addr hc regs mem

/-- An address no registered module contains is unwound with no module's data: the fallback
rule, cached - for any module list whatsoever. -/
theorem C07_unwound_with_no_module (A : Arch) (u : Unw) (addr : FrameAddr)
    (hn : ∀ m ∈ u.mods, ¬ m.contains addr.lookup) (regs : A.Regs) (mem : Mem) :
    missPath A u addr regs mem =
      (some A.fallback, A.exec A.fallback (!addr.isReturn) regs mem) := by
  unfold missPath
  simp only [findModule_none u.mods addr.lookup hn]

-- Non-vacuity: a module list with two modules, an address inside the second one.
example : ∃ (mods : List Module) (m : Module), NonOverlap mods ∧ mods[1]? = some m ∧
    m.contains (FrameAddr.ret 0x2001).lookup := by
  refine ⟨[⟨0x1000, 0x2000, 0x800, 0, .none⟩, ⟨0x2000, 0x2800, 0x2000, 0, .none⟩], _,
    ⟨by simp, ?_⟩, rfl, by simp [Module.contains, FrameAddr.lookup]⟩
  intro m hm
  simp at hm
  rcases hm with rfl | rfl <;> decide

end FH
