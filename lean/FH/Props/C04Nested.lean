import FH.Props.C07Nested
import FH.Hist
/-!
# C04 — addresses given to no module or to a module without unwind data, for any module set

The reference semantics of the harness oracle `no-unwind-data-not-the-fallback-rule`: in a
module list sorted by start (nested and overlapping ranges allowed) the module with the greatest
start at or below the lookup address decides; if the address lies at or beyond its end, or if
that module carries no unwind data, the whole miss path of `unwind_frame` is the fallback rule -
cached, executed on the call's registers - whatever enclosing module would contain the address.
-/
namespace FH

theorem C04_greatest_start_module_without_data_uses_fallback (A : Arch) (u : Unw)
    (hs : SortedByStart u.mods) (addr : FrameAddr) (j : Nat) (m : Module)
    (hm : u.mods[j]? = some m) (hle : m.start ≤ addr.lookup)
    (hg : ∀ k x, u.mods[k]? = some x → x.start ≤ addr.lookup → k ≤ j)
    (hd : m.stop ≤ addr.lookup ∨ m.data = .none) (regs : A.Regs) (mem : Mem) :
    missPath A u addr regs mem =
      (some A.fallback, A.exec A.fallback (!addr.isReturn) regs mem) := by
  have hc := C07_greatest_start_decides u.mods hs addr.lookup j m hm hle hg
  unfold missPath findModule
  by_cases hstop : m.stop ≤ addr.lookup
  · simp only [hc, if_pos hstop]
  · have hdata : m.data = .none := by
      cases hd with
      | inl h => exact absurd h hstop
      | inr h => exact h
    simp only [hc, if_neg hstop]
    by_cases h1 : addr.lookup < m.baseAvma
    · simp only [if_pos h1]
    · simp only [if_neg h1]
      by_cases h2 : addr.lookup - m.baseAvma < U32
      · simp only [if_pos h2, hm]
        have hp : plan A m (addr.lookup - m.baseAvma) (!addr.isReturn) = .staticErr := by
          unfold plan
          simp only [hdata]
        simp only [hp]
      · simp only [if_neg h2]

-- Non-vacuity: the inner mapping of the example in `C07Nested` has no unwind data.
example : (⟨0x3000, 0x4000, 0x3000, 0, .none⟩ : Module).data = .none := rfl

end FH
