import FH.Props.C11Path
/-!
# C11 — where the error clause stops: unreadable slots on the generic (not rule-based) path

C11's second sentence is about *rule-based* steps: an unreadable slot surfaces as
`Err(CouldNotReadStack(a))`. A row that cannot be compressed into a rule (a frame of 512 KiB,
a return address outside CFA-8, a CFA expression) is evaluated generically; when a slot it needs
is unreadable that evaluation fails with a DWARF error and `with_cache` executes the frame-pointer
fallback *for this call* (nothing is cached). What the caller then sees is whatever the
frame-pointer rule says about the current registers - in particular, with a null frame-pointer
register, the end of the chain. These theorems state that behaviour exactly; the truncation
oracle of the `scn` engine accepts it only for functions that take this path.
-/
namespace FH

/-- x86-64 generic path: if the return-address slot the row names is unreadable (and so is
`CFA-8`), the evaluation fails - with a DWARF error, not with a stack-read error. -/
theorem C11_x64_generic_unreadable_ra_fails (row : Row) (first : Bool) (regs : RegsX64)
    (mem : Mem) (cfa : Nat) (hcfa : evalCfa (getX64 regs) row.cfa = some cfa)
    (hra : evalRegRule (getX64 regs) mem row.ra cfa regs.ip = none)
    (hslot : 8 ≤ cfa → mem (cfa - 8) = none) :
    genericX64 row first regs mem = .err .couldNotRecoverRa := by
  unfold genericX64
  simp only [hcfa, hra]
  by_cases h8 : cfa < 8
  · simp only [if_pos h8]
  · simp only [if_neg h8, hslot (by omega)]

/-- Whatever makes the generic evaluation fail, the call's outcome is the frame-pointer
fallback executed on the unchanged registers, and nothing is cached. -/
theorem C11_generic_failure_is_the_fallback_step (A : Arch) (u : Unw) (addr : FrameAddr)
    (regs : A.Regs) (mem : Mem) (i rel : Nat) (m : Module) (row : Row) (e : DwarfErr)
    (hf : findModule u.mods addr.lookup = some (i, rel)) (hm : u.mods[i]? = some m)
    (hp : plan A m rel (!addr.isReturn) = .generic row)
    (hg : A.generic row (!addr.isReturn) regs mem = .err e) :
    missPath A u addr regs mem = (none, A.exec A.fallback (!addr.isReturn) regs mem) := by
  unfold missPath
  simp only [hf, hm, hp, hg]

/-- Hence, on x86-64, a truncated stack below a generically evaluated frame is reported as the
end of the stack when rbp is null (a program that does not use frame pointers), and as a
frame-pointer step or its error otherwise - never as `CouldNotReadStack` of the slot the row
named. -/
theorem C11_x64_generic_failure_with_null_rbp_ends_the_walk (u : Unw) (addr : FrameAddr)
    (regs : RegsX64) (mem : Mem) (i rel : Nat) (m : Module) (row : Row) (e : DwarfErr)
    (hf : findModule u.mods addr.lookup = some (i, rel)) (hm : u.mods[i]? = some m)
    (hp : plan archX64 m rel (!addr.isReturn) = .generic row)
    (hg : archX64.generic row (!addr.isReturn) regs mem = .err e) (hbp : regs.bp = 0) :
    missPath archX64 u addr regs mem = (none, .ret .done regs) := by
  rw [C11_generic_failure_is_the_fallback_step archX64 u addr regs mem i rel m row e hf hm hp hg]
  show (none, execX64 .useFramePointer (!addr.isReturn) regs mem) = _
  simp only [execX64, fpStepX64, hbp, if_true]
  rfl

-- Non-vacuity of the first theorem: a 512 KiB frame (CFA = rsp + 0x80000, return address at
-- CFA-8) on a stack of which nothing is readable.
example : genericX64 ⟨.regOff .sp 0x80000, .sameValue, .offset (-8)⟩ false
    ⟨0x401131, fun i => if i = RSP then 0x7ffc0ff7fff8 else 0⟩ (fun _ => none) =
      .err .couldNotRecoverRa := by
  apply C11_x64_generic_unreadable_ra_fails (cfa := 0x7ffc0ffffff8)
  · decide
  · decide
  · intro _; rfl

end FH
