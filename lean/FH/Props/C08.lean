import FH.DwarfSpec
import FH.Hist
/-!
# C08 — Position independence under module relocation and stack relocation

Module relocation is proved in full for the model: the module search and everything after
it depend on the mapped range only through `address - base`. Stack relocation is proved at
the level of the DWARF step (`dwarfSpec`, which the C05 theorems identify with both execution
paths) for stacks whose stored words are relocated consistently (`σ`); the whole-walk statement
is established by the `scn` engine's relocation twins, not by a theorem (`…_partial`).
-/
namespace FH

/-- Mapping a module `d` bytes higher: range and base address move together, the stated
addresses (`baseSvma`, the unwind data) are unchanged. -/
def Module.shift (d : Nat) (m : Module) : Module :=
  { m with start := m.start + d, stop := m.stop + d, baseAvma := m.baseAvma + d }

theorem lowerBound_shift (d key : Nat) (mods : List Module) :
    lowerBound (key + d) (mods.map (Module.shift d)) = lowerBound key mods := by
  induction mods with
  | nil => rfl
  | cons m rest ih =>
    simp only [List.map_cons, lowerBound, Module.shift]
    have : (m.start + d < key + d) ↔ (m.start < key) := by omega
    simp only [this, ih]

theorem getElem?_map_shift (d : Nat) (mods : List Module) (i : Nat) :
    (mods.map (Module.shift d))[i]? = (mods[i]?).map (Module.shift d) := by
  simp

/-- The module search is translation invariant: same module index, same relative address. -/
theorem C08_module_lookup_relocation_invariant (d a : Nat) (mods : List Module) :
    findModule (mods.map (Module.shift d)) (a + d) = findModule mods a := by
  have prev : ∀ i, prevCand (mods.map (Module.shift d)) i (a + d) =
      (prevCand mods i a).map fun p => (p.1, p.2.shift d) := by
    intro i
    unfold prevCand
    by_cases h0 : i = 0
    · simp [h0]
    · simp only [h0, if_false, getElem?_map_shift]
      cases mods[i - 1]? with
      | none => rfl
      | some p =>
        simp only [Option.map_some, Module.shift]
        have : (p.stop + d ≤ a + d) ↔ (p.stop ≤ a) := by omega
        simp only [this]
        split <;> rfl
  have cand : findCand (mods.map (Module.shift d)) (a + d) =
      (findCand mods a).map fun p => (p.1, p.2.shift d) := by
    unfold findCand
    rw [lowerBound_shift, getElem?_map_shift, prev]
    cases mods[lowerBound a mods]? with
    | none => rfl
    | some m =>
      simp only [Option.map_some, Module.shift]
      have : (m.start + d = a + d) ↔ (m.start = a) := by omega
      simp only [this]
      split <;> rfl
  unfold findModule
  rw [cand]
  cases findCand mods a with
  | none => rfl
  | some p =>
    obtain ⟨j, m⟩ := p
    simp only [Option.map_some, Module.shift]
    have h1 : (a + d < m.baseAvma + d) ↔ (a < m.baseAvma) := by omega
    have h2 : a + d - (m.baseAvma + d) = a - m.baseAvma := by omega
    simp only [h1, h2]

/-- What the module's unwind data yields does not look at the mapped addresses at all. -/
theorem C08_plan_ignores_mapping (A : Arch) (d : Nat) (m : Module) (rel : Nat) (first : Bool) :
    plan A (m.shift d) rel first = plan A m rel first := rfl

/-- Hence the rule inserted/executed for a relocated address under relocated modules is the
rule for the original address under the original modules. -/
theorem C08_static_rule_relocation_invariant (A : Arch) (d la : Nat) (mods : List Module)
    (first : Bool) :
    staticRule A (mods.map (Module.shift d)) (la + d) first = staticRule A mods la first := by
  unfold staticRule
  rw [C08_module_lookup_relocation_invariant]
  cases findModule mods la with
  | none => rfl
  | some p =>
    obtain ⟨i, rel⟩ := p
    simp only [getElem?_map_shift]
    cases mods[i]? with
    | none => rfl
    | some m => simp only [Option.map_some, C08_plan_ignores_mapping]

/-- How the DWARF meaning of a row changes when the stack is relocated by `d`. -/
def Relocated (σ : Nat → Nat) (d : Nat) : SpecRes → SpecRes → Prop
  | .step ra cfa fp', r => r = .step (σ ra) (cfa + d) (σ fp')
  | .unreadable _, r => ∃ b, r = .unreadable b
  | .endOfStack, r => r = .endOfStack
  | .outside, r => r = .outside

/-- Stack relocation of one DWARF step (partial: step level, see the header). If every word
of the relocated stack is the original word mapped by `σ` (stack pointers move by `d`, code
pointers and data stay), the relocated step is the original step with the CFA moved by `d`
and the read values mapped by `σ`; unreadable stays unreadable, end of stack stays end of stack. -/
theorem C08_dwarf_step_stack_relocation_partial (row : Row) (sp fp curRa d : Nat) (mem mem' : Mem)
    (σ : Nat → Nat) (hm : ∀ a : Int, readAt mem' (a + d) = (readAt mem a).map σ)
    (hfp : σ fp = fp + d) (hra : σ curRa = curRa)
    (hdom : ∃ r, row.cfa = .regOff .sp r ∨ row.cfa = .regOff .fp r) :
    Relocated σ d (dwarfSpec row sp fp curRa mem) (dwarfSpec row (sp + d) (fp + d) curRa mem') := by
  have reg : ∀ cfa : Int, specReg mem' (cfa + d) (fp + d) row.fp =
      (specReg mem cfa fp row.fp).map fun o => o.map σ := by
    intro cfa
    cases row.fp with
    | offset n =>
      simp only [specReg, Option.map_some]
      have : cfa + d + n = cfa + n + d := by omega
      rw [this, hm]
    | undefined => simp [specReg, hfp]
    | sameValue => simp [specReg, hfp]
    | valOffset n => rfl
    | register r => rfl
    | other => rfl
    | exprReg _ _ => rfl
    | valExprReg _ _ => rfl
  have go : ∀ cfa : Int, Relocated σ d (dwarfSpec.go row fp curRa mem cfa)
      (dwarfSpec.go row (fp + d) curRa mem' (cfa + d)) := by
    intro cfa
    unfold dwarfSpec.go
    cases row.ra with
    | undefined => simp [Relocated]
    | valOffset n => simp [Relocated]
    | register r => simp [Relocated]
    | other => simp [Relocated]
    | exprReg _ _ => simp [Relocated]
    | valExprReg _ _ => simp [Relocated]
    | sameValue =>
      simp only [reg]
      cases specReg mem cfa fp row.fp with
      | none => simp [Relocated]
      | some o =>
        cases o with
        | none => simp [Relocated]
        | some v => simp [Relocated, hra]
    | offset n =>
      simp only []
      have : cfa + d + n = cfa + n + d := by omega
      rw [this, hm, reg]
      cases hr : readAt mem (cfa + n) with
      | none => simp [Relocated]
      | some ra =>
        simp only [Option.map_some]
        cases specReg mem cfa fp row.fp with
        | none => simp [Relocated]
        | some o =>
          cases o with
          | none => simp [Relocated]
          | some v => simp [Relocated]
  obtain ⟨r, hr | hr⟩ := hdom
  · simp only [dwarfSpec, hr]
    have : ((sp + d : Nat) : Int) + r = ((sp : Int) + r) + d := by omega
    rw [this]
    exact go _
  · simp only [dwarfSpec, hr]
    have : ((fp + d : Nat) : Int) + r = ((fp : Int) + r) + d := by omega
    rw [this]
    exact go _

end FH
