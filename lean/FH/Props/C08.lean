import FH.DwarfSpec
import FH.Hist
import FH.RelocLemmas
import FH.RelocA64
/-!
# C08 — Position independence under module relocation and stack relocation

Module relocation is proved in full for the model: the module search and everything after
it depend on the mapped range only through `address - base`. Stack relocation is proved for
rule execution - every rule of both architectures, every outcome - and lifted to whole walks of
any length by induction (`C08_x64_walk_relocation`, `C08_a64_walk_relocation`); for the
uncacheable DWARF path it is proved at the level of the DWARF step (`dwarfSpec`, which the C05
theorems identify with both execution paths; `…_partial`).
-/
namespace FH

/-- Mapping a module `d` bytes higher: range and base address move together, the stated
addresses (`baseSvma`, the unwind data) are unchanged. -/
def Module.shift (d : Nat) (m : Module) : Module :=
  { m with start := m.start + d, stop := m.stop + d, baseAvma := m.baseAvma + d }

theorem lowerBound_shift (d key : Nat) (mods : List Module) :
    lowerBound (key + d) (mods.map (Module.shift d)) = lowerBound key mods := by
  induction mods with
  | nil => rfl
  | cons m rest ih =>
    simp only [List.map_cons, lowerBound, Module.shift]
    have : (m.start + d < key + d) ↔ (m.start < key) := by omega
    simp only [this, ih]

theorem getElem?_map_shift (d : Nat) (mods : List Module) (i : Nat) :
    (mods.map (Module.shift d))[i]? = (mods[i]?).map (Module.shift d) := by
  simp

/-- The module search is translation invariant: same module index, same relative address. -/
theorem C08_module_lookup_relocation_invariant (d a : Nat) (mods : List Module) :
    findModule (mods.map (Module.shift d)) (a + d) = findModule mods a := by
  have prev : ∀ i, prevCand (mods.map (Module.shift d)) i (a + d) =
      (prevCand mods i a).map fun p => (p.1, p.2.shift d) := by
    intro i
    unfold prevCand
    by_cases h0 : i = 0
    · simp [h0]
    · simp only [h0, if_false, getElem?_map_shift]
      cases mods[i - 1]? with
      | none => rfl
      | some p =>
        simp only [Option.map_some, Module.shift]
        have : (p.stop + d ≤ a + d) ↔ (p.stop ≤ a) := by omega
        simp only [this]
        split <;> rfl
  have cand : findCand (mods.map (Module.shift d)) (a + d) =
      (findCand mods a).map fun p => (p.1, p.2.shift d) := by
    unfold findCand
    rw [lowerBound_shift, getElem?_map_shift, prev]
    cases mods[lowerBound a mods]? with
    | none => rfl
    | some m =>
      simp only [Option.map_some, Module.shift]
      have : (m.start + d = a + d) ↔ (m.start = a) := by omega
      have h2 : (m.stop + d ≤ a + d) ↔ (m.stop ≤ a) := by omega
      simp only [this, h2]
      split
      · split <;> rfl
      · rfl
  unfold findModule
  rw [cand]
  cases findCand mods a with
  | none => rfl
  | some p =>
    obtain ⟨j, m⟩ := p
    simp only [Option.map_some, Module.shift]
    have h1 : (a + d < m.baseAvma + d) ↔ (a < m.baseAvma) := by omega
    have h2 : a + d - (m.baseAvma + d) = a - m.baseAvma := by omega
    simp only [h1, h2]

/-- What the module's unwind data yields does not look at the mapped addresses at all. -/
theorem C08_plan_ignores_mapping (A : Arch) (d : Nat) (m : Module) (rel : Nat) (first : Bool) :
    plan A (m.shift d) rel first = plan A m rel first := rfl

/-- Hence the rule inserted/executed for a relocated address under relocated modules is the
rule for the original address under the original modules. -/
theorem C08_static_rule_relocation_invariant (A : Arch) (d la : Nat) (mods : List Module)
    (first : Bool) :
    staticRule A (mods.map (Module.shift d)) (la + d) first = staticRule A mods la first := by
  unfold staticRule
  rw [C08_module_lookup_relocation_invariant]
  cases findModule mods la with
  | none => rfl
  | some p =>
    obtain ⟨i, rel⟩ := p
    simp only [getElem?_map_shift]
    cases mods[i]? with
    | none => rfl
    | some m => simp only [Option.map_some, C08_plan_ignores_mapping]

/-- How the DWARF meaning of a row changes when the stack is relocated by `d`. -/
def Relocated (σ : Nat → Nat) (d : Nat) : SpecRes → SpecRes → Prop
  | .step ra cfa fp', r => r = .step (σ ra) (cfa + d) (σ fp')
  | .unreadable _, r => ∃ b, r = .unreadable b
  | .endOfStack, r => r = .endOfStack
  | .outside, r => r = .outside

/-- Stack relocation of one DWARF step (partial: step level, see the header). If every word
of the relocated stack is the original word mapped by `σ` (stack pointers move by `d`, code
pointers and data stay), the relocated step is the original step with the CFA moved by `d`
and the read values mapped by `σ`; unreadable stays unreadable, end of stack stays end of stack. -/
theorem C08_dwarf_step_stack_relocation_partial (row : Row) (sp fp curRa d : Nat) (mem mem' : Mem)
    (σ : Nat → Nat) (hm : ∀ a : Int, readAt mem' (a + d) = (readAt mem a).map σ)
    (hfp : σ fp = fp + d) (hra : σ curRa = curRa)
    (hdom : ∃ r, row.cfa = .regOff .sp r ∨ row.cfa = .regOff .fp r) :
    Relocated σ d (dwarfSpec row sp fp curRa mem) (dwarfSpec row (sp + d) (fp + d) curRa mem') := by
  have reg : ∀ cfa : Int, specReg mem' (cfa + d) (fp + d) row.fp =
      (specReg mem cfa fp row.fp).map fun o => o.map σ := by
    intro cfa
    cases row.fp with
    | offset n =>
      simp only [specReg, Option.map_some]
      have : cfa + d + n = cfa + n + d := by omega
      rw [this, hm]
    | undefined => simp [specReg, hfp]
    | sameValue => simp [specReg, hfp]
    | valOffset n => rfl
    | register r => rfl
    | other => rfl
    | exprReg _ _ => rfl
    | valExprReg _ _ => rfl
  have go : ∀ cfa : Int, Relocated σ d (dwarfSpec.go row fp curRa mem cfa)
      (dwarfSpec.go row (fp + d) curRa mem' (cfa + d)) := by
    intro cfa
    unfold dwarfSpec.go
    cases row.ra with
    | undefined => simp [Relocated]
    | valOffset n => simp [Relocated]
    | register r => simp [Relocated]
    | other => simp [Relocated]
    | exprReg _ _ => simp [Relocated]
    | valExprReg _ _ => simp [Relocated]
    | sameValue =>
      simp only [reg]
      cases specReg mem cfa fp row.fp with
      | none => simp [Relocated]
      | some o =>
        cases o with
        | none => simp [Relocated]
        | some v => simp [Relocated, hra]
    | offset n =>
      simp only []
      have : cfa + d + n = cfa + n + d := by omega
      rw [this, hm, reg]
      cases hr : readAt mem (cfa + n) with
      | none => simp [Relocated]
      | some ra =>
        simp only [Option.map_some]
        cases specReg mem cfa fp row.fp with
        | none => simp [Relocated]
        | some o =>
          cases o with
          | none => simp [Relocated]
          | some v => simp [Relocated]
  obtain ⟨r, hr | hr⟩ := hdom
  · simp only [dwarfSpec, hr]
    have : ((sp + d : Nat) : Int) + r = ((sp : Int) + r) + d := by omega
    rw [this]
    exact go _
  · simp only [dwarfSpec, hr]
    have : ((fp + d : Nat) : Int) + r = ((fp : Int) + r) + d := by omega
    rw [this]
    exact go _


/-! ## Stack relocation of rule execution and of whole walks (x86-64)

`σ` says how each stored word moves (stack pointers by `d`, code pointers with their module,
data and nulls not at all); all the theorems need of it is that it is injective and fixes 0. -/

/-- **One x86-64 rule step, any rule, relocated stack and code.** The step on the relocated
thread state is the relocated outcome of the step on the original state: frames are mapped by
`σ`, `rsp` moves by `d`, every other register holds the relocated word, an unreadable address is
named `d` higher, errors and end of stack are unchanged. -/
theorem C08_x64_rule_step_relocation (σ : Nat → Nat) (d : Nat) (hσ : Function.Injective σ)
    (h0 : σ 0 = 0) {mem mem' : Mem} (hm : MemReloc σ d mem mem') (rule : RuleX64) (hr : rule.WF)
    (first : Bool) (regs : RegsX64) (hsp : Room d regs.sp)
    (hbp : usesBpX64 rule first = true → regs.bp ≠ 0 → σ regs.bp = regs.bp + d ∧ Room d regs.bp) :
    execX64 rule first (relocX64 σ d regs) mem' = relocOutX64 σ d (execX64 rule first regs mem) :=
  execX64_reloc σ d hσ h0 hm rule hr first regs hsp hbp

/-- The step function of an x86-64 walk whose `i`-th frame is unwound by the rule `rules i`. -/
def ruleWalkStepX64 (rules : Nat → RuleX64) : Mem → (Nat × RegsX64) → Out (Nat × RegsX64) :=
  fun m s =>
    match execX64 (rules s.1) (s.1 == 0) s.2 m with
    | .ret r g => .ret r (s.1 + 1, g)
    | .panic p => .panic p

/-- **Whole walks (x86-64, any length, any assignment of rules to frames).** If at every frame
the walk on the original stack visits, the stack pointer has room and a frame pointer the rule
follows is a stack pointer (or null), the walk on the relocated stack and code is the relocated
walk: the same number of frames, each mapped by `σ`, the same ending (an unreadable address named
`d` higher). By C08_static_rule_relocation_invariant the rule assignment itself is the same
for relocated modules. -/
theorem C08_x64_walk_relocation (σ : Nat → Nat) (d : Nat) (hσ : Function.Injective σ)
    (h0 : σ 0 = 0) {mem mem' : Mem} (hm : MemReloc σ d mem mem') (rules : Nat → RuleX64)
    (hr : ∀ i, (rules i).WF) (n : Nat) (regs : RegsX64)
    (hP : AlongWalk (ruleWalkStepX64 rules) mem
      (fun s => Room d s.2.sp ∧ (usesBpX64 (rules s.1) (s.1 == 0) = true → s.2.bp ≠ 0 →
        σ s.2.bp = s.2.bp + d ∧ Room d s.2.bp)) n (0, regs)) :
    walkWith (ruleWalkStepX64 rules) mem' n (0, relocX64 σ d regs) =
      (walkWith (ruleWalkStepX64 rules) mem n (0, regs)).map (relocRes σ d) := by
  have := walk_sim (ruleWalkStepX64 rules) mem mem' (fun s => (s.1, relocX64 σ d s.2))
    (relocRes σ d) (relocRes_frame σ d) (relocRes_not_frame σ d) _ ?_ n (0, regs) hP
  · exact this
  · intro s ⟨h1, h2⟩
    simp only [ruleWalkStepX64]
    rw [execX64_reloc σ d hσ h0 hm (rules s.1) (hr s.1) (s.1 == 0) s.2 h1 h2]
    cases execX64 (rules s.1) (s.1 == 0) s.2 mem <;> rfl

/-- Non-vacuity: a frame-pointer frame on a stack at 0x7ffc_0000_1000, moved 2^32 bytes up
together with the code it returns into (moved by 0x1000), satisfies the hypotheses, and the step
is a real frame. -/
example :
    let d := 4294967296
    let σ : Nat → Nat := fun v => if 0x7ffc00000000 ≤ v ∧ v < 0x7ffd00000000 then v + d else
      if 0x400000 ≤ v ∧ v < 0x500000 then v + 0x1000 else v
    let mem : Mem := fun a => if a = 0x7ffc00001000 then some 0x7ffc00001040 else
      if a = 0x7ffc00001008 then some 0x401234 else none
    let regs : RegsX64 := { ip := 0x400100, r := fun i => if i = RSP then 0x7ffc00000ff0 else
      if i = RBP then 0x7ffc00001000 else 0 }
    Room d regs.sp ∧ σ regs.bp = regs.bp + d ∧ Room d regs.bp ∧ σ 0 = 0 ∧
      ∃ g, execX64 .useFramePointer false regs mem = .ret (.frame 0x401234) g := by
  refine ⟨by simp [Room, RegsX64.sp, RSP, U64], by simp [RegsX64.bp, RBP, RSP],
    by simp [Room, RegsX64.bp, RBP, RSP, U64], by simp, ?_⟩
  refine ⟨{ ip := 0x401234, r := setReg (setReg (fun i => if i = RSP then 0x7ffc00000ff0 else
      if i = RBP then 0x7ffc00001000 else 0) RSP 0x7ffc00001010) RBP 0x7ffc00001040 }, ?_⟩
  simp [execX64, fpStepX64, finishX64, cadd, RegsX64.sp, RegsX64.bp, RSP, RBP, U64]


/-! ## aarch64 -/

/-- **One aarch64 rule step, any rule, relocated stack and code.** Beyond the x86-64
hypotheses: relocation commutes with stripping the pointer-authentication bits (`σ` moves pointers
within the mask), the frame pointer a rule follows is a stack pointer, and so is the non-null
caller frame pointer in the slot the rule reads (the frame pointer rules compare the two). -/
theorem C08_a64_rule_step_relocation (σ : Nat → Nat) (d : Nat) (hσ : Function.Injective σ)
    (h0 : σ 0 = 0) {mem mem' : Mem} (hm : MemReloc σ d mem mem') (rule : RuleA64) (hr : rule.WF)
    (first : Bool) (regs : RegsA64)
    (hstrip : ∀ v, strip regs.mask (σ v) = σ (strip regs.mask v)) (hsp : Room d regs.sp)
    (hfp : usesFpA64 rule first = true → σ regs.fp = regs.fp + d ∧ Room d regs.fp)
    (hsaved : ∀ a v, fpSlotA64 rule first regs = some a → mem a = some v → v ≠ 0 → σ v = v + d) :
    execA64 rule first (relocA64 σ d regs) mem' = relocOutA64 σ d (execA64 rule first regs mem) :=
  execA64_reloc σ d hσ h0 hm rule hr first regs hstrip hsp hfp hsaved

/-- **Whole walks (aarch64, any length, any assignment of rules to frames).** -/
theorem C08_a64_walk_relocation (σ : Nat → Nat) (d mask : Nat) (hσ : Function.Injective σ)
    (h0 : σ 0 = 0) {mem mem' : Mem} (hm : MemReloc σ d mem mem') (rules : Nat → RuleA64)
    (hr : ∀ i, (rules i).WF) (hstrip : ∀ v, strip mask (σ v) = σ (strip mask v))
    (n : Nat) (regs : RegsA64)
    (hP : AlongWalk (ruleWalkStepA64 rules) mem
      (fun s => s.2.mask = mask ∧ Room d s.2.sp ∧
        (usesFpA64 (rules s.1) (s.1 == 0) = true → σ s.2.fp = s.2.fp + d ∧ Room d s.2.fp) ∧
        (∀ a v, fpSlotA64 (rules s.1) (s.1 == 0) s.2 = some a → mem a = some v → v ≠ 0 →
          σ v = v + d)) n (0, regs)) :
    walkWith (ruleWalkStepA64 rules) mem' n (0, relocA64 σ d regs) =
      (walkWith (ruleWalkStepA64 rules) mem n (0, regs)).map (relocRes σ d) := by
  have := walk_sim (ruleWalkStepA64 rules) mem mem' (fun s => (s.1, relocA64 σ d s.2))
    (relocRes σ d) (relocRes_frame σ d) (relocRes_not_frame σ d) _ ?_ n (0, regs) hP
  · exact this
  · intro s ⟨hmask, h1, h2, h3⟩
    simp only [ruleWalkStepA64]
    rw [execA64_reloc σ d hσ h0 hm (rules s.1) (hr s.1) (s.1 == 0) s.2
      (by rw [hmask]; exact hstrip) h1 h2 h3]
    cases execA64 (rules s.1) (s.1 == 0) s.2 mem <;> rfl

end FH
