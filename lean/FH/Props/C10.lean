import FH.Walk
import FH.Dwarf
/-!
# C10 — Progress: caller-frame steps advance, no state repeats, walks terminate
-/
namespace FH

/-- x86-64, rule-based step in a caller frame: sp never decreases, the new `ip` is the
returned address, and success never leaves both sp and address unchanged. -/
theorem C10_x64_rule_step {rule : RuleX64} {regs regs' : RegsX64} {mem : Mem} {ra : Nat}
    (hr : rule.WF) (h : execX64 rule false regs mem = .ret (.frame ra) regs') :
    regs.sp ≤ regs'.sp ∧ regs'.ip = ra ∧ ¬(regs'.sp = regs.sp ∧ ra = regs.ip) := by
  have f := execX64_frame hr h
  exact ⟨f.sp_mono, f.ip_eq, f.advance⟩

/-- x86-64 frame pointer steps strictly increase sp (first frame or not). -/
theorem C10_x64_fp_step_strict {first : Bool} {regs regs' : RegsX64} {mem : Mem} {ra : Nat}
    (h : execX64 .useFramePointer first regs mem = .ret (.frame ra) regs') :
    regs.sp < regs'.sp := by
  simp only [execX64] at h
  exact (fpStepX64_frame h).2.1

/-- The caller-frame half of `JustReturnIfFirstFrameOtherwiseFp` is a frame pointer step too. -/
theorem C10_x64_uncovered_caller_step_strict {regs regs' : RegsX64} {mem : Mem} {ra : Nat}
    (h : execX64 .justReturnIfFirstFrameOtherwiseFp false regs mem = .ret (.frame ra) regs') :
    regs.sp < regs'.sp := by
  simp only [execX64] at h
  exact (fpStepX64_frame h).2.1

/-- aarch64: every successful caller-frame rule step strictly increases sp. -/
theorem C10_a64_rule_step {rule : RuleA64} {regs regs' : RegsA64} {mem : Mem} {ra : Nat}
    (hr : rule.WF) (h : execA64 rule false regs mem = .ret (.frame ra) regs') :
    regs.sp < regs'.sp :=
  (execA64_frame hr h).caller_advance rfl

/-- The uncacheable DWARF path, x86-64, caller frame: a successful step strictly increases sp
(the `cfa <= sp` guard; since 23817bc also for `cfa = sp`) and leaves `ip` at the return
address - for every row, whatever its CFA and register rules are (expressions included). -/
theorem C10_x64_generic_caller_step {row : Row} {regs regs' : RegsX64} {mem : Mem} {ra : Nat}
    (h : genericX64 row false regs mem = .ok ra regs') : regs.sp < regs'.sp ∧ regs'.ip = ra := by
  unfold genericX64 at h
  split at h
  · cases h
  · rename_i cfa _
    simp only [] at h
    split at h
    · cases h
    · split at h
      · cases h
      · split at h
        · cases h
        · rename_i hle
          injection h with h1 h2
          subst h2
          simp only [Bool.not_false, true_and, Nat.not_le] at hle
          exact ⟨by simpa [RegsX64.sp] using hle, h1.symm ▸ rfl⟩

/-- The uncacheable DWARF path, aarch64, caller frame: a step either ends the walk (null return
address, registers untouched: the row declares the return address undefined) or strictly
increases sp. -/
theorem C10_a64_generic_caller_step {row : Row} {regs regs' : RegsA64} {mem : Mem} {ra : Nat}
    (h : genericA64 row false regs mem = .ok ra regs') :
    (ra = 0 ∧ regs' = regs) ∨ regs.sp < regs'.sp := by
  unfold genericA64 at h
  split at h
  · injection h with h1 h2
    exact Or.inl ⟨h1.symm, h2.symm⟩
  · split at h
    · cases h
    · rename_i cfa _
      simp only [Bool.not_false, if_true] at h
      split at h
      · cases h
      · rename_i hle
        split at h
        · cases h
        · split at h
          · cases h
          · injection h with h1 h2
            subst h2
            right
            simp only [RegsA64.setLr]
            omega

/-- Walk level, x86-64: along any sequence of successful caller-frame rule steps (any rules,
any registers, any memory — including self-referential frame pointer chains) no
`(address, sp)` state is visited twice. Since a repeated `(address, sp, fp)` state would
repeat `(address, sp)`, this is the property's "no state is ever visited twice". -/
theorem C10_x64_no_state_repeats {mem : Mem} {g : Nat → RegsX64} {rules : Nat → RuleX64}
    {ras : Nat → Nat} {n : Nat} (hr : ∀ i, (rules i).WF)
    (h : ∀ i, i < n → execX64 (rules i) false (g i) mem = .ret (.frame (ras i)) (g (i + 1))) :
    ∀ i j, i < j → j ≤ n → ((g i).ip, (g i).sp) ≠ ((g j).ip, (g j).sp) := by
  intro i j hij hj heq
  have hw : ∀ i, i < n → Advances mem ⟨(g i).ip, (g i).sp⟩ ⟨(g (i + 1)).ip, (g (i + 1)).sp⟩ :=
    fun i hi => advances_of_frameX64 (execX64_frame (hr i) (h i hi))
  have := walk_no_repeat (f := fun i => ⟨(g i).ip, (g i).sp⟩) hw i j hij hj
  apply this
  injection heq with h1 h2
  simp [h1, h2]

/-- Walk level, both architectures: any walk whose steps `Advance` has fewer than
`2·2^64 + 2` steps, hence terminates (with `Ok(None)` or `Err`). -/
theorem C10_walk_terminates {mem : Mem} {f : Nat → St} {n : Nat}
    (h : ∀ i, i < n → Advances mem (f i) (f (i + 1))) (hb : ∀ i, i ≤ n → (f i).sp < U64) :
    n < 2 * U64 + 2 :=
  walk_length_bounded h hb

/-- Walk level, aarch64: sp strictly increases along successful caller-frame rule steps. -/
theorem C10_a64_walk_strict {mem : Mem} {g : Nat → RegsA64} {rules : Nat → RuleA64}
    {ras : Nat → Nat} {n : Nat} (hr : ∀ i, (rules i).WF)
    (h : ∀ i, i < n → execA64 (rules i) false (g i) mem = .ret (.frame (ras i)) (g (i + 1))) :
    ∀ i, i < n → (g i).sp < (g (i + 1)).sp :=
  fun i hi => C10_a64_rule_step (hr i) (h i hi)

-- Non-vacuity: the repo's own unit-test vector (unwind_rule.rs, test_basic), second step.
example :
    let mem : Mem := fun a => if a = 0x28 then some 0x100200 else if a = 0x20 then some 0x40 else none
    let regs : RegsX64 := ⟨0x100300, fun i => if i = RSP then 0x18 else if i = RBP then 0x20 else 0⟩
    ∃ regs', execX64 .useFramePointer false regs mem = .ret (.frame 0x100200) regs' ∧
      regs'.sp = 0x30 := by
  refine ⟨_, rfl, ?_⟩
  decide

end FH
