import FH.Props.C16
import FH.NoPanic
/-!
# C16 — stripping for a whole `unwind_frame` call (miss path), whatever produced the step
-/
namespace FH

/-- What the uncacheable DWARF path hands back on aarch64: the address it reports is the `lr` it
leaves in the register set, that `lr` is stripped with the caller's mask, and the mask is kept. -/
theorem genericA64_strips {row : Row} {first : Bool} {regs g : RegsA64} {mem : Mem} {ra : Nat}
    (hs : Stripped regs.mask regs.lr) (h : genericA64 row first regs mem = .ok ra g) :
    g.mask = regs.mask ∧ Stripped g.mask g.lr ∧ (ra ≠ 0 → ra = g.lr) := by
  unfold genericA64 at h
  split at h
  · injection h with h1 h2
    subst h2
    exact ⟨rfl, hs, fun hne => absurd h1.symm hne⟩
  · split at h
    · cases h
    · rename_i cfa _
      simp only [] at h
      split at h
      · split at h
        · cases h
        · split at h
          · cases h
          · split at h
            · cases h
            · injection h with h1 h2
              subst h2
              exact ⟨rfl, strip_stripped _ _, fun _ => h1.symm⟩
      · injection h with h1 h2
        subst h2
        exact ⟨rfl, strip_stripped _ _, fun _ => h1.symm⟩

/-- **aarch64, any module data, any path, first frame or not**: whatever frame a cache-missing
`unwind_frame` reports has no bits outside the caller's mask, is the `lr` left in the register
set, and the register set still carries the caller's mask (so every later step strips too). -/
theorem C16_unwind_frame_strips (u : Unw) (hu : u.WF) (addr : FrameAddr) (regs regs' : RegsA64)
    (mem : Mem) (ra : Nat) (hs : Stripped regs.mask regs.lr)
    (h : (missPath archA64 u addr regs mem).2 = .ret (.frame ra) regs') :
    Stripped regs.mask ra ∧ regs'.lr = ra ∧ regs'.mask = regs.mask := by
  have ofRule : ∀ {rule : RuleA64}, rule.WF →
      execA64 rule (!addr.isReturn) regs mem = .ret (.frame ra) regs' →
      Stripped regs.mask ra ∧ regs'.lr = ra ∧ regs'.mask = regs.mask := by
    intro rule hw he
    have f := execA64_frame hw he
    exact ⟨f.stripped, f.lr_eq, f.mask_eq⟩
  have hfbwf : RuleA64.WF .useFramePointer := by simp [RuleA64.WF]
  unfold missPath at h
  simp only [] at h
  cases hf : findModule u.mods addr.lookup with
  | none => simp only [hf] at h; exact ofRule hfbwf h
  | some ir =>
    obtain ⟨i, rel⟩ := ir
    simp only [hf] at h
    cases hm : u.mods[i]? with
    | none => simp only [hm] at h; exact ofRule hfbwf h
    | some m =>
      simp only [hm] at h
      have hmw : m.data.WF := hu m (List.mem_of_getElem? hm)
      cases hp : plan archA64 m rel (!addr.isReturn) with
      | exec r => simp only [hp] at h; exact ofRule (plan_a64_wf m hmw rel _ r hp) h
      | staticErr => simp only [hp] at h; exact ofRule hfbwf h
      | panic => simp only [hp] at h; cases h
      | generic row =>
        simp only [hp] at h
        cases hg : archA64.generic row (!addr.isReturn) regs mem with
        | ok ra' g =>
          simp only [hg] at h
          have hg' : genericA64 row (!addr.isReturn) regs mem = .ok ra' g := hg
          obtain ⟨g1, g2, g3⟩ := genericA64_strips hs hg'
          by_cases h0 : ra' = 0
          · subst h0; simp only [resOfRa, if_true] at h; injection h with h1 _; cases h1
          · simp only [resOfRa, h0, if_false] at h
            injection h with h1 h2
            injection h1 with h1
            subst h1 h2
            have e := g3 h0
            refine ⟨?_, e.symm, g1⟩
            rw [e, ← g1]; exact g2
        | err e => simp only [hg] at h; exact ofRule hfbwf h
        | panic s => simp only [hg] at h; cases h
      | pe p =>
        simp only [hp] at h
        have hg : archA64.peRun p (!addr.isReturn) regs mem = .err .couldNotRecoverCfa := rfl
        simp only [hg] at h
        exact ofRule hfbwf h

end FH
