import FH.FdeLemmas
import FH.World
/-!
# C12 — Same CFI, any presentation: .eh_frame_hdr, generated index, .debug_frame agree

`dwarfLookup` is what the three presentations resolve a relative address to. The
`.eh_frame_hdr` table (written sorted by the linker) and framehop's own `DwarfCfiIndex`
(stable sort + binary search, with the `Err(0)` arm handing out the first entry) implement the
same search `lastLE` on the same sorted table; gimli's `EhHdrTable::lookup` is trusted to do so.
-/
namespace FH

/-- The three presentations resolve every address identically (whenever framehop can build
its index: every FDE start expressible as a `u32` offset from the base address). -/
theorem C12_presentations_agree (p₁ p₂ : Pres) (fdes : List Fde) (baseSvma rel : Nat)
    (hb : indexBuilds baseSvma fdes = true) :
    dwarfLookup p₁ fdes baseSvma rel = dwarfLookup p₂ fdes baseSvma rel := by
  simp [dwarfLookup, hb]

/-- Hence the unwinding plan (rule to execute / generic row / fallback) is the same. -/
theorem C12_same_plan (A : Arch) (p₁ p₂ : Pres) (fdes : List Fde) (m : Module) (rel : Nat)
    (first : Bool) (hb : indexBuilds m.baseSvma fdes = true) :
    plan A { m with data := .dwarf p₁ fdes } rel first =
      plan A { m with data := .dwarf p₂ fdes } rel first := by
  simp only [plan]
  rw [C12_presentations_agree p₁ p₂ fdes m.baseSvma rel hb]

/-- The FDE consulted is the one covering the address whenever one exists, irrespective of
the order of FDEs in the section. -/
theorem C12_covering_fde_is_consulted (pres : Pres) (fdes : List Fde) (baseSvma rel : Nat)
    (hd : FdesDisjoint fdes) (hb : indexBuilds baseSvma fdes = true) (f : Fde) (hf : f ∈ fdes)
    (hc : f.start ≤ baseSvma + rel ∧ baseSvma + rel < f.stop) (hlt : baseSvma + rel < U64) :
    dwarfLookup pres fdes baseSvma rel =
      match f.rowFor (baseSvma + rel) with
      | some r => .row r
      | none => .uncovered := by
  simp only [dwarfLookup, hb]
  rw [lookup_finds_covering_fde fdes hd f hf (baseSvma + rel) hc]
  simp only [Bool.not_true, Bool.false_eq_true, and_false, if_false]
  rw [if_neg (by omega)]
  cases f.rowFor (baseSvma + rel) <;> rfl

/-- Section order is irrelevant: permuting the FDEs does not change what is found. -/
theorem C12_section_order_irrelevant (pres : Pres) (fdes fdes' : List Fde) (baseSvma rel : Nat)
    (hp : fdes.Perm fdes') (hd : FdesDisjoint fdes) (hb : indexBuilds baseSvma fdes = true)
    (f : Fde) (hf : f ∈ fdes)
    (hc : f.start ≤ baseSvma + rel ∧ baseSvma + rel < f.stop) (hlt : baseSvma + rel < U64) :
    dwarfLookup pres fdes baseSvma rel = dwarfLookup pres fdes' baseSvma rel := by
  have hd' : FdesDisjoint fdes' :=
    ⟨fun g hg => hd.1 g (hp.symm.subset hg),
     hd.2.perm hp (by intro x y h; rcases h with h | h; exact Or.inr h; exact Or.inl h)⟩
  have hb' : indexBuilds baseSvma fdes' = true := by
    simp only [indexBuilds, List.all_eq_true] at *
    intro g hg; exact hb g (hp.symm.subset hg)
  rw [C12_covering_fde_is_consulted pres fdes baseSvma rel hd hb f hf hc hlt,
    C12_covering_fde_is_consulted pres fdes' baseSvma rel hd' hb' f (hp.subset hf) hc hlt]

/-- Addresses no FDE covers (gaps, before the first, after the last FDE) are treated the same
way in all presentations: never a row — `uncovered` when the table is non-empty, a failed
lookup when it is empty. -/
theorem C12_uncovered_addresses (pres : Pres) (fdes : List Fde) (baseSvma rel : Nat)
    (hb : indexBuilds baseSvma fdes = true)
    (hn : ∀ f ∈ fdes, ¬(f.start ≤ baseSvma + rel ∧ baseSvma + rel < f.stop))
    (hlt : baseSvma + rel < U64) :
    dwarfLookup pres fdes baseSvma rel = (if fdes = [] then .failed else .uncovered) := by
  have hcond : ¬ (pres ≠ Pres.hdr ∧ (!true) = true) := by simp
  have hlt' : ¬ (U64 ≤ baseSvma + rel) := by omega
  simp only [dwarfLookup, hb, hcond, if_false, hlt']
  cases hl : lastLE (baseSvma + rel) (sortByStart fdes) with
  | none =>
    have : fdes = [] := by
      cases hs : sortByStart fdes with
      | nil =>
        have hp := sortByStart_perm fdes
        rw [hs] at hp
        exact (List.Perm.nil_eq hp).symm
      | cons y ys =>
        rw [hs] at hl
        simp only [lastLE] at hl
        split at hl <;> (try split at hl) <;> cases hl
    simp [this]
  | some g =>
    have hne : fdes ≠ [] := by
      intro e; subst e; simp [sortByStart, lastLE] at hl
    simp only [uncovered_address_has_no_row fdes _ hn g hl, hne, if_false]

end FH
