import FH.FdeLemmas
import FH.World
/-!
# C12 — Same CFI, any presentation: .eh_frame_hdr, generated index, .debug_frame agree

`dwarfLookup` is what the three presentations resolve a relative address to. The
`.eh_frame_hdr` table (written sorted by the linker) and framehop's own `DwarfCfiIndex`
(stable sort + binary search, with the `Err(0)` arm handing out the first entry) implement the
same search `lastLE` on the same sorted table; gimli's `EhHdrTable::lookup` is trusted to do so.
-/
namespace FH

/-- The three presentations resolve every address identically (whenever framehop can build
its index: every FDE start expressible as a `u32` offset from the base address). -/
theorem C12_presentations_agree (p₁ p₂ : Pres) (fdes : List Fde) (baseSvma rel : Nat)
    (hb : indexBuilds baseSvma (liveFdes fdes) = true) :
    dwarfLookup p₁ fdes baseSvma rel = dwarfLookup p₂ fdes baseSvma rel := by
  simp [dwarfLookup, hb]

/-- Hence the unwinding plan (rule to execute / generic row / fallback) is the same. -/
theorem C12_same_plan (A : Arch) (p₁ p₂ : Pres) (fdes : List Fde) (m : Module) (rel : Nat)
    (first : Bool) (hb : indexBuilds m.baseSvma (liveFdes fdes) = true) :
    plan A { m with data := .dwarf p₁ fdes } rel first =
      plan A { m with data := .dwarf p₂ fdes } rel first := by
  simp only [plan]
  rw [C12_presentations_agree p₁ p₂ fdes m.baseSvma rel hb]

/-- FDEs of length zero cover no address and never influence a lookup (since `e92347e`; before,
one that shared its start with a real FDE and followed it in the section shadowed it). -/
theorem C12_zero_length_fdes_are_ignored (pres : Pres) (fdes : List Fde) (baseSvma rel : Nat) :
    dwarfLookup pres fdes baseSvma rel = dwarfLookup pres (liveFdes fdes) baseSvma rel := by
  have : liveFdes (liveFdes fdes) = liveFdes fdes := by simp [liveFdes]
  simp only [dwarfLookup, this]

/-- The FDEs that cover something are pairwise disjoint (as sets: no order is assumed; FDEs of
length zero may sit anywhere, also on the start of another FDE). -/
def LiveFdesDisjoint (fdes : List Fde) : Prop :=
  (liveFdes fdes).Pairwise (fun a b => a.stop ≤ b.start ∨ b.stop ≤ a.start)

theorem LiveFdesDisjoint.toDisjoint {fdes : List Fde} (h : LiveFdesDisjoint fdes) :
    FdesDisjoint (liveFdes fdes) :=
  ⟨fun f hf => by simpa [liveFdes] using (List.mem_filter.mp hf).2, h⟩

/-- The FDE consulted is the one covering the address whenever one exists, irrespective of
the order of FDEs in the section. -/
theorem C12_covering_fde_is_consulted (pres : Pres) (fdes : List Fde) (baseSvma rel : Nat)
    (hd : LiveFdesDisjoint fdes) (hb : indexBuilds baseSvma (liveFdes fdes) = true)
    (f : Fde) (hf : f ∈ fdes)
    (hc : f.start ≤ baseSvma + rel ∧ baseSvma + rel < f.stop) (hlt : baseSvma + rel < U64) :
    dwarfLookup pres fdes baseSvma rel =
      match f.rowFor (baseSvma + rel) with
      | some r => .row r
      | none => .uncovered := by
  have hlive : f ∈ liveFdes fdes := by
    refine List.mem_filter.mpr ⟨hf, ?_⟩
    have : f.stop = f.start + f.len := rfl
    simp only [decide_eq_true_eq]
    omega
  simp only [dwarfLookup, hb]
  rw [lookup_finds_covering_fde (liveFdes fdes) hd.toDisjoint f hlive (baseSvma + rel) hc]
  simp only [Bool.not_true, Bool.false_eq_true, and_false, if_false]
  rw [if_neg (by omega)]
  cases f.rowFor (baseSvma + rel) <;> rfl

/-- Section order is irrelevant: permuting the FDEs does not change what is found. -/
theorem C12_section_order_irrelevant (pres : Pres) (fdes fdes' : List Fde) (baseSvma rel : Nat)
    (hp : fdes.Perm fdes') (hd : LiveFdesDisjoint fdes)
    (hb : indexBuilds baseSvma (liveFdes fdes) = true)
    (f : Fde) (hf : f ∈ fdes)
    (hc : f.start ≤ baseSvma + rel ∧ baseSvma + rel < f.stop) (hlt : baseSvma + rel < U64) :
    dwarfLookup pres fdes baseSvma rel = dwarfLookup pres fdes' baseSvma rel := by
  have hpl : (liveFdes fdes).Perm (liveFdes fdes') := hp.filter _
  have hd' : LiveFdesDisjoint fdes' :=
    List.Pairwise.perm hd hpl (by intro x y h; rcases h with h | h; exact Or.inr h; exact Or.inl h)
  have hb' : indexBuilds baseSvma (liveFdes fdes') = true := by
    simp only [indexBuilds, List.all_eq_true] at *
    intro g hg; exact hb g (hpl.symm.subset hg)
  rw [C12_covering_fde_is_consulted pres fdes baseSvma rel hd hb f hf hc hlt,
    C12_covering_fde_is_consulted pres fdes' baseSvma rel hd' hb' f (hp.subset hf) hc hlt]

/-- Addresses no FDE covers (gaps, before the first, after the last FDE) are treated the same
way in all presentations: never a row — `uncovered` when the table is non-empty, a failed
lookup when it is empty. -/
theorem C12_uncovered_addresses (pres : Pres) (fdes : List Fde) (baseSvma rel : Nat)
    (hb : indexBuilds baseSvma (liveFdes fdes) = true)
    (hn : ∀ f ∈ fdes, ¬(f.start ≤ baseSvma + rel ∧ baseSvma + rel < f.stop))
    (hlt : baseSvma + rel < U64) :
    dwarfLookup pres fdes baseSvma rel = (if liveFdes fdes = [] then .failed else .uncovered) := by
  have hcond : ¬ (pres ≠ Pres.hdr ∧ (!true) = true) := by simp
  have hlt' : ¬ (U64 ≤ baseSvma + rel) := by omega
  have hn' : ∀ f ∈ liveFdes fdes, ¬(f.start ≤ baseSvma + rel ∧ baseSvma + rel < f.stop) :=
    fun f hf => hn f (List.mem_filter.mp hf).1
  simp only [dwarfLookup, hb, hcond, if_false, hlt']
  generalize liveFdes fdes = live at hn' ⊢
  cases hl : lastLE (baseSvma + rel) (sortByStart live) with
  | none =>
    have : live = [] := by
      cases hs : sortByStart live with
      | nil =>
        have hp := sortByStart_perm live
        rw [hs] at hp
        exact (List.Perm.nil_eq hp).symm
      | cons y ys =>
        rw [hs] at hl
        simp only [lastLE] at hl
        split at hl <;> (try split at hl) <;> cases hl
    simp [this]
  | some g =>
    have hne : live ≠ [] := by
      intro e; subst e; simp [sortByStart, lastLE] at hl
    simp only [uncovered_address_has_no_row live _ hn' g hl, hne, if_false]

/-- Non-vacuity, and the case the repair `e92347e` is about: a zero-length FDE that shares its
start with a real FDE and follows it in the section does not hide it. -/
example :
    let real : Fde := { start := 0x2000, len := 0x40, rows := [(0x2000, default)], evalFails := false }
    let zero : Fde := { start := 0x2000, len := 0, rows := [], evalFails := false }
    LiveFdesDisjoint [real, zero] ∧ indexBuilds 0 (liveFdes [real, zero]) = true ∧
      dwarfLookup .indexEh [real, zero] 0 0x2005 = dwarfLookup .indexEh [zero, real] 0 0x2005 := by
  refine ⟨?_, by decide, ?_⟩
  · simp [LiveFdesDisjoint, liveFdes]
  · rfl

end FH
