import FH.Props.C11Path
/-!
# C11 — an end of stack found on an uncacheable path leaves no trace in the rule cache

A null return address recovered by the generic DWARF evaluation or by the PE interpreter is a
fact about *this thread's stack*, not about the code address: nothing may be cached for it, so
that the next walk through the same address is decided by its own stack (seeded change C11-13
cached an `EndOfStack` rule there). In the model - and, through the correspondence and the
`end-of-stack-reported-without-a-root-marker` oracle, in the implementation - the rule table
changes only when the miss path hands back a rule.
-/
namespace FH

/-- `lookup` never changes the rule table, only the statistics. -/
theorem lookup_slots_unchanged {Rule : Type} (N : Nat) (c : Cache Rule) (a g : Nat) :
    (c.lookup N a g).1.slots = c.slots := by
  unfold Cache.lookup
  split
  · rfl
  · split
    · split <;> rfl
    · rfl

/-- A call whose miss path produces no rule (every uncacheable outcome: generic DWARF and PE
steps - whether they found a frame, a null return address or failed - and panics) leaves the
rule table exactly as it was. -/
theorem C11_uncacheable_outcomes_are_not_cached (A : Arch) (N : Nat) (u : Unw) (c : Cache A.Rule)
    (addr : FrameAddr) (regs : A.Regs) (mem : Mem)
    (hmiss : (c.lookup N addr.lookup u.gen).2 = .miss)
    (hnone : (missPath A u addr regs mem).1 = none) :
    (unwindFrame A N u c addr regs mem).1.slots = c.slots := by
  unfold unwindFrame
  simp only [hmiss, hnone]
  exact lookup_slots_unchanged N c addr.lookup u.gen

/-- The generic path never hands back a rule - in particular not when it found the end of the
stack (`ra = 0`). -/
theorem C11_generic_step_hands_back_no_rule (A : Arch) (u : Unw) (addr : FrameAddr)
    (regs : A.Regs) (mem : Mem) (i rel : Nat) (m : Module) (row : Row)
    (hf : findModule u.mods addr.lookup = some (i, rel)) (hm : u.mods[i]? = some m)
    (hp : plan A m rel (!addr.isReturn) = .generic row) :
    (missPath A u addr regs mem).1 = none := by
  unfold missPath
  simp only [hf, hm, hp]
  cases A.generic row (!addr.isReturn) regs mem <;> rfl

/-- Likewise the interpreted PE path. -/
theorem C11_pe_step_hands_back_no_rule (A : Arch) (u : Unw) (addr : FrameAddr)
    (regs : A.Regs) (mem : Mem) (i rel : Nat) (m : Module) (p : PePlan)
    (hf : findModule u.mods addr.lookup = some (i, rel)) (hm : u.mods[i]? = some m)
    (hp : plan A m rel (!addr.isReturn) = .pe p) :
    (missPath A u addr regs mem).1 = none := by
  unfold missPath
  simp only [hf, hm, hp]
  cases A.peRun p (!addr.isReturn) regs mem <;> rfl

-- Non-vacuity: the premise "miss" holds for the empty cache, for every address and identity.
example (a g : Nat) : ((Cache.empty : Cache RuleX64).lookup 509 a g).2 = .miss := rfl

end FH
