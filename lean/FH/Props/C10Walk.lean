import FH.Props.C10Path
/-!
# C10 — walk level, any mixture of unwinding mechanisms (x86-64 and aarch64)

A walk made of cache-missing `unwind_frame` calls for return addresses (caller frames), over
arbitrary registered modules of every format, arbitrary registers and stack contents: no
`(address, sp)` state is visited twice and the walk is finite. (Cache hits execute a rule that a
miss would have produced - C06 - so the statement carries over to warm caches.)
-/
namespace FH

/-- **x86-64: no state twice, whatever mechanism produced each step.** `g i` are the registers
before step `i`, `addrs i` the return addresses looked up. -/
theorem C10_x64_no_state_repeats_any_path (u : Unw) (hu : u.WF) (mem : Mem) (g : Nat → RegsX64)
    (addrs : Nat → FrameAddr) (ras : Nat → Nat) (n : Nat) (hret : ∀ i, (addrs i).isReturn = true)
    (h : ∀ i, i < n → (missPath archX64 u (addrs i) (g i) mem).2 = .ret (.frame (ras i)) (g (i + 1))) :
    ∀ i j, i < j → j ≤ n → ((g i).ip, (g i).sp) ≠ ((g j).ip, (g j).sp) := by
  intro i j hij hj heq
  have hw : ∀ i, i < n → Advances mem ⟨(g i).ip, (g i).sp⟩ ⟨(g (i + 1)).ip, (g (i + 1)).sp⟩ :=
    fun i hi => C10_x64_unwind_frame_caller_step_Advances u hu (addrs i) (g i) (g (i + 1)) mem (ras i)
      (hret i) (h i hi)
  have := walk_no_repeat (f := fun i => ⟨(g i).ip, (g i).sp⟩) hw i j hij hj
  apply this
  injection heq with h1 h2
  simp [h1, h2]

/-- **x86-64: walks are finite** (fewer than `2·2^64 + 2` caller-frame steps; with a finite
readable stack far fewer: every second step raises sp). -/
theorem C10_x64_walk_is_finite_any_path (u : Unw) (hu : u.WF) (mem : Mem) (g : Nat → RegsX64)
    (addrs : Nat → FrameAddr) (ras : Nat → Nat) (n : Nat) (hret : ∀ i, (addrs i).isReturn = true)
    (h : ∀ i, i < n → (missPath archX64 u (addrs i) (g i) mem).2 = .ret (.frame (ras i)) (g (i + 1)))
    (hb : ∀ i, i ≤ n → (g i).sp < U64) : n < 2 * U64 + 2 := by
  have hw : ∀ i, i < n → Advances mem ⟨(g i).ip, (g i).sp⟩ ⟨(g (i + 1)).ip, (g (i + 1)).sp⟩ :=
    fun i hi => C10_x64_unwind_frame_caller_step_Advances u hu (addrs i) (g i) (g (i + 1)) mem (ras i)
      (hret i) (h i hi)
  exact walk_length_bounded (f := fun i => ⟨(g i).ip, (g i).sp⟩) hw hb

/-- **aarch64: sp strictly increases along the caller frames of any walk**, hence no state
twice and at most `2^64` steps. -/
theorem C10_a64_walk_strict_any_path (u : Unw) (hu : u.WF) (mem : Mem) (g : Nat → RegsA64)
    (addrs : Nat → FrameAddr) (ras : Nat → Nat) (n : Nat) (hret : ∀ i, (addrs i).isReturn = true)
    (h : ∀ i, i < n → (missPath archA64 u (addrs i) (g i) mem).2 = .ret (.frame (ras i)) (g (i + 1))) :
    ∀ i j, i < j → j ≤ n → (g i).sp < (g j).sp := by
  intro i j hij
  induction j with
  | zero => omega
  | succ k ih =>
    intro hk
    have step := C10_a64_unwind_frame_caller_step_advances u hu (addrs k) (g k) (g (k + 1)) mem (ras k)
      (hret k) (h k (by omega))
    by_cases e : i = k
    · subst e; exact step
    · have := ih (by omega) (by omega)
      omega

end FH
