import FH.Props.C02
/-!
# C02, arm64 half: the epilogue and prologue word scans against a machine model
-/
namespace FH
namespace A64

/-! ## Bit fields as division and remainder -/

theorem and1 (x : Nat) : x &&& 1 = x % 2 := Nat.and_two_pow_sub_one_eq_mod x 1
theorem and3 (x : Nat) : x &&& 3 = x % 4 := Nat.and_two_pow_sub_one_eq_mod x 2
theorem and31 (x : Nat) : x &&& 31 = x % 32 := Nat.and_two_pow_sub_one_eq_mod x 5
theorem and127 (x : Nat) : x &&& 127 = x % 128 := Nat.and_two_pow_sub_one_eq_mod x 7
theorem and4095 (x : Nat) : x &&& 4095 = x % 4096 := Nat.and_two_pow_sub_one_eq_mod x 12

/-- A masked comparison can be refuted on the high bits alone. -/
theorem and_ne_of_shift (w m c k : Nat) (h : (w >>> k) &&& (m >>> k) ≠ c >>> k) : w &&& m ≠ c := by
  intro e
  apply h
  rw [← e, Nat.shiftRight_and_distrib]

inductive LdpMode where
  | off | post | pre
  deriving DecidableEq, Repr

/-- Bits 31..22 of `ldp Xt, Xt2, [sp…]` (64-bit, load): `10 101 0 0mm 1`. -/
def LdpMode.hi : LdpMode → Nat
  | .off => 0b1010100101
  | .post => 0b1010100011
  | .pre => 0b1010100111

def ldpWord (hi rt rt2 imm7 : Nat) : Nat :=
  hi * 4194304 + imm7 * 32768 + rt2 * 1024 + 31 * 32 + rt

theorem ldpWord_fields (hi rt rt2 i : Nat) (h1 : rt < 32) (h2 : rt2 < 32) (h3 : i < 128) :
    ldpWord hi rt rt2 i >>> 22 = hi ∧ ldpWord hi rt rt2 i >>> 23 = hi / 2 ∧
    ldpWord hi rt rt2 i >>> 26 = hi / 16 ∧
    (ldpWord hi rt rt2 i >>> 5) &&& 31 = 31 ∧ (ldpWord hi rt rt2 i >>> 15) &&& 127 = i ∧
    ldpWord hi rt rt2 i &&& 31 = rt ∧ (ldpWord hi rt rt2 i >>> 10) &&& 31 = rt2 := by
  simp only [and31, and127, Nat.shiftRight_eq_div_pow, ldpWord]
  refine ⟨?_, ?_, ?_, ?_, ?_, ?_, ?_⟩ <;> omega

/-! ## Epilogue instructions, their encoding and what the CPU does -/

/-- Signed value of a 7-bit immediate field. -/
def sx7 (v : Nat) : Int := if v < 64 then (v : Int) else (v : Int) - 128

theorem imm7x8_ldpWord (hi rt rt2 i : Nat) (h1 : rt < 32) (h2 : rt2 < 32) (h3 : i < 128) :
    imm7x8 (ldpWord hi rt rt2 i) = sx7 i * 8 := by
  have h := (ldpWord_fields hi rt rt2 i h1 h2 h3).2.2.2.2.1
  simp only [imm7x8, h, sx7]
  split <;> rfl

inductive EpiInsn where
  /-- `ldp Xrt, Xrt2, [sp, #imm]` / `[sp], #imm` / `[sp, #imm]!` with `imm = sx7 imm7 * 8` -/
  | ldp (mode : LdpMode) (rt rt2 imm7 : Nat)
  /-- `add sp, sp, #imm12 {, lsl #12}` -/
  | addSp (imm12 : Nat) (lsl12 : Bool)
  deriving Repr

def EpiInsn.WF : EpiInsn → Prop
  | .ldp _ rt rt2 i => rt < 32 ∧ rt2 < 32 ∧ i < 128
  | .addSp i _ => i < 4096

def addSpWord (i : Nat) (sh : Bool) : Nat :=
  0b100100010 * 8388608 + (if sh then 4194304 else 0) + i * 1024 + 31 * 32 + 31

def EpiInsn.enc : EpiInsn → Nat
  | .ldp mode rt rt2 i => ldpWord mode.hi rt rt2 i
  | .addSp i sh => addSpWord i sh

def addImm (i : Nat) (sh : Bool) : Int := if sh then (i : Int) * 4096 else (i : Int)

theorem addSpWord_fields (i : Nat) (sh : Bool) (h : i < 4096) :
    addSpWord i sh >>> 23 = 0b100100010 ∧ addSpWord i sh >>> 22 = 0b1001000100 + (if sh then 1 else 0) ∧
    addSpWord i sh >>> 26 = 0b100100 ∧
    addSpWord i sh &&& 31 = 31 ∧ (addSpWord i sh >>> 5) &&& 31 = 31 ∧ imm12 (addSpWord i sh) = addImm i sh := by
  simp only [and31, and4095, and1, imm12, addImm, Nat.shiftRight_eq_div_pow, addSpWord]
  cases sh <;> simp only [if_true, if_false, Bool.false_eq_true] <;>
    refine ⟨?_, ?_, ?_, ?_, ?_, ?_⟩ <;> first | omega | (split <;> omega)

/-- Bookkeeping of one register of an `ldp`. -/
def setOff (r : Nat) (loc : Int) (s : EpiState) : EpiState :=
  if r = 29 then { s with fpOff := some loc }
  else if r = 30 then { s with lrOff := some loc } else s

/-- The analyser's view of an instruction: offsets relative to the sp at the interruption
point. -/
def applyEff : EpiInsn → EpiState → EpiState
  | .ldp mode rt rt2 i, s =>
    let spPlus := s.spOff + sx7 i * 8
    let regLoc := if mode = .post then s.spOff else spPlus
    let s2 := setOff rt2 (regLoc + 8) (setOff rt regLoc s)
    if mode = .off then s2 else { s2 with spOff := spPlus }
  | .addSp i sh, s => { s with spOff := s.spOff + addImm i sh }

/-- No intermediate offset leaves the `i32` range (true of any real epilogue). -/
def EffFits : EpiInsn → EpiState → Prop
  | .ldp mode _ _ i, s =>
    inI32 (s.spOff + sx7 i * 8) = true ∧
    inI32 ((if mode = .post then s.spOff else s.spOff + sx7 i * 8) + 8) = true
  | .addSp i sh, s => inI32 (s.spOff + addImm i sh) = true

theorem LdpMode.hi_cases (m : LdpMode) : m.hi = 677 ∧ m = .off ∨ m.hi = 675 ∧ m = .post ∨ m.hi = 679 ∧ m = .pre := by
  cases m <;> simp [LdpMode.hi]

theorem epiStep_enc (ins : EpiInsn) (s : EpiState) (hwf : ins.WF) (hfit : EffFits ins s) :
    epiStep ins.enc s = .needMore (applyEff ins s) := by
  cases ins with
  | ldp mode rt rt2 i =>
    obtain ⟨h1, h2, h3⟩ := hwf
    obtain ⟨hf1, hf2⟩ := hfit
    simp only [EpiInsn.enc]
    generalize hh : mode.hi = hi
    obtain ⟨f22, f23, f26, frn, _, frt, frt2⟩ := ldpWord_fields hi rt rt2 i h1 h2 h3
    have fimm := imm7x8_ldpWord hi rt rt2 i h1 h2 h3
    have hd : ldpWord hi rt rt2 i / 4194304 = hi := by
      simpa [Nat.shiftRight_eq_div_pow] using f22
    have hc := mode.hi_cases
    rw [hh] at hc
    have hc' : hi = 677 ∨ hi = 675 ∨ hi = 679 := by
      rcases hc with ⟨h, _⟩ | ⟨h, _⟩ | ⟨h, _⟩ <;> simp [h]
    have n1 : ldpWord hi rt rt2 i ≠ 0xd65f03c0 := by intro e; rw [e] at hd; omega
    have n2 : ldpWord hi rt rt2 i ≠ 0xd65f0fff := by intro e; rw [e] at hd; omega
    have n3 : ldpWord hi rt rt2 i ≠ 0xd50323ff := by intro e; rw [e] at hd; omega
    have n4 : ldpWord hi rt rt2 i &&& 0xfffffc1f ≠ 0xd61f0000 := by
      apply and_ne_of_shift _ _ _ 22; rw [f22]
      rcases hc' with rfl | rfl | rfl <;> decide
    have e1 : inI32 (s.spOff + sx7 i * 8) = true := hf1
    rcases hc with ⟨rfl, rfl⟩ | ⟨rfl, rfl⟩ | ⟨rfl, rfl⟩ <;>
      simp only [epiStep, n1, n2, n3, n4, f22, f23, f26, frn, frt, frt2, fimm, or_self, if_false] <;>
      by_cases a1 : rt = 29 <;> by_cases a2 : rt = 30 <;> by_cases b1 : rt2 = 29 <;>
      by_cases b2 : rt2 = 30 <;>
      simp [applyEff, setOff, e1, a1, a2, b1, b2] at hf2 ⊢ <;> first | exact hf2 | simp [hf2] | omega
  | addSp i sh =>
    have hi : i < 4096 := hwf
    have hf : inI32 (s.spOff + addImm i sh) = true := hfit
    obtain ⟨f23, f22, f26, frd, frn, fimm⟩ := addSpWord_fields i sh hi
    have hd : addSpWord i sh / 8388608 = 290 := by
      simpa [Nat.shiftRight_eq_div_pow] using f23
    have n1 : addSpWord i sh ≠ 0xd65f03c0 := by intro e; rw [e] at hd; omega
    have n2 : addSpWord i sh ≠ 0xd65f0fff := by intro e; rw [e] at hd; omega
    have n3 : addSpWord i sh ≠ 0xd50323ff := by intro e; rw [e] at hd; omega
    have n4 : addSpWord i sh &&& 0xfffffc1f ≠ 0xd61f0000 := by
      apply and_ne_of_shift _ _ _ 23; rw [f23]; decide
    have n5 : ¬ ((addSpWord i sh >>> 22) &&& 0b1011111001 = 0b1010100001) := by
      rw [f22]; cases sh <;> decide
    simp only [EpiInsn.enc, epiStep, n1, n2, n3, n4, n5, f23, f26, frd, frn, fimm, or_self, if_false]
    simp [applyEff, hf]

theorem enc_lt (ins : EpiInsn) (hwf : ins.WF) : ins.enc < 4294967296 := by
  cases ins with
  | ldp mode rt rt2 i =>
    obtain ⟨h1, h2, h3⟩ := hwf
    have := mode.hi_cases
    simp only [EpiInsn.enc, ldpWord]
    omega
  | addSp i sh =>
    have hi : i < 4096 := hwf
    simp only [EpiInsn.enc, addSpWord]
    cases sh <;> simp <;> omega

/-! ## Words as little-endian bytes -/

def wordBytes (w : Nat) : List Nat := [w % 256, w / 256 % 256, w / 65536 % 256, w / 16777216 % 256]

def code (ws : List Nat) : List Nat := ws.flatMap wordBytes

theorem wordAt_wordBytes (w : Nat) (rest : List Nat) (hw : w < 4294967296) :
    wordAt (wordBytes w ++ rest) 0 = w := by
  simp [wordAt, wordBytes]
  omega

theorem code_cons (w : Nat) (ws : List Nat) : code (w :: ws) = wordBytes w ++ code ws := by
  simp [code]

theorem drop4_wordBytes (w : Nat) (rest : List Nat) : (wordBytes w ++ rest).drop 4 = rest := by
  simp [wordBytes]

theorem length_code (ws : List Nat) : (code ws).length = 4 * ws.length := by
  induction ws with
  | nil => simp [code]
  | cons w ws ih => rw [code_cons]; simp [wordBytes, ih]; omega

/-! ## The forward scan over any sequence of epilogue instructions -/

def FitsAll : List EpiInsn → EpiState → Prop
  | [], _ => True
  | i :: rest, s => EffFits i s ∧ FitsAll rest (applyEff i s)

def effAll (is : List EpiInsn) (s : EpiState) : EpiState := is.foldl (fun s i => applyEff i s) s

theorem epiLoop_needMore (f w : Nat) (bytes : List Nat) (s s' : EpiState)
    (h : epiStep w s = .needMore s') (hl : ¬ bytes.length < 4) :
    epiLoop (f + 1) w bytes s = epiLoop f (wordAt bytes 0) (bytes.drop 4) s' := by
  simp [epiLoop, h, hl]

theorem epiLoop_insns : ∀ (is : List EpiInsn) (s : EpiState) (fuel e : Nat) (rest : List Nat),
    (∀ i ∈ is, i.WF) → FitsAll is s → is.length < fuel → e < 4294967296 →
    epiLoop fuel (wordAt (code (is.map EpiInsn.enc ++ [e]) ++ rest) 0)
      ((code (is.map EpiInsn.enc ++ [e]) ++ rest).drop 4) s =
    epiLoop (fuel - is.length) e rest (effAll is s) := by
  intro is
  induction is with
  | nil =>
    intro s fuel e rest _ _ _ he
    simp only [List.map_nil, List.nil_append, code_cons, List.append_assoc, effAll, List.foldl_nil,
      List.length_nil, Nat.sub_zero]
    rw [wordAt_wordBytes _ _ he, drop4_wordBytes]
    simp [code]
  | cons i is ih =>
    intro s fuel e rest hwf hfit hfuel he
    obtain ⟨hf1, hf2⟩ := hfit
    have hwi : i.WF := hwf i (by simp)
    cases fuel with
    | zero => simp at hfuel
    | succ f =>
      simp only [List.map_cons, List.cons_append, code_cons, List.append_assoc]
      rw [wordAt_wordBytes _ _ (enc_lt i hwi), drop4_wordBytes]
      have hlen : ¬ ((code (List.map EpiInsn.enc is ++ [e]) ++ rest).length < 4) := by
        rw [List.length_append, length_code]; simp; omega
      rw [epiLoop_needMore _ _ _ _ _ (epiStep_enc i s hwi hf1) hlen]
      have := ih (applyEff i s) f e rest (fun j hj => hwf j (by simp [hj])) hf2
        (by simp at hfuel; omega) he
      rw [this]
      have e1 : f + 1 - (i :: is).length = f - is.length := by simp
      rw [e1]
      simp [effAll]

/-! ## What the CPU does -/

/-- The registers an unwinder cares about (sp as a mathematical integer). -/
structure M where
  sp : Int
  fp : Nat
  lr : Nat

def setRegM (r v : Nat) (m : M) : M :=
  if r = 29 then { m with fp := v } else if r = 30 then { m with lr := v } else m

/-- One epilogue instruction (Arm ARM: LDP post-index / pre-index / signed offset, 64-bit;
ADD (immediate) on sp). Registers other than x29/x30 are not tracked. -/
def stepM (mem : Mem) : EpiInsn → M → Option M
  | .ldp mode rt rt2 i, m =>
    let a := if mode = .post then m.sp else m.sp + sx7 i * 8
    match readAt mem a, readAt mem (a + 8) with
    | some v1, some v2 =>
      let m' := setRegM rt2 v2 (setRegM rt v1 m)
      some (if mode = .off then m' else { m' with sp := m.sp + sx7 i * 8 })
    | _, _ => none
  | .addSp i sh, m => some { m with sp := m.sp + addImm i sh }

def runM (mem : Mem) : List EpiInsn → M → Option M
  | [], m => some m
  | i :: rest, m =>
    match stepM mem i m with
    | some m' => runM mem rest m'
    | none => none

/-- The analyser's bookkeeping describes the machine state: offsets are relative to the sp
at the interruption point `sp0`; a recorded slot holds the register's current value. -/
def Rel (mem : Mem) (sp0 : Int) (fp0 lr0 : Nat) (s : EpiState) (m : M) : Prop :=
  m.sp = sp0 + s.spOff ∧
  (match s.fpOff with
    | none => m.fp = fp0
    | some f => readAt mem (sp0 + f) = some m.fp) ∧
  (match s.lrOff with
    | none => m.lr = lr0
    | some l => readAt mem (sp0 + l) = some m.lr)

theorem rel_step (mem : Mem) (sp0 : Int) (fp0 lr0 : Nat) (i : EpiInsn) (s : EpiState) (m m' : M)
    (hr : Rel mem sp0 fp0 lr0 s m) (hs : stepM mem i m = some m') :
    Rel mem sp0 fp0 lr0 (applyEff i s) m' := by
  obtain ⟨hsp, hfp, hlr⟩ := hr
  cases i with
  | addSp i sh =>
    simp only [stepM, Option.some.injEq] at hs
    subst hs
    refine ⟨?_, hfp, hlr⟩
    simp only [applyEff, hsp]; omega
  | ldp mode rt rt2 i =>
    simp only [stepM] at hs
    split at hs
    · rename_i v1 v2 hv1 hv2
      simp only [Option.some.injEq] at hs
      subst hs
      rw [hsp] at hv1 hv2
      cases mode <;>
        by_cases a1 : rt = 29 <;> by_cases a2 : rt = 30 <;> by_cases b1 : rt2 = 29 <;>
        by_cases b2 : rt2 = 30 <;>
        simp [applyEff, setOff, setRegM, Rel, a1, a2, b1, b2, hsp] at hv1 hv2 hfp hlr ⊢ <;>
        (try subst a1) <;> (try subst a2) <;> (try subst b1) <;> (try subst b2) <;>
        simp_all [Int.add_assoc] <;> omega
    · cases hs

theorem rel_run (mem : Mem) (sp0 : Int) (fp0 lr0 : Nat) : ∀ (is : List EpiInsn) (s : EpiState) (m m' : M),
    Rel mem sp0 fp0 lr0 s m → runM mem is m = some m' → Rel mem sp0 fp0 lr0 (effAll is s) m' := by
  intro is
  induction is with
  | nil => intro s m m' hr h; simp only [runM, Option.some.injEq] at h; subst h; simpa [effAll] using hr
  | cons i is ih =>
    intro s m m' hr h
    simp only [runM] at h
    split at h
    · rename_i m1 h1
      have := ih (applyEff i s) m1 m' (rel_step mem sp0 fp0 lr0 i s m m1 hr h1) h
      simpa [effAll] using this
    · cases h

/-! ## How the epilogue ends -/

inductive EpiEnd where
  | ret
  | retab
  /-- `b <imm26>`: tail call -/
  | b (imm26 : Nat)
  /-- `br Xn`: tail call through a register -/
  | br (rn : Nat)
  deriving Repr

def EpiEnd.WF : EpiEnd → Prop
  | .b i => i < 67108864
  | .br n => n < 32
  | _ => True

def EpiEnd.enc : EpiEnd → Nat
  | .ret => 0xd65f03c0
  | .retab => 0xd65f0fff
  | .b i => 5 * 67108864 + i
  | .br n => 0xd61f0000 + n * 32

def EpiEnd.isTail : EpiEnd → Bool
  | .b _ => true
  | .br _ => true
  | _ => false

theorem end_lt (e : EpiEnd) (h : e.WF) : e.enc < 4294967296 := by
  cases e <;> simp only [EpiEnd.enc, EpiEnd.WF] at * <;> omega

theorem br_and (n : Nat) (h : n < 32) : (0xd61f0000 + n * 32) &&& 0xfffffc1f = 0xd61f0000 := by
  have : ∀ k : Fin 32, (0xd61f0000 + k.val * 32) &&& 0xfffffc1f = 0xd61f0000 := by decide
  exact this ⟨n, h⟩

/-- The forward scan stops at the end of the epilogue with what it has collected: always at a
return, at a tail call if sp has been adjusted. -/
theorem epiLoop_end (e : EpiEnd) (hwf : e.WF) (s : EpiState) (f : Nat) (rest : List Nat)
    (htail : e.isTail = true → s.spOff ≠ 0) : epiLoop (f + 1) e.enc rest s = some s := by
  cases e with
  | ret => simp [epiLoop, epiStep, EpiEnd.enc]
  | retab => simp [epiLoop, epiStep, EpiEnd.enc]
  | b i =>
    have hi : i < 67108864 := hwf
    have h0 := htail rfl
    have h26 : (5 * 67108864 + i) >>> 26 = 5 := by rw [Nat.shiftRight_eq_div_pow]; omega
    have n1 : 5 * 67108864 + i ≠ 0xd65f03c0 := by omega
    have n2 : 5 * 67108864 + i ≠ 0xd65f0fff := by omega
    have n3 : 5 * 67108864 + i ≠ 0xd50323ff := by omega
    simp [epiLoop, epiStep, EpiEnd.enc, h26, n1, n2, n3, h0]
  | br n =>
    have hn : n < 32 := hwf
    have h0 := htail rfl
    have n1 : 0xd61f0000 + n * 32 ≠ 0xd65f03c0 := by omega
    have n2 : 0xd61f0000 + n * 32 ≠ 0xd65f0fff := by omega
    have n3 : 0xd61f0000 + n * 32 ≠ 0xd50323ff := by omega
    simp [epiLoop, epiStep, EpiEnd.enc, br_and n hn, n1, n2, n3, h0]

/-! ## Classification of the instruction at pc -/

theorem epiInsnType_enc (ins : EpiInsn) (hwf : ins.WF) : epiInsnType ins.enc = .veryLikely := by
  cases ins with
  | ldp mode rt rt2 i =>
    obtain ⟨h1, h2, h3⟩ := hwf
    simp only [EpiInsn.enc]
    generalize hh : mode.hi = hi
    obtain ⟨f22, f23, f26, frn, _, frt, frt2⟩ := ldpWord_fields hi rt rt2 i h1 h2 h3
    have hd : ldpWord hi rt rt2 i / 4194304 = hi := by
      simpa [Nat.shiftRight_eq_div_pow] using f22
    have hc := mode.hi_cases
    rw [hh] at hc
    have hc' : hi = 677 ∨ hi = 675 ∨ hi = 679 := by
      rcases hc with ⟨h, _⟩ | ⟨h, _⟩ | ⟨h, _⟩ <;> simp [h]
    have n1 : ldpWord hi rt rt2 i ≠ 0xd65f03c0 := by intro e; rw [e] at hd; omega
    have n2 : ldpWord hi rt rt2 i ≠ 0xd65f0fff := by intro e; rw [e] at hd; omega
    have n3 : ldpWord hi rt rt2 i ≠ 0xd50323ff := by intro e; rw [e] at hd; omega
    have n5 : ldpWord hi rt rt2 i ≠ 0xca1e07d0 := by intro e; rw [e] at hd; omega
    have n6 : ldpWord hi rt rt2 i ≠ 0xb6f00050 := by intro e; rw [e] at hd; omega
    have n7 : ldpWord hi rt rt2 i ≠ 0xd4388e20 := by intro e; rw [e] at hd; omega
    have n4 : ldpWord hi rt rt2 i &&& 0xfffffc1f ≠ 0xd61f0000 := by
      apply and_ne_of_shift _ _ _ 22; rw [f22]
      rcases hc' with rfl | rfl | rfl <;> decide
    have n8 : ldpWord hi rt rt2 i &&& 0xfffffc00 ≠ 0xd71f0800 := by
      apply and_ne_of_shift _ _ _ 22; rw [f22]
      rcases hc' with rfl | rfl | rfl <;> decide
    rcases hc' with rfl | rfl | rfl <;>
      simp [epiInsnType, n1, n2, n3, n4, n5, n6, n7, n8, f22, f23, f26, frn]
  | addSp i sh =>
    have hi : i < 4096 := hwf
    obtain ⟨f23, f22, f26, frd, frn, fimm⟩ := addSpWord_fields i sh hi
    have hd : addSpWord i sh / 8388608 = 290 := by
      simpa [Nat.shiftRight_eq_div_pow] using f23
    have n1 : addSpWord i sh ≠ 0xd65f03c0 := by intro e; rw [e] at hd; omega
    have n2 : addSpWord i sh ≠ 0xd65f0fff := by intro e; rw [e] at hd; omega
    have n3 : addSpWord i sh ≠ 0xd50323ff := by intro e; rw [e] at hd; omega
    have n5 : addSpWord i sh ≠ 0xca1e07d0 := by intro e; rw [e] at hd; omega
    have n6 : addSpWord i sh ≠ 0xb6f00050 := by intro e; rw [e] at hd; omega
    have n7 : addSpWord i sh ≠ 0xd4388e20 := by intro e; rw [e] at hd; omega
    have n4 : addSpWord i sh &&& 0xfffffc1f ≠ 0xd61f0000 := by
      apply and_ne_of_shift _ _ _ 23; rw [f23]; decide
    have n8 : addSpWord i sh &&& 0xfffffc00 ≠ 0xd71f0800 := by
      apply and_ne_of_shift _ _ _ 23; rw [f23]; decide
    have n9 : ¬ ((addSpWord i sh >>> 22) &&& 0b1011111001 = 0b1010100001) := by
      rw [f22]; cases sh <;> decide
    simp [EpiInsn.enc, epiInsnType, n1, n2, n3, n4, n5, n6, n7, n8, n9, f23, f26, frd, frn]

theorem proInsnType_enc (ins : EpiInsn) (hwf : ins.WF) : proInsnType ins.enc = .notExpected := by
  cases ins with
  | ldp mode rt rt2 i =>
    obtain ⟨h1, h2, h3⟩ := hwf
    simp only [EpiInsn.enc]
    generalize hh : mode.hi = hi
    obtain ⟨f22, f23, f26, frn, _, frt, frt2⟩ := ldpWord_fields hi rt rt2 i h1 h2 h3
    have hd : ldpWord hi rt rt2 i / 4194304 = hi := by
      simpa [Nat.shiftRight_eq_div_pow] using f22
    have hc := mode.hi_cases
    rw [hh] at hc
    have hc' : hi = 677 ∨ hi = 675 ∨ hi = 679 := by
      rcases hc with ⟨h, _⟩ | ⟨h, _⟩ | ⟨h, _⟩ <;> simp [h]
    have n1 : ldpWord hi rt rt2 i ≠ 0xd503237f := by intro e; rw [e] at hd; omega
    have n2 : ldpWord hi rt rt2 i ≠ 0x910003fd := by intro e; rw [e] at hd; omega
    rcases hc' with rfl | rfl | rfl <;> simp [proInsnType, n1, n2, f22]
  | addSp i sh =>
    have hi : i < 4096 := hwf
    obtain ⟨f23, f22, f26, frd, frn, fimm⟩ := addSpWord_fields i sh hi
    have hd : addSpWord i sh / 8388608 = 290 := by
      simpa [Nat.shiftRight_eq_div_pow] using f23
    have n1 : addSpWord i sh ≠ 0xd503237f := by intro e; rw [e] at hd; omega
    have n2 : addSpWord i sh ≠ 0x910003fd := by
      intro e
      have : addSpWord i sh % 32 = 31 := by rw [← and31]; exact frd
      rw [e] at this; omega
    have f30 : (addSpWord i sh >>> 30) &&& 1 = 0 := by
      rw [and1, Nat.shiftRight_eq_div_pow]
      have : addSpWord i sh / 2 ^ 30 = (addSpWord i sh / 8388608) / 128 := by omega
      rw [this, hd]
    cases sh <;> simp [EpiInsn.enc, proInsnType, n1, n2, f22, f30, frd, frn]

theorem epiInsnType_end (e : EpiEnd) (hwf : e.WF) :
    epiInsnType e.enc = (if e.isTail then .couldBeTailCall 16 else .veryLikely) := by
  cases e with
  | ret => simp [epiInsnType, EpiEnd.enc, EpiEnd.isTail]
  | retab => simp [epiInsnType, EpiEnd.enc, EpiEnd.isTail]
  | b i =>
    have hi : i < 67108864 := hwf
    have h26 : (5 * 67108864 + i) >>> 26 = 5 := by rw [Nat.shiftRight_eq_div_pow]; omega
    have n1 : 5 * 67108864 + i ≠ 0xd65f03c0 := by omega
    have n2 : 5 * 67108864 + i ≠ 0xd65f0fff := by omega
    have n3 : 5 * 67108864 + i ≠ 0xd50323ff := by omega
    have n5 : 5 * 67108864 + i ≠ 0xca1e07d0 := by omega
    have n6 : 5 * 67108864 + i ≠ 0xb6f00050 := by omega
    have n7 : 5 * 67108864 + i ≠ 0xd4388e20 := by omega
    simp [epiInsnType, EpiEnd.enc, EpiEnd.isTail, h26, n1, n2, n3, n5, n6, n7]
  | br n =>
    have hn : n < 32 := hwf
    have n1 : 0xd61f0000 + n * 32 ≠ 0xd65f03c0 := by omega
    have n2 : 0xd61f0000 + n * 32 ≠ 0xd65f0fff := by omega
    have n3 : 0xd61f0000 + n * 32 ≠ 0xd50323ff := by omega
    have n5 : 0xd61f0000 + n * 32 ≠ 0xca1e07d0 := by omega
    have n6 : 0xd61f0000 + n * 32 ≠ 0xb6f00050 := by omega
    have n7 : 0xd61f0000 + n * 32 ≠ 0xd4388e20 := by omega
    simp [epiInsnType, EpiEnd.enc, EpiEnd.isTail, br_and n hn, n1, n2, n3, n5, n6, n7]

theorem proInsnType_end (e : EpiEnd) (hwf : e.WF) : proInsnType e.enc = .notExpected := by
  cases e with
  | ret => simp [proInsnType, EpiEnd.enc]
  | retab => simp [proInsnType, EpiEnd.enc]
  | b i =>
    have hi : i < 67108864 := hwf
    have n1 : 5 * 67108864 + i ≠ 0xd503237f := by omega
    have n2 : 5 * 67108864 + i ≠ 0x910003fd := by omega
    have hb : (5 * 67108864 + i) >>> 22 < 512 := by rw [Nat.shiftRight_eq_div_pow]; omega
    have a1 : ¬ ((5 * 67108864 + i) >>> 22 &&& 0b1011111001 = 0b1010100000) := by
      have := @Nat.and_le_left ((5 * 67108864 + i) >>> 22) 0b1011111001; omega
    have a2 : ¬ ((5 * 67108864 + i) >>> 22 &&& 0b1011111110 = 0b1001000100) := by
      have := @Nat.and_le_left ((5 * 67108864 + i) >>> 22) 0b1011111110; omega
    simp [proInsnType, EpiEnd.enc, n1, n2, a1, a2]
  | br n =>
    have hn : n < 32 := hwf
    have n1 : 0xd61f0000 + n * 32 ≠ 0xd503237f := by omega
    have n2 : 0xd61f0000 + n * 32 ≠ 0x910003fd := by omega
    have h22 : (0xd61f0000 + n * 32) >>> 22 = 856 := by rw [Nat.shiftRight_eq_div_pow]; omega
    simp [proInsnType, EpiEnd.enc, n1, n2, h22]

/-! ## The rule performs what the rest of the epilogue will do -/

/-- Sizes a real epilogue has: the frame is released in multiples of 16 bytes, slots are
8-aligned, everything fits the rule's fields, and fp is never restored without lr. -/
def Shape (s : EpiState) : Prop :=
  0 ≤ s.spOff ∧ s.spOff % 16 = 0 ∧ s.spOff < 1048576 ∧
  (∀ f, s.fpOff = some f → f % 8 = 0 ∧ -262144 ≤ f ∧ f < 262144 ∧ s.lrOff ≠ none) ∧
  (∀ l, s.lrOff = some l → l % 8 = 0 ∧ -262144 ≤ l ∧ l < 262144)

theorem tdiv8 (x : Int) (h : x % 8 = 0) : x.tdiv 8 * 8 = x := by
  rw [Int.tdiv_eq_ediv_of_dvd (by omega)]; omega

theorem epiFound_exec (s : EpiState) (regs : RegsA64) (mem : Mem) (m' : M)
    (hrel : Rel mem regs.sp regs.fp regs.lr s m') (hs : Shape s) (hregs : regs.WF)
    (hsp : m'.sp < 18446744073709551616) :
    ∃ rule, epiFound s = some rule ∧
      execA64 rule true regs mem = finishA64 true regs m'.lr m'.sp.toNat m'.fp := by
  obtain ⟨h0, h16, hmax, hf, hl⟩ := hs
  obtain ⟨rsp, rfp, rlr⟩ := hrel
  obtain ⟨_, _, hspU, _⟩ := hregs
  have hq : s.spOff.tdiv 16 = s.spOff / 16 := Int.tdiv_eq_ediv_of_nonneg h0
  have hq0 : 0 ≤ s.spOff / 16 ∧ s.spOff / 16 < 65536 := by omega
  have hqn : ((s.spOff / 16).toNat : Int) = s.spOff / 16 := by omega
  have hnew : regs.sp + (s.spOff / 16).toNat * 16 = m'.sp.toNat := by omega
  have hlt : regs.sp + (s.spOff / 16).toNat * 16 < U64 := by unfold U64; omega
  have hmul : (s.spOff / 16).toNat * 16 < U64 := by unfold U64; omega
  unfold U64 at hspU
  cases hfo : s.fpOff with
  | none =>
    rw [hfo] at rfp
    simp only at rfp
    cases hlo : s.lrOff with
    | none =>
      rw [hlo] at rlr
      simp only at rlr
      by_cases hz : s.spOff / 16 = 0
      · refine ⟨.noOp, by simp [epiFound, hfo, hlo, hq, hq0, hz], ?_⟩
        have : m'.sp.toNat = regs.sp := by omega
        simp [execA64, this, rfp, rlr]
      · refine ⟨.offsetSp (s.spOff / 16).toNat, by simp [epiFound, hfo, hlo, hq, hq0, hz], ?_⟩
        simp only [execA64, Bool.not_true, Bool.false_eq_true, if_false]
        rw [umul_eq _ hmul, cadd_eq_some hlt, hnew, rfp, rlr]
    | some l =>
      rw [hlo] at rlr
      simp only at rlr
      obtain ⟨l8, l1, l2⟩ := hl l hlo
      obtain ⟨a0, a1, am⟩ := readAt_some rlr
      have hl8 := tdiv8 l l8
      have hd : -32768 ≤ l.tdiv 8 ∧ l.tdiv 8 < 32768 := by omega
      refine ⟨.offsetSpAndRestoreLr (s.spOff / 16).toNat (l.tdiv 8),
        by simp [epiFound, hfo, hlo, hq, hq0, hd], ?_⟩
      simp only [execA64]
      rw [umul_eq _ hmul, cadd_eq_some hlt]
      simp only []
      rw [imul_eq _ (by omega), hl8,
        caddSigned_of_int (c := ((regs.sp : Int) + l).toNat) (by unfold U64; omega)
          ⟨by omega, by omega⟩ (by omega) (by unfold U64; omega)]
      simp only [am, hnew, rfp]
  | some f =>
    rw [hfo] at rfp
    simp only at rfp
    obtain ⟨f8, f1, f2, hlne⟩ := hf f hfo
    cases hlo : s.lrOff with
    | none => exact absurd hlo hlne
    | some l =>
      rw [hlo] at rlr
      simp only at rlr
      obtain ⟨l8, l1, l2⟩ := hl l hlo
      obtain ⟨a0, a1, am⟩ := readAt_some rlr
      obtain ⟨b0, b1, bm⟩ := readAt_some rfp
      have hl8 := tdiv8 l l8
      have hf8 := tdiv8 f f8
      have hd : -32768 ≤ l.tdiv 8 ∧ l.tdiv 8 < 32768 := by omega
      have hd2 : -32768 ≤ f.tdiv 8 ∧ f.tdiv 8 < 32768 := by omega
      refine ⟨.offsetSpAndRestoreFpAndLr (s.spOff / 16).toNat (f.tdiv 8) (l.tdiv 8),
        by simp [epiFound, hfo, hlo, hq, hq0, hd, hd2], ?_⟩
      simp only [execA64]
      rw [umul_eq _ hmul, cadd_eq_some hlt]
      simp only []
      rw [imul_eq _ (by omega), hl8,
        caddSigned_of_int (c := ((regs.sp : Int) + l).toNat) (by unfold U64; omega)
          ⟨by omega, by omega⟩ (by omega) (by unfold U64; omega)]
      simp only [am]
      rw [imul_eq _ (by omega), hf8,
        caddSigned_of_int (c := ((regs.sp : Int) + f).toNat) (by unfold U64; omega)
          ⟨by omega, by omega⟩ (by omega) (by unfold U64; omega)]
      simp only [bm, hnew]

theorem inI32_of_abs (x : Int) (h : x.natAbs < 2147483648) : inI32 x = true := by
  simp only [inI32, Bool.and_eq_true, decide_eq_true_eq]; omega

theorem sx7_bound (i : Nat) (h : i < 128) : -64 ≤ sx7 i ∧ sx7 i < 64 := by
  unfold sx7; split <;> omega

theorem addImm_bound (i : Nat) (sh : Bool) (h : i < 4096) : 0 ≤ addImm i sh ∧ addImm i sh < 16777216 := by
  unfold addImm; split <;> omega

@[simp] theorem setOff_spOff (r : Nat) (loc : Int) (s : EpiState) : (setOff r loc s).spOff = s.spOff := by
  unfold setOff; split <;> (try split) <;> rfl

theorem applyEff_spOff_bound (i : EpiInsn) (s : EpiState) (hwf : i.WF) :
    ((applyEff i s).spOff - s.spOff).natAbs < 16777216 := by
  cases i with
  | ldp mode rt rt2 k =>
    have := sx7_bound k hwf.2.2
    cases mode <;> simp [applyEff] <;> omega
  | addSp k sh =>
    have := addImm_bound k sh hwf
    simp [applyEff]; omega

/-- Epilogues of up to a hundred instructions never leave the analyser's `i32` range. -/
theorem fitsAll_of_short : ∀ (is : List EpiInsn) (s : EpiState), (∀ i ∈ is, i.WF) →
    s.spOff.natAbs + (is.length + 1) * 16777216 ≤ 2000000000 → FitsAll is s := by
  intro is
  induction is with
  | nil => intro s _ _; trivial
  | cons i is ih =>
    intro s hwf hb
    have hwi : i.WF := hwf i (by simp)
    have hstep := applyEff_spOff_bound i s hwi
    simp only [List.length_cons] at hb
    refine ⟨?_, ih _ (fun j hj => hwf j (by simp [hj])) (by omega)⟩
    cases i with
    | ldp mode rt rt2 k =>
      have := sx7_bound k hwi.2.2
      refine ⟨inI32_of_abs _ (by omega), inI32_of_abs _ ?_⟩
      cases mode <;> simp <;> omega
    | addSp k sh =>
      have := addImm_bound k sh hwi
      exact inI32_of_abs _ (by omega)

theorem first_word (is : List EpiInsn) (e : EpiEnd) (rest : List Nat)
    (hwf : ∀ i ∈ is, i.WF) (hewf : e.WF) :
    wordAt (code (is.map EpiInsn.enc ++ [e.enc]) ++ rest) 0 =
      (match is with | [] => e.enc | i :: _ => i.enc) := by
  cases is with
  | nil => simp only [List.map_nil, List.nil_append, code_cons, List.append_assoc]
           exact wordAt_wordBytes _ _ (end_lt e hewf)
  | cons i is =>
    simp only [List.map_cons, List.cons_append, code_cons, List.append_assoc]
    exact wordAt_wordBytes _ _ (enc_lt i (hwf i (by simp)))

theorem wordAt_append (pre l : List Nat) (k : Nat) : wordAt (pre ++ l) (pre.length + k) = wordAt l k := by
  simp [wordAt, List.getD_eq_getElem?_getD, List.getElem?_append_right, Nat.add_assoc]

def EpiInsn.adjustsSp : EpiInsn → Bool
  | .ldp .off _ _ _ => false
  | _ => true

theorem adjustsSp_enc (ins : EpiInsn) (hwf : ins.WF) (h : ins.adjustsSp = true) :
    FH.adjustsSp ins.enc = true := by
  cases ins with
  | ldp mode rt rt2 i =>
    obtain ⟨h1, h2, h3⟩ := hwf
    cases mode with
    | off => simp [EpiInsn.adjustsSp] at h
    | post =>
      obtain ⟨f22, _, _, frn, _, _, _⟩ := ldpWord_fields 675 rt rt2 i h1 h2 h3
      simp [FH.adjustsSp, EpiInsn.enc, LdpMode.hi, f22, frn]
    | pre =>
      obtain ⟨f22, _, _, frn, _, _, _⟩ := ldpWord_fields 679 rt rt2 i h1 h2 h3
      simp [FH.adjustsSp, EpiInsn.enc, LdpMode.hi, f22, frn]
  | addSp i sh =>
    obtain ⟨f23, _, _, frd, frn, _⟩ := addSpWord_fields i sh hwf
    simp [FH.adjustsSp, EpiInsn.enc, f23, frd, frn]

end A64

open A64 in
/-- **arm64 tail calls.** Stopped exactly on the `b` / `br Xn` that ends an epilogue, right after
an instruction that adjusted sp (`ldp …, [sp], #n`, `ldp …, [sp, #n]!` or `add sp, sp, #n`):
everything is already restored, and the analysis says so (`NoOp`: the caller's registers are
the current ones, the return address is lr). -/
theorem C02_a64_tail_call_after_sp_adjust (pre rest : List Nat) (prev : A64.EpiInsn) (e : A64.EpiEnd)
    (regs : RegsA64) (mem : Mem)
    (hprev : prev.WF) (hadj : prev.adjustsSp = true) (hewf : e.WF) (htl : e.isTail = true) :
    anaA64 (pre ++ wordBytes prev.enc ++ wordBytes e.enc ++ rest) (pre.length + 4) =
      some (some .noOp) ∧
    execA64 .noOp true regs mem = finishA64 true regs regs.lr regs.sp regs.fp := by
  refine ⟨?_, by simp [execA64]⟩
  have hdrop : (pre ++ wordBytes prev.enc ++ wordBytes e.enc ++ rest).drop (pre.length + 4) =
      wordBytes e.enc ++ rest := by
    have : (pre ++ wordBytes prev.enc).length = pre.length + 4 := by simp [wordBytes]
    rw [List.append_assoc (pre ++ wordBytes prev.enc), ← this, List.drop_left]
  have hlen : (pre ++ wordBytes prev.enc ++ wordBytes e.enc ++ rest).length =
      pre.length + 8 + rest.length := by simp [wordBytes]; omega
  have hw : wordAt (wordBytes e.enc ++ rest) 0 = e.enc := wordAt_wordBytes _ _ (end_lt e hewf)
  have hnp : ¬ pre.length + 4 > (pre ++ wordBytes prev.enc ++ wordBytes e.enc ++ rest).length := by
    rw [hlen]; omega
  have hl4 : ¬ (wordBytes e.enc ++ rest).length < 4 := by simp [wordBytes]
  have hpro : anaPrologueA64 (pre ++ wordBytes prev.enc ++ wordBytes e.enc ++ rest) (pre.length + 4) =
      some none := by
    simp only [anaPrologueA64, hnp, if_false, hdrop, hl4, hw, proInsnType_end e hewf, if_true]
  have hprevw : wordAt (pre ++ wordBytes prev.enc ++ wordBytes e.enc ++ rest) (pre.length + 4 - 4) =
      prev.enc := by
    have : pre.length + 4 - 4 = pre.length + 0 := by omega
    rw [this, List.append_assoc, List.append_assoc, wordAt_append]
    rw [← List.append_assoc]
    exact wordAt_wordBytes _ _ (enc_lt prev hprev)
  have hepi : anaEpilogueA64 (pre ++ wordBytes prev.enc ++ wordBytes e.enc ++ rest) (pre.length + 4) =
      some (some .noOp) := by
    simp only [anaEpilogueA64, hnp, if_false, hdrop, hl4, hw, epiInsnType_end e hewf, htl, if_true]
    have hadj' := adjustsSp_enc prev hprev hadj
    have hf : epiFound {} = some .noOp := by simp [epiFound]
    rw [hprevw, hadj', hf]
    simp
  simp only [anaA64, hpro, hepi]

open A64 in
/-- **arm64 epilogues are exact.** A thread stopped before any suffix of an epilogue - any
sequence of `ldp` (post-index, pre-index, signed offset; any register pair, any immediate) and
`add sp, sp, #imm` - that ends in `ret` / `retab`, or in a tail call `b` / `br Xn` once sp has
been adjusted: instruction analysis yields a rule, and executing the rule produces exactly the
registers the CPU will have when the function returns (`runM`: sp, x29, x30), whatever the
instructions, their order and their immediates. -/
theorem C02_a64_epilogue_exact (text : List Nat) (pc : Nat) (is : List A64.EpiInsn) (e : A64.EpiEnd)
    (rest : List Nat) (regs : RegsA64) (mem : Mem) (m' : A64.M)
    (hpc : pc ≤ text.length)
    (htext : text.drop pc = code (is.map A64.EpiInsn.enc ++ [e.enc]) ++ rest)
    (hwf : ∀ i ∈ is, i.WF) (hewf : e.WF) (hfits : FitsAll is {})
    (htail : e.isTail = true → (effAll is {}).spOff ≠ 0)
    (hrun : runM mem is ⟨regs.sp, regs.fp, regs.lr⟩ = some m')
    (hshape : Shape (effAll is {})) (hregs : regs.WF) (hsp : m'.sp < 18446744073709551616) :
    ∃ rule, anaA64 text pc = some (some rule) ∧
      execA64 rule true regs mem = finishA64 true regs m'.lr m'.sp.toNat m'.fp := by
  have hrel : Rel mem regs.sp regs.fp regs.lr (effAll is {}) m' :=
    rel_run mem regs.sp regs.fp regs.lr is {} ⟨regs.sp, regs.fp, regs.lr⟩ m'
      ⟨by simp, by simp, by simp⟩ hrun
  obtain ⟨rule, hfound, hexec⟩ := epiFound_exec _ regs mem m' hrel hshape hregs hsp
  refine ⟨rule, ?_, hexec⟩
  have hlen : (text.drop pc).length = 4 * (is.length + 1) + rest.length := by
    rw [htext, List.length_append, length_code]; simp
  have hfw := first_word is e rest hwf hewf
  -- not a prologue
  have hpro : anaPrologueA64 text pc = some none := by
    have hnp : ¬ pc > text.length := by omega
    have hl4 : ¬ (text.drop pc).length < 4 := by omega
    have ht : proInsnType (wordAt (text.drop pc) 0) = .notExpected := by
      rw [htext, hfw]
      cases is with
      | nil => exact proInsnType_end e hewf
      | cons i is => exact proInsnType_enc i (hwf i (by simp))
    simp only [anaPrologueA64, hnp, if_false, hl4, ht, if_true]
  -- the epilogue scan
  have hepi : anaEpilogueA64 text pc = some (some rule) := by
    have hnp : ¬ pc > text.length := by omega
    have hl4 : ¬ (text.drop pc).length < 4 := by omega
    have ht : epiInsnType (wordAt (text.drop pc) 0) = .veryLikely := by
      rw [htext, hfw]
      cases is with
      | nil =>
        rw [epiInsnType_end e hewf]
        have : e.isTail = false := by
          cases h : e.isTail
          · rfl
          · exact absurd (by simp [effAll]) (htail h)
        simp [this]
      | cons i is => exact epiInsnType_enc i (hwf i (by simp))
    simp only [anaEpilogueA64, hnp, if_false, hl4, ht]
    rw [htext, epiLoop_insns is {} _ e.enc rest hwf hfits (by rw [← htext, hlen]; omega) (end_lt e hewf)]
    have hfu : (code (is.map A64.EpiInsn.enc ++ [e.enc]) ++ rest).length + 1 - is.length =
        ((code (is.map A64.EpiInsn.enc ++ [e.enc]) ++ rest).length - is.length) + 1 := by
      rw [← htext, hlen]; omega
    rw [hfu, epiLoop_end e hewf _ _ rest htail]
    simp [hfound]
  simp only [anaA64, hpro, hepi]

end FH

namespace FH
namespace A64

/-! ## Prologues -/

inductive ProInsn where
  | pacibsp
  /-- `stp Xrt, Xrt2, [sp, #imm]!` / `[sp, #imm]` / `[sp], #imm` -/
  | stp (mode : LdpMode) (rt rt2 imm7 : Nat)
  /-- `sub sp, sp, #imm12 {, lsl #12}` -/
  | subSp (imm12 : Nat) (lsl12 : Bool)
  deriving Repr

def ProInsn.WF : ProInsn → Prop
  | .pacibsp => True
  | .stp _ rt rt2 i => rt < 32 ∧ rt2 < 32 ∧ i < 128
  | .subSp i _ => i < 4096

/-- Bits 31..22 of `stp Xt, Xt2, [sp…]` (64-bit, store): `10 101 0 0mm 0`. -/
def stpHi : LdpMode → Nat
  | .off => 0b1010100100
  | .post => 0b1010100010
  | .pre => 0b1010100110

def subSpWord (i : Nat) (sh : Bool) : Nat :=
  0b110100010 * 8388608 + (if sh then 4194304 else 0) + i * 1024 + 31 * 32 + 31

def ProInsn.enc : ProInsn → Nat
  | .pacibsp => 0xd503237f
  | .stp mode rt rt2 i => ldpWord (stpHi mode) rt rt2 i
  | .subSp i sh => subSpWord i sh

/-- How far the instruction moves sp down. -/
def ProInsn.dec : ProInsn → Int
  | .pacibsp => 0
  | .stp .off _ _ _ => 0
  | .stp _ _ _ i => -(sx7 i * 8)
  | .subSp i sh => addImm i sh

/-- sp after executing the instructions (registers x29/x30 are only stored, not changed;
`pacibsp` changes only the bits of lr that the pointer authentication mask removes). -/
def runPro : List ProInsn → Int → Int
  | [], sp => sp
  | i :: rest, sp => runPro rest (sp - i.dec)

def totalDec (ps : List ProInsn) : Int := (ps.map ProInsn.dec).sum

theorem runPro_total : ∀ (ps : List ProInsn) (sp : Int), runPro ps sp = sp - totalDec ps := by
  intro ps
  induction ps with
  | nil => intro sp; simp [runPro, totalDec]
  | cons i ps ih => intro sp; simp only [runPro, ih, totalDec, List.map_cons, List.sum_cons]; omega

theorem subSpWord_fields (i : Nat) (sh : Bool) (h : i < 4096) :
    subSpWord i sh >>> 23 = 0b110100010 ∧ subSpWord i sh >>> 22 = 0b1101000100 + (if sh then 1 else 0) ∧
    subSpWord i sh &&& 31 = 31 ∧ (subSpWord i sh >>> 5) &&& 31 = 31 ∧ imm12 (subSpWord i sh) = addImm i sh := by
  simp only [and31, and4095, and1, imm12, addImm, Nat.shiftRight_eq_div_pow, subSpWord]
  cases sh <;> simp only [if_true, if_false, Bool.false_eq_true] <;>
    refine ⟨?_, ?_, ?_, ?_, ?_⟩ <;> first | omega | (split <;> omega)

theorem proEnc_lt (ins : ProInsn) (hwf : ins.WF) : ins.enc < 4294967296 := by
  cases ins with
  | pacibsp => simp [ProInsn.enc]
  | stp mode rt rt2 i =>
    obtain ⟨h1, h2, h3⟩ := hwf
    cases mode <;> simp only [ProInsn.enc, ldpWord, stpHi] <;> omega
  | subSp i sh =>
    have hi : i < 4096 := hwf
    simp only [ProInsn.enc, subSpWord]
    cases sh <;> simp <;> omega

theorem dec_bound (i : ProInsn) (hwf : i.WF) : i.dec.natAbs < 16777216 := by
  cases i with
  | pacibsp => simp [ProInsn.dec]
  | stp mode rt rt2 k =>
    have := sx7_bound k hwf.2.2
    cases mode <;> simp [ProInsn.dec] <;> omega
  | subSp k sh =>
    have := addImm_bound k sh hwf
    simp [ProInsn.dec]; omega

/-- Stepping backwards over an executed prologue instruction adds what it subtracted. -/
theorem proReverseStep_enc (ins : ProInsn) (off : Int) (hwf : ins.WF)
    (hfit : (off + ins.dec).natAbs < 2147483648) :
    proReverseStep ins.enc off = .valid (off + ins.dec) := by
  cases ins with
  | pacibsp => simp [proReverseStep, ProInsn.enc, ProInsn.dec]
  | stp mode rt rt2 i =>
    obtain ⟨h1, h2, h3⟩ := hwf
    simp only [ProInsn.enc]
    generalize hh : stpHi mode = hi
    obtain ⟨f22, f23, f26, frn, _, frt, frt2⟩ := ldpWord_fields hi rt rt2 i h1 h2 h3
    have fimm := imm7x8_ldpWord hi rt rt2 i h1 h2 h3
    have hd : ldpWord hi rt rt2 i / 4194304 = hi := by
      simpa [Nat.shiftRight_eq_div_pow] using f22
    have hc : hi = 676 ∧ mode = .off ∨ hi = 674 ∧ mode = .post ∨ hi = 678 ∧ mode = .pre := by
      rw [← hh]; cases mode <;> simp [stpHi]
    have hc' : hi = 676 ∨ hi = 674 ∨ hi = 678 := by
      rcases hc with ⟨h, _⟩ | ⟨h, _⟩ | ⟨h, _⟩ <;> simp [h]
    have n1 : ldpWord hi rt rt2 i ≠ 0xd503237f := by intro e; rw [e] at hd; omega
    rcases hc with ⟨rfl, rfl⟩ | ⟨rfl, rfl⟩ | ⟨rfl, rfl⟩
    · simp [proReverseStep, n1, f22, f23, frn, ProInsn.dec]
    · have : inI32 (off - sx7 i * 8) = true := inI32_of_abs _ (by simp only [ProInsn.dec] at hfit; omega)
      simp [proReverseStep, n1, f22, f23, frn, fimm, ProInsn.dec, this]; omega
    · have : inI32 (off - sx7 i * 8) = true := inI32_of_abs _ (by simp only [ProInsn.dec] at hfit; omega)
      simp [proReverseStep, n1, f22, f23, frn, fimm, ProInsn.dec, this]; omega
  | subSp i sh =>
    have hi : i < 4096 := hwf
    obtain ⟨f23, f22, frd, frn, fimm⟩ := subSpWord_fields i sh hi
    have hd : subSpWord i sh / 8388608 = 418 := by
      simpa [Nat.shiftRight_eq_div_pow] using f23
    have n1 : subSpWord i sh ≠ 0xd503237f := by intro e; rw [e] at hd; omega
    have n2 : ¬ ((subSpWord i sh >>> 22) &&& 0b1011111001 = 0b1010100000) := by
      rw [f22]; cases sh <;> decide
    have : inI32 (off + addImm i sh) = true := inI32_of_abs _ (by simpa [ProInsn.dec] using hfit)
    simp [proReverseStep, ProInsn.enc, ProInsn.dec, n1, n2, f23, frd, frn, fimm, this]

/-- Whether the scan would stop at this word (anything that is not a prologue instruction,
e.g. the last instruction of the previous function). -/
def StopsScan (w : Nat) : Prop := ∀ off, proReverseStep w off = .unexpected

/-- The backwards scan over the executed prologue sums its sp decrements and stops at the
function start or at the first foreign instruction. -/
theorem proScan_rev : ∀ (rs : List ProInsn) (before : List Nat) (off : Int),
    (∀ i ∈ rs, i.WF) → (before = [] ∨ ∃ w l, before = w :: l ∧ StopsScan w) →
    off.natAbs + (rs.length + 1) * 16777216 ≤ 2000000000 →
    proScan (rs.map ProInsn.enc ++ before) off = some (off + (rs.map ProInsn.dec).sum) := by
  intro rs
  induction rs with
  | nil =>
    intro before off _ hb _
    simp only [List.map_nil, List.nil_append, List.sum_nil, Int.add_zero]
    rcases hb with rfl | ⟨w, l, rfl, hw⟩
    · rfl
    · simp [proScan, hw off]
  | cons i rs ih =>
    intro before off hwf hb hbound
    have hwi : i.WF := hwf i (by simp)
    have hdb := dec_bound i hwi
    simp only [List.length_cons] at hbound
    simp only [List.map_cons, List.cons_append, List.sum_cons]
    rw [proScan, proReverseStep_enc i off hwi (by omega)]
    simp only
    rw [ih before (off + i.dec) (fun j hj => hwf j (by simp [hj])) hb (by omega)]
    congr 1; omega

theorem proScan_prologue (ps : List ProInsn) (before : List Nat)
    (hwf : ∀ i ∈ ps, i.WF) (hb : before = [] ∨ ∃ w l, before = w :: l ∧ StopsScan w)
    (hlen : ps.length ≤ 100) :
    proScan ((ps.map ProInsn.enc).reverse ++ before) 0 = some (totalDec ps) := by
  have := proScan_rev ps.reverse before 0 (fun i hi => hwf i (by simpa using hi)) hb
    (by simp; omega)
  rw [List.map_reverse, List.map_reverse, List.sum_reverse_int] at this
  simpa [totalDec] using this

theorem code_append (a b : List Nat) : code (a ++ b) = code a ++ code b := by
  simp [code]

theorem wordAt_code : ∀ (ws : List Nat) (k : Nat) (rest : List Nat) (hk : k < ws.length),
    (∀ w ∈ ws, w < 4294967296) → wordAt (code ws ++ rest) (4 * k) = ws[k] := by
  intro ws
  induction ws with
  | nil => intro k rest hk; simp at hk
  | cons w ws ih =>
    intro k rest hk hlt
    cases k with
    | zero =>
      rw [code_cons, List.append_assoc]
      simpa using wordAt_wordBytes w (code ws ++ rest) (hlt w (by simp))
    | succ k =>
      have e : 4 * (k + 1) = (wordBytes w).length + 4 * k := by simp [wordBytes]; omega
      rw [code_cons, List.append_assoc, e, wordAt_append]
      simpa using ih k rest (by simpa using hk) (fun x hx => hlt x (by simp [hx]))

theorem wordsRev_code (ws : List Nat) (hlt : ∀ w ∈ ws, w < 4294967296) :
    wordsRev (code ws) = ws.reverse := by
  unfold wordsRev
  congr 1
  apply List.ext_getElem
  · simp [length_code]
  · intro i h1 h2
    simp only [List.getElem_map, List.getElem_range]
    have := wordAt_code ws i [] h2 hlt
    simpa using this

/-- `add x29, sp, #k` (`mov x29, sp` for `k = 0`). -/
def addFpWord (k : Nat) : Nat := 0b100100010 * 8388608 + k * 1024 + 31 * 32 + 29

theorem proReverseStep_addFp (k : Nat) (hk : k < 4096) (off : Int) :
    proReverseStep (addFpWord k) off = .fpSetUp := by
  have f23 : addFpWord k >>> 23 = 0b100100010 := by
    simp only [Nat.shiftRight_eq_div_pow, addFpWord]; omega
  have f22 : addFpWord k >>> 22 = 0b1001000100 := by
    simp only [Nat.shiftRight_eq_div_pow, addFpWord]; omega
  have frd : addFpWord k &&& 31 = 29 := by simp only [and31, addFpWord]; omega
  have frn : (addFpWord k >>> 5) &&& 31 = 31 := by
    simp only [and31, Nat.shiftRight_eq_div_pow, addFpWord]; omega
  have n1 : addFpWord k ≠ 0xd503237f := by simp only [addFpWord]; omega
  simp [proReverseStep, n1, f22, f23, frd, frn]

/-- Once the frame pointer has been set up the backwards scan gives up: the body rule applies. -/
theorem proScan_after_fp_setup : ∀ (rs : List ProInsn) (k : Nat) (before : List Nat) (off : Int),
    (∀ i ∈ rs, i.WF) → k < 4096 → off.natAbs + (rs.length + 1) * 16777216 ≤ 2000000000 →
    proScan (rs.map ProInsn.enc ++ addFpWord k :: before) off = none := by
  intro rs
  induction rs with
  | nil => intro k before off _ hk _; simp [proScan, proReverseStep_addFp k hk]
  | cons i rs ih =>
    intro k before off hwf hk hbound
    have hwi : i.WF := hwf i (by simp)
    have hdb := dec_bound i hwi
    simp only [List.length_cons] at hbound
    simp only [List.map_cons, List.cons_append]
    rw [proScan, proReverseStep_enc i off hwi (by omega)]
    simp only
    exact ih k before (off + i.dec) (fun j hj => hwf j (by simp [hj])) hk (by omega)

end A64

open A64 in
/-- **arm64 prologues are exact.** A thread stopped inside a prologue - after any sequence of
`pacibsp`, `stp` (pre-index, signed offset, post-index; any registers, any immediates) and
`sub sp, sp, #imm` counted from the function start or from the first foreign instruction
before it, with another prologue-type instruction at pc: the rule found by instruction
analysis restores exactly the sp the function was entered with, leaves fp alone and takes the
return address from lr - which is the caller's state, since none of these instructions changes
x29 or (up to pointer authentication bits) x30. -/
theorem C02_a64_prologue_exact (pws : List Nat) (ps : List A64.ProInsn) (next : Nat) (rest : List Nat)
    (regs : RegsA64) (mem : Mem) (spEntry : Int)
    (hpws : pws = [] ∨ ∃ l w, pws = l ++ [w] ∧ A64.StopsScan w)
    (hplt : ∀ w ∈ pws, w < 4294967296) (hnlt : next < 4294967296)
    (hwf : ∀ i ∈ ps, i.WF) (hlen : ps.length ≤ 100)
    (hnext : proInsnType next = .veryLikely ∨
      (proInsnType next = .couldBeWithSub ∧ A64.totalDec ps ≠ 0))
    (hrun : A64.runPro ps spEntry = regs.sp)
    (hshape : (spEntry - regs.sp) % 16 = 0 ∧ spEntry - regs.sp < 1048576 ∧ regs.sp ≤ spEntry)
    (hfit : spEntry < 18446744073709551616) :
    ∃ rule, anaA64 (code (pws ++ ps.map A64.ProInsn.enc ++ [next]) ++ rest)
        (4 * (pws.length + ps.length)) = some (some rule) ∧
      execA64 rule true regs mem = finishA64 true regs regs.lr spEntry.toNat regs.fp := by
  have htot : totalDec ps = spEntry - regs.sp := by
    have := runPro_total ps spEntry; omega
  obtain ⟨h16, hmax, h0⟩ := hshape
  -- the slices
  have hcode : code (pws ++ ps.map ProInsn.enc ++ [next]) ++ rest =
      code (pws ++ ps.map ProInsn.enc) ++ (wordBytes next ++ rest) := by
    rw [code_append, List.append_assoc]; simp [code]
  have hl : (code (pws ++ ps.map ProInsn.enc)).length = 4 * (pws.length + ps.length) := by
    rw [length_code]; simp
  have htake : (code (pws ++ ps.map ProInsn.enc ++ [next]) ++ rest).take (4 * (pws.length + ps.length)) =
      code (pws ++ ps.map ProInsn.enc) := by
    rw [hcode, ← hl, List.take_left]
  have hdrop : (code (pws ++ ps.map ProInsn.enc ++ [next]) ++ rest).drop (4 * (pws.length + ps.length)) =
      wordBytes next ++ rest := by
    rw [hcode, ← hl, List.drop_left]
  have hnp : ¬ 4 * (pws.length + ps.length) > (code (pws ++ ps.map ProInsn.enc ++ [next]) ++ rest).length := by
    rw [hcode, List.length_append, hl]; omega
  have hl4 : ¬ (wordBytes next ++ rest).length < 4 := by simp [wordBytes]
  have hw : wordAt (wordBytes next ++ rest) 0 = next := wordAt_wordBytes _ _ hnlt
  have hall : ∀ w ∈ pws ++ ps.map ProInsn.enc, w < 4294967296 := by
    intro w hw
    rcases List.mem_append.mp hw with h | h
    · exact hplt w h
    · obtain ⟨i, hi, rfl⟩ := List.mem_map.mp h
      exact proEnc_lt i (hwf i hi)
  have hbefore : pws.reverse = [] ∨ ∃ w l, pws.reverse = w :: l ∧ StopsScan w := by
    rcases hpws with rfl | ⟨l, w, rfl, hs⟩
    · left; rfl
    · right; exact ⟨w, l.reverse, by simp, hs⟩
  have hscan : proScan (wordsRev (code (pws ++ ps.map ProInsn.enc))) 0 = some (totalDec ps) := by
    rw [wordsRev_code _ hall, List.reverse_append]
    exact proScan_prologue ps pws.reverse hwf hbefore hlen
  have hq : (totalDec ps).tdiv 16 = totalDec ps / 16 := Int.tdiv_eq_ediv_of_nonneg (by omega)
  have hq0 : 0 ≤ totalDec ps / 16 ∧ totalDec ps / 16 < 65536 := by omega
  have hnt : ¬ proInsnType next = .notExpected := by
    rcases hnext with h | ⟨h, _⟩ <;> rw [h] <;> simp
  have hcw : ¬ (proInsnType next = .couldBeWithSub ∧ totalDec ps = 0) := by
    rcases hnext with h | ⟨_, h⟩
    · rw [h]; simp
    · intro ⟨_, h'⟩; exact h h'
  have hnew : regs.sp + (totalDec ps / 16).toNat * 16 = spEntry.toNat := by omega
  have hlt : regs.sp + (totalDec ps / 16).toNat * 16 < U64 := by unfold U64; omega
  have hmul : (totalDec ps / 16).toNat * 16 < U64 := by unfold U64; omega
  have hana : anaPrologueA64 (code (pws ++ ps.map ProInsn.enc ++ [next]) ++ rest)
      (4 * (pws.length + ps.length)) =
      some (some (if totalDec ps / 16 = 0 then .noOp else .offsetSp (totalDec ps / 16).toNat)) := by
    simp only [anaPrologueA64, hnp, if_false, htake, hdrop, hl4, hw, hnt, hscan, hcw, hq, hq0,
      and_self, if_true]
  by_cases hz : totalDec ps / 16 = 0
  · refine ⟨.noOp, by rw [anaA64, hana]; simp [hz], ?_⟩
    have : spEntry.toNat = regs.sp := by omega
    simp [execA64, this]
  · refine ⟨.offsetSp (totalDec ps / 16).toNat, by rw [anaA64, hana]; simp [hz], ?_⟩
    simp only [execA64, Bool.not_true, Bool.false_eq_true, if_false]
    rw [umul_eq _ hmul, cadd_eq_some hlt, hnew]

end FH

namespace FH
open A64

/-! ## Non-vacuity -/

/-- `ldp x29, x30, [sp, #16]; add sp, sp, #32; ret` (a frameless Apple-style epilogue) as bytes. -/
example : code ([EpiInsn.ldp .off 29 30 2, .addSp 32 false].map EpiInsn.enc ++ [EpiEnd.ret.enc]) =
    [0xfd, 0x7b, 0x41, 0xa9, 0xff, 0x83, 0x00, 0x91, 0xc0, 0x03, 0x5f, 0xd6] := by decide

/-- The hypotheses of `C02_a64_epilogue_exact` hold for that epilogue on a concrete stack, and the
conclusion is the expected caller state (sp + 32, the saved fp and lr). -/
example :
    let mem : Mem := fun a => if a = 0x1010 then some 0x2000 else if a = 0x1018 then some 0x400123 else none
    let regs : RegsA64 := { mask := 0xffffffffffff, lr := 7, sp := 0x1000, fp := 0x1040 }
    let is := [EpiInsn.ldp .off 29 30 2, .addSp 32 false]
    (∀ i ∈ is, i.WF) ∧ FitsAll is {} ∧ Shape (effAll is {}) ∧
    runM mem is ⟨regs.sp, regs.fp, regs.lr⟩ = some ⟨0x1020, 0x2000, 0x400123⟩ ∧
    anaA64 [0xfd, 0x7b, 0x41, 0xa9, 0xff, 0x83, 0x00, 0x91, 0xc0, 0x03, 0x5f, 0xd6] 0 =
      some (some (.offsetSpAndRestoreFpAndLr 2 2 3)) := by
  refine ⟨?_, ?_, ?_, ?_, by decide⟩
  · intro i hi; simp at hi; rcases hi with rfl | rfl <;> simp [EpiInsn.WF]
  · simp [FitsAll, EffFits, applyEff, setOff, sx7, addImm, inI32]
  · simp [Shape, effAll, applyEff, setOff, sx7, addImm]
  · simp [runM, stepM, readAt, sx7, setRegM, addImm]

/-- `ret` (the end of the previous function) stops the backwards prologue scan. -/
example : StopsScan 0xd65f03c0 := by intro off; simp [proReverseStep]

/-- `ret | pacibsp; stp x24, x23, [sp, #-64]!; stp x22, x21, [sp, #16]` with
`stp x20, x19, [sp, #32]` at pc (`_malloc_zone_realloc`, framehop's own unit test bytes): the
hypotheses of `C02_a64_prologue_exact` hold and the rule is `OffsetSp 4`. -/
example :
    let ps := [ProInsn.pacibsp, .stp .pre 24 23 120, .stp .off 22 21 2]
    (∀ i ∈ ps, i.WF) ∧ totalDec ps = 64 ∧ runPro ps 0x1040 = 0x1000 ∧
    proInsnType 0xa9024ff4 = .couldBeWithSub ∧
    code ([0xd65f03c0] ++ ps.map ProInsn.enc ++ [0xa9024ff4]) =
      [0xc0, 0x03, 0x5f, 0xd6, 0x7f, 0x23, 0x03, 0xd5, 0xf8, 0x5f, 0xbc, 0xa9, 0xf6, 0x57, 0x01, 0xa9,
       0xf4, 0x4f, 0x02, 0xa9] ∧
    anaA64 [0xc0, 0x03, 0x5f, 0xd6, 0x7f, 0x23, 0x03, 0xd5, 0xf8, 0x5f, 0xbc, 0xa9, 0xf6, 0x57, 0x01, 0xa9,
       0xf4, 0x4f, 0x02, 0xa9] 16 = some (some (.offsetSp 4)) := by
  refine ⟨?_, by decide, by decide, by decide, by decide, by decide⟩
  intro i hi; simp at hi; rcases hi with rfl | rfl | rfl <;> simp [ProInsn.WF]

/-- After `stp x29, x30, [sp, #-16]!; mov x29, sp` with `sub sp, sp, #0x400` at pc the analysis
defers to the body rule (frame pointer), as it must: fp no longer holds the caller's value. -/
example : anaA64 [0xfd, 0x7b, 0xbf, 0xa9, 0xfd, 0x03, 0x00, 0x91, 0xff, 0x03, 0x10, 0xd1] 8 = some none := by
  decide

/-- `ldp x29, x30, [sp], #16; b target`: stopped on the `b`. -/
example : anaA64 (wordBytes (EpiInsn.ldp .post 29 30 2).enc ++ wordBytes (EpiEnd.b 64).enc) 4 =
    some (some .noOp) := by decide

end FH
