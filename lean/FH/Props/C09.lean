import FH.RuleLemmas
import FH.PtrAuth
import FH.NoPanic
import FH.Hist
import FH.ModuleLemmas
/-!
# C09 — Totality on arbitrary runtime state

Rust panics are explicit `Out.panic` outcomes of the model; every model function is a
total Lean function (structural recursion), which is the "always returns" half.
The theorems quantify over *all* rule parameters in the range of the Rust field types, all
register values, all stack readers (any contents, any subset of reads failing).
-/
namespace FH

/-- x86-64 rule execution never panics: the unchecked `u64::from(k) * 8`,
`i64::from(b) * 8` cannot overflow, everything else is checked. -/
theorem C09_execX64_never_panics (rule : RuleX64) (first : Bool) (regs : RegsX64) (mem : Mem)
    (hr : rule.WF) : ∀ s, execX64 rule first regs mem ≠ .panic s :=
  fun s => execX64_no_panic rule first regs mem hr s

/-- aarch64 rule execution never panics; in particular the unchecked `fp + 8` is always
preceded by a successful `fp.checked_add(16)`. -/
theorem C09_execA64_never_panics (rule : RuleA64) (first : Bool) (regs : RegsA64) (mem : Mem)
    (hr : rule.WF) : ∀ s, execA64 rule first regs mem ≠ .panic s :=
  fun s => execA64_no_panic rule first regs mem hr s

/-- `checked_add_signed` (wrapping add + comparison, `add_signed.rs`) is exactly the
mathematical checked addition on the whole `u64 × i64` domain. -/
theorem C09_checked_add_signed_exact (a : Nat) (b : Int) (ha : a < U64)
    (hb1 : -9223372036854775808 ≤ b) (hb2 : b < 9223372036854775808) :
    caddSigned a b = caddSignedSpec a b :=
  caddSigned_eq_spec a b ha hb1 hb2

/-- `PtrAuthMask::from_max_known_address` is total (the shift amount handed to the
unchecked-looking `>>` is guarded): the model has no panic outcome and is defined for 0. -/
theorem C09_fromMaxKnown_zero : fromMaxKnown 0 = 0 := by decide

/-! ## The whole call

For every unwinder whose Mach-O opcode fields are in the range of their Rust types (`Unw.WF`;
DWARF rows, PE tables, text bytes, ranges, addresses, registers and the stack reader are
arbitrary), every rule cache holding rules in range (which every reachable cache does: the
first component of each theorem is the preservation), and every call:
`unwind_frame` has a panic outcome only where the PE operation interpreter has one - the
unchecked arithmetic of pe-unwind-info's `resolve_operation` (known finding F8-dep, third-party)
- and on aarch64 never. -/

theorem C09_unwind_frame_x64_panics_only_in_pe_interpreter (N : Nat) (u : Unw)
    (c : Cache archX64.Rule) (addr : FrameAddr) (regs : archX64.Regs) (mem : Mem) (hu : u.WF)
    (hc : CacheSafeX64 c) :
    CacheSafeX64 (unwindFrame archX64 N u c addr regs mem).1 ∧
    ∀ s, (unwindFrame archX64 N u c addr regs mem).2 = .panic s →
      ∃ i rel m p, findModule u.mods addr.lookup = some (i, rel) ∧ u.mods[i]? = some m ∧
        plan archX64 m rel (!addr.isReturn) = .pe p ∧
        peRun p (!addr.isReturn) regs mem = .panic s := by
  have hm := missPath_x64 u hu addr regs mem
  unfold unwindFrame
  dsimp only
  have hslots := lookup_slots N c addr.lookup u.gen
  cases hl : (c.lookup N addr.lookup u.gen).2 with
  | hit rule =>
    dsimp only
    obtain ⟨s0, e, he, hr⟩ := lookup_hit_mem N c _ _ rule hl
    have hsafe : rule.Safe := hr ▸ hc s0 e he
    refine ⟨?_, ?_⟩
    · intro s e' h; rw [hslots] at h; exact hc s e' h
    · intro s h; exact absurd h (execX64_no_panic_safe _ _ _ _ hsafe s)
  | miss =>
    dsimp only
    cases hi : (missPath archX64 u addr regs mem).1 with
    | none =>
      dsimp only
      refine ⟨?_, hm.2⟩
      intro s e' h; rw [hslots] at h; exact hc s e' h
    | some rule =>
      dsimp only
      refine ⟨?_, hm.2⟩
      intro s e' h
      simp only [Cache.insert] at h
      split at h
      · injection h with h; subst h; exact hm.1 rule hi
      · rw [hslots] at h; exact hc s e' h

theorem C09_unwind_frame_a64_never_panics (N : Nat) (u : Unw) (c : Cache archA64.Rule)
    (addr : FrameAddr) (regs : archA64.Regs) (mem : Mem) (hu : u.WF) (hc : CacheWFA64 c) :
    CacheWFA64 (unwindFrame archA64 N u c addr regs mem).1 ∧
    ∀ s, (unwindFrame archA64 N u c addr regs mem).2 ≠ .panic s := by
  have hm := missPath_a64 u hu addr regs mem
  unfold unwindFrame
  dsimp only
  have hslots := lookup_slots N c addr.lookup u.gen
  cases hl : (c.lookup N addr.lookup u.gen).2 with
  | hit rule =>
    dsimp only
    obtain ⟨s0, e, he, hr⟩ := lookup_hit_mem N c _ _ rule hl
    have hwf : rule.WF := hr ▸ hc s0 e he
    refine ⟨?_, ?_⟩
    · intro s e' h; rw [hslots] at h; exact hc s e' h
    · intro s; exact execA64_no_panic _ _ _ _ hwf s
  | miss =>
    dsimp only
    cases hi : (missPath archA64 u addr regs mem).1 with
    | none =>
      dsimp only
      refine ⟨?_, hm.2⟩
      intro s e' h; rw [hslots] at h; exact hc s e' h
    | some rule =>
      dsimp only
      refine ⟨?_, hm.2⟩
      intro s e' h
      simp only [Cache.insert] at h
      split at h
      · injection h with h; subst h; exact hm.1 rule hi
      · rw [hslots] at h; exact hc s e' h

/-- The empty cache satisfies the cache hypotheses, so by the preservation halves they hold
along every history. -/
theorem C09_empty_cache_ok : CacheSafeX64 Cache.empty ∧ CacheWFA64 Cache.empty := by
  constructor <;> intro s e h <;> simp [Cache.empty] at h

/-! ## Along every history

The hypotheses of the two whole-call theorems hold in every world a history of operations can
reach (any number of unwinders sharing the cache, modules added with in-range opcode fields,
removed, unwinders cloned, any calls in between): an invariant by induction over operations. -/

/-- Modules handed to `add_module` have their Mach-O opcode fields in range. -/
def HOp.ModsWF {A : Arch} : HOp A → Prop
  | .add _ m => m.data.WF
  | _ => True

def WorldWF {A : Arch} (w : HWorld A) : Prop := ∀ u ∈ w.unws, u.WF

theorem hstep_preserves {A : Arch} {N : Nat} (P : Cache A.Rule → Prop)
    (hP : ∀ u c addr regs mem, Unw.WF u → P c → P (unwindFrame A N u c addr regs mem).1)
    (w : HWorld A) (op : HOp A) (hw : WorldWF w) (hc : P w.cache) (hop : op.ModsWF) :
    WorldWF (hstep A N w op).1 ∧ P (hstep A N w op).1.cache := by
  cases op with
  | new =>
    simp only [hstep, drawGen]
    refine ⟨?_, hc⟩
    intro u hu
    simp only [List.mem_append, List.mem_singleton] at hu
    rcases hu with hu | hu
    · exact hw u hu
    · subst hu; intro m hm; cases hm
  | clone i =>
    simp only [hstep]
    cases hi : w.unws[i]? with
    | none => exact ⟨hw, hc⟩
    | some u =>
      refine ⟨?_, hc⟩
      intro v hv
      simp only [List.mem_append, List.mem_singleton] at hv
      rcases hv with hv | hv
      · exact hw v hv
      · subst hv; exact hw _ (List.mem_of_getElem? hi)
  | add i m =>
    simp only [hstep, drawGen]
    cases hi : w.unws[i]? with
    | none => exact ⟨hw, hc⟩
    | some u =>
      refine ⟨?_, hc⟩
      intro v hv
      rcases List.mem_or_eq_of_mem_set hv with hv | hv
      · exact hw v hv
      · subst hv
        intro x hx
        have : x ∈ m :: u.mods := (addModule_perm u.mods m).subset hx
        simp only [List.mem_cons] at this
        rcases this with rfl | hx'
        · exact hop
        · exact hw u (List.mem_of_getElem? hi) x hx'
  | remove i start =>
    simp only [hstep, drawGen]
    cases hi : w.unws[i]? with
    | none => exact ⟨hw, hc⟩
    | some u =>
      simp only []
      cases hr : removeModule u.mods start with
      | none => exact ⟨hw, hc⟩
      | some L =>
        refine ⟨?_, hc⟩
        intro v hv
        rcases List.mem_or_eq_of_mem_set hv with hv | hv
        · exact hw v hv
        · subst hv
          intro x hx
          unfold removeModule at hr
          simp only [] at hr
          split at hr
          · split at hr
            · injection hr with hr; subst hr
              exact hw u (List.mem_of_getElem? hi) x (List.mem_of_mem_eraseIdx hx)
            · cases hr
          · cases hr
  | unwind i addr regs mem =>
    simp only [hstep]
    cases hi : w.unws[i]? with
    | none => exact ⟨hw, hc⟩
    | some u => exact ⟨hw, hP u w.cache addr regs mem (hw u (List.mem_of_getElem? hi)) hc⟩

theorem hrun_preserves {A : Arch} {N : Nat} (P : Cache A.Rule → Prop)
    (hP : ∀ u c addr regs mem, Unw.WF u → P c → P (unwindFrame A N u c addr regs mem).1) :
    ∀ (ops : List (HOp A)) (w : HWorld A), WorldWF w → P w.cache → (∀ op ∈ ops, op.ModsWF) →
      WorldWF (hrun A N w ops) ∧ P (hrun A N w ops).cache
  | [], w, hw, hc, _ => ⟨hw, hc⟩
  | op :: ops, w, hw, hc, hops => by
    simp only [hrun]
    have h := hstep_preserves (N := N) P hP w op hw hc (hops op (by simp))
    exact hrun_preserves P hP ops _ h.1 h.2 (fun o ho => hops o (by simp [ho]))

/-- **C09 along histories (x86-64).** After any history from the initial world, a further call
by any of the unwinders has a panic outcome only inside the PE operation interpreter. -/
theorem C09_x64_no_panic_along_histories (N c0 : Nat) (ops : List (HOp archX64))
    (hops : ∀ op ∈ ops, op.ModsWF) (i : Nat) (u : Unw)
    (hu : (hrun archX64 N (HWorld.init archX64 c0) ops).unws[i]? = some u)
    (addr : FrameAddr) (regs : archX64.Regs) (mem : Mem) (s : Site)
    (h : (unwindFrame archX64 N u (hrun archX64 N (HWorld.init archX64 c0) ops).cache addr regs mem).2
      = .panic s) :
    ∃ j rel m p, findModule u.mods addr.lookup = some (j, rel) ∧ u.mods[j]? = some m ∧
      plan archX64 m rel (!addr.isReturn) = .pe p ∧
      peRun p (!addr.isReturn) regs mem = .panic s := by
  have hinv := hrun_preserves (N := N) CacheSafeX64
    (fun u c addr regs mem hu hc =>
      (C09_unwind_frame_x64_panics_only_in_pe_interpreter N u c addr regs mem hu hc).1)
    ops (HWorld.init archX64 c0) (by intro u hu; simp [HWorld.init] at hu)
    (by intro s e he; simp [HWorld.init, Cache.empty] at he) hops
  exact (C09_unwind_frame_x64_panics_only_in_pe_interpreter N u _ addr regs mem
    (hinv.1 u (List.mem_of_getElem? hu)) hinv.2).2 s h

/-- **C09 along histories (aarch64).** No call ever has a panic outcome. -/
theorem C09_a64_no_panic_along_histories (N c0 : Nat) (ops : List (HOp archA64))
    (hops : ∀ op ∈ ops, op.ModsWF) (i : Nat) (u : Unw)
    (hu : (hrun archA64 N (HWorld.init archA64 c0) ops).unws[i]? = some u)
    (addr : FrameAddr) (regs : archA64.Regs) (mem : Mem) (s : Site) :
    (unwindFrame archA64 N u (hrun archA64 N (HWorld.init archA64 c0) ops).cache addr regs mem).2
      ≠ .panic s := by
  have hinv := hrun_preserves (N := N) CacheWFA64
    (fun u c addr regs mem hu hc =>
      (C09_unwind_frame_a64_never_panics N u c addr regs mem hu hc).1)
    ops (HWorld.init archA64 c0) (by intro u hu; simp [HWorld.init] at hu)
    (by intro s e he; simp [HWorld.init, Cache.empty] at he) hops
  exact (C09_unwind_frame_a64_never_panics N u _ addr regs mem
    (hinv.1 u (List.mem_of_getElem? hu)) hinv.2).2 s

-- Non-vacuity: concrete rules / states meeting the hypotheses.
example : (RuleX64.offsetSpAndPopRegisters 65535 255 65535).WF := by simp [RuleX64.WF, U16]
example : (RuleA64.useFramepointerWithOffsets 65535 (-32768) 32767).WF := by
  simp [RuleA64.WF, InI16, U16]

end FH
