import FH.RuleLemmas
import FH.PtrAuth
/-!
# C09 — Totality on arbitrary runtime state

Rust panics are explicit `Out.panic` outcomes of the model; every model function is a
total Lean function (structural recursion), which is the "always returns" half.
The theorems quantify over *all* rule parameters in the range of the Rust field types, all
register values, all stack readers (any contents, any subset of reads failing).
-/
namespace FH

/-- x86-64 rule execution never panics: the unchecked `u64::from(k) * 8`,
`i64::from(b) * 8` cannot overflow, everything else is checked. -/
theorem C09_execX64_never_panics (rule : RuleX64) (first : Bool) (regs : RegsX64) (mem : Mem)
    (hr : rule.WF) : ∀ s, execX64 rule first regs mem ≠ .panic s :=
  fun s => execX64_no_panic rule first regs mem hr s

/-- aarch64 rule execution never panics; in particular the unchecked `fp + 8` is always
preceded by a successful `fp.checked_add(16)`. -/
theorem C09_execA64_never_panics (rule : RuleA64) (first : Bool) (regs : RegsA64) (mem : Mem)
    (hr : rule.WF) : ∀ s, execA64 rule first regs mem ≠ .panic s :=
  fun s => execA64_no_panic rule first regs mem hr s

/-- `checked_add_signed` (wrapping add + comparison, `add_signed.rs`) is exactly the
mathematical checked addition on the whole `u64 × i64` domain. -/
theorem C09_checked_add_signed_exact (a : Nat) (b : Int) (ha : a < U64)
    (hb1 : -9223372036854775808 ≤ b) (hb2 : b < 9223372036854775808) :
    caddSigned a b = caddSignedSpec a b :=
  caddSigned_eq_spec a b ha hb1 hb2

/-- `PtrAuthMask::from_max_known_address` is total (the shift amount handed to the
unchecked-looking `>>` is guarded): the model has no panic outcome and is defined for 0. -/
theorem C09_fromMaxKnown_zero : fromMaxKnown 0 = 0 := by decide

-- Non-vacuity: concrete rules / states meeting the hypotheses.
example : (RuleX64.offsetSpAndPopRegisters 65535 255 65535).WF := by simp [RuleX64.WF, U16]
example : (RuleA64.useFramepointerWithOffsets 65535 (-32768) 32767).WF := by
  simp [RuleA64.WF, InI16, U16]

end FH
