import FH.World
import FH.PeLemmas
/-!
# C15 — `MustNotAllocateDuringUnwind` never allocates and agrees with the default

**Partial by nature.** Whether Rust code calls the allocator is not a property of any
input/output model of it; that half is *measured*: the harness installs a counting global
allocator, arms it exactly around each `unwind_frame` / iterator `next` made with
`MustNotAllocateDuringUnwind`, demands zero events for every format (three DWARF
presentations incl. expression CFAs and (val-)expression register rules, compact unwind, PE
incl. chained infos, no data), names the allocating call site from a backtrace, and compares
every result with `MayAllocateDuringUnwind` (engine `alloc`).

What is logic, and proved here: the model has *one* semantics for both policies, and the
fixed-size storages framehop's own code uses in place of heap collections can never be the
reason for a different result:

* the chained `UNWIND_INFO`s of a function are kept in storage for 32; the plan is the
  state-independent error exactly when there are more, before anything is stored
  (`C15_pe_chain_fits_fixed_storage`);
* a sequence compressed into the pop rule has at most 8 registers - the capacity of the
  rule's register list (`C15_pop_rule_registers_fit`);
* rule-cache entries, the only thing the cache stores, are produced without consulting the
  policy (`C15_model_is_policy_free`).

gimli's own fixed-size storages (`StoreOnStack`: unwind context rows and expression stacks)
are third-party; the CFI written by the harness stays within them, and a difference would be
reported by the engine as `policies-disagree-*`.
-/
namespace FH

/-- The two allocation policies. -/
inductive Policy where
  | mayAllocate
  | mustNotAllocate
  deriving DecidableEq, Repr

/-- `Unwinder::unwind_frame` for a policy: the policy selects storage types only. -/
def unwindFrameP (_pol : Policy) (A : Arch) (N : Nat) (u : Unw) (c : Cache A.Rule)
    (addr : FrameAddr) (regs : A.Regs) (mem : Mem) : Cache A.Rule × Out A.Regs :=
  unwindFrame A N u c addr regs mem

/-- The model is policy free: both real policies are compared with this one function by the
correspondence engines (`scn` and `alloc` run both). -/
theorem C15_model_is_policy_free (A : Arch) (N : Nat) (u : Unw) (c : Cache A.Rule)
    (addr : FrameAddr) (regs : A.Regs) (mem : Mem) :
    unwindFrameP .mustNotAllocate A N u c addr regs mem =
      unwindFrameP .mayAllocate A N u c addr regs mem := rfl

/-- Storage for 32 chained unwind infos always suffices when operations are gathered: a
function with more is rejected with the state-independent error before that. -/
theorem C15_pe_chain_fits_fixed_storage (funcs : List PeFunc) (rel : Nat) (f : PeFunc)
    (hl : peLookup funcs rel = some f) (ops : List PeOp) (fr : Option Nat) (fo : Nat)
    (hp : pePlan funcs rel false = .interp fr fo ops) : f.infos.length ≤ 32 := by
  simp only [pePlan, hl] at hp
  split at hp
  · cases hp
  · simp only [Bool.false_eq_true, if_false] at hp
    split at hp
    · cases hp
    · rename_i h; omega

/-- The collected pops never exceed 8 registers. -/
theorem collectPops_length : ∀ (items : List OffsetOrPop) (acc regs : List Nat),
    acc.length ≤ 8 → collectPops items acc = some regs → regs.length ≤ 8
  | [], acc, regs, ha, h => by
    simp only [collectPops] at h
    injection h with h; subst h; simpa using ha
  | .pop r :: rest, acc, regs, ha, h => by
    simp only [collectPops] at h
    split at h
    · exact collectPops_length rest (r :: acc) regs (by simp; omega) h
    · cases h
  | .offsetBy8 _ :: _, _, _, _, h => by simp [collectPops] at h
  | .none :: _, _, _, _, h => by simp [collectPops] at h

/-- Every register list that is encoded into a pop rule has at most 8 entries. -/
theorem C15_pop_rule_registers_fit (regs : List Nat) (c e : Nat)
    (h : encodeRegs regs = some (c, e)) : regs.length ≤ 8 ∧ c = regs.length := by
  unfold encodeRegs at h
  split at h
  · cases h
  · rename_i hl
    cases he : encodeLoop regs 0 encodeRegisters 0 1 with
    | none => simp [he] at h
    | some r =>
      simp only [he, Option.map_some, Option.some.injEq, Prod.mk.injEq] at h
      exact ⟨by omega, h.1.symm⟩

end FH
