import FH.Props.C17
/-!
# C17 — polling again after an error is calling `unwind_frame` again

`read_stack` is an `FnMut`: what it answers may change between polls (a profiler that fetches
more of the sampled stack after a failure). The iterator does not latch an error: after an
`Err` its next poll is one more `unwind_frame` call from the same frame on the registers the
failed call left behind, with whatever the reader answers *then* - exactly what a caller of
`unwind_frame` who tries again gets. (Seeded change C17-13 replayed the stored error instead.)
-/
namespace FH

theorem C17_poll_after_error_is_unwind_frame_again (A : Arch) (N : Nat) (u : Unw)
    (mem₁ mem₂ : Mem) (a : FrameAddr) (regs regs₁ : A.Regs) (c c₁ : Cache A.Rule) (e : Err)
    (h₁ : unwindFrame A N u c a regs mem₁ = (c₁, .ret (.err e) regs₁)) :
    ∃ it₁, Iter.next A N u mem₁ { state := .unwinding a, regs := regs } c =
        some (it₁, c₁, .err e) ∧
      ∀ (c₂ : Cache A.Rule) (res : Res) (regs₂ : A.Regs),
        unwindFrame A N u c₁ a regs₁ mem₂ = (c₂, .ret res regs₂) →
        Iter.next A N u mem₂ it₁ c₁ =
          match res with
          | .err e' => some ({ state := .unwinding a, regs := regs₂ }, c₂, .err e')
          | .done => some ({ state := .done, regs := regs₂ }, c₂, .none)
          | .frame ra =>
            if ra = 0 then
              some ({ state := .unwinding a, regs := regs₂ }, c₂, .err .returnAddressIsNull)
            else some ({ state := .unwinding (.ret ra), regs := regs₂ }, c₂, .some (.ret ra)) := by
  refine ⟨{ state := .unwinding a, regs := regs₁ }, ?_, ?_⟩
  · have := C17_step_is_unwind_frame A N u mem₁ a regs c c₁ (.err e) regs₁ h₁
    simpa using this
  · intro c₂ res regs₂ h₂
    have := C17_step_is_unwind_frame A N u mem₂ a regs₁ c₁ c₂ res regs₂ h₂
    rw [this]
    cases res <;> rfl

end FH
