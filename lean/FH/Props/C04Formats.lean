import FH.Props.C02
import FH.Props.C04
/-!
# C04 — the decision table for Mach-O and PE modules (whole `unwind_frame` miss path)
-/
namespace FH
/-- Mach-O, x86-64: an address outside `__stubs` / `__stub_helper` that `__unwind_info` has no
entry for is a frameless leaf in the first frame (return address on top of the stack) and falls
back to the frame pointer rule as a caller frame. -/
theorem C04_macho_x64_no_entry (u : Unw) (addr : FrameAddr) (regs : RegsX64) (mem : Mem) (i rel : Nat)
    (m : Module) (d : CuiData (CuiOpX64 × CuiOpA64)) (eh : Option (List (Nat × Fde)))
    (hf : findModule u.mods addr.lookup = some (i, rel)) (hm : u.mods[i]? = some m)
    (hd : m.data = .macho d eh)
    (hs : ¬ (d.stubs.1 ≤ rel ∧ rel < d.stubs.2)) (hh : ¬ (d.stubHelper.1 ≤ rel ∧ rel < d.stubHelper.2))
    (hl : cuiLookup d.funcs rel = none) :
    missPath archX64 u addr regs mem =
      if addr.isReturn then (some RuleX64.useFramePointer, execX64 .useFramePointer false regs mem)
      else (some RuleX64.justReturn, execX64 .justReturn true regs mem) := by
  have hc := C02_outside_every_function d (fun op => cuiUnwindX64 op.1) RuleX64.justReturn
    RuleX64.justReturn stubHelperRuleX64 rel hs hh hl
  cases hr : addr.isReturn with
  | true =>
    have hp : plan archX64 m rel false = .staticErr := by
      simp only [plan, hd, archX64, hc.2]
    simp only [missPath, hf, hm, hr, Bool.not_true, hp, if_true]
    rfl
  | false =>
    have hp : plan archX64 m rel true = .exec RuleX64.justReturn := by
      simp only [plan, hd, archX64, hc.1]
    simp only [missPath, hf, hm, hr, Bool.not_false, hp, Bool.false_eq_true, if_false]
    rfl

/-- PE, x86-64: any frame whose address has no function table entry is a frameless leaf
(the PE convention), first frame or not. -/
theorem C04_pe_no_table_entry_is_leaf (u : Unw) (addr : FrameAddr) (regs : RegsX64) (mem : Mem)
    (i rel : Nat) (m : Module) (funcs : List PeFunc)
    (hf : findModule u.mods addr.lookup = some (i, rel)) (hm : u.mods[i]? = some m)
    (hd : m.data = .pe funcs) (hl : peLookup funcs rel = none) :
    missPath archX64 u addr regs mem =
      (some RuleX64.justReturn, execX64 .justReturn (!addr.isReturn) regs mem) := by
  have hp : plan archX64 m rel (!addr.isReturn) = .exec RuleX64.justReturn := by
    simp [plan, hd, archX64, pePlan, hl]
  simp only [missPath, hf, hm, hp]
  rfl

/-- PE data in an aarch64 unwinder is unsupported: every frame of such a module uses the frame
pointer rule. -/
theorem C04_pe_on_aarch64_uses_fallback (u : Unw) (addr : FrameAddr) (regs : RegsA64) (mem : Mem)
    (i rel : Nat) (m : Module) (funcs : List PeFunc)
    (hf : findModule u.mods addr.lookup = some (i, rel)) (hm : u.mods[i]? = some m)
    (hd : m.data = .pe funcs) :
    missPath archA64 u addr regs mem =
      (some RuleA64.useFramePointer, execA64 .useFramePointer (!addr.isReturn) regs mem) := by
  have hp : plan archA64 m rel (!addr.isReturn) = .staticErr := by simp [plan, hd, archA64]
  simp only [missPath, hf, hm, hp]
  rfl

end FH
