import FH.World
/-!
# C17 — iter_frames is exactly the fold of unwind_frame, starts at pc, stays finished
-/
namespace FH

/-- The first item is the given instruction pointer; nothing else changes. -/
theorem C17_starts_at_pc (A : Arch) (N : Nat) (u : Unw) (mem : Mem) (pc : Nat) (regs : A.Regs)
    (c : Cache A.Rule) :
    Iter.next A N u mem { state := .initial pc, regs := regs } c =
      some ({ state := .unwinding (.ip pc), regs := regs }, c, .some (.ip pc)) := rfl

/-- While unwinding, one `next` is exactly one `unwind_frame` on the iterator's registers and
cache, with the result mapped as documented: a frame continues from its return address, `None`
finishes, an error is passed on (state unchanged), a null return address becomes an error. -/
theorem C17_step_is_unwind_frame (A : Arch) (N : Nat) (u : Unw) (mem : Mem) (a : FrameAddr)
    (regs : A.Regs) (c : Cache A.Rule) (c' : Cache A.Rule) (res : Res) (regs' : A.Regs)
    (h : unwindFrame A N u c a regs mem = (c', .ret res regs')) :
    Iter.next A N u mem { state := .unwinding a, regs := regs } c =
      match res with
      | .err e => some ({ state := .unwinding a, regs := regs' }, c', .err e)
      | .done => some ({ state := .done, regs := regs' }, c', .none)
      | .frame ra =>
        if ra = 0 then some ({ state := .unwinding a, regs := regs' }, c', .err .returnAddressIsNull)
        else some ({ state := .unwinding (.ret ra), regs := regs' }, c', .some (.ret ra)) := by
  simp only [Iter.next, h]
  cases res <;> rfl

/-- The iterator never yields a null frame. -/
theorem C17_never_yields_null (A : Arch) (N : Nat) (u : Unw) (mem : Mem) (it it' : Iter A)
    (c c' : Cache A.Rule) (a : Nat)
    (hpc : ∀ pc, it.state ≠ .initial pc)
    (h : Iter.next A N u mem it c = some (it', c', .some (.ret a))) : a ≠ 0 := by
  unfold Iter.next at h
  split at h
  · rename_i pc hs; exact (hpc pc hs).elim
  · simp at h
  · split at h
    · cases h
    · split at h
      · simp at h
      · simp at h
      · split at h
        · simp at h
        · rename_i hne
          simp at h
          rw [← h.2.2]
          exact hne

/-- Once finished, the iterator stays finished: any number of further calls returns `None`
and changes nothing. -/
theorem C17_done_is_absorbing (A : Arch) (N : Nat) (u : Unw) (mem : Mem) (regs : A.Regs)
    (c : Cache A.Rule) (n : Nat) :
    Nat.rec (motive := fun _ => Option (Iter A × Cache A.Rule × Item))
      (some ({ state := .done, regs := regs }, c, .none))
      (fun _ prev => prev.bind fun p => Iter.next A N u mem p.1 p.2.1) n =
    some ({ state := .done, regs := regs }, c, .none) := by
  induction n with
  | zero => rfl
  | succ n ih => simp only [ih]; rfl

/-- The items of `k` calls, as a function: the fold of `unwind_frame`. -/
def foldFrames (A : Arch) (N : Nat) (u : Unw) (mem : Mem) :
    Nat → FrameAddr → A.Regs → Cache A.Rule → List Item
  | 0, _, _, _ => []
  | k + 1, a, regs, c =>
    match unwindFrame A N u c a regs mem with
    | (_, .panic _) => []
    | (c', .ret (.frame ra) regs') =>
      if ra = 0 then .err .returnAddressIsNull :: foldFrames A N u mem k a regs' c'
      else .some (.ret ra) :: foldFrames A N u mem k (.ret ra) regs' c'
    | (_, .ret .done _) => List.replicate (k + 1) .none
    | (c', .ret (.err e) regs') => .err e :: foldFrames A N u mem k a regs' c'

/-- The items produced by `k` calls of `next`. -/
def iterItems (A : Arch) (N : Nat) (u : Unw) (mem : Mem) :
    Nat → Iter A → Cache A.Rule → List Item
  | 0, _, _ => []
  | k + 1, it, c =>
    match Iter.next A N u mem it c with
    | none => []
    | some (it', c', item) => item :: iterItems A N u mem k it' c'

theorem iterItems_done (A : Arch) (N : Nat) (u : Unw) (mem : Mem) (k : Nat) (regs : A.Regs)
    (c : Cache A.Rule) :
    iterItems A N u mem k { state := .done, regs := regs } c = List.replicate k .none := by
  induction k with
  | zero => rfl
  | succ k ih => simp [iterItems, Iter.next, ih, List.replicate_succ]

/-- **The iterator is the fold**: the first item is `pc`, the rest is exactly what repeated
`unwind_frame` produces from the same registers and cache, for any number of calls
(including the calls after the walk has ended with `Ok(None)` or `Err`). -/
theorem C17_iterator_is_fold (A : Arch) (N : Nat) (u : Unw) (mem : Mem) (k : Nat) (pc : Nat)
    (regs : A.Regs) (c : Cache A.Rule) :
    iterItems A N u mem (k + 1) { state := .initial pc, regs := regs } c =
      .some (.ip pc) :: foldFrames A N u mem k (.ip pc) regs c := by
  have key : ∀ k a regs c,
      iterItems A N u mem k { state := .unwinding a, regs := regs } c =
        foldFrames A N u mem k a regs c := by
    intro k
    induction k with
    | zero => intros; rfl
    | succ k ih =>
      intro a regs c
      simp only [iterItems, foldFrames, Iter.next]
      cases h : unwindFrame A N u c a regs mem with
      | mk c' out =>
        cases out with
        | panic s => rfl
        | ret res regs' =>
          cases res with
          | err e => simp only []; rw [ih]
          | done => simp only []; rw [iterItems_done, List.replicate_succ]
          | frame ra =>
            simp only []
            by_cases h0 : ra = 0
            · simp only [h0, if_true]; rw [ih]
            · simp only [h0, if_false]; rw [ih]
  simp only [iterItems, Iter.next]
  rw [key]

end FH
