import FH.RuleLemmas
import FH.PtrAuth
/-!
# C16 — aarch64 pointer-authentication bits are stripped from everything reported
-/
namespace FH

/-- Every return address reported by a rule-based step, and the `lr` it leaves behind, has
no bits outside the mask. -/
theorem C16_rule_step_strips {rule : RuleA64} {first : Bool} {regs regs' : RegsA64} {mem : Mem}
    {ra : Nat} (hr : rule.WF) (h : execA64 rule first regs mem = .ret (.frame ra) regs') :
    Stripped regs.mask ra ∧ regs'.lr = ra ∧ regs'.mask = regs.mask := by
  have f := execA64_frame hr h
  exact ⟨f.stripped, f.lr_eq, f.mask_eq⟩

/-- Whatever the outcome (frame, end of stack, error), the register set keeps a stripped
`lr` (it starts stripped: `new_with_ptr_auth_mask` strips). -/
theorem C16_lr_stays_stripped {rule : RuleA64} {first : Bool} {regs regs' : RegsA64} {mem : Mem}
    {res : Res} (hs : Stripped regs.mask regs.lr)
    (h : execA64 rule first regs mem = .ret res regs') :
    regs'.mask = regs.mask ∧ Stripped regs'.mask regs'.lr :=
  execA64_lr_stripped hs h

/-- `new_with_ptr_auth_mask` produces a stripped `lr`. -/
theorem C16_constructor_strips (mask lr : Nat) : Stripped mask (strip mask lr) :=
  strip_stripped mask lr

/-- The mask derived from a highest known address preserves every address up to it,
including for the documented value 0 (no modules). -/
theorem C16_fromMaxKnown_preserves (a x : Nat) (ha : a < U64) (hx : x ≤ a) :
    x &&& fromMaxKnown a = x :=
  fromMaxKnown_preserves a x ha hx

/-- The constructors are total; the documented test vectors. -/
theorem C16_constructors :
    fromMaxKnown 0 = 0 ∧ fromMaxKnown 0x0000aaaab54f7000 = 0x0000ffffffffffff ∧
    fromMaxKnown 0xffffffffc05a9000 = 0xffffffffffffffff ∧
    fromMaxKnown 0x000000022a3ccff7 = 0x00000003ffffffff ∧ mask2440 = 2 ^ 40 - 1 := by
  decide

end FH
