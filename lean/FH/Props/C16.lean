import FH.RuleLemmas
import FH.PtrAuth
import FH.SignLemmas
/-!
# C16 — aarch64 pointer-authentication bits are stripped from everything reported
-/
namespace FH

/-- Every return address reported by a rule-based step, and the `lr` it leaves behind, has
no bits outside the mask. -/
theorem C16_rule_step_strips {rule : RuleA64} {first : Bool} {regs regs' : RegsA64} {mem : Mem}
    {ra : Nat} (hr : rule.WF) (h : execA64 rule first regs mem = .ret (.frame ra) regs') :
    Stripped regs.mask ra ∧ regs'.lr = ra ∧ regs'.mask = regs.mask := by
  have f := execA64_frame hr h
  exact ⟨f.stripped, f.lr_eq, f.mask_eq⟩

/-- Whatever the outcome (frame, end of stack, error), the register set keeps a stripped
`lr` (it starts stripped: `new_with_ptr_auth_mask` strips). -/
theorem C16_lr_stays_stripped {rule : RuleA64} {first : Bool} {regs regs' : RegsA64} {mem : Mem}
    {res : Res} (hs : Stripped regs.mask regs.lr)
    (h : execA64 rule first regs mem = .ret res regs') :
    regs'.mask = regs.mask ∧ Stripped regs'.mask regs'.lr :=
  execA64_lr_stripped hs h

/-- **Signed stack, one rule step.** `mem'` is `mem` with authentication bits (any bits outside
the mask) added to the words at the addresses in `S` - the saved return addresses of a
`pacibsp` program. If the word the rule reads as saved *frame pointer* is not one of them, the
step on the signed stack is identical to the step on the unsigned stack: same result, same
registers (so the reported address and the `lr` left behind are those of the unsigned stack). -/
theorem C16_signed_step_equals_unsigned {S : Nat → Prop} {mem mem' : Mem} (rule : RuleA64)
    (first : Bool) (regs : RegsA64) (ht : SignedTwin regs.mask S mem mem')
    (hfp : ∀ a, fpSlotA64 rule first regs = some a → ¬ S a) :
    execA64 rule first regs mem' = execA64 rule first regs mem :=
  execA64_signed rule first regs ht hfp

/-- The same for the uncacheable DWARF path (`genericA64`): any row, CFA and register rules. -/
theorem C16_signed_generic_step_equals_unsigned {S : Nat → Prop} {mem mem' : Mem} (row : Row)
    (first : Bool) (regs : RegsA64) (ht : SignedTwin regs.mask S mem mem')
    (hfp : ∀ cfa a, evalCfa (getA64 regs) row.cfa = some cfa →
      regRuleSlot (getA64 regs) row.fp cfa = some a → ¬ S a) :
    genericA64 row first regs mem' = genericA64 row first regs mem :=
  genericA64_signed row first regs ht hfp

/-- **Signed stack, whole walk** (unbounded length, any assignment of rules to frames): if along
the walk over the unsigned stack no word read as a saved frame pointer is a signed word, the
walk over the signed stack yields exactly the same frames and the same ending. -/
theorem C16_signed_walk_equals_unsigned {S : Nat → Prop} {mem mem' : Mem} (rules : Nat → RuleA64)
    (mask : Nat) (ht : SignedTwin mask S mem mem') (n : Nat) (regs : RegsA64)
    (hfp : HoldsAlong (ruleWalkStepA64 rules) mem
      (fun s => s.2.mask = mask ∧ ∀ a, fpSlotA64 (rules s.1) (s.1 == 0) s.2 = some a → ¬ S a)
      n (0, regs)) :
    walkWith (ruleWalkStepA64 rules) mem' n (0, regs) =
      walkWith (ruleWalkStepA64 rules) mem n (0, regs) := by
  apply walk_congr (ruleWalkStepA64 rules) mem mem' _ _ n (0, regs) hfp
  intro s ⟨hm, hs⟩
  simp only [ruleWalkStepA64]
  rw [execA64_signed (rules s.1) (s.1 == 0) s.2 (by rw [hm]; exact ht) hs]

deriving instance DecidableEq for Out

/-- Non-vacuity: a two-word frame record whose saved return address carries a signature in
bits 24..31 is a signed twin of the unsigned record under a 24-bit mask, and the frame
pointer rule reads its frame pointer from an unsigned word. -/
example :
    let mem : Mem := fun a => if a = 0x1000 then some 0x2000 else if a = 0x1008 then some 0x401234 else none
    let mem' : Mem := fun a => if a = 0x1000 then some 0x2000 else if a = 0x1008 then some 0xab401234 else none
    let regs : RegsA64 := { mask := 0xffffff, lr := 0x400100, sp := 0xff0, fp := 0x1000 }
    execA64 .useFramePointer false regs mem' = execA64 .useFramePointer false regs mem ∧
      execA64 .useFramePointer false regs mem = .ret (.frame 0x401234)
        { mask := 0xffffff, lr := 0x401234, sp := 0x1010, fp := 0x2000 } := by
  decide

/-- `new_with_ptr_auth_mask` produces a stripped `lr`. -/
theorem C16_constructor_strips (mask lr : Nat) : Stripped mask (strip mask lr) :=
  strip_stripped mask lr

/-- The mask derived from a highest known address preserves every address up to it,
including for the documented value 0 (no modules). -/
theorem C16_fromMaxKnown_preserves (a x : Nat) (ha : a < U64) (hx : x ≤ a) :
    x &&& fromMaxKnown a = x :=
  fromMaxKnown_preserves a x ha hx

/-- The constructors are total; the documented test vectors. -/
theorem C16_constructors :
    fromMaxKnown 0 = 0 ∧ fromMaxKnown 0x0000aaaab54f7000 = 0x0000ffffffffffff ∧
    fromMaxKnown 0xffffffffc05a9000 = 0xffffffffffffffff ∧
    fromMaxKnown 0x000000022a3ccff7 = 0x00000003ffffffff ∧ mask2440 = 2 ^ 40 - 1 := by
  decide

end FH
