import FH.Hist
/-!
# C20 — The rule cache actually caches, and its statistics are exact
-/
namespace FH

def Stats.total (s : Stats) : Nat := s.hit + s.missEmpty + s.missWrongModules + s.missWrongAddress

/-- Every lookup increments exactly one counter by one, and which one is determined by the
slot content exactly as the counters are documented: empty slot; entry recorded under another
module-set identity; same identity, other address; hit. -/
theorem C20_counter_meaning {Rule : Type} (N : Nat) (c : Cache Rule) (a g : Nat) :
    let s := c.stats
    let s' := (c.lookup N a g).1.stats
    match c.slots (a % N) with
    | none => s' = { s with missEmpty := s.missEmpty + 1 }
    | some e =>
      if e.gen ≠ g then s' = { s with missWrongModules := s.missWrongModules + 1 }
      else if e.addr ≠ a then s' = { s with missWrongAddress := s.missWrongAddress + 1 }
      else s' = { s with hit := s.hit + 1 } := by
  cases h : c.slots (a % N) with
  | none => simp [Cache.lookup, h]
  | some e =>
    by_cases hg : e.gen = g
    · by_cases ha : e.addr = a
      · simp [Cache.lookup, h, hg, ha]
      · simp [Cache.lookup, h, hg, ha]
    · simp [Cache.lookup, h, hg]

theorem C20_exactly_one_counter {Rule : Type} (N : Nat) (c : Cache Rule) (a g : Nat) :
    (c.lookup N a g).1.stats.total = c.stats.total + 1 := by
  simp only [Cache.lookup, Stats.total]
  split
  · simp only []; omega
  · split
    · split <;> (simp only []; omega)
    · simp only []; omega

/-- One `unwind_frame` call performs exactly one lookup: its statistics are those of the lookup
(inserting a rule does not touch them). -/
theorem C20_call_counts_once (A : Arch) (N : Nat) (u : Unw) (c : Cache A.Rule)
    (addr : FrameAddr) (regs : A.Regs) (mem : Mem) :
    (unwindFrame A N u c addr regs mem).1.stats = (c.lookup N addr.lookup u.gen).1.stats := by
  unfold unwindFrame
  simp only []
  split
  · rfl
  · split <;> rfl

/-- A call whose rule is cacheable leaves that rule in the slot of its address. -/
theorem C20_cacheable_call_fills_slot (A : Arch) (N : Nat) (u : Unw) (c : Cache A.Rule)
    (addr : FrameAddr) (regs : A.Regs) (mem : Mem) (r : A.Rule)
    (hs : staticRule A u.mods addr.lookup (!addr.isReturn) = some r) :
    ∃ e, (unwindFrame A N u c addr regs mem).1.slots (addr.lookup % N) = some e ∧
      e.addr = addr.lookup ∧ e.gen = u.gen ∧
      ((c.lookup N addr.lookup u.gen).2 = .miss → e.rule = r) := by
  unfold unwindFrame
  simp only []
  cases hl : (c.lookup N addr.lookup u.gen).2 with
  | hit rule =>
    obtain ⟨e, he, hg, ha, _⟩ := lookup_hit hl
    exact ⟨e, by simp only []; rw [lookup_slots]; exact he, ha, hg, fun h => by cases h⟩
  | miss =>
    simp only []
    rw [(missPath_static A u addr regs mem).1, hs]
    exact ⟨⟨addr.lookup, u.gen, r⟩, by simp [Cache.insert], rfl, rfl, fun _ => rfl⟩

/-- A call only ever writes the slot of its own lookup address. -/
theorem C20_call_touches_one_slot (A : Arch) (N : Nat) (u : Unw) (c : Cache A.Rule)
    (addr : FrameAddr) (regs : A.Regs) (mem : Mem) (s : Nat) (hs : s ≠ addr.lookup % N) :
    (unwindFrame A N u c addr regs mem).1.slots s = c.slots s := by
  unfold unwindFrame
  simp only []
  split
  · rw [lookup_slots]
  · split
    · simp only [Cache.insert, hs, if_false]; rw [lookup_slots]
    · rw [lookup_slots]

/-- If the slot of `addr` holds an entry for this address and this unwinder's generation,
the call is a hit: `hit_count` grows by one, the result is the execution of the cached rule,
and no section data is consulted. -/
theorem C20_repeat_is_hit (A : Arch) (N : Nat) (u : Unw) (c : Cache A.Rule) (addr : FrameAddr)
    (regs : A.Regs) (mem : Mem) (e : Entry A.Rule) (he : c.slots (addr.lookup % N) = some e)
    (ha : e.addr = addr.lookup) (hg : e.gen = u.gen) :
    (unwindFrame A N u c addr regs mem).1.stats = { c.stats with hit := c.stats.hit + 1 } ∧
    (unwindFrame A N u c addr regs mem).2 = A.exec e.rule (!addr.isReturn) regs mem ∧
    touchesSections A N u c addr = false := by
  have hl : (c.lookup N addr.lookup u.gen) =
      ({ c with stats := { c.stats with hit := c.stats.hit + 1 } }, .hit e.rule) := by
    simp [Cache.lookup, he, ha, hg]
  refine ⟨?_, ?_, ?_⟩
  · rw [C20_call_counts_once, hl]
  · unfold unwindFrame; simp only [hl]
  · unfold touchesSections; simp only [hl]

/-- History form of the first half of the property: after a cacheable call on `(addr, u)`,
any sequence of calls (by any unwinders) that do not map to the same slot leaves the entry in
place, so repeating the call is a hit. -/
theorem C20_entry_survives_other_slots (A : Arch) (N : Nat) (c : Cache A.Rule) (s : Nat)
    (calls : List (Unw × FrameAddr × A.Regs × Mem))
    (hs : ∀ x ∈ calls, x.2.1.lookup % N ≠ s) :
    (calls.foldl (fun c x => (unwindFrame A N x.1 c x.2.1 x.2.2.1 x.2.2.2).1) c).slots s =
      c.slots s := by
  induction calls generalizing c with
  | nil => rfl
  | cons x rest ih =>
    simp only [List.foldl]
    rw [ih _ (fun y hy => hs y (by simp [hy]))]
    exact C20_call_touches_one_slot A N x.1 c x.2.1 x.2.2.1 x.2.2.2 s
      (fun h => hs x (by simp) h.symm)

end FH
