import FH.Cui
import FH.World
import FH.RuleLemmas
import FH.PeMem
/-!
# C14 — Corrupt or hostile unwind data never panics framehop's own code

What the model can carry: every Rust panic site of framehop's own code that the model
contains is an explicit outcome (`Option.none` for the `split_at` of the instruction
analysers, `Plan.panic`, `Out.panic`, `GenOut.panic`), and the theorems below show that
none of them is reachable from the module data, whatever that data is - the data of a module
is universally quantified (`UnwindData` with arbitrary function tables, opcodes, text bytes,
ranges, FDEs and rows), so "corrupt" is included:

* the analysers are total whenever `pc ≤ text.length`;
* the compact-unwind dispatch always hands the analysers a function slice that contains the
  lookup offset, for *arbitrary* (unsorted, overlapping, inverted, out-of-text) function
  tables and text ranges - hence no panic;
* the plan (what is decided before registers are consulted) is never `panic`, for every
  module and address, on both architectures;
* a whole `unwind_frame` call panics only inside the PE operation interpreter, whose
  arithmetic is pe-unwind-info's `resolve_operation` (third-party; known finding F8-dep under
  C09); on aarch64 never.

What the model cannot carry: the byte-level parsers are third-party crates (gimli,
macho-unwind-info, pe-unwind-info) and framehop's glue around them (section slicing, index
construction) is exercised by the `mut` engine: byte-level corruption of generated and real
sections of every format and inconsistent ranges, under `catch_unwind` with overflow checks,
with panics attributed to own code or dependency by their source location.
-/
namespace FH

/-- The x86-64 analysers do not panic when the offset lies within the bytes. -/
theorem C14_anaX64_total (text : List Nat) (pc : Nat) (h : pc ≤ text.length) :
    ∃ r, anaX64 text pc = some r := by
  have h' : ¬ pc > text.length := by omega
  simp only [anaX64, anaPrologueX64, anaEpilogueX64, h', if_false]
  by_cases hn : nextExpectedInPrologueX64 (List.drop pc text) = true
  · simp only [hn, Bool.not_true, Bool.false_eq_true, if_false]
    cases prologueScanX64 ((List.take pc text).length + 1) (List.take pc text).reverse 0 with
    | none => exact ⟨_, rfl⟩
    | some r => exact ⟨_, rfl⟩
  · simp only [Bool.not_eq_true] at hn
    simp only [hn, Bool.not_false, if_true]
    exact ⟨_, rfl⟩

theorem anaPrologueA64_total (text : List Nat) (pc : Nat) (h : pc ≤ text.length) :
    ∃ r, anaPrologueA64 text pc = some r := by
  have h' : ¬ pc > text.length := by omega
  simp only [anaPrologueA64, h', if_false]
  split
  · exact ⟨_, rfl⟩
  · split
    · exact ⟨_, rfl⟩
    · split
      · exact ⟨_, rfl⟩
      · split
        · exact ⟨_, rfl⟩
        · split <;> exact ⟨_, rfl⟩

theorem anaEpilogueA64_total (text : List Nat) (pc : Nat) (h : pc ≤ text.length) :
    ∃ r, anaEpilogueA64 text pc = some r := by
  have h' : ¬ pc > text.length := by omega
  simp only [anaEpilogueA64, h', if_false]
  split
  · exact ⟨_, rfl⟩
  · split
    · exact ⟨_, rfl⟩
    · split
      · exact ⟨_, rfl⟩
      · split <;> exact ⟨_, rfl⟩
    · split <;> exact ⟨_, rfl⟩
    · exact ⟨_, rfl⟩

/-- The aarch64 analysers do not panic when the offset lies within the bytes. -/
theorem C14_anaA64_total (text : List Nat) (pc : Nat) (h : pc ≤ text.length) :
    ∃ r, anaA64 text pc = some r := by
  obtain ⟨r, hr⟩ := anaPrologueA64_total text pc h
  obtain ⟨e, he⟩ := anaEpilogueA64_total text pc h
  simp only [anaA64, hr]
  cases r with
  | none => exact ⟨_, he⟩
  | some _ => exact ⟨_, rfl⟩

/-- The slice handed to the architecture contains the lookup offset. -/
theorem fnBytes_contains_offset (bytes : List Nat) (textOff start stop rel : Nat)
    (h1 : textOff ≤ start) (h3 : stop - textOff ≤ bytes.length)
    (hin : start ≤ rel ∧ rel < stop) :
    rel - start ≤ ((bytes.drop (start - textOff)).take (stop - start)).length := by
  simp only [List.length_take, List.length_drop]
  omega

theorem cuiUnwindX64_isSome (op : CuiOpX64) (first : Bool) (off : Nat) (fb : Option (List Nat))
    (h : ∀ b, fb = some b → off ≤ b.length) : (cuiUnwindX64 op first off fb).isSome = true := by
  cases first with
  | false => simp [cuiUnwindX64]
  | true =>
    cases fb with
    | none =>
      simp only [cuiUnwindX64, if_true]
      split <;> rfl
    | some b =>
      obtain ⟨r, hr⟩ := C14_anaX64_total b off (h b rfl)
      simp only [cuiUnwindX64, if_true, hr]
      cases r with
      | some _ => rfl
      | none => simp only []; split <;> (try split) <;> rfl

theorem cuiUnwindA64_isSome (op : CuiOpA64) (first : Bool) (off : Nat) (fb : Option (List Nat))
    (h : ∀ b, fb = some b → off ≤ b.length) : (cuiUnwindA64 op first off fb).isSome = true := by
  cases first with
  | false => simp [cuiUnwindA64]
  | true =>
    simp only [cuiUnwindA64, if_true]
    split
    · rfl
    · cases fb with
      | none => rfl
      | some b =>
        obtain ⟨r, hr⟩ := C14_anaA64_total b off (h b rfl)
        simp only [hr]
        cases r <;> rfl

/-- The dispatch never panics if the architecture's handler does not panic on slices that
contain the offset - for arbitrary tables, ranges and text. -/
theorem cuiDispatch_isSome {Op Rule : Type} (d : CuiData Op)
    (unwindFn : Op → Bool → Nat → Option (List Nat) → Option (CuiRes Rule))
    (stubRule fnStartRule : Rule) (stubHelperRule : Nat → Rule) (rel : Nat) (first : Bool)
    (hfn : ∀ op first off fb, (∀ b, fb = some b → off ≤ b.length) →
      (unwindFn op first off fb).isSome = true) :
    (cuiDispatch d unwindFn stubRule fnStartRule stubHelperRule rel first).isSome = true := by
  simp only [cuiDispatch]
  split
  · split <;> rfl
  · split
    · split <;> rfl
    · cases hl : cuiLookup d.funcs rel with
      | none => simp only []; split <;> rfl
      | some f =>
        simp only []
        split
        · rfl
        · have hin : f.start ≤ rel ∧ rel < f.stop := by
            have := List.find?_some hl
            simpa using this
          apply hfn
          intro b hb
          cases ht : d.text with
          | none => simp [ht] at hb
          | some tb =>
            obtain ⟨textOff, bytes⟩ := tb
            simp only [ht] at hb
            split at hb
            · rename_i hc
              injection hb with hb
              subst hb
              exact fnBytes_contains_offset bytes textOff f.start f.stop rel hc.1 hc.2.2.2 hin
            · cases hb

/-- **The x86-64 compact-unwind path never panics**, for arbitrary tables, ranges and text. -/
theorem C14_cui_x64_never_panics (d : CuiData (CuiOpX64 × CuiOpA64)) (rel : Nat) (first : Bool) :
    (archX64.cui d rel first).isSome = true :=
  cuiDispatch_isSome d _ _ _ _ rel first (fun op f o fb h => cuiUnwindX64_isSome op.1 f o fb h)

/-- **The aarch64 compact-unwind path never panics.** -/
theorem C14_cui_a64_never_panics (d : CuiData (CuiOpX64 × CuiOpA64)) (rel : Nat) (first : Bool) :
    (archA64.cui d rel first).isSome = true :=
  cuiDispatch_isSome d _ _ _ _ rel first (fun op f o fb h => cuiUnwindA64_isSome op.2 f o fb h)

/-- **No module data makes the plan panic** (x86-64): whatever the tables, opcodes, text,
ranges, FDEs and rows. -/
theorem C14_plan_x64_never_panics (m : Module) (rel : Nat) (first : Bool) :
    plan archX64 m rel first ≠ .panic := by
  have hc := C14_cui_x64_never_panics
  simp only [plan]
  cases hd : m.data with
  | none => simp
  | dwarf pres fdes => simp only []; split <;> (try split) <;> simp
  | pe funcs =>
    simp only []
    split <;> simp
  | macho d eh =>
    simp only []
    have := hc d rel first
    cases hcu : archX64.cui d rel first with
    | none => simp [hcu] at this
    | some r =>
      cases r with
      | err => simp
      | exec r => simp
      | needDwarf off =>
        simp only []
        cases eh with
        | none => simp
        | some fdes =>
          simp only []
          split
          · simp
          · split
            · simp
            · simp only [planForFde]; split <;> (try split) <;> simp

/-- **No module data makes the plan panic** (aarch64). -/
theorem C14_plan_a64_never_panics (m : Module) (rel : Nat) (first : Bool) :
    plan archA64 m rel first ≠ .panic := by
  have hc := C14_cui_a64_never_panics
  simp only [plan]
  cases hd : m.data with
  | none => simp
  | dwarf pres fdes => simp only []; split <;> (try split) <;> simp
  | pe funcs =>
    simp only []
    split <;> simp
  | macho d eh =>
    simp only []
    have := hc d rel first
    cases hcu : archA64.cui d rel first with
    | none => simp [hcu] at this
    | some r =>
      cases r with
      | err => simp
      | exec r => simp
      | needDwarf off =>
        simp only []
        cases eh with
        | none => simp
        | some fdes =>
          simp only []
          split
          · simp
          · split
            · simp
            · simp only [planForFde]; split <;> (try split) <;> simp

/-- Non-vacuity: a table with an inverted entry, an entry outside the text and text shorter than
its range still gives a plan. -/
example :
    let d : CuiData (CuiOpX64 × CuiOpA64) :=
      { funcs := [{ start := 0x20, stop := 0x10, op := (.null, .null) },
                  { start := 0x1000, stop := 0x9000, op := (.framelessIndirect 200 7 [], .frameless 16) }],
        stubs := (5, 2), stubHelper := (0, 0), text := some (0x1004, [0x55, 0x48]) }
    (archX64.cui d 0x1005 true).isSome = true ∧ (archA64.cui d 0x8fff true).isSome = true := by
  decide


/-! ## PE: RVA -> section memory on inconsistent section descriptions

`memory_at_rva` is handed whatever RVA ranges and data lengths the module supplies - ranges that
are empty, inverted, larger than the data, overlapping each other. The model has no panic outcome
at all here; what has to be shown is that the slice it describes is always inside the data (the
Rust code slices with `data.get(offset..)`; a model answer outside the data would mean the
correspondence run compares against a result the Rust code cannot produce). -/

/-- Whatever the section description, a returned slice `data[off..]` lies inside the data, starts
at the byte the RVA addresses, and the RVA lies in the section's range. -/
theorem C14_pe_section_slice_is_within_data (s : Sect) (addr off len : Nat)
    (h : memAtRva s addr = some (off, len)) :
    off + len = s.len ∧ off = addr - s.start ∧ s.start ≤ addr ∧ addr < s.stop := by
  have := memAtRva_some h
  exact ⟨this.2.2.2, this.2.2.1, this.1, this.2.1⟩

/-- Empty and inverted ranges (`end <= start`) never yield memory; neither does an RVA whose
offset lies beyond the supplied data. -/
theorem C14_pe_degenerate_ranges_yield_nothing (s : Sect) (addr : Nat) :
    (s.stop ≤ s.start → memAtRva s addr = none) ∧
    (s.len < addr - s.start → memAtRva s addr = none) := by
  constructor
  · intro h
    unfold memAtRva
    have : ¬(s.start ≤ addr ∧ addr < s.stop) := by omega
    simp [this]
  · intro h
    unfold memAtRva
    split
    · simp only []
      have : ¬(addr - s.start ≤ s.len) := by omega
      simp [this]
    · rfl

/-- UNWIND_INFO is looked for in `.rdata` first and then in `.xdata`; a section that contains the
RVA but whose data is too short is passed over, it does not end the search. -/
theorem C14_pe_unwind_info_section_order (r x : Sect) (addr : Nat) :
    (∀ o l, memAtRva r addr = some (o, l) → unwindInfoMemAtRva (some r) (some x) addr = some (0, o, l)) ∧
    (memAtRva r addr = none → ∀ o l, memAtRva x addr = some (o, l) →
      unwindInfoMemAtRva (some r) (some x) addr = some (1, o, l)) ∧
    (memAtRva r addr = none → memAtRva x addr = none →
      unwindInfoMemAtRva (some r) (some x) addr = none) := by
  refine ⟨?_, ?_, ?_⟩
  · intro o l h; simp [unwindInfoMemAtRva, h]
  · intro h o l h2; simp [unwindInfoMemAtRva, h, h2]
  · intro h h2; simp [unwindInfoMemAtRva, h, h2]

example : memAtRva ⟨0x3000, 0x3100, 0x80⟩ 0x3080 = some (0x80, 0) ∧
    memAtRva ⟨0x3000, 0x3100, 0x80⟩ 0x3081 = none ∧
    unwindInfoMemAtRva (some ⟨0x3000, 0x3100, 0x80⟩) (some ⟨0x3080, 0x3200, 0x180⟩) 0x3081 =
      some (1, 1, 0x17f) := by decide

end FH
