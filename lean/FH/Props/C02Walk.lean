import FH.Props.C02
import FH.Props.C04
/-!
# C02 — whole walks over Mach-O compact-unwind frames (x86-64)

The step theorems of `FH/Props/C02.lean` composed over a call chain: every frame of the chain is
either frame-based (unwound by the frame record, `C04_x64_fp_rule_is_convention`) or frameless
with an immediate stack size (unwound by the layout `compact_unwind_encoding.h` documents,
`C02_x64_frameless_body_exact`); the thread is stopped in the body of the innermost function
(instruction analysis finds neither prologue nor epilogue there - the analysers' own exactness in
prologues and epilogues is `C02_x64_epilogue_exact` etc.) or the text bytes are not available.
The root is the frame-based function whose frame pointer is null.
-/
namespace FH

/-- One frame: its compact-unwind opcode, the offset of the lookup address within the function
and the function's text bytes if the module supplies them. -/
structure CuiFrameX64 where
  op : CuiOpX64
  offsetInFn : Nat
  fnBytes : Option (List Nat)

/-- The opcode applies: a caller frame, or a first frame where instruction analysis sees a body. -/
def CuiFrameX64.InBody (f : CuiFrameX64) (first : Bool) : Prop :=
  first = true → f.fnBytes = none ∨ ∃ bytes, f.fnBytes = some bytes ∧ anaX64 bytes f.offsetInFn = some none

/-- One step of the walk: the rule the compact-unwind code decides on, executed. (Errors and
the hand-off to DWARF are outside this theorem: C04 / C01.) -/
def cuiStepX64 (f : CuiFrameX64) (first : Bool) (regs : RegsX64) (mem : Mem) : Out RegsX64 :=
  match cuiUnwindX64 f.op first f.offsetInFn f.fnBytes with
  | some (.exec rule) => execX64 rule first regs mem
  | _ => .ret (.err .integerOverflow) regs

def walkCuiX64 (mem : Mem) : Bool → List CuiFrameX64 → RegsX64 → List Res
  | _, [], _ => []
  | first, f :: rest, regs =>
    match cuiStepX64 f first regs mem with
    | .ret (.frame ra) regs' => .frame ra :: walkCuiX64 mem false rest regs'
    | .ret r _ => [r]
    | .panic _ => []

theorem cuiUnwindX64_body (f : CuiFrameX64) (first : Bool) (hb : f.InBody first) (hnn : f.op ≠ .null)
    (body : CuiRes RuleX64)
    (hbody : cuiUnwindX64 f.op false f.offsetInFn f.fnBytes = some body) :
    cuiUnwindX64 f.op first f.offsetInFn f.fnBytes = some body := by
  cases first with
  | false => exact hbody
  | true =>
    rcases hb rfl with hn | ⟨bytes, hbs, ha⟩
    · simp only [cuiUnwindX64, hn, hnn, Bool.false_eq_true, if_false, if_true] at hbody ⊢
      exact hbody
    · simp only [cuiUnwindX64, hbs, ha, hnn, false_and, Bool.false_eq_true, if_false, if_true] at hbody ⊢
      exact hbody

/-- A true call chain of compact-unwind frames, innermost first. -/
inductive CuiChainX64 (mem : Mem) : Bool → List CuiFrameX64 → RegsX64 → List Nat → Prop where
  /-- the root: frame-based, entered with a null frame pointer -/
  | root (first : Bool) (f : CuiFrameX64) (regs : RegsX64) (hop : f.op = .frameBased)
      (hb : f.InBody first) (hbp : regs.bp = 0) : CuiChainX64 mem first [f] regs []
  /-- a frame-based function: the frame record at rbp -/
  | frameBased (first : Bool) (f : CuiFrameX64) (rest : List CuiFrameX64) (regs : RegsX64)
      (ra sp' bp' : Nat) (ras : List Nat) (hop : f.op = .frameBased) (hb : f.InBody first)
      (hc : fpConvention regs.bp mem = some (ra, sp', bp')) (h0 : regs.bp ≠ 0)
      (hlt : regs.bp + 16 < U64) (hgt : regs.sp < regs.bp + 16) (hra : ra ≠ 0)
      (tail : CuiChainX64 mem false rest (afterX64 regs ra sp' bp') ras) :
      CuiChainX64 mem first (f :: rest) regs (ra :: ras)
  /-- a frameless function that does not save rbp: return address `S` bytes above rsp -/
  | frameless (first : Bool) (f : CuiFrameX64) (rest : List CuiFrameX64) (regs : RegsX64)
      (S : Nat) (saved : List (Option CuiReg)) (ra : Nat) (ras : List Nat)
      (hop : f.op = .framelessImmediate S saved) (hb : f.InBody first)
      (h8 : S % 8 = 0) (hS : 16 ≤ S) (hSmax : S < 262144) (hfit : regs.sp + S < U64)
      (hra : mem (regs.sp + S - 8) = some ra) (hra0 : ra ≠ 0)
      (hnobp : bpPosFromOutside saved = none)
      (tail : CuiChainX64 mem false rest (afterX64 regs ra (regs.sp + S) regs.bp) ras) :
      CuiChainX64 mem first (f :: rest) regs (ra :: ras)
  /-- a frameless function that saved rbp at position `pos` of its register area -/
  | framelessBp (first : Bool) (f : CuiFrameX64) (rest : List CuiFrameX64) (regs : RegsX64)
      (S : Nat) (saved : List (Option CuiReg)) (ra pos b : Nat) (ras : List Nat)
      (hop : f.op = .framelessImmediate S saved) (hb : f.InBody first)
      (h8 : S % 8 = 0) (hS : 16 ≤ S) (hSmax : S < 262144) (hfit : regs.sp + S < U64)
      (hra : mem (regs.sp + S - 8) = some ra) (hra0 : ra ≠ 0)
      (hpos : bpPosFromOutside saved = some pos) (hle : 16 + 8 * pos ≤ S)
      (hslot : mem (regs.sp + S - 16 - 8 * pos) = some b)
      (tail : CuiChainX64 mem false rest (afterX64 regs ra (regs.sp + S) b) ras) :
      CuiChainX64 mem first (f :: rest) regs (ra :: ras)

/-- **C02 (x86-64), whole walks.** Walking a true chain of compact-unwind frames - frame-based
and frameless functions in any mixture, any depth, the innermost stopped in its body - yields
exactly the chain's return addresses with the caller's rsp / rbp after each step, and completes
with `Ok(None)` at the root. -/
theorem C02_x64_walk (mem : Mem) (first : Bool) (frames : List CuiFrameX64) (regs : RegsX64)
    (ras : List Nat) (h : CuiChainX64 mem first frames regs ras) :
    walkCuiX64 mem first frames regs = ras.map .frame ++ [.done] := by
  induction h with
  | root first f regs hop hb hbp =>
    have hu := cuiUnwindX64_body f first hb (by rw [hop]; simp) (.exec .useFramePointer)
      (by rw [hop]; simp [cuiUnwindX64])
    simp [walkCuiX64, cuiStepX64, hu, execX64, fpStepX64, hbp]
  | frameBased first f rest regs ra sp' bp' ras hop hb hc h0 hlt hgt hra tail ih =>
    have hu := cuiUnwindX64_body f first hb (by rw [hop]; simp) (.exec .useFramePointer)
      (by rw [hop]; simp [cuiUnwindX64])
    simp only [walkCuiX64, cuiStepX64, hu,
      C04_x64_fp_rule_is_convention first regs mem ra sp' bp' hc h0 hlt hgt hra, List.map_cons,
      List.cons_append]
    rw [ih]
  | frameless first f rest regs S saved ra ras hop hb h8 hS hSmax hfit hra hra0 hnobp tail ih =>
    have hex := (C02_x64_frameless_body_exact S saved first regs mem ra h8 (by omega) hSmax hfit hra hra0).1 hnobp
    have hu := cuiUnwindX64_body f first hb (by rw [hop]; simp) (.exec (.offsetSp (S / 8)))
      (by rw [hop]; simp only [cuiUnwindX64, Bool.false_eq_true, if_false]
          rw [if_neg (by omega), hex.1])
    simp only [walkCuiX64, cuiStepX64, hu, hex.2, List.map_cons, List.cons_append]
    rw [ih]
  | framelessBp first f rest regs S saved ra pos b ras hop hb h8 hS hSmax hfit hra hra0 hpos hle hslot tail ih =>
    obtain ⟨rule, hr1, hr2⟩ := (C02_x64_frameless_body_exact S saved first regs mem ra h8 (by omega) hSmax hfit hra hra0).2 pos b hpos hle hslot
    have hu := cuiUnwindX64_body f first hb (by rw [hop]; simp) (.exec rule)
      (by rw [hop]; simp only [cuiUnwindX64, Bool.false_eq_true, if_false]
          rw [if_neg (by omega), hr1])
    simp only [walkCuiX64, cuiStepX64, hu, hr2, List.map_cons, List.cons_append]
    rw [ih]

/-- Non-vacuity: a frameless function (32 bytes of stack) called from a frame-based function
called from the root. -/
example :
    let mem : Mem := fun a => if a = 0x1018 then some 0x401111 else if a = 0x1040 then some 0
      else if a = 0x1048 then some 0x402222 else none
    let regs : RegsX64 := { ip := 0x400000, r := fun i => if i = RSP then 0x1000 else if i = RBP then 0x1040 else 0 }
    let f1 : CuiFrameX64 := { op := .framelessImmediate 0x20 [], offsetInFn := 9, fnBytes := none }
    let f2 : CuiFrameX64 := { op := .frameBased, offsetInFn := 20, fnBytes := none }
    walkCuiX64 mem true [f1, f2, f2] regs = [.frame 0x401111, .frame 0x402222, .done] := by
  intro mem regs f1 f2
  have hchain : CuiChainX64 mem true [f1, f2, f2] regs [0x401111, 0x402222] := by
    refine .frameless true f1 [f2, f2] regs 0x20 [] 0x401111 [0x402222] rfl (fun _ => Or.inl rfl)
      (by decide) (by decide) (by decide) (by decide) (by decide) (by decide) (by decide) ?_
    refine .frameBased false f2 [f2] _ 0x402222 0x1050 0 [] rfl (fun h => by cases h)
      (by decide) (by decide) (by decide) (by decide) (by decide) ?_
    exact .root false f2 _ rfl (fun h => by cases h) (by decide)
  simpa using C02_x64_walk mem true [f1, f2, f2] regs [0x401111, 0x402222] hchain

/-! ## arm64 -/

structure CuiFrameA64 where
  op : CuiOpA64
  offsetInFn : Nat
  fnBytes : Option (List Nat)

def CuiFrameA64.InBody (f : CuiFrameA64) (first : Bool) : Prop :=
  first = true → f.fnBytes = none ∨ ∃ bytes, f.fnBytes = some bytes ∧ anaA64 bytes f.offsetInFn = some none

def cuiStepA64 (f : CuiFrameA64) (first : Bool) (regs : RegsA64) (mem : Mem) : Out RegsA64 :=
  match cuiUnwindA64 f.op first f.offsetInFn f.fnBytes with
  | some (.exec rule) => execA64 rule first regs mem
  | _ => .ret (.err .integerOverflow) regs

def walkCuiA64 (mem : Mem) : Bool → List CuiFrameA64 → RegsA64 → List Res
  | _, [], _ => []
  | first, f :: rest, regs =>
    match cuiStepA64 f first regs mem with
    | .ret (.frame ra) regs' => .frame ra :: walkCuiA64 mem false rest regs'
    | .ret r _ => [r]
    | .panic _ => []

theorem cuiUnwindA64_frameBased (f : CuiFrameA64) (first : Bool) (hb : f.InBody first)
    (hop : f.op = .frameBased) :
    cuiUnwindA64 f.op first f.offsetInFn f.fnBytes = some (.exec .useFramePointer) := by
  cases first with
  | false => rw [hop]; simp [cuiUnwindA64]
  | true =>
    rcases hb rfl with hn | ⟨bytes, hbs, ha⟩
    · rw [hop]; simp [cuiUnwindA64, hn]
    · rw [hop]; simp [cuiUnwindA64, hbs, ha]

/-- A true call chain on arm64: an optional frameless innermost function (return address still
in lr, `size` bytes of locals), then functions with frame records, down to the root whose record
holds a null caller frame pointer. -/
inductive CuiChainA64 (mem : Mem) : Bool → List CuiFrameA64 → RegsA64 → List Nat → Prop where
  | root (first : Bool) (f : CuiFrameA64) (regs : RegsA64) (lr' : Nat) (hop : f.op = .frameBased)
      (hb : f.InBody first) (hlt : regs.fp + 16 < U64) (hlr : mem (regs.fp + 8) = some lr')
      (hfp : mem regs.fp = some 0) : CuiChainA64 mem first [f] regs []
  | frameBased (first : Bool) (f : CuiFrameA64) (rest : List CuiFrameA64) (regs : RegsA64)
      (lr' sp' fp' : Nat) (ras : List Nat) (hop : f.op = .frameBased) (hb : f.InBody first)
      (hc : fpConvention regs.fp mem = some (lr', sp', fp')) (hlt : regs.fp + 16 < U64)
      (h0 : fp' ≠ 0) (hfp : regs.fp < fp') (hsp : regs.sp < regs.fp + 16)
      (hra : strip regs.mask lr' ≠ 0)
      (tail : CuiChainA64 mem false rest (afterA64 regs lr' sp' fp') ras) :
      CuiChainA64 mem first (f :: rest) regs (strip regs.mask lr' :: ras)
  | framelessFirst (f : CuiFrameA64) (rest : List CuiFrameA64) (regs : RegsA64) (size : Nat)
      (ras : List Nat) (hop : f.op = .frameless size) (hb : f.InBody true)
      (h16 : size % 16 = 0) (hpos : 0 < size) (hmax : size < 1048576) (hfit : regs.sp + size < U64)
      (hra0 : strip regs.mask regs.lr ≠ 0)
      (tail : CuiChainA64 mem false rest (afterA64 regs regs.lr (regs.sp + size) regs.fp) ras) :
      CuiChainA64 mem true (f :: rest) regs (strip regs.mask regs.lr :: ras)

/-- **C02 (arm64), whole walks.** -/
theorem C02_a64_walk (mem : Mem) (first : Bool) (frames : List CuiFrameA64) (regs : RegsA64)
    (ras : List Nat) (h : CuiChainA64 mem first frames regs ras) :
    walkCuiA64 mem first frames regs = ras.map .frame ++ [.done] := by
  induction h with
  | root first f regs lr' hop hb hlt hlr hfp =>
    have hu := cuiUnwindA64_frameBased f first hb hop
    simp [walkCuiA64, cuiStepA64, hu, execA64, cadd_eq_some hlt, uaddP,
      show regs.fp + 8 < U64 by omega, hlr, hfp]
  | frameBased first f rest regs lr' sp' fp' ras hop hb hc hlt h0 hfp hsp hra tail ih =>
    have hu := cuiUnwindA64_frameBased f first hb hop
    simp only [walkCuiA64, cuiStepA64, hu,
      C04_a64_fp_rule_is_convention first regs mem lr' sp' fp' hc hlt h0 hfp hsp hra, List.map_cons,
      List.cons_append]
    rw [ih]
  | framelessFirst f rest regs size ras hop hb h16 hpos hmax hfit hra0 tail ih =>
    have hex := C02_a64_frameless_body_exact size regs mem h16 hpos hmax hfit hra0
    have hne : size ≠ 0 := by omega
    have hu : cuiUnwindA64 f.op true f.offsetInFn f.fnBytes = some (.exec (.offsetSp (size / 16))) := by
      rcases hb rfl with hn | ⟨bytes, hbs, ha⟩
      · rw [hop]; simp [cuiUnwindA64, hn, hne]
      · rw [hop]; simp [cuiUnwindA64, hbs, ha, hne]
    simp only [walkCuiA64, cuiStepA64, hu, hex.2.2, List.map_cons, List.cons_append]
    rw [ih]

end FH
