import FH.Hist
/-!
# C18 — Concurrently created/modified unwinders get distinct module-set identities

`fetch_add(1)` on the `AtomicU16` is one atomic read-modify-write (trusted: hardware and
`core`; the check's `shape` extractor verifies that `next_global_modules_generation` is
still a single `fetch_add`). Atomic steps of concurrent threads are totally ordered, so
whatever the interleaving, the draws of a process form one sequence.
-/
namespace FH

/-- The sequence of values drawn by `n` consecutive atomic draws starting at counter `c0`. -/
def drawSeq : Nat → Nat → List Nat
  | _, 0 => []
  | c, n + 1 => (drawGen c).1 :: drawSeq (drawGen c).2 n

theorem drawSeq_get (c0 : Nat) (hc : c0 < U16) : ∀ n k, k < n →
    (drawSeq c0 n)[k]? = some ((c0 + k) % U16)
  | 0, k, h => by omega
  | n + 1, 0, _ => by simp [drawSeq, drawGen, Nat.mod_eq_of_lt hc]
  | n + 1, k + 1, h => by
    simp only [drawSeq, drawGen, List.getElem?_cons_succ]
    rw [drawSeq_get ((c0 + 1) % U16) (Nat.mod_lt _ (by decide)) n k (by omega)]
    congr 1
    unfold U16
    omega

theorem drawSeq_length (c0 n : Nat) : (drawSeq c0 n).length = n := by
  induction n generalizing c0 with
  | zero => rfl
  | succ n ih => simp [drawSeq, ih]

/-- Any two of fewer than 65 536 (in fact up to 65 536) draws yield different values. -/
theorem C18_draws_pairwise_distinct (c0 n : Nat) (hc : c0 < U16) (hn : n ≤ U16) (i j : Nat)
    (hi : i < n) (hj : j < n) (hij : i ≠ j) : (drawSeq c0 n)[i]? ≠ (drawSeq c0 n)[j]? := by
  rw [drawSeq_get c0 hc n i hi, drawSeq_get c0 hc n j hj]
  unfold U16 at *
  intro h
  injection h with h
  omega

/-- A schedule assigns each atomic draw to a thread; the value a draw returns depends only
on its position in the global order, not on the schedule. -/
def runSchedule (c0 : Nat) : List Nat → List (Nat × Nat)
  | [] => []
  | t :: rest => (t, (drawGen c0).1) :: runSchedule (drawGen c0).2 rest

theorem C18_schedule_independent (c0 : Nat) (sched : List Nat) :
    (runSchedule c0 sched).map (·.2) = drawSeq c0 sched.length := by
  induction sched generalizing c0 with
  | nil => rfl
  | cons t rest ih => simp [runSchedule, drawSeq, ih]

/-- In any reachable state of a history (fewer than 65 536 draws), two live unwinders with the
same generation have the same module list: a cache entry recorded for one is valid for the
other. Together with `EntriesOK` (C06) a cache never serves a rule computed for other modules. -/
theorem C18_same_generation_same_modules (A : Arch) (N : Nat) (kind : Nat → Bool) (c0 : Nat)
    (ops : List (HOp A)) (hd : (ops.map drawsOf).sum < U16)
    (hc : ∀ op ∈ ops, op.Consistent kind) (u v : Unw)
    (hu : u ∈ (hrun A N (HWorld.init A c0) ops).unws)
    (hv : v ∈ (hrun A N (HWorld.init A c0) ops).unws) (hg : u.gen = v.gen) : u.mods = v.mods := by
  have inv : HInv A kind (hrun A N (HWorld.init A c0) ops) :=
    hinv_run ops _ (hinv_init A kind c0) (by simpa [HWorld.init] using hd) hc
  have a := inv.unws_ok u hu
  have b := inv.unws_ok v hv
  rw [hg, b] at a
  injection a with a
  exact a.symm

example : drawSeq 65534 4 = [65534, 65535, 0, 1] := by decide

end FH
