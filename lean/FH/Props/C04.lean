import FH.DwarfSpec
import FH.Hist
/-!
# C04 — Frame-pointer fallback and leaf assumption when no unwind info applies
-/
namespace FH

/-- The platform frame-pointer convention: return address at `[fp+8]`, caller's frame pointer
at `[fp]`, caller's stack pointer `fp+16`. -/
def fpConvention (fp : Nat) (mem : Mem) : Option (Nat × Nat × Nat) :=
  match mem (fp + 8), mem fp with
  | some ra, some fp' => some (ra, fp + 16, fp')
  | _, _ => none

/-! ## Which rule is used when no unwind information applies -/

/-- Address in no registered module: the fallback (frame pointer) rule, first frame or not. -/
theorem C04_no_module_uses_fallback (A : Arch) (u : Unw) (addr : FrameAddr) (regs : A.Regs)
    (mem : Mem) (h : findModule u.mods addr.lookup = none) :
    missPath A u addr regs mem =
      (some A.fallback, A.exec A.fallback (!addr.isReturn) regs mem) := by
  simp [missPath, h]

/-- Module without (usable) unwind sections, or whose index cannot be built, or whose table
lookup fails: the fallback rule. -/
theorem C04_no_unwind_data_uses_fallback (A : Arch) (u : Unw) (addr : FrameAddr) (regs : A.Regs)
    (mem : Mem) (i rel : Nat) (m : Module) (hf : findModule u.mods addr.lookup = some (i, rel))
    (hm : u.mods[i]? = some m)
    (hd : m.data = .none ∨ ∃ pres fdes, m.data = .dwarf pres fdes ∧
      (dwarfLookup pres fdes m.baseSvma rel = .noData ∨
       dwarfLookup pres fdes m.baseSvma rel = .failed)) :
    missPath A u addr regs mem =
      (some A.fallback, A.exec A.fallback (!addr.isReturn) regs mem) := by
  have hp : plan A m rel (!addr.isReturn) = .staticErr := by
    rcases hd with hd | ⟨pres, fdes, hd, hl | hl⟩ <;> simp [plan, hd, *]
  simp [missPath, hf, hm, hp]

/-- Address inside a DWARF module but covered by no FDE: the architecture's
"uncovered" rule (leaf in the first frame, frame pointer otherwise). -/
theorem C04_uncovered_uses_leaf_or_fp (A : Arch) (u : Unw) (addr : FrameAddr) (regs : A.Regs)
    (mem : Mem) (i rel : Nat) (m : Module) (pres : Pres) (fdes : List Fde)
    (hf : findModule u.mods addr.lookup = some (i, rel)) (hm : u.mods[i]? = some m)
    (hd : m.data = .dwarf pres fdes) (hl : dwarfLookup pres fdes m.baseSvma rel = .uncovered) :
    missPath A u addr regs mem =
      (some A.uncovered, A.exec A.uncovered (!addr.isReturn) regs mem) := by
  have hp : plan A m rel (!addr.isReturn) = .exec A.uncovered := by simp [plan, hd, hl]
  simp [missPath, hf, hm, hp]

/-! ## What those rules do -/

/-- x86-64 frame pointer rule = the convention (given framehop's sanity checks: the frame
pointer is not null, the new stack pointer fits and lies above the old one, the return
address is not null). -/
theorem C04_x64_fp_rule_is_convention (first : Bool) (regs : RegsX64) (mem : Mem)
    (ra sp' bp' : Nat) (hc : fpConvention regs.bp mem = some (ra, sp', bp'))
    (h0 : regs.bp ≠ 0) (hlt : regs.bp + 16 < U64) (hgt : regs.sp < regs.bp + 16) (hra : ra ≠ 0) :
    execX64 .useFramePointer first regs mem = .ret (.frame ra) (afterX64 regs ra sp' bp') := by
  unfold fpConvention at hc
  cases h8 : mem (regs.bp + 8) with
  | none => simp [h8] at hc
  | some ra' =>
    cases hb : mem regs.bp with
    | none => simp [h8, hb] at hc
    | some b =>
      simp only [h8, hb] at hc
      injection hc with hc
      injection hc with e1 hc
      injection hc with e2 e3
      subst e1 e2 e3
      simp only [execX64, fpStepX64, h0, if_false, cadd_eq_some hlt]
      have : ¬ (regs.bp + 16 ≤ regs.sp) := by omega
      simp only [this, if_false, hb]
      apply finishX64_ok (by omega) (by simpa using h8) hra
      intro ⟨e, _⟩; omega

/-- x86-64, uncovered address: a first frame is a frameless leaf (return address on top of the
stack); a caller frame follows the frame pointer convention. -/
theorem C04_x64_uncovered_first_frame_is_leaf (regs : RegsX64) (mem : Mem) (ra : Nat)
    (hr : mem regs.sp = some ra) (hlt : regs.sp + 8 < U64) (hra : ra ≠ 0) :
    execX64 .justReturnIfFirstFrameOtherwiseFp true regs mem =
      .ret (.frame ra) (afterX64 regs ra (regs.sp + 8) regs.bp) := by
  simp only [execX64, if_true, cadd_eq_some hlt]
  apply finishX64_ok (by omega) (by simpa using hr) hra
  intro ⟨e, _⟩; omega

theorem C04_x64_uncovered_caller_frame_is_fp_rule (regs : RegsX64) (mem : Mem) :
    execX64 .justReturnIfFirstFrameOtherwiseFp false regs mem =
      execX64 .useFramePointer false regs mem := by
  simp [execX64]

/-- aarch64 frame pointer rule = the convention (sanity checks: restored frame pointer not
null and above the current one, new stack pointer above the old one). -/
theorem C04_a64_fp_rule_is_convention (first : Bool) (regs : RegsA64) (mem : Mem)
    (lr' sp' fp' : Nat) (hc : fpConvention regs.fp mem = some (lr', sp', fp'))
    (hlt : regs.fp + 16 < U64) (h0 : fp' ≠ 0) (hfp : regs.fp < fp') (hsp : regs.sp < regs.fp + 16)
    (hra : strip regs.mask lr' ≠ 0) :
    execA64 .useFramePointer first regs mem =
      .ret (.frame (strip regs.mask lr')) (afterA64 regs lr' sp' fp') := by
  unfold fpConvention at hc
  cases h8 : mem (regs.fp + 8) with
  | none => simp [h8] at hc
  | some l =>
    cases hb : mem regs.fp with
    | none => simp [h8, hb] at hc
    | some b =>
      simp only [h8, hb] at hc
      injection hc with hc
      injection hc with e1 hc
      injection hc with e2 e3
      subst e1 e2 e3
      simp only [execA64, cadd_eq_some hlt]
      rw [uaddP_eq _ _ (by omega)]
      have h1 : ¬ (b ≤ regs.fp ∨ regs.fp + 16 ≤ regs.sp) := by omega
      simp only [h8, hb, h0, h1, if_false]
      exact finishA64_ok hra (by intro _; omega)

/-- aarch64, uncovered address, first frame: frameless leaf, the return address is `lr`. -/
theorem C04_a64_uncovered_first_frame_is_leaf (regs : RegsA64) (mem : Mem)
    (hra : strip regs.mask regs.lr ≠ 0) :
    execA64 .noOpIfFirstFrameOtherwiseFp true regs mem =
      .ret (.frame (strip regs.mask regs.lr)) (afterA64 regs regs.lr regs.sp regs.fp) := by
  simp only [execA64, if_true]
  exact finishA64_ok hra (by intro h; cases h)

/-- aarch64, uncovered address, caller frame: the frame pointer convention. -/
theorem C04_a64_uncovered_caller_frame_is_convention (regs : RegsA64) (mem : Mem)
    (lr' sp' fp' : Nat) (hc : fpConvention regs.fp mem = some (lr', sp', fp'))
    (hlt : regs.fp + 16 < U64) (h0 : fp' ≠ 0) (hsp : regs.sp < regs.fp + 16)
    (hra : strip regs.mask lr' ≠ 0) :
    execA64 .noOpIfFirstFrameOtherwiseFp false regs mem =
      .ret (.frame (strip regs.mask lr')) (afterA64 regs lr' sp' fp') := by
  unfold fpConvention at hc
  cases h8 : mem (regs.fp + 8) with
  | none => simp [h8] at hc
  | some l =>
    cases hb : mem regs.fp with
    | none => simp [h8, hb] at hc
    | some b =>
      simp only [h8, hb] at hc
      injection hc with hc
      injection hc with e1 hc
      injection hc with e2 e3
      subst e1 e2 e3
      simp only [execA64, Bool.false_eq_true, if_false, cadd_eq_some hlt]
      rw [uaddP_eq _ _ (by omega)]
      have h1 : ¬ (regs.fp + 16 ≤ regs.sp) := by omega
      simp only [h8, hb, h0, h1, if_false]
      exact finishA64_ok hra (by intro _; omega)

/-! ## End of a frame pointer chain -/

/-- A null frame pointer (x86-64: the frame's own rbp; aarch64: the restored fp) or a null
return address completes the walk with `Ok(None)`. -/
theorem C04_x64_null_fp_ends_chain (first : Bool) (regs : RegsX64) (mem : Mem) (h : regs.bp = 0) :
    execX64 .useFramePointer first regs mem = .ret .done regs ∧
    execX64 .justReturnIfFirstFrameOtherwiseFp false regs mem = .ret .done regs := by
  simp [execX64, fpStepX64, h]

theorem C04_a64_null_fp_ends_chain (first : Bool) (regs : RegsA64) (mem : Mem) (l : Nat)
    (hlt : regs.fp + 16 < U64) (h8 : mem (regs.fp + 8) = some l) (hb : mem regs.fp = some 0) :
    execA64 .useFramePointer first regs mem = .ret .done regs ∧
    execA64 .noOpIfFirstFrameOtherwiseFp false regs mem = .ret .done regs := by
  constructor
  · simp only [execA64, cadd_eq_some hlt]
    rw [uaddP_eq _ _ (by omega)]
    simp [h8, hb]
  · simp only [execA64, Bool.false_eq_true, if_false, cadd_eq_some hlt]
    rw [uaddP_eq _ _ (by omega)]
    simp [h8, hb]

theorem C04_x64_null_return_address_ends_chain (first : Bool) (regs : RegsX64) (mem : Mem) (b : Nat)
    (h0 : regs.bp ≠ 0) (hlt : regs.bp + 16 < U64) (hgt : regs.sp < regs.bp + 16)
    (hb : mem regs.bp = some b) (h8 : mem (regs.bp + 8) = some 0) :
    execX64 .useFramePointer first regs mem = .ret .done regs := by
  simp only [execX64, fpStepX64, h0, if_false, cadd_eq_some hlt]
  have : ¬ (regs.bp + 16 ≤ regs.sp) := by omega
  simp only [this, if_false, hb]
  unfold finishX64
  have h1 : ¬ regs.bp + 16 < 8 := by omega
  have h2 : regs.bp + 16 - 8 = regs.bp + 8 := by omega
  simp [h1, h2, h8]

/-! ## Whole chains (x86-64) -/

/-- A well-formed chain of frame records starting at frame pointer `fp` with stack pointer
`sp`: each record is readable, lies above the previous stack pointer and holds a non-null
return address; the chain ends with a null frame pointer. -/
inductive FpChain (mem : Mem) : Nat → Nat → List Nat → Prop where
  | nil (sp : Nat) : FpChain mem sp 0 []
  | cons (sp fp fp' ra : Nat) (rest : List Nat) (h0 : fp ≠ 0) (hlt : fp + 16 < U64)
      (hgt : sp < fp + 16) (hb : mem fp = some fp') (h8 : mem (fp + 8) = some ra) (hra : ra ≠ 0)
      (tail : FpChain mem (fp + 16) fp' rest) : FpChain mem sp fp (ra :: rest)

/-- Repeated frame pointer steps (caller-frame mode), at most `n`. -/
def fpWalkX64 (mem : Mem) : Nat → RegsX64 → List Res
  | 0, _ => []
  | n + 1, regs =>
    match execX64 .useFramePointer false regs mem with
    | .ret (.frame ra) regs' => .frame ra :: fpWalkX64 mem n regs'
    | .ret r _ => [r]
    | .panic _ => []

/-- Walking a well-formed frame pointer chain yields exactly the records' return addresses
and completes with `Ok(None)`, whatever its length, spacing or alignment. -/
theorem C04_x64_fp_chain_walk (mem : Mem) (sp fp : Nat) (ras : List Nat)
    (h : FpChain mem sp fp ras) (regs : RegsX64) (hsp : regs.sp = sp) (hbp : regs.bp = fp) :
    fpWalkX64 mem (ras.length + 1) regs = ras.map .frame ++ [.done] := by
  induction h generalizing regs with
  | nil sp =>
    simp only [List.length_nil, fpWalkX64]
    rw [(C04_x64_null_fp_ends_chain false regs mem hbp).1]
    rfl
  | cons sp fp fp' ra rest h0 hlt hgt hb h8 hra tail ih =>
    have hc : fpConvention regs.bp mem = some (ra, fp + 16, fp') := by
      simp [fpConvention, hbp, hb, h8]
    have step := C04_x64_fp_rule_is_convention false regs mem ra (fp + 16) fp' hc
      (by rw [hbp]; exact h0) (by rw [hbp]; exact hlt) (by rw [hsp, hbp]; exact hgt) hra
    simp only [List.length_cons, fpWalkX64, step, List.map_cons, List.cons_append]
    congr 1
    exact ih (afterX64 regs ra (fp + 16) fp') (sp_of_finish _ _ _ _) (bp_of_finish _ _ _ _)

-- Non-vacuity: a two-record chain.
example :
    let mem : Mem := fun a =>
      if a = 0x100 then some 0x200 else if a = 0x108 then some 0xaaa else
      if a = 0x200 then some 0 else if a = 0x208 then some 0xbbb else none
    FpChain mem 0x50 0x100 [0xaaa, 0xbbb] := by
  intro mem
  refine .cons _ _ 0x200 _ _ (by decide) (by decide) (by decide) (by decide) (by decide) (by decide) ?_
  refine .cons _ _ 0 _ _ (by decide) (by decide) (by decide) (by decide) (by decide) (by decide) ?_
  exact .nil _

/-! ## Whole chains (aarch64) -/

/-- A well-formed chain of frame records on aarch64. The walk ends at the record whose saved
frame pointer is null; framehop does not report that record's return address (the outermost
frame's caller does not exist). -/
inductive FpChainA64 (mem : Mem) (mask : Nat) : Nat → Nat → List Nat → Prop where
  | last (sp fp l : Nat) (hlt : fp + 16 < U64) (h8 : mem (fp + 8) = some l) (hb : mem fp = some 0) :
      FpChainA64 mem mask sp fp []
  | cons (sp fp fp' lr' : Nat) (rest : List Nat) (hlt : fp + 16 < U64) (hb : mem fp = some fp')
      (h8 : mem (fp + 8) = some lr') (h0 : fp' ≠ 0) (hfp : fp < fp') (hsp : sp < fp + 16)
      (hra : strip mask lr' ≠ 0) (tail : FpChainA64 mem mask (fp + 16) fp' rest) :
      FpChainA64 mem mask sp fp (strip mask lr' :: rest)

def fpWalkA64 (mem : Mem) : Nat → RegsA64 → List Res
  | 0, _ => []
  | n + 1, regs =>
    match execA64 .useFramePointer false regs mem with
    | .ret (.frame ra) regs' => .frame ra :: fpWalkA64 mem n regs'
    | .ret r _ => [r]
    | .panic _ => []

/-- Walking a well-formed aarch64 frame record chain yields exactly the (stripped) return
addresses of its records and completes with `Ok(None)`. -/
theorem C04_a64_fp_chain_walk (mem : Mem) (mask sp fp : Nat) (ras : List Nat)
    (h : FpChainA64 mem mask sp fp ras) (regs : RegsA64) (hm : regs.mask = mask)
    (hsp : regs.sp = sp) (hfp : regs.fp = fp) :
    fpWalkA64 mem (ras.length + 1) regs = ras.map .frame ++ [.done] := by
  induction h generalizing regs with
  | last sp fp l hlt h8 hb =>
    simp only [List.length_nil, fpWalkA64]
    rw [(C04_a64_null_fp_ends_chain false regs mem l (by rw [hfp]; exact hlt)
      (by rw [hfp]; exact h8) (by rw [hfp]; exact hb)).1]
    rfl
  | cons sp fp fp' lr' rest hlt hb h8 h0 hfp' hsp' hra tail ih =>
    have hc : fpConvention regs.fp mem = some (lr', fp + 16, fp') := by
      simp [fpConvention, hfp, hb, h8]
    have step := C04_a64_fp_rule_is_convention false regs mem lr' (fp + 16) fp' hc
      (by rw [hfp]; exact hlt) h0 (by rw [hfp]; exact hfp') (by rw [hsp, hfp]; exact hsp')
      (by rw [hm]; exact hra)
    simp only [List.length_cons, fpWalkA64, step, List.map_cons, List.cons_append, hm]
    congr 1
    exact ih (afterA64 regs lr' (fp + 16) fp') (by simp [afterA64, hm]) (by simp [afterA64])
      (by simp [afterA64])

end FH
