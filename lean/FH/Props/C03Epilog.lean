import FH.PeEpilog
import FH.Props.C03
/-!
# C03 — exact inside epilogs
-/
namespace FH

/-- **Exact at every instruction boundary of an epilog** `add rsp, n; pop r…; ret` (stopped
before the `add`: as stated; stopped later: `n = 0` and the pops that are left - in particular
`pops = []` for a thread stopped on the `ret`): simulating the rest of the epilog pops exactly
what the documented procedure pops from the frame. -/
theorem C03_epilog_unwind_is_the_procedure (fr : Option Nat) (A n : Nat) (mem : Mem)
    (pops : List Nat) (r : Nat → Nat) (ra : Nat) (r' : Nat → Nat) (hsp : r RSP = A)
    (hn : RSP ∉ pops.map peReg) (hlt : A + n + 8 * pops.length + 8 < U64)
    (hspec : popSpecLoop mem (pops.map peReg) (A + n) (setReg r RSP (A + n)) = some (ra, r')) :
    interpEpilog fr mem (.addSP n :: pops.map .pop) r = .ok ra r' :=
  interpEpilog_addSP fr A n mem pops r ra r' hsp hn hlt hspec

/-- The same for a function with a frame register: `lea rsp, [fr + x]` re-establishes the stack
pointer from the frame register wherever `rsp` currently is. -/
theorem C03_epilog_with_frame_register (f fo A n x : Nat) (mem : Mem) (pops : List Nat)
    (r : Nat → Nat) (ra : Nat) (r' : Nat → Nat) (hfp : r (peReg f) = A + fo) (hx : fo + x = n)
    (hn : RSP ∉ pops.map peReg) (hlt : A + n + 8 * pops.length + 8 < U64)
    (hspec : popSpecLoop mem (pops.map peReg) (A + n) (setReg r RSP (A + n)) = some (ra, r')) :
    interpEpilog (some f) mem (.addSPFromFP x :: pops.map .pop) r = .ok ra r' :=
  interpEpilog_addSPFromFP f fo A n x mem pops r ra r' hfp hx hn hlt hspec

/-- **Body and epilog agree**: stopped on the first instruction of the epilog, the epilog
simulation (first frames) and the unwind codes (what a caller frame at the same address would
use) give the same answer. -/
theorem C03_epilog_agrees_with_unwind_codes (A n : Nat) (mem : Mem) (pops : List Nat)
    (r : Nat → Nat) (ra : Nat) (r' : Nat → Nat) (hsp : r RSP = A) (hn : RSP ∉ pops.map peReg)
    (hlt : A + n + 8 * pops.length + 8 < U64)
    (hspec : popSpecLoop mem (pops.map peReg) (A + n) (setReg r RSP (A + n)) = some (ra, r')) :
    interpEpilog none mem (.addSP n :: pops.map .pop) r =
      interpOps none 0 mem ([.unStackAlloc n] ++ pops.map .popNonVolatile) r :=
  epilog_agrees_with_body A n mem pops r ra r' hsp hn hlt hspec

/-- Non-vacuity: stopped on `pop rbx` (one pop left) of `add rsp, 0x20; pop rbx; ret`. -/
example :
    let mem : Mem := fun a => if a = 0x1020 then some 0xb0b else if a = 0x1028 then some 0x401000 else none
    let r : Nat → Nat := fun i => if i = RSP then 0x1020 else 5
    interpEpilog none mem (.addSP 0 :: [3].map .pop) r =
      .ok 0x401000 (setReg (setReg (setReg r RSP 0x1020) 3 0xb0b) RSP 0x1030) := by
  intro mem r
  exact C03_epilog_unwind_is_the_procedure none 0x1020 0 mem [3] r 0x401000 _ rfl (by decide)
    (by decide) rfl

end FH
