import FH.DwarfSpec
import FH.Hist
import FH.Props.C06
/-!
# C01 — DWARF CFI unwinding recovers the true call chain at every instruction

A *true call chain* is a list of frames, each with the row the CFI gives for the address the
frame is stopped at and the registers the thread has there, such that the DWARF meaning of
each row on its frame's registers is exactly the next frame (`ExactChain…`; the root's row
declares the return address undefined). The harness's program generator produces such chains
for every instruction boundary of the supported function shapes, and the Lean driver
re-validates each generated step with `dwarfSpec` before it is used as ground truth.
-/
namespace FH

/-- What `unwind_frame` does on a cache miss for an address whose module yields `row`. -/
def stepRow (A : Arch) (row : Row) (first : Bool) (regs : A.Regs) (mem : Mem) : Out A.Regs :=
  match A.translate row with
  | some r => A.exec r first regs mem
  | none =>
    match A.generic row first regs mem with
    | .ok ra regs' => .ret (resOfRa ra) regs'
    | .err _ => A.exec A.fallback first regs mem
    | .panic s => .panic s

/-- `unwind_frame` with a fresh cache is `stepRow` of the row the module's CFI resolves to. -/
theorem unwindFrame_fresh_is_stepRow (A : Arch) (N : Nat) (u : Unw) (addr : FrameAddr)
    (regs : A.Regs) (mem : Mem) (i rel : Nat) (m : Module) (pres : Pres) (fdes : List Fde) (row : Row)
    (hf : findModule u.mods addr.lookup = some (i, rel)) (hm : u.mods[i]? = some m)
    (hd : m.data = .dwarf pres fdes) (hl : dwarfLookup pres fdes m.baseSvma rel = .row row) :
    (unwindFrame A N u Cache.empty addr regs mem).2 = stepRow A row (!addr.isReturn) regs mem := by
  rw [unwindFrame_empty]
  unfold missPath stepRow
  simp only [hf, hm, plan, hd, hl]
  cases A.translate row with
  | some r => rfl
  | none =>
    simp only []
    cases A.generic row (!addr.isReturn) regs mem <;> rfl

/-- One exact step, x86-64: if the row's DWARF meaning on the frame's registers is
`(ra, cfa, fp')` on a real stack (non-null return address, the CFA fits and lies above the
stack pointer or the frame is the first with some progress, a non-null frame pointer where the
row is the frame pointer row), the step yields exactly that. -/
theorem C01_x64_exact_step (row : Row) (first : Bool) (regs : RegsX64) (mem : Mem) (ra : Nat)
    (cfa : Int) (fp' : Nat) (hrow : row.WF) (hregs : regs.WF)
    (hs : dwarfSpec row regs.sp regs.bp regs.ip mem = .step ra cfa fp')
    (hcfa : 0 ≤ cfa ∧ cfa < 18446744073709551616) (hra : ra ≠ 0)
    (hadv : ¬(cfa = regs.sp ∧ ra = regs.ip)) (hcaller : first = false → (regs.sp : Int) < cfa)
    (hfp : translateX64 row = some .useFramePointer → regs.bp ≠ 0 ∧ (regs.sp : Int) < cfa) :
    stepRow archX64 row first regs mem = .ret (.frame ra) (afterX64 regs ra cfa.toNat fp') := by
  unfold stepRow
  cases ht : archX64.translate row with
  | some r =>
    simp only []
    exact translateX64_exact row r first regs mem ra cfa fp' hrow hregs ht hs hcfa hra hadv
      (fun e => hfp (by rw [← e]; exact ht))
  | none =>
    simp only []
    have := genericX64_exact row first regs mem ra cfa fp' hrow hregs hs hcfa hadv hcaller
    have e : archX64.generic row first regs mem = genericX64 row first regs mem := rfl
    rw [e, this]
    simp [resOfRa, hra]

/-- The root: a row declaring the return address undefined completes the walk. -/
theorem C01_x64_root_completes (row : Row) (first : Bool) (regs : RegsX64) (mem : Mem)
    (h : row.ra = .undefined) : stepRow archX64 row first regs mem = .ret .done regs := by
  have ht : archX64.translate row = some .endOfStack := by
    show translateX64 row = some RuleX64.endOfStack
    simp [translateX64, h]
  simp only [stepRow, ht]
  rfl

/-- A true call chain (x86-64): rows with the registers of each frame, innermost first. -/
inductive ExactChainX64 (mem : Mem) : Bool → List Row → RegsX64 → List Nat → Prop where
  | root (first : Bool) (row : Row) (regs : RegsX64) (h : row.ra = .undefined) :
      ExactChainX64 mem first [row] regs []
  | step (first : Bool) (row : Row) (rows : List Row) (regs : RegsX64) (ra : Nat) (cfa : Int)
      (fp' : Nat) (ras : List Nat) (hrow : row.WF) (hregs : regs.WF)
      (hs : dwarfSpec row regs.sp regs.bp regs.ip mem = .step ra cfa fp')
      (hcfa : 0 ≤ cfa ∧ cfa < 18446744073709551616) (hra : ra ≠ 0)
      (hadv : ¬(cfa = regs.sp ∧ ra = regs.ip)) (hcaller : first = false → (regs.sp : Int) < cfa)
      (hfp : translateX64 row = some .useFramePointer → regs.bp ≠ 0 ∧ (regs.sp : Int) < cfa)
      (tail : ExactChainX64 mem false rows (afterX64 regs ra cfa.toNat fp') ras) :
      ExactChainX64 mem first (row :: rows) regs (ra :: ras)

/-- The walk over the rows of a chain. -/
def walkX64 (mem : Mem) : Bool → List Row → RegsX64 → List Res
  | _, [], _ => []
  | first, row :: rows, regs =>
    match stepRow archX64 row first regs mem with
    | .ret (.frame ra) regs' => .frame ra :: walkX64 mem false rows regs'
    | .ret r _ => [r]
    | .panic _ => []

/-- **C01 (x86-64).** Walking a true call chain yields exactly its return addresses — each
step leaving the caller's registers, as `ExactChainX64.step` demands of the next frame — and
completes with `Ok(None)` at the root. Chains are unbounded in depth; rows and registers are
arbitrary within the C05 domain. -/
theorem C01_x64_walk (mem : Mem) (first : Bool) (rows : List Row) (regs : RegsX64) (ras : List Nat)
    (h : ExactChainX64 mem first rows regs ras) :
    walkX64 mem first rows regs = ras.map .frame ++ [.done] := by
  induction h with
  | root first row regs h =>
    simp [walkX64, C01_x64_root_completes row first regs mem h]
  | step first row rows regs ra cfa fp' ras hrow hregs hs hcfa hra hadv hcaller hfp tail ih =>
    simp only [walkX64, C01_x64_exact_step row first regs mem ra cfa fp' hrow hregs hs hcfa hra hadv
      hcaller hfp, List.map_cons, List.cons_append]
    rw [ih]

/-- One exact step, aarch64. `raRaw` is the (possibly signed) word DWARF prescribes; the
reported address is stripped. In caller frames the row must restore `lr` from a slot and say
how to recover `fp` (framehop's requirements on caller frames); for frame pointer based CFAs
the usual frame record sanity must hold. -/
theorem C01_a64_exact_step (row : Row) (first : Bool) (regs : RegsA64) (mem : Mem) (raRaw : Nat)
    (cfa : Int) (fp' : Nat) (hrow : row.WF) (hregs : regs.WF)
    (hs : dwarfSpec row regs.sp regs.fp regs.lr mem = .step raRaw cfa fp')
    (hcfa : 0 ≤ cfa ∧ cfa < 18446744073709551616) (hra : strip regs.mask raRaw ≠ 0)
    (hcaller : first = false → (regs.sp : Int) < cfa ∧ (∃ n, row.ra = .offset n) ∧ row.fp ≠ .undefined)
    (hfp : (∃ off, row.cfa = .regOff .fp off) → fp' ≠ 0 ∧ regs.fp < fp' ∧ (regs.sp : Int) < cfa) :
    stepRow archA64 row first regs mem =
      .ret (.frame (strip regs.mask raRaw)) (afterA64 regs raRaw cfa.toNat fp') := by
  unfold stepRow
  cases ht : archA64.translate row with
  | some r =>
    simp only []
    exact translateA64_exact row r first regs mem raRaw cfa fp' hrow hregs ht hs hcfa hra
      (fun e => ⟨(hcaller e).1, (hcaller e).2.1⟩) hfp
  | none =>
    simp only []
    have := genericA64_exact row first regs mem raRaw cfa fp' hrow hregs hs hcfa
      (fun e => ⟨(hcaller e).1, (hcaller e).2.2⟩)
    have e : archA64.generic row first regs mem = genericA64 row first regs mem := rfl
    rw [e, this]
    simp [resOfRa, hra]

theorem translateA64_of_undefined_ra {row : Row} {r : RuleA64} (h : row.ra = .undefined)
    (ht : translateA64 row = some r) : ∃ k, r = .offsetSpIfFirstFrameOtherwiseStackEndsHere k := by
  unfold translateA64 at ht
  have hra : regRuleToCfaOffset row.ra = .none := by simp [regRuleToCfaOffset, h]
  cases hc : row.cfa with
  | expr => simp [hc] at ht
  | exprRegOff _ _ => simp [hc] at ht
  | regOff reg off =>
    cases reg with
    | ra => simp [hc] at ht
    | other => simp [hc] at ht
    | fp => simp [hc, hra] at ht
    | sp =>
      simp only [hc] at ht
      cases hk : exactDivU16 off 16 with
      | none => simp [hk] at ht
      | some k =>
        simp only [hk, hra] at ht
        cases hf : regRuleToCfaOffset row.fp with
        | err => simp [hf] at ht
        | some f => simp [hf] at ht
        | none =>
          simp only [hf, h, if_true] at ht
          injection ht with ht
          exact ⟨k, ht.symm⟩

/-- The aarch64 root, reached as a caller frame: a row declaring the return address undefined
completes the walk, whether or not the row is compressed into a rule. (In the *first* frame
framehop deliberately treats such a row as same-value - known finding F14.) -/
theorem C01_a64_root_completes (row : Row) (regs : RegsA64) (mem : Mem)
    (h : row.ra = .undefined) : stepRow archA64 row false regs mem = .ret .done regs := by
  unfold stepRow
  cases ht : archA64.translate row with
  | none =>
    have e : archA64.generic row false regs mem = .ok 0 regs := by
      show genericA64 row false regs mem = _
      unfold genericA64
      rw [if_pos (by simp [h])]
      rfl
    simp only [e]
    rfl
  | some r =>
    obtain ⟨k, hk⟩ := translateA64_of_undefined_ra h ht
    subst hk
    simp only []
    show execA64 (.offsetSpIfFirstFrameOtherwiseStackEndsHere k) false regs mem = _
    simp only [execA64, Bool.not_false, if_true]
    rfl

/-- A true call chain (aarch64): rows with the registers of each frame, innermost first; the
root is reached as a caller frame. -/
inductive ExactChainA64 (mem : Mem) : Bool → List Row → RegsA64 → List Nat → Prop where
  | root (row : Row) (regs : RegsA64) (h : row.ra = .undefined) :
      ExactChainA64 mem false [row] regs []
  | step (first : Bool) (row : Row) (rows : List Row) (regs : RegsA64) (raRaw : Nat) (cfa : Int)
      (fp' : Nat) (ras : List Nat) (hrow : row.WF) (hregs : regs.WF)
      (hs : dwarfSpec row regs.sp regs.fp regs.lr mem = .step raRaw cfa fp')
      (hcfa : 0 ≤ cfa ∧ cfa < 18446744073709551616) (hra : strip regs.mask raRaw ≠ 0)
      (hcaller : first = false →
        (regs.sp : Int) < cfa ∧ (∃ n, row.ra = .offset n) ∧ row.fp ≠ .undefined)
      (hfp : (∃ off, row.cfa = .regOff .fp off) → fp' ≠ 0 ∧ regs.fp < fp' ∧ (regs.sp : Int) < cfa)
      (tail : ExactChainA64 mem false rows (afterA64 regs raRaw cfa.toNat fp') ras) :
      ExactChainA64 mem first (row :: rows) regs (strip regs.mask raRaw :: ras)

def walkA64 (mem : Mem) : Bool → List Row → RegsA64 → List Res
  | _, [], _ => []
  | first, row :: rows, regs =>
    match stepRow archA64 row first regs mem with
    | .ret (.frame ra) regs' => .frame ra :: walkA64 mem false rows regs'
    | .ret r _ => [r]
    | .panic _ => []

/-- **C01 (aarch64).** Walking a true call chain yields exactly its (stripped) return addresses,
with the caller's registers after each step, and completes with `Ok(None)` at the root. -/
theorem C01_a64_walk (mem : Mem) (first : Bool) (rows : List Row) (regs : RegsA64) (ras : List Nat)
    (h : ExactChainA64 mem first rows regs ras) :
    walkA64 mem first rows regs = ras.map .frame ++ [.done] := by
  induction h with
  | root row regs h =>
    simp [walkA64, C01_a64_root_completes row regs mem h]
  | step first row rows regs raRaw cfa fp' ras hrow hregs hs hcfa hra hcaller hfp tail ih =>
    simp only [walkA64, C01_a64_exact_step row first regs mem raRaw cfa fp' hrow hregs hs hcfa hra
      hcaller hfp, List.map_cons, List.cons_append]
    rw [ih]

/-- With any cache a history can have produced, the step is the same (C06). -/
theorem C01_cache_state_is_irrelevant (A : Arch) (N : Nat) (kind : Nat → Bool) (c0 : Nat)
    (ops : List (HOp A)) (hd : (ops.map drawsOf).sum < U16)
    (hc : ∀ op ∈ ops, op.Consistent kind)
    (i : Nat) (u : Unw) (hu : (hrun A N (HWorld.init A c0) ops).unws[i]? = some u)
    (addr : FrameAddr) (hk : kind addr.lookup = !addr.isReturn) (regs : A.Regs) (mem : Mem) :
    (unwindFrame A N u (hrun A N (HWorld.init A c0) ops).cache addr regs mem).2 =
      (unwindFrame A N u Cache.empty addr regs mem).2 :=
  C06_cache_transparency A N kind c0 ops hd hc i u hu addr hk regs mem

-- Non-vacuity: a two-frame chain (leaf called from the root) on a concrete stack.
example :
    let mem : Mem := fun a => if a = 0x1000 then some 0x401234 else none
    let leaf : Row := { cfa := .regOff .sp 8, fp := .sameValue, ra := .offset (-8) }
    let root : Row := { cfa := .regOff .sp 8, fp := .sameValue, ra := .undefined }
    let regs : RegsX64 := ⟨0x400100, fun i => if i = RSP then 0x1000 else 0⟩
    walkX64 mem true [leaf, root] regs = [.frame 0x401234, .done] := by
  decide

-- Non-vacuity (aarch64): a leaf interrupted in its body, called from the root.
example :
    let mem : Mem := fun _ => none
    let leaf : Row := { cfa := .regOff .sp 0, fp := .sameValue, ra := .sameValue }
    let root : Row := { cfa := .regOff .sp 16, fp := .sameValue, ra := .undefined }
    let regs : RegsA64 := { mask := 0xffffffffffff, lr := 0x100234, sp := 0x7000, fp := 0x7100 }
    walkA64 mem true [leaf, root] regs = [.frame 0x100234, .done] := by
  decide

end FH
