import FH.World
import FH.Select
/-!
# C19 — Every feature combination builds and unwinds identically

**Partial by nature.** "Builds" is not a statement about any model: it is decided by building
framehop (public API only, crate `/verif/featrun`) under each of the 8 subsets of
{std, macho, pe} on every run, a failure being a violation whose replay is the feature set
and the compiler output. "Unwinds identically" is decided by running one battery of DWARF and
frame-pointer histories (both architectures, both allocation policies, same-address repeats
with failing and sane thread states, module removal, iterator walks) under all 8 builds and
in-process under the default build - the build every other engine ties to the Lean model.

What is logic, and proved here: the only place where the optional features select behaviour
is the choice of the unwind-data variant when a module is created
(`ModuleUnwindDataInternal::new`). Its model `selectUnwindData` is below; for a module that
offers neither `__unwind_info` nor `.pdata` - i.e. one that only needs DWARF or frame-pointer
unwinding - the chosen variant does not depend on the features, for all 8 subsets
(`C19_dwarf_modules_ignore_features`), and the order of preference among the DWARF
presentations is the documented one. The rest of the model (`plan`, `missPath`, the rule
cache, the iterator) has no feature parameter at all.
-/
namespace FH

/-- **Modules that only need DWARF or frame-pointer unwinding are treated identically under
every feature combination.** -/
theorem C19_dwarf_modules_ignore_features (f g : Features) (s : SectionsOffered)
    (h1 : s.unwindInfo = false) (h2 : s.pdata = false) :
    selectUnwindData f s = selectUnwindData g s := by
  simp [selectUnwindData, h1, h2]

/-- `std` never selects anything. -/
theorem C19_std_is_irrelevant (f : Features) (s : SectionsOffered) :
    selectUnwindData { f with std := true } s = selectUnwindData { f with std := false } s := rfl

/-- The preference order among the DWARF presentations (no `__unwind_info`, no `.pdata`):
`.eh_frame` + `.eh_frame_hdr`, then `.eh_frame` with an index, then `.debug_frame` with an
index, else none. -/
theorem C19_dwarf_preference (f : Features) (s : SectionsOffered)
    (h1 : s.unwindInfo = false) (h2 : s.pdata = false) :
    selectUnwindData f s =
      (if s.ehFrame ∧ s.ehFrameHdr then .ehFrameHdrAndEhFrame
       else if s.ehFrame then (if s.ehIndexBuilds then .dwarfCfiIndexAndEhFrame else .none)
       else if s.debugFrame ∧ s.debugIndexBuilds then .dwarfCfiIndexAndDebugFrame
       else .none) := by
  simp only [selectUnwindData, h1, h2]
  cases s.ehFrame <;> cases s.ehFrameHdr <;> cases s.debugFrame <;> cases s.debugIndexBuilds <;>
    cases s.ehIndexBuilds <;> simp

/-- The statement over the whole finite table, checked by the kernel: all 8 × 8 pairs of
feature sets and all 32 section offers without `__unwind_info` / `.pdata`. -/
theorem C19_table :
    ∀ (a b c a' b' c' e h d i j : Bool),
      selectUnwindData ⟨a, b, c⟩ ⟨false, false, e, h, d, i, j⟩ =
        selectUnwindData ⟨a', b', c'⟩ ⟨false, false, e, h, d, i, j⟩ := by
  decide

/-- A module with `__unwind_info` or `.pdata` *is* treated differently without the feature
(it falls back to its DWARF sections or to nothing) - the reason the property is stated for
DWARF / frame-pointer modules only. -/
example : selectUnwindData ⟨true, false, true⟩ ⟨true, false, true, false, false, true, false⟩ ≠
    selectUnwindData ⟨true, true, true⟩ ⟨true, false, true, false, false, true, false⟩ := by decide

end FH
