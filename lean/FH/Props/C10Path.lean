import FH.Props.C10
import FH.NoPanic
import FH.Props.C03
/-!
# C10 — progress of a whole `unwind_frame` call (miss path), whatever produced the step

The step theorems of `FH/Props/C10.lean` speak about one mechanism each (a cached rule, the
uncacheable DWARF path). Here they are composed through `missPath` - module lookup, format
dispatch, rule or generic evaluation or PE, error -> frame pointer fallback - for arbitrary
module data: on aarch64 *every* successful caller-frame call strictly increases sp.
-/
namespace FH

theorem execA64_caller_frame_advances {rule : RuleA64} {regs regs' : RegsA64} {mem : Mem} {ra : Nat}
    (hr : rule.WF) (h : execA64 rule false regs mem = .ret (.frame ra) regs') : regs.sp < regs'.sp :=
  (execA64_frame hr h).caller_advance rfl

/-- **aarch64, any module data, any path**: if `unwind_frame` for a return address (a caller
frame) misses the cache and reports a frame, the stack pointer has strictly increased. -/
theorem C10_a64_unwind_frame_caller_step_advances (u : Unw) (hu : u.WF) (addr : FrameAddr)
    (regs regs' : RegsA64) (mem : Mem) (ra : Nat) (hret : addr.isReturn = true)
    (h : (missPath archA64 u addr regs mem).2 = .ret (.frame ra) regs') : regs.sp < regs'.sp := by
  have hfbwf : RuleA64.WF .useFramePointer := by simp [RuleA64.WF]
  have hfb : ∀ {x : Out RegsA64}, x = execA64 .useFramePointer false regs mem →
      x = .ret (.frame ra) regs' → regs.sp < regs'.sp := by
    intro x e1 e2
    exact execA64_caller_frame_advances hfbwf (e1 ▸ e2)
  unfold missPath at h
  simp only [hret, Bool.not_true] at h
  cases hf : findModule u.mods addr.lookup with
  | none =>
    simp only [hf] at h
    exact hfb rfl h
  | some ir =>
    obtain ⟨i, rel⟩ := ir
    simp only [hf] at h
    cases hm : u.mods[i]? with
    | none =>
      simp only [hm] at h
      exact hfb rfl h
    | some m =>
      simp only [hm] at h
      have hmw : m.data.WF := hu m (List.mem_of_getElem? hm)
      cases hp : plan archA64 m rel false with
      | exec r =>
        simp only [hp] at h
        exact execA64_caller_frame_advances (plan_a64_wf m hmw rel false r hp) h
      | staticErr =>
        simp only [hp] at h
        exact hfb rfl h
      | panic => simp only [hp] at h; cases h
      | generic row =>
        simp only [hp] at h
        cases hg : archA64.generic row false regs mem with
        | ok ra' g =>
          simp only [hg] at h
          have hg' : genericA64 row false regs mem = .ok ra' g := hg
          rcases C10_a64_generic_caller_step hg' with ⟨h0, _⟩ | hlt
          · subst h0
            simp only [resOfRa, if_true] at h
            injection h with h1 _
            cases h1
          · injection h with h1 h2
            subst h2
            exact hlt
        | err e =>
          simp only [hg] at h
          exact hfb rfl h
        | panic s => simp only [hg] at h; cases h
      | pe p =>
        simp only [hp] at h
        have hg : archA64.peRun p false regs mem = .err .couldNotRecoverCfa := rfl
        simp only [hg] at h
        exact hfb rfl h

/-- `execX64_frame` needs only the field ranges that make the rule panic free (`Safe`); the
register count / encoding of the pop rule play no role for progress. -/
theorem execX64_frame_safe {rule : RuleX64} {first : Bool} {regs : RegsX64} {mem : Mem} {ra : Nat}
    {regs' : RegsX64} (hr : rule.Safe)
    (h : execX64 rule first regs mem = .ret (.frame ra) regs') : FrameX64 regs regs' ra mem := by
  cases rule with
  | offsetSpAndPopRegisters k c e =>
    simp only [RuleX64.Safe, U16] at hr
    simp only [execX64] at h
    rw [umul_eq _ (by unfold U64; omega)] at h
    split at h
    · cases h
    · rename_i sp1 hs1
      have ⟨e1, e2⟩ := cadd_some hs1
      split at h
      · cases h
      · rename_i sp2 r2 hpop
        have ⟨p1, _⟩ := popLoop_ok _ _ _ _ _ hpop
        split at h
        · cases h
        · rename_i newSp hns
          have ⟨e3, e4⟩ := cadd_some hns
          obtain ⟨h1, h2, h3, h4, h5⟩ := finishX64_frame h
          subst h1
          refine ⟨h4, rfl, ?_, ?_, ?_, ?_, ?_⟩
          · rw [sp_of_finish]; exact h2
          · rw [sp_of_finish]; exact h3
          · rw [sp_of_finish]; omega
          · rw [sp_of_finish]; exact h5
          · rw [sp_of_finish]; omega
  | endOfStack => exact execX64_frame (by simp [RuleX64.WF]) h
  | justReturn => exact execX64_frame (by simp [RuleX64.WF]) h
  | justReturnIfFirstFrameOtherwiseFp => exact execX64_frame (by simp [RuleX64.WF]) h
  | useFramePointer => exact execX64_frame (by simp [RuleX64.WF]) h
  | offsetSp k => exact execX64_frame (by simpa [RuleX64.WF, RuleX64.Safe] using hr) h
  | offsetSpAndRestoreBp k b => exact execX64_frame (by simpa [RuleX64.WF, RuleX64.Safe] using hr) h

/-- **x86-64, any module data, any path**: if `unwind_frame` for a return address misses the
cache and reports a frame, the stack pointer has not decreased, and the step has not left both
the stack pointer and the code address unchanged (rule steps: `Advances`; generic DWARF and
interpreted PE steps: strictly increasing sp). -/
theorem C10_x64_unwind_frame_caller_step_advances (u : Unw) (hu : u.WF) (addr : FrameAddr)
    (regs regs' : RegsX64) (mem : Mem) (ra : Nat) (hret : addr.isReturn = true)
    (h : (missPath archX64 u addr regs mem).2 = .ret (.frame ra) regs') :
    regs.sp ≤ regs'.sp ∧ ¬(regs'.sp = regs.sp ∧ ra = regs.ip) := by
  have ofRule : ∀ {rule : RuleX64}, rule.Safe → execX64 rule false regs mem = .ret (.frame ra) regs' →
      regs.sp ≤ regs'.sp ∧ ¬(regs'.sp = regs.sp ∧ ra = regs.ip) := by
    intro rule hs he
    have f := execX64_frame_safe hs he
    exact ⟨f.sp_mono, f.advance⟩
  have hfbs : RuleX64.Safe .useFramePointer := by simp [RuleX64.Safe]
  unfold missPath at h
  simp only [hret, Bool.not_true] at h
  cases hf : findModule u.mods addr.lookup with
  | none => simp only [hf] at h; exact ofRule hfbs h
  | some ir =>
    obtain ⟨i, rel⟩ := ir
    simp only [hf] at h
    cases hm : u.mods[i]? with
    | none => simp only [hm] at h; exact ofRule hfbs h
    | some m =>
      simp only [hm] at h
      have hmw : m.data.WF := hu m (List.mem_of_getElem? hm)
      cases hp : plan archX64 m rel false with
      | exec r =>
        simp only [hp] at h
        exact ofRule (plan_x64_safe m hmw rel false r hp) h
      | staticErr => simp only [hp] at h; exact ofRule hfbs h
      | panic => simp only [hp] at h; cases h
      | generic row =>
        simp only [hp] at h
        cases hg : archX64.generic row false regs mem with
        | ok ra' g =>
          simp only [hg] at h
          have hg' : genericX64 row false regs mem = .ok ra' g := hg
          have hlt := (C10_x64_generic_caller_step hg').1
          injection h with h1 h2
          subst h2
          exact ⟨by omega, by omega⟩
        | err e => simp only [hg] at h; exact ofRule hfbs h
        | panic s => simp only [hg] at h; cases h
      | pe p =>
        simp only [hp] at h
        cases hg : archX64.peRun p false regs mem with
        | ok ra' g =>
          simp only [hg] at h
          injection h with h1 h2
          subst h2
          -- interpreted PE steps are committed only if rsp advanced (peCommit)
          have hadv : regs.sp < g.sp := by
            have hg' : FH.peRun p false regs mem = .ok ra' g := hg
            cases p with
            | epilog fr insns =>
              exact (C03_interpreted_step_commits_progress false regs g ra' _ hg').2 rfl
            | interp fr fo ops =>
              exact (C03_interpreted_step_commits_progress false regs g ra' _ hg').2 rfl
            | exec r => simp [FH.peRun] at hg'
            | staticErr => simp [FH.peRun] at hg'
          exact ⟨by omega, by omega⟩
        | err e => simp only [hg] at h; exact ofRule hfbs h
        | panic s => simp only [hg] at h; cases h

/-- The same in the form the walk-level theorems consume (`Advances`): sp does not decrease and,
if it stays, the new address was read from `[sp - 8]` and differs from the old one. Hence
`C10_walk_terminates` and the no-repeat argument (`walk_no_repeat`) apply to walks made of
arbitrary cache-missing `unwind_frame` calls on arbitrary modules, not only to rule steps. -/
theorem C10_x64_unwind_frame_caller_step_Advances (u : Unw) (hu : u.WF) (addr : FrameAddr)
    (regs regs' : RegsX64) (mem : Mem) (ra : Nat) (hret : addr.isReturn = true)
    (h : (missPath archX64 u addr regs mem).2 = .ret (.frame ra) regs') :
    Advances mem ⟨regs.ip, regs.sp⟩ ⟨regs'.ip, regs'.sp⟩ := by
  have ofRule : ∀ {rule : RuleX64}, rule.Safe → execX64 rule false regs mem = .ret (.frame ra) regs' →
      Advances mem ⟨regs.ip, regs.sp⟩ ⟨regs'.ip, regs'.sp⟩ :=
    fun hs he => advances_of_frameX64 (execX64_frame_safe hs he)
  have hfbs : RuleX64.Safe .useFramePointer := by simp [RuleX64.Safe]
  unfold missPath at h
  simp only [hret, Bool.not_true] at h
  cases hf : findModule u.mods addr.lookup with
  | none => simp only [hf] at h; exact ofRule hfbs h
  | some ir =>
    obtain ⟨i, rel⟩ := ir
    simp only [hf] at h
    cases hm : u.mods[i]? with
    | none => simp only [hm] at h; exact ofRule hfbs h
    | some m =>
      simp only [hm] at h
      have hmw : m.data.WF := hu m (List.mem_of_getElem? hm)
      cases hp : plan archX64 m rel false with
      | exec r => simp only [hp] at h; exact ofRule (plan_x64_safe m hmw rel false r hp) h
      | staticErr => simp only [hp] at h; exact ofRule hfbs h
      | panic => simp only [hp] at h; cases h
      | generic row =>
        simp only [hp] at h
        cases hg : archX64.generic row false regs mem with
        | ok ra' g =>
          simp only [hg] at h
          have hg' : genericX64 row false regs mem = .ok ra' g := hg
          have hlt := (C10_x64_generic_caller_step hg').1
          injection h with _ h2
          subst h2
          exact advances_of_lt hlt
        | err e => simp only [hg] at h; exact ofRule hfbs h
        | panic s => simp only [hg] at h; cases h
      | pe p =>
        simp only [hp] at h
        cases hg : archX64.peRun p false regs mem with
        | ok ra' g =>
          simp only [hg] at h
          injection h with _ h2
          subst h2
          have hg' : FH.peRun p false regs mem = .ok ra' g := hg
          have hadv : regs.sp < g.sp := by
            cases p with
            | epilog fr insns => exact (C03_interpreted_step_commits_progress false regs g ra' _ hg').2 rfl
            | interp fr fo ops => exact (C03_interpreted_step_commits_progress false regs g ra' _ hg').2 rfl
            | exec r => simp [FH.peRun] at hg'
            | staticErr => simp [FH.peRun] at hg'
          exact advances_of_lt hadv
        | err e => simp only [hg] at h; exact ofRule hfbs h
        | panic s => simp only [hg] at h; cases h

end FH
