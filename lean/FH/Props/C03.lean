import FH.PeLemmas
import FH.PeBody
import FH.World
import FH.RegOrder
/-!
# C03 — PE x64 unwinding is exact in prolog, body, epilog and matches the MS procedure

The model starts from pe-unwind-info's parsed values. "The documented Microsoft unwind
procedure" is represented twice: in Lean by `popSpec` for push/alloc prologs (the shapes that
are compressed into cacheable rules) and by the transcription `interpOps`/`interpEpilog` of
the general procedure; on the implementation side by pe-unwind-info's own reference
implementation `FunctionTableEntries::unwind_frame`, against which the `pe` engine compares
every step on arbitrary registers and stacks.
-/
namespace FH

/-- Following the PE convention, an address without a function table entry is a frameless
leaf: the return address is on top of the stack (first frame or not). -/
theorem C03_no_table_entry_is_leaf (funcs : List PeFunc) (rel : Nat) (first : Bool)
    (h : peLookup funcs rel = none) : pePlan funcs rel first = .exec .justReturn := by
  simp [pePlan, h]

/-- PE on aarch64 is unsupported: the frame falls back to the frame pointer rule. -/
theorem C03_pe_on_aarch64_falls_back (m : Module) (funcs : List PeFunc) (rel : Nat) (first : Bool)
    (h : m.data = .pe funcs) : plan archA64 m rel first = .staticErr := by
  simp [plan, h, archA64]

/-- **Compression is lossless.** Executing the cacheable rule `OffsetSpAndPopRegisters`
performs exactly the documented procedure for a push/alloc prolog (release the allocation,
pop the saved registers in order, pop the return address), for the register list that was
encoded into the rule (`henc`; the decoder recovers it by `C03_register_order_roundtrip`). -/
theorem C03_pop_rule_is_the_procedure (k count enc : Nat) (regsList : List Nat) (first : Bool)
    (regs : RegsX64) (mem : Mem) (ra : Nat) (r' : Nat → Nat) (hk : k < U16)
    (henc : encodeRegs regsList = some (count, enc)) (hn : RSP ∉ regsList)
    (hs : popSpec mem k regsList regs.r = some (ra, r')) (hlt : r' RSP < U64) (hra : ra ≠ 0) :
    execX64 (.offsetSpAndPopRegisters k count enc) first regs mem =
      .ret (.frame ra) { ip := ra, r := setReg r' RBP (r' RBP) } :=
  popRule_is_spec k count enc regsList first regs mem ra r' hk
    (decodeRegs_encodeRegs regsList count enc henc) hn hs hlt hra

/-- **The register-order encoding round-trips**: for every register sequence that
`register_ordering::encode` accepts (any length, any registers), `decode` of its result is
that sequence. Proved from the mixed-radix structure of the encoding (`FH/RegOrder.lean`), not
by enumeration. -/
theorem C03_register_order_roundtrip (regs : List Nat) (c e : Nat)
    (h : encodeRegs regs = some (c, e)) : decodeRegs c e = regs :=
  decodeRegs_encodeRegs regs c e h

/-- The operation interpreter performs the same procedure on the same prolog, so whether a
sequence is compressed or interpreted cannot matter. -/
theorem C03_interpreter_is_the_procedure (mem : Mem) (pes : List Nat) (r : Nat → Nat) (ra : Nat)
    (r' : Nat → Nat) (hn : RSP ∉ pes.map peReg) (hlt : r RSP + 8 * pes.length + 8 < U64)
    (hs : popSpecLoop mem (pes.map peReg) (r RSP) r = some (ra, r')) :
    interpOps none 0 mem (pes.map .popNonVolatile) r = .ok ra r' :=
  interpOps_pops_of_spec mem pes r ra r' hn hlt hs

/-- **Exact in the body, for the standard prolog with every kind of unwind code.** A frame as
the Microsoft x64 documentation lays it out for the prolog
`push r…; sub rsp, n; lea fr, [rsp + fo]; mov [rsp + off], r…`: `A` is the stack pointer after the
allocation, mov-saved registers at `A + off`, above the allocation the pushed registers, then the
return address. Interpreting the function's unwind codes (`UWOP_SAVE_NONVOL…`, `UWOP_SET_FPREG`,
`UWOP_ALLOC_*`, `UWOP_PUSH_NONVOL…`, in array order) from *any* register values in the body -
with a frame register `rsp` may be anything: dynamic allocations - restores the mov-saved
registers from their slots, re-establishes `rsp = A + n` and then performs exactly the documented
pop procedure `popSpecLoop` (registers, return address, `rsp` above it). -/
theorem C03_body_unwind_is_the_procedure (fr : Option Nat) (fo A n : Nat) (mem : Mem)
    (saves : List (Nat × Nat)) (pops : List Nat) (r : Nat → Nat) (ra : Nat) (r' : Nat → Nat)
    (hb : BaseIs fr fo A r)
    (hs : ∀ p ∈ saves, peReg p.1 ≠ RSP ∧ (∀ f, fr = some f → peReg p.1 ≠ peReg f) ∧
      mem (A + p.2) ≠ none ∧ A + p.2 < U64)
    (hn : RSP ∉ pops.map peReg) (hlt : A + n + 8 * pops.length + 8 < U64)
    (hspec : popSpecLoop mem (pops.map peReg) (A + n)
      (setReg (restoreSaves mem A saves r) RSP (A + n)) = some (ra, r')) :
    interpOps fr fo mem
      (saves.map (fun p => .readNonVolatile p.1 p.2) ++
        ((if fr.isSome then [.restoreSPFromFP] else []) ++ ([.unStackAlloc n] ++
          pops.map .popNonVolatile))) r = .ok ra r' :=
  interpOps_body fr fo A n mem saves pops r ra r' hb hs hn hlt hspec

/-- **Which codes apply inside the prolog.** On a code array sorted by descending prolog offset
(as UNWIND_INFO stores it), the operations framehop gathers for a pc at prolog offset `o` are
exactly those of the instructions that have completed (`offset ≤ o`). -/
theorem C03_prolog_offset_selects_executed_codes (codes : List (Nat × PeOp)) (o : Nat)
    (hsorted : codes.Pairwise (fun a b => a.1 ≥ b.1)) :
    gatherOps [⟨codes⟩] o = (codes.filter (fun p => p.1 ≤ o)).map (·.2) :=
  gatherOps_single codes o hsorted

/-- **Exact at every instruction boundary of the prolog.** The thread has executed some of the
pushes (`pops`), possibly the allocation, possibly the frame-register setup, some of the movs
(`saves`); the operations gathered for that point (previous theorem) then unwind exactly as the
layout says: restore what was saved, undo the allocation if it happened, pop what was pushed. The
body is the special case where everything has been executed (`C03_body_unwind_is_the_procedure`). -/
theorem C03_prolog_prefix_unwind_is_the_procedure (fr : Option Nat) (fo A n : Nat) (mem : Mem)
    (saves : List (Nat × Nat)) (pops : List Nat) (allocDone setfpDone : Bool) (r : Nat → Nat)
    (ra : Nat) (r' : Nat → Nat)
    (hbase : if setfpDone then ∃ f, fr = some f ∧ r (peReg f) = A + fo
      else r RSP = (if allocDone then A else A + n))
    (horder : (setfpDone = true → allocDone = true) ∧
      (saves ≠ [] → allocDone = true ∧ (setfpDone = true ∨ fr = none)))
    (hs : ∀ p ∈ saves, peReg p.1 ≠ RSP ∧ (∀ f, fr = some f → peReg p.1 ≠ peReg f) ∧
      mem (A + p.2) ≠ none ∧ A + p.2 < U64)
    (hn : RSP ∉ pops.map peReg) (hlt : A + n + 8 * pops.length + 8 < U64)
    (hspec : popSpecLoop mem (pops.map peReg) (A + n)
      (setReg (restoreSaves mem A saves r) RSP (A + n)) = some (ra, r')) :
    interpOps fr fo mem
      (saves.map (fun p => .readNonVolatile p.1 p.2) ++
        ((if setfpDone then [.restoreSPFromFP] else []) ++ ((if allocDone then [.unStackAlloc n] else []) ++
          pops.map .popNonVolatile))) r = .ok ra r' :=
  interpOps_prolog_prefix fr fo A n mem saves pops allocDone setfpDone r ra r' hbase horder hs hn hlt hspec

/-- Non-vacuity: `push rbx; push rbp; sub rsp, 0x40; lea rbp, [rsp+0x20]; mov [rsp+0x30], rsi`
with the thread in the body after a dynamic allocation of 0x100 bytes (rsp no longer at the frame
base). -/
example :
    let mem : Mem := fun a => if a = 0x1030 then some 0x5151 else if a = 0x1040 then some 0xb9
      else if a = 0x1048 then some 0xbb else if a = 0x1050 then some 0x401234 else none
    let r : Nat → Nat := fun i => if i = RSP then 0xf00 else if i = RBP then 0x1020 else 7
    interpOps (some 5) 0x20 mem
      ([.readNonVolatile 6 0x30] ++ ([.restoreSPFromFP] ++ ([.unStackAlloc 0x40] ++
        [.popNonVolatile 5, .popNonVolatile 3]))) r =
      .ok 0x401234 (setReg (setReg (setReg (setReg r (peReg 6) 0x5151) (peReg 5) 0xb9) (peReg 3) 0xbb) RSP 0x1058) := by
  intro mem r
  have h := C03_body_unwind_is_the_procedure (some 5) 0x20 0x1000 0x40 mem [(6, 0x30)] [5, 3] r
    0x401234 (setReg (setReg (setReg (setReg r (peReg 6) 0x5151) (peReg 5) 0xb9) (peReg 3) 0xbb) RSP 0x1058)
    (by simp [BaseIs, peReg, r, RBP, RSP])
    (by intro p hp; simp at hp; subst hp; simp [peReg, RSP, mem, U64])
    (by simp [peReg, RSP]) (by simp [U64])
    (by
      simp only [popSpecLoop, List.map, restoreSaves, mem, peReg]
      simp
      funext j
      simp only [setReg, RSP]
      by_cases h7 : j = 7 <;> by_cases h6 : j = 6 <;> by_cases h3 : j = 3 <;> by_cases h4 : j = 4 <;> simp [*])
  simpa using h


/-! ## Whole walks over PE frames -/

/-- One PE frame of a call chain: how far its function got (all of the prolog for caller
frames and for a thread stopped in the body; a prefix for a thread stopped inside the prolog)
and where its frame lies. -/
structure PeFrame where
  fr : Option Nat
  fo : Nat
  A : Nat
  n : Nat
  saves : List (Nat × Nat)
  pops : List Nat
  allocDone : Bool
  setfpDone : Bool

def PeFrame.ops (f : PeFrame) : List PeOp :=
  f.saves.map (fun p => .readNonVolatile p.1 p.2) ++
    ((if f.setfpDone then [.restoreSPFromFP] else []) ++ ((if f.allocDone then [.unStackAlloc f.n] else []) ++
      f.pops.map .popNonVolatile))

/-- The frame is laid out as documented and the registers are inside it. -/
def PeFrame.LaidOut (f : PeFrame) (mem : Mem) (r : Nat → Nat) : Prop :=
  (if f.setfpDone then ∃ g, f.fr = some g ∧ r (peReg g) = f.A + f.fo
    else r RSP = (if f.allocDone then f.A else f.A + f.n)) ∧
  ((f.setfpDone = true → f.allocDone = true) ∧
    (f.saves ≠ [] → f.allocDone = true ∧ (f.setfpDone = true ∨ f.fr = none))) ∧
  (∀ p ∈ f.saves, peReg p.1 ≠ RSP ∧ (∀ g, f.fr = some g → peReg p.1 ≠ peReg g) ∧
    mem (f.A + p.2) ≠ none ∧ f.A + p.2 < U64) ∧
  RSP ∉ f.pops.map peReg ∧ f.A + f.n + 8 * f.pops.length + 8 < U64 ∧
  r RSP ≤ f.A + f.n + 8 * f.pops.length

/-- A true call chain of PE frames: each frame's documented layout yields (by the documented pop
procedure) the return address and the registers of the next frame; the root's return address is
null. -/
inductive PeChain (mem : Mem) : List PeFrame → RegsX64 → List Nat → Prop where
  | root (f : PeFrame) (regs : RegsX64) (r' : Nat → Nat) (hl : f.LaidOut mem regs.r)
      (hspec : popSpecLoop mem (f.pops.map peReg) (f.A + f.n)
        (setReg (restoreSaves mem f.A f.saves regs.r) RSP (f.A + f.n)) = some (0, r')) :
      PeChain mem [f] regs []
  | step (f : PeFrame) (rest : List PeFrame) (regs : RegsX64) (ra : Nat) (r' : Nat → Nat)
      (ras : List Nat) (hl : f.LaidOut mem regs.r) (hra : ra ≠ 0)
      (hspec : popSpecLoop mem (f.pops.map peReg) (f.A + f.n)
        (setReg (restoreSaves mem f.A f.saves regs.r) RSP (f.A + f.n)) = some (ra, r'))
      (tail : PeChain mem rest { ip := ra, r := r' } ras) :
      PeChain mem (f :: rest) regs (ra :: ras)

/-- The walk: interpret each frame's operations, commit (progress check in caller frames), a
null return address ends the walk (`with_cache`). -/
def walkPe (mem : Mem) : Bool → List PeFrame → RegsX64 → List Res
  | _, [], _ => []
  | first, f :: rest, regs =>
    match peRun (.interp f.fr f.fo f.ops) first regs mem with
    | .ok ra regs' => if ra = 0 then [.done] else .frame ra :: walkPe mem false rest regs'
    | _ => [.err .integerOverflow]

theorem peRun_laidOut (f : PeFrame) (mem : Mem) (first : Bool) (regs : RegsX64) (ra : Nat)
    (r' : Nat → Nat) (hl : f.LaidOut mem regs.r)
    (hspec : popSpecLoop mem (f.pops.map peReg) (f.A + f.n)
      (setReg (restoreSaves mem f.A f.saves regs.r) RSP (f.A + f.n)) = some (ra, r')) :
    peRun (.interp f.fr f.fo f.ops) first regs mem = .ok ra { ip := ra, r := r' } := by
  obtain ⟨h1, h2, h3, h4, h5, h6⟩ := hl
  have hi := interpOps_prolog_prefix f.fr f.fo f.A f.n mem f.saves f.pops f.allocDone f.setfpDone
    regs.r ra r' h1 h2 h3 h4 h5 hspec
  have hsp := popSpecLoop_sp mem (f.pops.map peReg) (f.A + f.n) _ ra r' h4 hspec
  simp only [List.length_map] at hsp
  simp only [peRun, PeFrame.ops, hi, peCommit]
  have : ¬ ((!first) = true ∧ r' RSP ≤ regs.sp) := by
    intro ⟨_, hle⟩
    simp only [RegsX64.sp] at hle
    omega
  simp only [this, if_false]

/-- **C03, whole walks.** Walking a true chain of PE frames - the innermost one stopped anywhere
in its prolog or body, any depth, any registers - yields exactly the chain's return addresses and
completes with `Ok(None)` at the root. -/
theorem C03_walk (mem : Mem) (first : Bool) (frames : List PeFrame) (regs : RegsX64) (ras : List Nat)
    (h : PeChain mem frames regs ras) :
    walkPe mem first frames regs = ras.map .frame ++ [.done] := by
  induction h generalizing first with
  | root f regs r' hl hspec =>
    simp [walkPe, peRun_laidOut f mem first regs 0 r' hl hspec]
  | step f rest regs ra r' ras hl hra hspec tail ih =>
    simp only [walkPe, peRun_laidOut f mem first regs ra r' hl hspec, hra, if_false, List.map_cons,
      List.cons_append]
    rw [ih]


/-- Non-vacuity: a two-frame chain (a function that pushed rbx and allocated 0x20 bytes, called
from a root whose return address is null). -/
example :
    let mem : Mem := fun a => if a = 0x1020 then some 0xb0b else if a = 0x1028 then some 0x401000
      else if a = 0x1040 then some 0 else none
    let r0 : Nat → Nat := fun i => if i = RSP then 0x1000 else 5
    let f1 : PeFrame := { fr := none, fo := 0, A := 0x1000, n := 0x20, saves := [], pops := [3], allocDone := true, setfpDone := false }
    let f2 : PeFrame := { fr := none, fo := 0, A := 0x1030, n := 0x10, saves := [], pops := [], allocDone := true, setfpDone := false }
    walkPe mem true [f1, f2] { ip := 0x400000, r := r0 } = [.frame 0x401000, .done] := by
  intro mem r0 f1 f2
  have h := C03_walk mem true [f1, f2] { ip := 0x400000, r := r0 } [0x401000] (by
    refine PeChain.step f1 [f2] _ 0x401000
      (setReg (setReg (setReg r0 RSP 0x1020) 3 0xb0b) RSP 0x1030) [] ?_ (by decide) rfl ?_
    · simp [PeFrame.LaidOut, f1, r0, peReg, RSP, U64]
    · refine PeChain.root f2 _ (setReg (setReg (setReg (setReg (setReg r0 RSP 0x1020) 3 0xb0b) RSP 0x1030) RSP 0x1040) RSP 0x1048) ?_ rfl
      simp [PeFrame.LaidOut, f2, setReg, RSP, U64])
  simpa using h

/-- A kernel-checked *test* (not the unbounded claim, which is `C03_register_order_roundtrip`):
all duplicate-free sequences of length at most 2 over the 8 encodable registers are accepted by
`encode` and round-trip with an encoding below 2^16. All 109 601 sequences of length at most 8
are swept on the implementation by the `pe` engine through the `reg_order_*` hooks and compared
with this model. -/
def roundtrips (l : List Nat) : Bool :=
  match encodeRegs l with
  | some (c, e) => decodeRegs c e == l && decide (e < 65536)
  | none => false

def checkAll : Nat → List Nat → Bool
  | 0, pre => roundtrips pre
  | d + 1, pre =>
    roundtrips pre && encodeRegisters.all fun x => pre.contains x || checkAll d (pre ++ [x])

theorem C03_register_order_roundtrip_upto2 : checkAll 2 [] = true := by decide +kernel

/-- Interpreted steps are all-or-nothing and make progress: a committed step of a caller
frame strictly increases rsp and leaves `ip` at the return address. -/
theorem C03_interpreted_step_commits_progress (first : Bool) (regs regs' : RegsX64) (ra : Nat)
    (g : GenOut (Nat → Nat)) (h : peCommit first regs g = .ok ra regs') :
    regs'.ip = ra ∧ (first = false → regs.sp < regs'.sp) := by
  cases g with
  | err e => simp [peCommit] at h
  | panic s => simp [peCommit] at h
  | ok ra' r' =>
    simp only [peCommit] at h
    split at h
    · cases h
    · rename_i hc
      injection h with h1 h2
      subst h1 h2
      refine ⟨rfl, fun hf => ?_⟩
      simp only [RegsX64.sp] at *
      subst hf
      simp at hc
      omega

/-- framehop's own PE code never panics: the epilog simulation uses checked additions, and
its one `expect` is unreachable because the parser only produces `AddSPFromFP` when the
function has a frame register. -/
theorem C03_own_epilog_code_never_panics (fr : Option Nat) (mem : Mem) :
    ∀ (insns : List EpiInsn) (r : Nat → Nat),
      (∀ i ∈ insns, ∀ n, i = .addSPFromFP n → fr ≠ none) →
      ∀ s, interpEpilog fr mem insns r ≠ .panic s
  | [], r, _, s => by
    simp only [interpEpilog, popReturnAddress]
    split
    · simp
    · split <;> simp
  | .addSP n :: rest, r, h, s => by
    simp only [interpEpilog]
    split
    · simp
    · exact C03_own_epilog_code_never_panics fr mem rest _ (fun i hi => h i (by simp [hi])) s
  | .pop reg :: rest, r, h, s => by
    simp only [interpEpilog]
    split
    · simp
    · split
      · simp
      · exact C03_own_epilog_code_never_panics fr mem rest _ (fun i hi => h i (by simp [hi])) s
  | .addSPFromFP n :: rest, r, h, s => by
    have hfr := h (.addSPFromFP n) (by simp) n rfl
    cases fr with
    | none => exact (hfr rfl).elim
    | some f =>
      simp only [interpEpilog]
      split
      · simp
      · exact C03_own_epilog_code_never_panics (some f) mem rest _ (fun i hi => h i (by simp [hi])) s

/-- **Recorded finding (dependency)**: `resolve_operation` in pe-unwind-info adds to rsp
without overflow checks; with a stack pointer near 2^64 an interpreted step panics in an
overflow-checked build. Witness: one `UWOP_ALLOC_SMALL`-style operation, rsp = 2^64 - 8. -/
theorem C03_dependency_overflow_counterexample :
    interpOps none 0 (fun _ => some 1) [.unStackAlloc 16] (fun i => if i = RSP then U64 - 8 else 0) =
      .panic (.other 3) := by
  simp [interpOps, resolveOp, RSP, U64]

end FH
