import FH.Hist
/-!
# C06 — Cache transparency

`hrun` executes any history of `new / clone / add_module / remove_module / unwind_frame`
over any number of unwinders that share one cache (a process with several caches is, for
each cache, such a history: calls on other caches change neither the unwinders nor this
cache). `kind` records the documented usage assumption: each lookup address is used either
always as instruction pointer or always as return address.
-/
namespace FH

/-- After any history with fewer than 65 536 module-set changes, the outcome (result *and*
updated registers) of any further call equals the outcome with a freshly created cache. -/
theorem C06_cache_transparency (A : Arch) (N : Nat) (kind : Nat → Bool) (c0 : Nat)
    (ops : List (HOp A)) (hd : (ops.map drawsOf).sum < U16)
    (hc : ∀ op ∈ ops, op.Consistent kind)
    (i : Nat) (u : Unw) (hu : (hrun A N (HWorld.init A c0) ops).unws[i]? = some u)
    (addr : FrameAddr) (hk : kind addr.lookup = !addr.isReturn) (regs : A.Regs) (mem : Mem) :
    (unwindFrame A N u (hrun A N (HWorld.init A c0) ops).cache addr regs mem).2 =
      (unwindFrame A N u Cache.empty addr regs mem).2 := by
  have inv : HInv A kind (hrun A N (HWorld.init A c0) ops) :=
    hinv_run ops _ (hinv_init A kind c0) (by simpa [HWorld.init] using hd) hc
  exact unwindFrame_cache_independent A N kind _ u _ addr regs mem inv.entries_ok
    (inv.unws_ok u (List.mem_of_getElem? hu)) hk

/-- What makes it work: the rule a miss inserts is a function of (module list, address, first?)
only — never of registers or stack contents — and when a rule is inserted the outcome of that
call is the execution of that rule. -/
theorem C06_inserted_rule_is_state_independent (A : Arch) (u : Unw) (addr : FrameAddr)
    (regs regs' : A.Regs) (mem mem' : Mem) :
    (missPath A u addr regs mem).1 = (missPath A u addr regs' mem').1 := by
  rw [(missPath_static A u addr regs mem).1, (missPath_static A u addr regs' mem').1]

-- Non-vacuity: a history that draws, adds, and unwinds satisfies the hypotheses.
example : (([.new, .add 0 default, .clone 0, .remove 1 0] :
    List (HOp archX64)).map drawsOf).sum < U16 := by decide

end FH
