import FH.Props.C04Formats
/-!
# C04 — Mach-O on aarch64: addresses `__unwind_info` has no entry for
-/
namespace FH

/-- Mach-O, aarch64: an address outside `__stubs` / `__stub_helper` without an entry is a leaf in
the first frame (return address in lr: `NoOp`) and uses the frame pointer rule as a caller frame. -/
theorem C04_macho_a64_no_entry (u : Unw) (addr : FrameAddr) (regs : RegsA64) (mem : Mem) (i rel : Nat)
    (m : Module) (d : CuiData (CuiOpX64 × CuiOpA64)) (eh : Option (List (Nat × Fde)))
    (hf : findModule u.mods addr.lookup = some (i, rel)) (hm : u.mods[i]? = some m)
    (hd : m.data = .macho d eh)
    (hs : ¬ (d.stubs.1 ≤ rel ∧ rel < d.stubs.2)) (hh : ¬ (d.stubHelper.1 ≤ rel ∧ rel < d.stubHelper.2))
    (hl : cuiLookup d.funcs rel = none) :
    missPath archA64 u addr regs mem =
      if addr.isReturn then (some RuleA64.useFramePointer, execA64 .useFramePointer false regs mem)
      else (some RuleA64.noOp, execA64 .noOp true regs mem) := by
  have hc := C02_outside_every_function d (fun op => cuiUnwindA64 op.2) RuleA64.noOp
    RuleA64.noOp stubHelperRuleA64 rel hs hh hl
  cases hr : addr.isReturn with
  | true =>
    have hp : plan archA64 m rel false = .staticErr := by
      simp only [plan, hd, archA64, hc.2]
    simp only [missPath, hf, hm, hr, Bool.not_true, hp, if_true]
    rfl
  | false =>
    have hp : plan archA64 m rel true = .exec RuleA64.noOp := by
      simp only [plan, hd, archA64, hc.1]
    simp only [missPath, hf, hm, hr, Bool.not_false, hp, Bool.false_eq_true, if_false]
    rfl

end FH
