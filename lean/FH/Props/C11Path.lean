import FH.Props.C11
import FH.Props.C10Path
/-!
# C11 — a whole `unwind_frame` call (miss path) never reports a null address as a frame
-/
namespace FH

theorem resOfRa_frame_ne {ra x : Nat} (h : resOfRa ra = .frame x) : x ≠ 0 := by
  unfold resOfRa at h
  split at h
  · cases h
  · injection h with h; subst h; assumption

/-- x86-64: any module data, any path, first frame or caller frame. -/
theorem C11_x64_unwind_frame_never_null_frame (u : Unw) (hu : u.WF) (addr : FrameAddr)
    (regs regs' : RegsX64) (mem : Mem) (ra : Nat)
    (h : (missPath archX64 u addr regs mem).2 = .ret (.frame ra) regs') : ra ≠ 0 := by
  have ofRule : ∀ {rule : RuleX64}, rule.Safe →
      execX64 rule (!addr.isReturn) regs mem = .ret (.frame ra) regs' → ra ≠ 0 :=
    fun hs he => (execX64_frame_safe hs he).ra_ne
  have hfbs : RuleX64.Safe .useFramePointer := by simp [RuleX64.Safe]
  unfold missPath at h
  simp only [] at h
  cases hf : findModule u.mods addr.lookup with
  | none => simp only [hf] at h; exact ofRule hfbs h
  | some ir =>
    obtain ⟨i, rel⟩ := ir
    simp only [hf] at h
    cases hm : u.mods[i]? with
    | none => simp only [hm] at h; exact ofRule hfbs h
    | some m =>
      simp only [hm] at h
      have hmw : m.data.WF := hu m (List.mem_of_getElem? hm)
      cases hp : plan archX64 m rel (!addr.isReturn) with
      | exec r => simp only [hp] at h; exact ofRule (plan_x64_safe m hmw rel _ r hp) h
      | staticErr => simp only [hp] at h; exact ofRule hfbs h
      | panic => simp only [hp] at h; cases h
      | generic row =>
        simp only [hp] at h
        cases hg : archX64.generic row (!addr.isReturn) regs mem with
        | ok ra' g =>
          simp only [hg] at h
          injection h with h1 _
          exact resOfRa_frame_ne h1
        | err e => simp only [hg] at h; exact ofRule hfbs h
        | panic s => simp only [hg] at h; cases h
      | pe p =>
        simp only [hp] at h
        cases hg : archX64.peRun p (!addr.isReturn) regs mem with
        | ok ra' g =>
          simp only [hg] at h
          injection h with h1 _
          exact resOfRa_frame_ne h1
        | err e => simp only [hg] at h; exact ofRule hfbs h
        | panic s => simp only [hg] at h; cases h

/-- aarch64: any module data, any path. -/
theorem C11_a64_unwind_frame_never_null_frame (u : Unw) (hu : u.WF) (addr : FrameAddr)
    (regs regs' : RegsA64) (mem : Mem) (ra : Nat)
    (h : (missPath archA64 u addr regs mem).2 = .ret (.frame ra) regs') : ra ≠ 0 := by
  have ofRule : ∀ {rule : RuleA64}, rule.WF →
      execA64 rule (!addr.isReturn) regs mem = .ret (.frame ra) regs' → ra ≠ 0 :=
    fun hw he => (execA64_frame hw he).ra_ne
  have hfbwf : RuleA64.WF .useFramePointer := by simp [RuleA64.WF]
  unfold missPath at h
  simp only [] at h
  cases hf : findModule u.mods addr.lookup with
  | none => simp only [hf] at h; exact ofRule hfbwf h
  | some ir =>
    obtain ⟨i, rel⟩ := ir
    simp only [hf] at h
    cases hm : u.mods[i]? with
    | none => simp only [hm] at h; exact ofRule hfbwf h
    | some m =>
      simp only [hm] at h
      have hmw : m.data.WF := hu m (List.mem_of_getElem? hm)
      cases hp : plan archA64 m rel (!addr.isReturn) with
      | exec r => simp only [hp] at h; exact ofRule (plan_a64_wf m hmw rel _ r hp) h
      | staticErr => simp only [hp] at h; exact ofRule hfbwf h
      | panic => simp only [hp] at h; cases h
      | generic row =>
        simp only [hp] at h
        cases hg : archA64.generic row (!addr.isReturn) regs mem with
        | ok ra' g =>
          simp only [hg] at h
          injection h with h1 _
          exact resOfRa_frame_ne h1
        | err e => simp only [hg] at h; exact ofRule hfbwf h
        | panic s => simp only [hg] at h; cases h
      | pe p =>
        simp only [hp] at h
        have hg : archA64.peRun p (!addr.isReturn) regs mem = .err .couldNotRecoverCfa := rfl
        simp only [hg] at h
        exact ofRule hfbwf h

end FH
