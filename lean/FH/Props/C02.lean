import FH.Cui
import FH.World
import FH.DwarfSpec
import FH.Props.C04
/-!
# C02 — Compact unwind + instruction analysis is exact in prologues and epilogues

The model of `macho.rs`, `x86_64/macho.rs`, `aarch64/macho.rs` and the four instruction
analysers is `FH/Cui.lean`, `FH/AnaX64.lean`, `FH/AnaA64.lean`; it is tied to the code by the
`ana` engine (analysers through the hooks, byte for byte) and the `macho` engine (whole
modules with real `__unwind_info` / `__eh_frame` / text bytes).

Here, for **x86-64**, the analysers are proved sound against a small machine model of the
standard prologue/epilogue grammar, for *every* order and choice of pushed/popped registers:

* epilogue: stopped before any suffix `pop r1; …; pop rn; ret` (any registers, legacy or
  REX-prefixed encodings, `rbp` anywhere or absent), the analysed rule performs exactly what
  the CPU will do: the caller's `rsp`, `rbp` and return address (`C02_x64_epilogue_exact`);
* prologue: stopped after any prefix `push r1; …; push rn` of the function (next instruction
  another prologue instruction), the rule finds the return address above the pushed words
  (`C02_x64_prologue_pushes_exact`), and after `push rbp; mov rbp, rsp; push…` it is the frame
  pointer rule (`C02_x64_prologue_after_frame_setup`);
* bodies: frame-based and frameless opcodes give the rules whose execution is the documented
  layout (`C02_x64_frameless_body_exact`, `C02_x64_frame_based_is_fp_convention`);
* dispatch: `__stubs` / `__stub_helper` take precedence and are first-frame only, function
  starts are leaves, the stub helper table follows the documented `dyld_stub_binder` layout.

The **aarch64** analysers are tied by correspondence and ground-truth walks only (partial):
body rules and the stub helper table are proved, the prologue/epilogue word scans are not.
-/
namespace FH

/-! ## x86-64 machine fragment -/

/-- Operand of `push`/`pop`: `ext` = r8–r15 (REX.B prefix `0x41`), `lo` = low three bits. -/
structure PReg where
  ext : Bool
  lo : Nat
  deriving DecidableEq, Repr

def PReg.isRbp (r : PReg) : Bool := !r.ext && r.lo == 5

def encPush (r : PReg) : List Nat := if r.ext then [0x41, 0x50 + r.lo] else [0x50 + r.lo]
def encPop (r : PReg) : List Nat := if r.ext then [0x41, 0x58 + r.lo] else [0x58 + r.lo]

/-- What the CPU does for `pop r1; …; pop rn`, as far as `rsp` and `rbp` are concerned. -/
def runPops (mem : Mem) : List PReg → Nat → Nat → Option (Nat × Nat)
  | [], sp, bp => some (sp, bp)
  | r :: rest, sp, bp =>
    match mem sp with
    | none => none
    | some v => runPops mem rest (sp + 8) (if r.isRbp then v else bp)

/-- Index (in words from the first pop, starting at `i`) of the slot the last `pop rbp`
reads, if any. -/
def bpSlot : List PReg → Nat → Option Nat → Option Nat
  | [], _, acc => acc
  | r :: rest, i, acc => bpSlot rest (i + 1) (if r.isRbp then some i else acc)

/-- The rule the epilogue analysis reports after `n` pops. -/
def epiRule (n : Nat) (bpOff : Option Nat) : Option RuleX64 :=
  if n = 0 then some .justReturn
  else if n + 1 < U16 then
    match bpOff with
    | some b => some (.offsetSpAndRestoreBp (n + 1) b)
    | none => some (.offsetSp (n + 1))
  else none

theorem flatMap_encPop_length_ge (pops : List PReg) : pops.length ≤ (pops.flatMap encPop).length := by
  induction pops with
  | nil => simp
  | cons r rest ih =>
    simp only [List.flatMap_cons, List.length_append, List.length_cons]
    have : 1 ≤ (encPop r).length := by unfold encPop; split <;> simp
    omega

/-- The forward scan over `pop…; ret` counts the pops and remembers the `rbp` slot, whatever
the registers and their order. -/
theorem epilogueScan_pops (prev : Bool) : ∀ (pops : List PReg) (rest : List Nat) (n : Nat)
    (acc : Option Nat) (fuel : Nat), (∀ r ∈ pops, r.lo < 8) → pops.length < fuel →
    n + pops.length + 1 < 32768 →
    epilogueScanX64 prev (pops.flatMap encPop ++ 0xc3 :: rest) n acc fuel =
      epiRule (n + pops.length) (bpSlot pops n acc)
  | [], rest, n, acc, fuel, _, hf, hn => by
    obtain ⟨f, rfl⟩ : ∃ f, fuel = f + 1 := ⟨fuel - 1, by simp at hf; omega⟩
    simp only [List.flatMap_nil, List.nil_append, epilogueScanX64, bpSlot, epiRule,
      List.length_nil, Nat.add_zero, if_true]
    cases acc <;> rfl
  | r :: more, rest, n, acc, fuel, hwf, hf, hn => by
    obtain ⟨f, rfl⟩ : ∃ f, fuel = f + 1 := ⟨fuel - 1, by simp at hf; omega⟩
    have hlo := hwf r (by simp)
    have ih := epilogueScan_pops prev more rest (n + 1)
      (if r.isRbp then some n else acc) f (fun x hx => hwf x (by simp [hx]))
      (by simp at hf; omega) (by simp at hn; omega)
    have hlen : n + (r :: more).length = n + 1 + more.length := by simp; omega
    rw [hlen]
    simp only [bpSlot]
    rw [← ih]
    have hU : n + 1 < U16 := by unfold U16; simp at hn; omega
    have h32 : n < 32768 := by simp at hn; omega
    obtain ⟨ext, lo⟩ := r
    simp only at hlo
    have hcases : lo = 0 ∨ lo = 1 ∨ lo = 2 ∨ lo = 3 ∨ lo = 4 ∨ lo = 5 ∨ lo = 6 ∨ lo = 7 := by omega
    cases ext <;> rcases hcases with h | h | h | h | h | h | h | h <;> subst h <;>
      simp [encPop, epilogueScanX64, PReg.isRbp, hU, h32, byteAt]

/-- Running the pops: the final `rsp`, and `rbp` is the word at the slot the static summary
names (or unchanged). -/
theorem runPops_summary (mem : Mem) (base bp0 : Nat) : ∀ (pops : List PReg) (i bp : Nat)
    (acc : Option Nat) (sp' bp' : Nat),
    runPops mem pops (base + 8 * i) bp = some (sp', bp') →
    (match acc with | some k => mem (base + 8 * k) | none => some bp0) = some bp →
    sp' = base + 8 * (i + pops.length) ∧
    (match bpSlot pops i acc with | some k => mem (base + 8 * k) | none => some bp0) = some bp'
  | [], i, bp, acc, sp', bp', h, hacc => by
    simp only [runPops] at h
    injection h with h; injection h with h1 h2; subst h1 h2
    simp [bpSlot, hacc]
  | r :: more, i, bp, acc, sp', bp', h, hacc => by
    simp only [runPops] at h
    cases hm : mem (base + 8 * i) with
    | none => simp [hm] at h
    | some v =>
      simp only [hm] at h
      have e : base + 8 * i + 8 = base + 8 * (i + 1) := by omega
      rw [e] at h
      have := runPops_summary mem base bp0 more (i + 1) _ (if r.isRbp then some i else acc) sp' bp' h
        (by cases hr : r.isRbp <;> simp [hm, hacc])
      simp only [bpSlot, List.length_cons]
      refine ⟨by omega, this.2⟩

/-- A byte sequence that starts with a `pop` or `ret` is never taken for a prologue. -/
theorem not_prologue_of_pops (pops : List PReg) (rest : List Nat) (hwf : ∀ r ∈ pops, r.lo < 8) :
    nextExpectedInPrologueX64 (pops.flatMap encPop ++ 0xc3 :: rest) = false := by
  cases pops with
  | nil =>
    simp only [List.flatMap_nil, List.nil_append, nextExpectedInPrologueX64, byteAt]
    split
    · rfl
    · simp
  | cons r more =>
    have hlo := hwf r (by simp)
    obtain ⟨ext, lo⟩ := r
    simp only at hlo
    have hcases : lo = 0 ∨ lo = 1 ∨ lo = 2 ∨ lo = 3 ∨ lo = 4 ∨ lo = 5 ∨ lo = 6 ∨ lo = 7 := by omega
    simp only [nextExpectedInPrologueX64]
    split
    · rfl
    · cases ext <;> rcases hcases with h | h | h | h | h | h | h | h <;> subst h <;>
        simp [encPop, byteAt]

/-- **x86-64 epilogues are exact.** A thread stopped anywhere inside `pop r1; …; pop rn; ret`
(any registers in any order; `n = 0` is "at the `ret`"): instruction analysis yields a rule,
and executing it restores exactly the `rsp` and `rbp` the CPU will have after the `ret`, and
reports the return address the `ret` will pop. -/
theorem C02_x64_epilogue_exact (text : List Nat) (pc : Nat) (pops : List PReg) (rest : List Nat)
    (regs : RegsX64) (mem : Mem) (sp' bp' ra : Nat)
    (hpc : pc ≤ text.length) (hcode : text.drop pc = pops.flatMap encPop ++ 0xc3 :: rest)
    (hwf : ∀ r ∈ pops, r.lo < 8) (hlen : pops.length + 2 < 32768)
    (hrun : runPops mem pops regs.sp regs.bp = some (sp', bp'))
    (hra : mem sp' = some ra) (hra0 : ra ≠ 0) (hfit : sp' + 8 < U64) :
    ∃ rule, anaX64 text pc = some (some rule) ∧
      execX64 rule true regs mem = .ret (.frame ra) (afterX64 regs ra (sp' + 8) bp') := by
  have hpro : anaPrologueX64 text pc = some none := by
    simp only [anaPrologueX64, hcode, not_prologue_of_pops pops rest hwf]
    simp; omega
  have hfuel : pops.length < (text.drop pc).length + 1 := by
    rw [hcode]; simp only [List.length_append, List.length_cons]
    have := flatMap_encPop_length_ge pops; omega
  have hepi : anaEpilogueX64 text pc = some (epiRule pops.length (bpSlot pops 0 none)) := by
    simp only [anaEpilogueX64]
    rw [if_neg (by omega)]
    rw [hcode] at hfuel ⊢
    rw [epilogueScan_pops _ pops rest 0 none _ hwf hfuel (by omega)]; simp
  have hana : anaX64 text pc = some (epiRule pops.length (bpSlot pops 0 none)) := by
    simp only [anaX64, hpro, hepi]
  have hsum := runPops_summary mem regs.sp regs.bp pops 0 regs.bp none sp' bp'
    (by simpa using hrun) rfl
  obtain ⟨hsp, hbp⟩ := hsum
  simp only [Nat.zero_add] at hsp
  by_cases hn : pops.length = 0
  · -- at the `ret`
    have hnil : pops = [] := List.length_eq_zero_iff.mp hn
    subst hnil
    simp only [runPops] at hrun
    injection hrun with hrun; injection hrun with h1 h2; subst h1 h2
    refine ⟨.justReturn, by simp [hana, epiRule], ?_⟩
    simp only [execX64, cadd_eq_some hfit]
    exact finishX64_ok (by omega) (by simpa using hra) hra0 (by intro ⟨e, _⟩; omega)
  · have hU : pops.length + 1 < U16 := by unfold U16; omega
    cases hb : bpSlot pops 0 none with
    | none =>
      rw [hb] at hbp
      simp only [Option.some.injEq] at hbp
      subst hbp
      refine ⟨.offsetSp (pops.length + 1), by simp [hana, epiRule, hn, hU, hb], ?_⟩
      simp only [execX64]
      rw [umul_eq _ (by unfold U64; omega)]
      have hc : cadd regs.sp ((pops.length + 1) * 8) = some (sp' + 8) := by
        rw [cadd_eq_some (by omega)]; congr 1; omega
      simp only [hc]
      exact finishX64_ok (by omega) (by simpa using hra) hra0 (by intro ⟨e, _⟩; omega)
    | some k =>
      rw [hb] at hbp
      refine ⟨.offsetSpAndRestoreBp (pops.length + 1) k, by simp [hana, epiRule, hn, hU, hb], ?_⟩
      have hk : k < pops.length := by
        -- the slot index is below the number of pops
        have gen : ∀ (l : List PReg) (i : Nat) (acc : Option Nat) (k : Nat),
            bpSlot l i acc = some k → (acc = some k) ∨ (i ≤ k ∧ k < i + l.length) := by
          intro l
          induction l with
          | nil => intro i acc k h; simp [bpSlot] at h; exact Or.inl h
          | cons r more ih =>
            intro i acc k h
            simp only [bpSlot] at h
            rcases ih _ _ _ h with h1 | h1
            · by_cases hr : r.isRbp
              · simp [hr] at h1; right; simp; omega
              · simp [hr] at h1; left; exact h1
            · right; simp; omega
        rcases gen pops 0 none k hb with h1 | h1
        · cases h1
        · omega
      simp only [execX64]
      rw [umul_eq _ (by unfold U64; omega)]
      have hc : cadd regs.sp ((pops.length + 1) * 8) = some (sp' + 8) := by
        rw [cadd_eq_some (by omega)]; congr 1; omega
      simp only [hc]
      rw [imul_eq _ (by omega)]
      have hloc : caddSigned regs.sp ((k : Int) * 8) = some (regs.sp + 8 * k) := by
        apply caddSigned_of_int (by unfold U64 at *; omega) ⟨by omega, by omega⟩ (by push_cast; omega)
          (by omega)
      simp only [hloc, hbp]
      exact finishX64_ok (by omega) (by simpa using hra) hra0 (by intro ⟨e, _⟩; omega)

/-- The forward scan over `pop…; jmp`: a jump that follows at least one pop is a tail call. -/
theorem epilogueScan_pops_jmp (prev : Bool) (j : Nat) (hj : j = 0xeb ∨ j = 0xe9 ∨ j = 0xff) :
    ∀ (pops : List PReg) (rest : List Nat) (n : Nat)
    (acc : Option Nat) (fuel : Nat), (∀ r ∈ pops, r.lo < 8) → pops.length < fuel →
    n + pops.length + 1 < 32768 → 0 < n + pops.length →
    epilogueScanX64 prev (pops.flatMap encPop ++ j :: rest) n acc fuel =
      epiRule (n + pops.length) (bpSlot pops n acc)
  | [], rest, n, acc, fuel, _, hf, hn, hpos => by
    obtain ⟨f, rfl⟩ : ∃ f, fuel = f + 1 := ⟨fuel - 1, by simp at hf; omega⟩
    have hn0 : n ≠ 0 := by simp at hpos; omega
    have hc3 : j ≠ 0xc3 := by rcases hj with h | h | h <;> omega
    have hjj : j = 0xeb ∨ j = 0xe9 ∨ j = 0xff := hj
    simp only [List.flatMap_nil, List.nil_append, epilogueScanX64, bpSlot, epiRule,
      List.length_nil, Nat.add_zero, hc3, hjj, hn0, if_true, if_false, ne_eq, not_false_eq_true]
    cases acc <;> rfl
  | r :: more, rest, n, acc, fuel, hwf, hf, hn, _ => by
    obtain ⟨f, rfl⟩ : ∃ f, fuel = f + 1 := ⟨fuel - 1, by simp at hf; omega⟩
    have hlo := hwf r (by simp)
    have ih := epilogueScan_pops_jmp prev j hj more rest (n + 1)
      (if r.isRbp then some n else acc) f (fun x hx => hwf x (by simp [hx]))
      (by simp at hf; omega) (by simp at hn; omega) (by omega)
    have hlen : n + (r :: more).length = n + 1 + more.length := by simp; omega
    rw [hlen]
    simp only [bpSlot]
    rw [← ih]
    have hU : n + 1 < U16 := by unfold U16; simp at hn; omega
    have h32 : n < 32768 := by simp at hn; omega
    obtain ⟨ext, lo⟩ := r
    simp only at hlo
    have hcases : lo = 0 ∨ lo = 1 ∨ lo = 2 ∨ lo = 3 ∨ lo = 4 ∨ lo = 5 ∨ lo = 6 ∨ lo = 7 := by omega
    cases ext <;> rcases hcases with h | h | h | h | h | h | h | h <;> subst h <;>
      simp [encPop, epilogueScanX64, PReg.isRbp, hU, h32, byteAt]

theorem not_prologue_of_pop_first (r : PReg) (more : List Nat) (hlo : r.lo < 8) :
    nextExpectedInPrologueX64 (encPop r ++ more) = false := by
  obtain ⟨ext, lo⟩ := r
  simp only at hlo
  have hcases : lo = 0 ∨ lo = 1 ∨ lo = 2 ∨ lo = 3 ∨ lo = 4 ∨ lo = 5 ∨ lo = 6 ∨ lo = 7 := by omega
  simp only [nextExpectedInPrologueX64]
  split
  · rfl
  · cases ext <;> rcases hcases with h | h | h | h | h | h | h | h <;> subst h <;>
      simp [encPop, byteAt]

/-- **x86-64 tail calls are exact.** A thread stopped inside `pop r1; …; pop rn; jmp target`
(`n ≥ 1`; `jmp rel8`, `jmp rel32` or `jmp r/m`): the analysed rule restores exactly the `rsp`
and `rbp` the tail-called function will be entered with and reports the return address at the
top of its stack - the caller of the function that is being left. -/
theorem C02_x64_tail_call_exact (text : List Nat) (pc : Nat) (pops : List PReg) (j : Nat)
    (rest : List Nat) (regs : RegsX64) (mem : Mem) (sp' bp' ra : Nat)
    (hj : j = 0xeb ∨ j = 0xe9 ∨ j = 0xff) (hne : pops ≠ [])
    (hpc : pc ≤ text.length) (hcode : text.drop pc = pops.flatMap encPop ++ j :: rest)
    (hwf : ∀ r ∈ pops, r.lo < 8) (hlen : pops.length + 2 < 32768)
    (hrun : runPops mem pops regs.sp regs.bp = some (sp', bp'))
    (hra : mem sp' = some ra) (hra0 : ra ≠ 0) (hfit : sp' + 8 < U64) :
    ∃ rule, anaX64 text pc = some (some rule) ∧
      execX64 rule true regs mem = .ret (.frame ra) (afterX64 regs ra (sp' + 8) bp') := by
  obtain ⟨r0, more, rfl⟩ : ∃ r0 more, pops = r0 :: more := by
    cases pops with
    | nil => exact absurd rfl hne
    | cons a b => exact ⟨a, b, rfl⟩
  have hpro : anaPrologueX64 text pc = some none := by
    have : nextExpectedInPrologueX64 (text.drop pc) = false := by
      rw [hcode, List.flatMap_cons, List.append_assoc]
      exact not_prologue_of_pop_first r0 _ (hwf r0 (by simp))
    simp only [anaPrologueX64, this]
    simp; omega
  have hfuel : (r0 :: more).length < (text.drop pc).length + 1 := by
    rw [hcode]; simp only [List.length_append, List.length_cons]
    have := flatMap_encPop_length_ge (r0 :: more); simp only [List.length_cons] at this; omega
  have hepi : anaEpilogueX64 text pc =
      some (epiRule (r0 :: more).length (bpSlot (r0 :: more) 0 none)) := by
    simp only [anaEpilogueX64]
    rw [if_neg (by omega)]
    rw [hcode] at hfuel ⊢
    rw [epilogueScan_pops_jmp _ j hj (r0 :: more) rest 0 none _ hwf hfuel (by omega) (by simp)]; simp
  have hana : anaX64 text pc = some (epiRule (r0 :: more).length (bpSlot (r0 :: more) 0 none)) := by
    simp only [anaX64, hpro, hepi]
  have hsum := runPops_summary mem regs.sp regs.bp (r0 :: more) 0 regs.bp none sp' bp'
    (by simpa using hrun) rfl
  obtain ⟨hsp, hbp⟩ := hsum
  simp only [Nat.zero_add] at hsp
  have hn : (r0 :: more).length ≠ 0 := by simp
  have hU : (r0 :: more).length + 1 < U16 := by unfold U16; omega
  have hU' : more.length + 1 + 1 < U16 := by simpa using hU
  cases hb : bpSlot (r0 :: more) 0 none with
  | none =>
    rw [hb] at hbp
    simp only [Option.some.injEq] at hbp
    subst hbp
    refine ⟨.offsetSp ((r0 :: more).length + 1), by simp [hana, epiRule, hU', hb], ?_⟩
    simp only [execX64]
    rw [umul_eq _ (by unfold U64; omega)]
    have hc : cadd regs.sp (((r0 :: more).length + 1) * 8) = some (sp' + 8) := by
      rw [cadd_eq_some (by omega)]; congr 1; omega
    simp only [hc]
    exact finishX64_ok (by omega) (by simpa using hra) hra0 (by intro ⟨e, _⟩; omega)
  | some k =>
    rw [hb] at hbp
    refine ⟨.offsetSpAndRestoreBp ((r0 :: more).length + 1) k, by simp [hana, epiRule, hU', hb], ?_⟩
    have hk : k < (r0 :: more).length := by
      have gen : ∀ (l : List PReg) (i : Nat) (acc : Option Nat) (k : Nat),
          bpSlot l i acc = some k → (acc = some k) ∨ (i ≤ k ∧ k < i + l.length) := by
        intro l
        induction l with
        | nil => intro i acc k h; simp [bpSlot] at h; exact Or.inl h
        | cons r more ih =>
          intro i acc k h
          simp only [bpSlot] at h
          rcases ih _ _ _ h with h1 | h1
          · by_cases hr : r.isRbp
            · simp [hr] at h1; right; simp; omega
            · simp [hr] at h1; left; exact h1
          · right; simp; omega
      rcases gen (r0 :: more) 0 none k hb with h1 | h1
      · cases h1
      · omega
    simp only [execX64]
    rw [umul_eq _ (by unfold U64; omega)]
    have hc : cadd regs.sp (((r0 :: more).length + 1) * 8) = some (sp' + 8) := by
      rw [cadd_eq_some (by omega)]; congr 1; omega
    simp only [hc]
    rw [imul_eq _ (by omega)]
    have hloc : caddSigned regs.sp ((k : Int) * 8) = some (regs.sp + 8 * k) := by
      apply caddSigned_of_int (by unfold U64 at *; omega) ⟨by omega, by omega⟩ (by push_cast; omega)
        (by omega)
    simp only [hloc, hbp]
    exact finishX64_ok (by omega) (by simpa using hra) hra0 (by intro ⟨e, _⟩; omega)

/-- The instruction before a tail-call `jmp` that tells the analysis that the frame is gone:
a `pop`, `add rsp, imm8` or `add rsp, imm32`. -/
inductive LastBeforeJmp where
  | pop (r : PReg)
  | addImm8 (i : Nat)
  | addImm32 (a b c d : Nat)

def LastBeforeJmp.bytes : LastBeforeJmp → List Nat
  | .pop r => encPop r
  | .addImm8 i => [0x48, 0x83, 0xc4, i]
  | .addImm32 a b c d => [0x48, 0x81, 0xc4, a, b, c, d]

/-- **x86-64, stopped exactly on a tail-call `jmp`** that follows a `pop` or `add rsp, imm`:
the frame is already gone, the rule is `JustReturn`: the return address is the word at `rsp`. -/
theorem C02_x64_on_tail_jmp (pre rest : List Nat) (l : LastBeforeJmp) (j : Nat)
    (regs : RegsX64) (mem : Mem) (ra : Nat)
    (hj : j = 0xeb ∨ j = 0xe9 ∨ j = 0xff)
    (hl : match l with | .pop r => r.lo < 8 | _ => True)
    (hra : mem regs.sp = some ra) (hra0 : ra ≠ 0) (hfit : regs.sp + 8 < U64) :
    anaX64 (pre ++ l.bytes ++ j :: rest) (pre ++ l.bytes).length = some (some .justReturn) ∧
    execX64 .justReturn true regs mem = .ret (.frame ra) (afterX64 regs ra (regs.sp + 8) regs.bp) := by
  refine ⟨?_, ?_⟩
  · have htake : (pre ++ l.bytes ++ j :: rest).take (pre ++ l.bytes).length = pre ++ l.bytes :=
      List.take_left
    have hdrop : (pre ++ l.bytes ++ j :: rest).drop (pre ++ l.bytes).length = j :: rest :=
      List.drop_left
    have hnp : ¬ (pre ++ l.bytes).length > (pre ++ l.bytes ++ j :: rest).length := by
      simp only [List.length_append, List.length_cons]; omega
    have hpro : nextExpectedInPrologueX64 (j :: rest) = false := by
      simp only [nextExpectedInPrologueX64]
      split
      · rfl
      · rcases hj with rfl | rfl | rfl <;> simp [byteAt]
    have hscan : ∀ prev fuel, prev = true →
        epilogueScanX64 prev (j :: rest) 0 none (fuel + 1) = some .justReturn := by
      intro prev fuel hp
      subst hp
      rcases hj with rfl | rfl | rfl <;> simp [epilogueScanX64]
    have hprev : ((match (pre ++ l.bytes).getLast? with
        | some b => b &&& 0xf8 == 0x58
        | none => false) ||
        (decide ((pre ++ l.bytes).length ≥ 4) &&
          ((pre ++ l.bytes).drop ((pre ++ l.bytes).length - 4)).take 3 == [0x48, 0x83, 0xc4]) ||
        (decide ((pre ++ l.bytes).length ≥ 7) &&
          ((pre ++ l.bytes).drop ((pre ++ l.bytes).length - 7)).take 3 == [0x48, 0x81, 0xc4])) = true := by
      cases l with
      | pop r =>
        obtain ⟨ext, lo⟩ := r
        simp only at hl
        have hcases : lo = 0 ∨ lo = 1 ∨ lo = 2 ∨ lo = 3 ∨ lo = 4 ∨ lo = 5 ∨ lo = 6 ∨ lo = 7 := by omega
        cases ext <;> rcases hcases with h | h | h | h | h | h | h | h <;> subst h <;>
          simp [LastBeforeJmp.bytes, encPop]
      | addImm8 i =>
        have e : (pre ++ [0x48, 0x83, 0xc4, i]).length - 4 = pre.length := by simp
        simp only [LastBeforeJmp.bytes, e, List.drop_left]
        simp
      | addImm32 a b c d =>
        have e : (pre ++ [0x48, 0x81, 0xc4, a, b, c, d]).length - 7 = pre.length := by simp
        simp only [LastBeforeJmp.bytes, e, List.drop_left]
        simp
    simp only [anaX64, anaPrologueX64, anaEpilogueX64, hnp, if_false, htake, hdrop, hpro,
      Bool.not_false, if_true]
    exact congrArg some (hscan _ _ hprev)
  · simp only [execX64, cadd_eq_some hfit]
    exact finishX64_ok (by omega) (by simpa using hra) hra0 (by intro ⟨e, _⟩; omega)

/-! ## x86-64 prologues -/

/-- The bytes of `push r1; …; push rn` as the backward scan meets them: `pushes` lists the
pushes nearest to pc first (last executed first). -/
def revPushBytes (pushes : List PReg) : List Nat := pushes.flatMap fun r => (encPush r).reverse

/-- The byte the backward scan sees first is not a REX prefix. -/
def NoRexHead (l : List Nat) : Prop := ∀ p rest, l = p :: rest → p &&& 0xfe ≠ 0x40

theorem noRexHead_revPush (r : PReg) (more : List PReg) (pre : List Nat) (h : r.lo < 8) :
    NoRexHead (revPushBytes (r :: more) ++ pre) := by
  intro p rest hp
  obtain ⟨ext, lo⟩ := r
  simp only at h
  have hcases : lo = 0 ∨ lo = 1 ∨ lo = 2 ∨ lo = 3 ∨ lo = 4 ∨ lo = 5 ∨ lo = 6 ∨ lo = 7 := by omega
  cases ext <;> rcases hcases with h | h | h | h | h | h | h | h <;> subst h <;>
    simp [revPushBytes, encPush] at hp <;> (obtain ⟨rfl, _⟩ := hp; decide)

/-- The backward scan walks over any sequence of pushes, counting them. -/
theorem prologueScan_pushes : ∀ (pushes : List PReg) (pre : List Nat) (n fuel : Nat),
    (∀ r ∈ pushes, r.lo < 8) → pushes.length ≤ fuel → n + pushes.length + 1 < U16 →
    NoRexHead pre →
    prologueScanX64 fuel (revPushBytes pushes ++ pre) n =
      prologueScanX64 (fuel - pushes.length) pre (n + pushes.length)
  | [], pre, n, fuel, _, _, _, _ => by simp [revPushBytes]
  | r :: more, pre, n, fuel, hwf, hf, hn, hpre => by
    obtain ⟨f, rfl⟩ : ∃ f, fuel = f + 1 := ⟨fuel - 1, by simp at hf; omega⟩
    have hlo := hwf r (by simp)
    have htail : NoRexHead (revPushBytes more ++ pre) := by
      cases more with
      | nil => simpa [revPushBytes] using hpre
      | cons r2 more2 => exact noRexHead_revPush r2 more2 pre (hwf r2 (by simp))
    have ih := prologueScan_pushes more pre (n + 1) f (fun x hx => hwf x (by simp [hx]))
      (by simp at hf; omega) (by simp at hn; omega) hpre
    have e1 : f + 1 - (r :: more).length = f - more.length := by simp
    have e2 : n + (r :: more).length = n + 1 + more.length := by simp; omega
    rw [e1, e2, ← ih]
    have hU : n + 1 < U16 := by simp at hn; omega
    have hrb : revPushBytes (r :: more) ++ pre = (encPush r).reverse ++ (revPushBytes more ++ pre) := by
      simp [revPushBytes]
    rw [hrb]
    generalize revPushBytes more ++ pre = tail at htail
    obtain ⟨ext, lo⟩ := r
    simp only at hlo
    have hcases : lo = 0 ∨ lo = 1 ∨ lo = 2 ∨ lo = 3 ∨ lo = 4 ∨ lo = 5 ∨ lo = 6 ∨ lo = 7 := by omega
    cases ext
    · -- one-byte push: the byte before it must not be taken for its prefix
      cases tail with
      | nil =>
        rcases hcases with h | h | h | h | h | h | h | h <;> subst h <;>
          simp [encPush, prologueScanX64, hU]
      | cons p rest2 =>
        have hp := htail p rest2 rfl
        rcases hcases with h | h | h | h | h | h | h | h <;> subst h <;>
          simp [encPush, prologueScanX64, hU, hp]
    · rcases hcases with h | h | h | h | h | h | h | h <;> subst h <;>
        simp [encPush, prologueScanX64, hU]

/-- **x86-64 prologues, before the frame pointer is set up.** Stopped after the function's first
`n` pushes (any registers, any order; the next instruction is another prologue instruction):
the analysed rule finds the return address above the pushed words and restores the caller's
`rsp`; `rbp` still holds the caller's value. -/
theorem C02_x64_prologue_pushes_exact (text : List Nat) (pc : Nat) (pushes : List PReg)
    (regs : RegsX64) (mem : Mem) (ra : Nat)
    (hpc : pc ≤ text.length) (hcode : (text.take pc).reverse = revPushBytes pushes)
    (hnext : nextExpectedInPrologueX64 (text.drop pc) = true)
    (hwf : ∀ r ∈ pushes, r.lo < 8) (hlen : pushes.length + 2 < U16)
    (hra : mem (regs.sp + 8 * pushes.length) = some ra) (hra0 : ra ≠ 0)
    (hfit : regs.sp + 8 * pushes.length + 8 < U64) :
    anaX64 text pc = some (some (.offsetSp (pushes.length + 1))) ∧
      execX64 (.offsetSp (pushes.length + 1)) true regs mem =
        .ret (.frame ra) (afterX64 regs ra (regs.sp + 8 * pushes.length + 8) regs.bp) := by
  constructor
  · have hlen2 : pushes.length ≤ (text.take pc).length := by
      have : (text.take pc).length = (revPushBytes pushes).length := by rw [← hcode]; simp
      rw [this]
      clear hcode this hlen hra hfit
      induction pushes with
      | nil => simp
      | cons r rest ih =>
        have := ih (fun x hx => hwf x (by simp [hx]))
        simp only [revPushBytes, List.flatMap_cons, List.length_append, List.length_reverse, List.length_cons] at this ⊢
        have h1 : 1 ≤ (encPush r).length := by unfold encPush; split <;> simp
        omega
    have hscan := prologueScan_pushes pushes [] 0 ((text.take pc).length + 1) hwf (by omega)
      (by omega) (by intro p rest h; cases h)
    simp only [List.append_nil, Nat.zero_add] at hscan
    have hpro : anaPrologueX64 text pc = some (some (.offsetSp (pushes.length + 1))) := by
      simp only [anaPrologueX64, hnext]
      rw [if_neg (by omega)]
      simp only [Bool.not_true, Bool.false_eq_true, if_false, hcode, hscan]
      have : pushes.length + 1 < U16 := by omega
      cases hfu : (text.take pc).length + 1 - pushes.length with
      | zero => simp [prologueScanX64, this]
      | succ k => simp [prologueScanX64, this]
    simp [anaX64, hpro]
  · simp only [execX64]
    unfold U16 at hlen
    rw [umul_eq _ (by unfold U64; omega)]
    have hc : cadd regs.sp ((pushes.length + 1) * 8) = some (regs.sp + 8 * pushes.length + 8) := by
      rw [cadd_eq_some (by omega)]; congr 1; omega
    simp only [hc]
    exact finishX64_ok (by omega) (by simpa using hra) hra0 (by intro ⟨e, _⟩; omega)

/-- **x86-64 prologues, after `push rbp; mov rbp, rsp`.** Stopped after the frame setup and any
further pushes: the rule is the frame pointer rule (whose execution is the frame-pointer
convention, `C04_x64_fp_rule_is_convention`). -/
theorem C02_x64_prologue_after_frame_setup (text : List Nat) (pc : Nat) (pushes : List PReg)
    (hpc : pc ≤ text.length)
    (hcode : (text.take pc).reverse = revPushBytes pushes ++ [0xe5, 0x89, 0x48, 0x55])
    (hnext : nextExpectedInPrologueX64 (text.drop pc) = true)
    (hwf : ∀ r ∈ pushes, r.lo < 8) (hlen : pushes.length + 2 < U16) :
    anaX64 text pc = some (some .useFramePointer) := by
  have hlen2 : pushes.length < (text.take pc).length := by
    have : (text.take pc).length = (revPushBytes pushes ++ [0xe5, 0x89, 0x48, 0x55]).length := by
      rw [← hcode]; simp
    rw [this]
    clear hcode this hlen
    induction pushes with
    | nil => simp
    | cons r rest ih =>
      have := ih (fun x hx => hwf x (by simp [hx]))
      simp only [revPushBytes, List.flatMap_cons, List.length_append, List.length_reverse, List.length_cons] at this ⊢
      have h1 : 1 ≤ (encPush r).length := by unfold encPush; split <;> simp
      omega
  have hscan := prologueScan_pushes pushes [0xe5, 0x89, 0x48, 0x55] 0 ((text.take pc).length + 1) hwf
    (by omega) (by omega) (by intro p rest h; injection h with h _; subst h; decide)
  have hpro : anaPrologueX64 text pc = some (some .useFramePointer) := by
    simp only [anaPrologueX64, hnext]
    rw [if_neg (by omega)]
    simp only [Bool.not_true, Bool.false_eq_true, if_false, hcode, hscan]
    obtain ⟨k, hk⟩ : ∃ k, (text.take pc).length + 1 - pushes.length = k + 1 :=
      ⟨(text.take pc).length - pushes.length, by omega⟩
    rw [hk]; simp [prologueScanX64]
  simp [anaX64, hpro]

/-! ## x86-64 bodies -/

/-- **Frameless bodies.** For a frameless function whose frame is `S` bytes including the return
address (`S` a multiple of 8), the rule derived from the opcode restores `rsp + S`, reads the
return address from the top word, and - if the opcode lists `rbp` at position `pos` counted
from the outermost saved register - `rbp` from the word `16 + 8·pos` below the top. -/
theorem C02_x64_frameless_body_exact (S : Nat) (saved : List (Option CuiReg)) (first : Bool)
    (regs : RegsX64) (mem : Mem) (ra : Nat) (h8 : S % 8 = 0) (hS : 8 ≤ S) (hSmax : S < 262144)
    (hfit : regs.sp + S < U64) (hra : mem (regs.sp + S - 8) = some ra) (hra0 : ra ≠ 0) :
    (bpPosFromOutside saved = none →
      framelessRuleX64 S saved = .exec (.offsetSp (S / 8)) ∧
      execX64 (.offsetSp (S / 8)) first regs mem =
        .ret (.frame ra) (afterX64 regs ra (regs.sp + S) regs.bp)) ∧
    (∀ pos b, bpPosFromOutside saved = some pos → 16 + 8 * pos ≤ S →
      mem (regs.sp + S - 16 - 8 * pos) = some b →
      ∃ rule, framelessRuleX64 S saved = .exec rule ∧
        execX64 rule first regs mem = .ret (.frame ra) (afterX64 regs ra (regs.sp + S) b)) := by
  have hmul : S / 8 * 8 = S := by omega
  constructor
  · intro hnone
    refine ⟨by simp [framelessRuleX64, hnone], ?_⟩
    simp only [execX64]
    rw [umul_eq _ (by unfold U64; omega), hmul, cadd_eq_some hfit]
    exact finishX64_ok (by omega) hra hra0 (by intro ⟨e, _⟩; omega)
  · intro pos b hpos hle hb
    obtain ⟨q, hq⟩ : ∃ q, S - 16 - 8 * pos = 8 * q := ⟨(S - 16 - 8 * pos) / 8, by omega⟩
    have hd : ((S : Int) - 16 - (pos : Int) * 8).tdiv 8 = (q : Int) := by
      have : (S : Int) - 16 - (pos : Int) * 8 = ((8 * q : Nat) : Int) := by omega
      rw [this, Int.tdiv_eq_ediv_of_nonneg (by omega)]; omega
    refine ⟨.offsetSpAndRestoreBp (S / 8) q, ?_, ?_⟩
    · simp only [framelessRuleX64, hpos]
      rw [hd]
      rw [if_pos (by constructor <;> omega)]
    · simp only [execX64]
      rw [umul_eq _ (by unfold U64; omega), hmul, cadd_eq_some hfit]
      simp only []
      rw [imul_eq _ (by omega)]
      have hloc : caddSigned regs.sp ((q : Int) * 8) = some (regs.sp + S - 16 - 8 * pos) := by
        apply caddSigned_of_int (by unfold U64 at *; omega) ⟨by omega, by omega⟩ (by omega) (by omega)
      simp only [hloc, hb]
      exact finishX64_ok (by omega) hra hra0 (by intro ⟨e, _⟩; omega)

/-- The opcode lists the saved registers last-pushed first (LLVM reverses the push order before
encoding; libunwind reads it back the same way). If the prologue pushes `pushes` in this order,
the position used above is the index of `rbp` in push order: the `j`-th pushed register
(counting from 0) is found `16 + 8·j` bytes below the CFA. -/
theorem C02_x64_rbp_position_is_push_index (pushes : List CuiReg) :
    bpPosFromOutside ((pushes.reverse).map some) = pushes.findIdx? (· == .rbp) := by
  unfold bpPosFromOutside
  congr 1
  rw [← List.map_reverse, List.reverse_reverse]
  induction pushes with
  | nil => rfl
  | cons a rest ih => simp [List.filterMap_cons, ih]

/-- Frame-based entries use the frame pointer rule in caller frames and in first-frame bodies
(when instruction analysis does not recognise a prologue or epilogue at pc). -/
theorem C02_x64_frame_based_is_fp_rule (offsetInFn : Nat) (fnBytes : Option (List Nat)) :
    cuiUnwindX64 .frameBased false offsetInFn fnBytes = some (.exec .useFramePointer) ∧
    (∀ bytes, fnBytes = some bytes → anaX64 bytes offsetInFn = some none →
      cuiUnwindX64 .frameBased true offsetInFn fnBytes = some (.exec .useFramePointer)) := by
  constructor
  · simp [cuiUnwindX64]
  · intro bytes hb ha; simp [cuiUnwindX64, hb, ha]

/-- Whatever instruction analysis finds in the first frame wins over the opcode. -/
theorem C02_x64_analysis_takes_precedence (op : CuiOpX64) (offsetInFn : Nat) (bytes : List Nat)
    (rule : RuleX64) (ha : anaX64 bytes offsetInFn = some (some rule)) :
    cuiUnwindX64 op true offsetInFn (some bytes) = some (.exec rule) := by
  simp [cuiUnwindX64, ha]

/-- Caller frames never consult the text bytes. -/
theorem C02_x64_caller_frames_ignore_analysis (op : CuiOpX64) (o1 o2 : Nat) (b : List Nat)
    (hop : ∀ i a s, op ≠ .framelessIndirect i a s) :
    cuiUnwindX64 op false o1 (some b) = cuiUnwindX64 op false o2 none := by
  cases op <;> simp_all [cuiUnwindX64]

/-! ## Dispatch (`CompactUnwindInfoUnwinder::unwind_frame`) -/

theorem C02_stubs_take_precedence {Op Rule : Type} (d : CuiData Op)
    (unwindFn : Op → Bool → Nat → Option (List Nat) → Option (CuiRes Rule))
    (stubRule fnStartRule : Rule) (stubHelperRule : Nat → Rule) (rel : Nat)
    (h : d.stubs.1 ≤ rel ∧ rel < d.stubs.2) :
    cuiDispatch d unwindFn stubRule fnStartRule stubHelperRule rel true = some (.exec stubRule) ∧
    cuiDispatch d unwindFn stubRule fnStartRule stubHelperRule rel false = some .err := by
  simp [cuiDispatch, h]

theorem C02_stub_helper_dispatch {Op Rule : Type} (d : CuiData Op)
    (unwindFn : Op → Bool → Nat → Option (List Nat) → Option (CuiRes Rule))
    (stubRule fnStartRule : Rule) (stubHelperRule : Nat → Rule) (rel : Nat)
    (hs : ¬ (d.stubs.1 ≤ rel ∧ rel < d.stubs.2))
    (h : d.stubHelper.1 ≤ rel ∧ rel < d.stubHelper.2) :
    cuiDispatch d unwindFn stubRule fnStartRule stubHelperRule rel true =
      some (.exec (stubHelperRule (rel - d.stubHelper.1))) ∧
    cuiDispatch d unwindFn stubRule fnStartRule stubHelperRule rel false = some .err := by
  simp [cuiDispatch, hs, h]

theorem C02_function_start_is_leaf {Op Rule : Type} (d : CuiData Op)
    (unwindFn : Op → Bool → Nat → Option (List Nat) → Option (CuiRes Rule))
    (stubRule fnStartRule : Rule) (stubHelperRule : Nat → Rule) (rel : Nat) (f : CuiFunc Op)
    (hs : ¬ (d.stubs.1 ≤ rel ∧ rel < d.stubs.2))
    (hh : ¬ (d.stubHelper.1 ≤ rel ∧ rel < d.stubHelper.2))
    (hl : cuiLookup d.funcs rel = some f) (hstart : rel = f.start) :
    cuiDispatch d unwindFn stubRule fnStartRule stubHelperRule rel true = some (.exec fnStartRule) := by
  subst hstart
  simp [cuiDispatch, hs, hh, hl]

theorem C02_outside_every_function {Op Rule : Type} (d : CuiData Op)
    (unwindFn : Op → Bool → Nat → Option (List Nat) → Option (CuiRes Rule))
    (stubRule fnStartRule : Rule) (stubHelperRule : Nat → Rule) (rel : Nat)
    (hs : ¬ (d.stubs.1 ≤ rel ∧ rel < d.stubs.2))
    (hh : ¬ (d.stubHelper.1 ≤ rel ∧ rel < d.stubHelper.2))
    (hl : cuiLookup d.funcs rel = none) :
    cuiDispatch d unwindFn stubRule fnStartRule stubHelperRule rel true = some (.exec stubRule) ∧
    cuiDispatch d unwindFn stubRule fnStartRule stubHelperRule rel false = some .err := by
  simp [cuiDispatch, hs, hh, hl]

/-- The function bytes handed to the architecture are exactly the function's slice of the text,
and only if the text covers the whole function. -/
theorem C02_function_bytes_are_the_function {Op Rule : Type} (d : CuiData Op)
    (unwindFn : Op → Bool → Nat → Option (List Nat) → Option (CuiRes Rule))
    (stubRule fnStartRule : Rule) (stubHelperRule : Nat → Rule) (rel : Nat) (f : CuiFunc Op)
    (first : Bool) (textOff : Nat) (bytes : List Nat)
    (hs : ¬ (d.stubs.1 ≤ rel ∧ rel < d.stubs.2))
    (hh : ¬ (d.stubHelper.1 ≤ rel ∧ rel < d.stubHelper.2))
    (hl : cuiLookup d.funcs rel = some f) (hstart : ¬ (first = true ∧ rel = f.start))
    (ht : d.text = some (textOff, bytes)) (h1 : textOff ≤ f.start) (h2 : f.start ≤ f.stop)
    (h3 : f.stop - textOff ≤ bytes.length) :
    cuiDispatch d unwindFn stubRule fnStartRule stubHelperRule rel first =
      unwindFn f.op first (rel - f.start)
        (some ((bytes.drop (f.start - textOff)).take (f.stop - f.start))) := by
  simp only [cuiDispatch, hs, hh, hl, if_false]
  rw [if_neg (by simpa using hstart)]
  simp only [ht]
  rw [if_pos (by refine ⟨h1, by omega, by omega, h3⟩)]

/-! ## `__stub_helper` (documented `dyld_stub_binder` layout) -/

/-- Words on the stack above `rsp` besides the return address, by offset into `__stub_helper`:
the 16-byte header `lea r11, …` (7 bytes; entered by a `jmp` from an entry that pushed its
index) `; push r11 ; jmp …; nop`, then 10-byte entries `push imm32 (5) ; jmp header (5)`. -/
def stubHelperExtraWordsX64 (offset : Nat) : Nat :=
  if offset < 7 then 1 else if offset < 0x10 then 2 else if (offset - 0x10) % 10 < 5 then 0 else 1

theorem C02_x64_stub_helper_exact (offset : Nat) (regs : RegsX64) (mem : Mem) (ra : Nat)
    (hra : mem (regs.sp + 8 * stubHelperExtraWordsX64 offset) = some ra) (hra0 : ra ≠ 0)
    (hfit : regs.sp + 8 * stubHelperExtraWordsX64 offset + 8 < U64) :
    execX64 (stubHelperRuleX64 offset) true regs mem =
      .ret (.frame ra) (afterX64 regs ra (regs.sp + 8 * stubHelperExtraWordsX64 offset + 8) regs.bp) := by
  unfold stubHelperRuleX64 stubHelperExtraWordsX64 at *
  split at hra <;> rename_i c1
  · simp only [c1, if_true] at hfit ⊢
    simp only [execX64]
    rw [umul_eq _ (by decide), cadd_eq_some (by omega)]
    exact finishX64_ok (by omega) (by simpa using hra) hra0 (by intro ⟨e, _⟩; omega)
  · split at hra <;> rename_i c2
    · simp only [c1, c2, if_true, if_false] at hfit ⊢
      simp only [execX64]
      rw [umul_eq _ (by decide), cadd_eq_some (by omega)]
      exact finishX64_ok (by omega) (by simpa using hra) hra0 (by intro ⟨e, _⟩; omega)
    · split at hra <;> rename_i c3
      · simp only [c1, c2, c3, if_true, if_false] at hfit ⊢
        simp only [execX64]
        rw [cadd_eq_some (by omega)]
        exact finishX64_ok (by omega) (by simpa using hra) hra0 (by intro ⟨e, _⟩; omega)
      · simp only [c1, c2, c3, if_true, if_false] at hfit ⊢
        simp only [execX64]
        rw [umul_eq _ (by decide), cadd_eq_some (by omega)]
        exact finishX64_ok (by omega) (by simpa using hra) hra0 (by intro ⟨e, _⟩; omega)

/-! ## arm64 bodies and stubs -/

/-- **arm64 frameless bodies** (first frame only - a frameless function cannot have called
anyone without saving lr): `sp + size`, return address in `lr`, `fp` untouched. -/
theorem C02_a64_frameless_body_exact (size : Nat) (regs : RegsA64) (mem : Mem)
    (h16 : size % 16 = 0) (hpos : 0 < size) (hmax : size < 1048576) (hfit : regs.sp + size < U64)
    (hra0 : strip regs.mask regs.lr ≠ 0) :
    cuiUnwindA64 (.frameless size) false 0 none = some .err ∧
    (∀ off, cuiUnwindA64 (.frameless size) true off none = some (.exec (.offsetSp (size / 16)))) ∧
    execA64 (.offsetSp (size / 16)) true regs mem =
      .ret (.frame (strip regs.mask regs.lr)) (afterA64 regs regs.lr (regs.sp + size) regs.fp) := by
  refine ⟨by simp [cuiUnwindA64], ?_, ?_⟩
  · intro off
    have : size ≠ 0 := by omega
    simp [cuiUnwindA64, this]
  · have hmul : size / 16 * 16 = size := by omega
    simp only [execA64, Bool.not_true, Bool.false_eq_true, if_false]
    rw [umul_eq _ (by unfold U64; omega), hmul, cadd_eq_some hfit]
    exact finishA64_ok hra0 (by intro h; cases h)

/-- arm64 frame-based entries use the frame pointer rule unless instruction analysis
recognises a prologue or epilogue at pc; null entries are treated as leaves in the first frame
and fail in caller frames. -/
theorem C02_a64_frame_based_and_null (off : Nat) :
    cuiUnwindA64 .frameBased false off none = some (.exec .useFramePointer) ∧
    (∀ bytes, anaA64 bytes off = some none →
      cuiUnwindA64 .frameBased true off (some bytes) = some (.exec .useFramePointer)) ∧
    (∀ b, cuiUnwindA64 .null true off b = some (.exec .noOp)) ∧
    (∀ b, cuiUnwindA64 .null false off b = some .err) := by
  refine ⟨by simp [cuiUnwindA64], ?_, ?_, ?_⟩
  · intro bytes h; simp [cuiUnwindA64, h]
  · intro b; simp [cuiUnwindA64]
  · intro b; simp [cuiUnwindA64]

/-- arm64 `__stub_helper`: the header pushes two registers in its 4th instruction
(`stp x16, x17, [sp, #-16]!`); entries push nothing. -/
def stubHelperExtraBytesA64 (offset : Nat) : Nat :=
  if offset < 0xc then 0 else if offset < 0x18 then 16 else 0

theorem C02_a64_stub_helper_exact (offset : Nat) (regs : RegsA64) (mem : Mem)
    (hfit : regs.sp + 16 < U64) (hra0 : strip regs.mask regs.lr ≠ 0) :
    execA64 (stubHelperRuleA64 offset) true regs mem =
      .ret (.frame (strip regs.mask regs.lr))
        (afterA64 regs regs.lr (regs.sp + stubHelperExtraBytesA64 offset) regs.fp) := by
  unfold stubHelperRuleA64 stubHelperExtraBytesA64
  split
  · simp only [execA64, Bool.not_true, Bool.false_eq_true, if_false]
    exact finishA64_ok hra0 (by intro h; cases h)
  · split
    · simp only [execA64, Bool.not_true, Bool.false_eq_true, if_false]
      rw [umul_eq _ (by decide), cadd_eq_some (by omega)]
      exact finishA64_ok hra0 (by intro h; cases h)
    · simp only [execA64, Bool.not_true, Bool.false_eq_true, if_false]
      exact finishA64_ok hra0 (by intro h; cases h)

/-! ## Non-vacuity -/

/-- `pop rbx; pop r14; pop rbp; ret` -/
example : anaX64 [0x90, 0x5b, 0x41, 0x5e, 0x5d, 0xc3] 1 = some (some (.offsetSpAndRestoreBp 4 2)) := by
  decide

/-- `pop r13; ret` must not be taken for `pop rbp` (`41 5d`). -/
example : anaX64 [0x41, 0x5d, 0xc3] 0 = some (some (.offsetSp 2)) := by decide

/-- `push rbp; mov rbp, rsp; push rbx | push r14; sub rsp, 0x18` -/
example : anaX64 [0x55, 0x48, 0x89, 0xe5, 0x53, 0x41, 0x56, 0x48, 0x83, 0xec, 0x18] 5 =
    some (some .useFramePointer) := by decide

/-- `push r15; push rbx | sub rsp, 0x28` -/
example : anaX64 [0x41, 0x57, 0x53, 0x48, 0x83, 0xec, 0x28, 0x90] 3 = some (some (.offsetSp 3)) := by
  decide

end FH
