import FH.ModuleLemmas
import FH.World
/-!
# C13 — Return addresses are looked up at address−1, instruction pointers exactly
-/
namespace FH

theorem C13_lookup_address (a : Nat) :
    (FrameAddr.ip a).lookup = a ∧ (FrameAddr.ret a).lookup = a - 1 := ⟨rfl, rfl⟩

/-- Every lookup in `unwind_frame` — cache slot, module search, and (through the relative
address) the search inside the module's unwind data — uses the lookup address, never the raw
address: the outcome for a return address `a` is the outcome for lookup address `a - 1`
in caller-frame mode. -/
theorem C13_unwind_uses_lookup_address (A : Arch) (N : Nat) (u : Unw) (c : Cache A.Rule)
    (a b : Nat) (regs : A.Regs) (mem : Mem) (h : a - 1 = b - 1) :
    unwindFrame A N u c (.ret a) regs mem = unwindFrame A N u c (.ret b) regs mem := by
  simp [unwindFrame, missPath, FrameAddr.lookup, FrameAddr.isReturn, h]

/-- Adjacent modules `F = [x, b)` and `G = [b, y)`: the return address `b` (a call as the very
last instruction of `F`) resolves to `F`, the instruction pointer `b` resolves to `G`. -/
theorem C13_adjacent_modules (mods : List Module) (h : NonOverlap mods) (i j : Nat) (F G : Module)
    (hF : mods[i]? = some F) (hG : mods[j]? = some G) (hadj : F.stop = G.start)
    (hbF : F.baseAvma ≤ F.start) (hbG : G.baseAvma = G.start) (hsz : F.stop - F.baseAvma ≤ U32) :
    findModule mods (FrameAddr.ret G.start).lookup = some (i, G.start - 1 - F.baseAvma) ∧
    findModule mods (FrameAddr.ip G.start).lookup = some (j, 0) := by
  have hFne := h.2 F (List.mem_of_getElem? hF)
  have hGne := h.2 G (List.mem_of_getElem? hG)
  refine ⟨?_, ?_⟩
  · simp only [FrameAddr.lookup]
    rw [findModule_complete mods h (G.start - 1) i F hF ⟨by omega, by omega⟩]
    have : ¬ (G.start - 1 < F.baseAvma) := by omega
    have : G.start - 1 - F.baseAvma < U32 := by omega
    simp [*]
  · simp only [FrameAddr.lookup]
    rw [findModule_complete mods h G.start j G hG ⟨by omega, by omega⟩]
    simp [hbG, U32]

/-- Adjacent FDEs inside one module: the row for the lookup address `b - 1` comes from the
FDE ending at `b`, the row for `b` from the FDE starting at `b`. -/
theorem C13_adjacent_fdes (F G : Fde) (hadj : F.start + F.len = G.start) (hF : 0 < F.len)
    (hG : 0 < G.len) (hFe : F.evalFails = false) (hGe : G.evalFails = false) :
    F.rowFor (G.start - 1) = ((F.rows.filter fun p => p.1 ≤ G.start - 1 - F.start).getLast?).map (·.2) ∧
    G.rowFor G.start = ((G.rows.filter fun p => p.1 ≤ 0).getLast?).map (·.2) ∧
    G.rowFor (G.start - 1) = none ∧ F.rowFor G.start = none := by
  unfold Fde.rowFor
  have h1 : F.start ≤ G.start - 1 ∧ G.start - 1 < F.start + F.len := by omega
  have h2 : G.start ≤ G.start ∧ G.start < G.start + G.len := by omega
  have h3 : ¬ (G.start ≤ G.start - 1 ∧ G.start - 1 < G.start + G.len) := by omega
  have h4 : ¬ (F.start ≤ G.start ∧ G.start < F.start + F.len) := by omega
  simp [hFe, hGe, h1, h2, h3, h4]

/-- Row boundaries inside one FDE: if the rows change at offset `k` (a call as the last
instruction before a block with another CFA - a call to a noreturn function), the return
address `start + k` is unwound with the row in force *before* `k`, the instruction pointer
`start + k` with the row that starts there. -/
theorem C13_row_boundary (fde : Fde) (r1 r2 : Row) (k : Nat) (hk : 0 < k) (hlen : k < fde.len)
    (he : fde.evalFails = false) (hrows : fde.rows = [(0, r1), (k, r2)]) :
    fde.rowFor ((FrameAddr.ret (fde.start + k)).lookup) = some r1 ∧
    fde.rowFor ((FrameAddr.ip (fde.start + k)).lookup) = some r2 := by
  unfold Fde.rowFor FrameAddr.lookup
  simp only [he, hrows]
  have h1 : fde.start ≤ fde.start + k - 1 ∧ fde.start + k - 1 < fde.start + fde.len := by omega
  have h2 : fde.start ≤ fde.start + k ∧ fde.start + k < fde.start + fde.len := by omega
  have h3 : ¬ (k ≤ fde.start + k - 1 - fde.start) := by omega
  have h4 : k ≤ fde.start + k - fde.start := by omega
  simp [h1, h2, h3, h4, List.filter]

/-- Through the whole call: a return address is unwound with the plan for the relative
address of `address - 1`; the plan never sees the raw return address. -/
theorem C13_plan_sees_lookup_address (A : Arch) (u : Unw) (a : Nat) (regs : A.Regs) (mem : Mem)
    (i rel : Nat) (m : Module) (hf : findModule u.mods (a - 1) = some (i, rel))
    (hm : u.mods[i]? = some m) (r : A.Rule) (hp : plan A m rel false = .exec r) :
    missPath A u (.ret a) regs mem = (some r, A.exec r false regs mem) := by
  simp [missPath, FrameAddr.lookup, FrameAddr.isReturn, hf, hm, hp]

end FH
