import FH.RuleLemmas
import FH.RelocLemmas
import FH.RelocA64
/-!
# A rule step ends the walk only at a root marker (C11)
-/
namespace FH

theorem finishX64_done {regs1 regs' : RegsX64} {sp newSp newBp : Nat} {mem : Mem}
    (h : finishX64 regs1 sp newSp newBp mem = .ret .done regs') : ∃ a, mem a = some 0 := by
  unfold finishX64 at h
  split at h
  · cases h
  · split at h
    · cases h
    · rename_i ra hra
      split at h
      · rename_i h0; subst h0; exact ⟨_, hra⟩
      · split at h <;> cases h

theorem fpStepX64_done {regs regs' : RegsX64} {mem : Mem}
    (h : fpStepX64 regs mem = .ret .done regs') : regs.bp = 0 ∨ ∃ a, mem a = some 0 := by
  unfold fpStepX64 at h
  simp only [] at h
  split at h
  · left; assumption
  · split at h
    · cases h
    · split at h
      · cases h
      · split at h
        · cases h
        · right; exact finishX64_done h

/-- x86-64: a rule step completes the walk only at a root marker. -/
theorem execX64_done {rule : RuleX64} {first : Bool} {regs regs' : RegsX64} {mem : Mem}
    (h : execX64 rule first regs mem = .ret .done regs') :
    rule = .endOfStack ∨ (usesBpX64 rule first = true ∧ regs.bp = 0) ∨ ∃ a, mem a = some 0 := by
  cases rule with
  | endOfStack => left; rfl
  | justReturn =>
    simp only [execX64] at h
    split at h
    · cases h
    · right; right; exact finishX64_done h
  | justReturnIfFirstFrameOtherwiseFp =>
    cases first with
    | true =>
      simp only [execX64, if_true] at h
      split at h
      · cases h
      · right; right; exact finishX64_done h
    | false =>
      simp only [execX64, Bool.false_eq_true, if_false] at h
      rcases fpStepX64_done h with h1 | h1
      · right; left; exact ⟨rfl, h1⟩
      · right; right; exact h1
  | useFramePointer =>
    simp only [execX64] at h
    rcases fpStepX64_done h with h1 | h1
    · right; left; exact ⟨rfl, h1⟩
    · right; right; exact h1
  | offsetSp k =>
    simp only [execX64, umul] at h
    split at h
    · split at h
      · cases h
      · right; right; exact finishX64_done h
    · cases h
  | offsetSpAndRestoreBp k b =>
    simp only [execX64, umul, imul] at h
    split at h
    · split at h
      · cases h
      · split at h
        · split at h
          · cases h
          · split at h
            · right; right; exact finishX64_done h
            · split at h
              · right; right; exact finishX64_done h
              · cases h
        · cases h
    · cases h
  | offsetSpAndPopRegisters k n e =>
    simp only [execX64, umul] at h
    split at h
    · split at h
      · cases h
      · split at h
        · cases h
        · split at h
          · cases h
          · right; right; exact finishX64_done h
    · cases h


/-- What "the return address is null" means on aarch64: the value that was in `lr` or was
loaded from the stack is null once the pointer-authentication bits are stripped. -/
def NullRaA64 (regs : RegsA64) (mem : Mem) : Prop :=
  strip regs.mask regs.lr = 0 ∨ ∃ a v, mem a = some v ∧ strip regs.mask v = 0

theorem finishA64_done {first : Bool} {regs regs' : RegsA64} {newLr newSp newFp : Nat}
    (h : finishA64 first regs newLr newSp newFp = .ret .done regs') : strip regs.mask newLr = 0 := by
  unfold finishA64 at h
  simp only [] at h
  split at h
  · assumption
  · split at h <;> cases h

/-- aarch64: a rule step completes the walk only at a root marker: the rule that says "the
stack ends here" in a caller frame, a null saved frame pointer, or a null return address. -/
theorem execA64_done {rule : RuleA64} {first : Bool} {regs regs' : RegsA64} {mem : Mem}
    (h : execA64 rule first regs mem = .ret .done regs') :
    ((∃ k, rule = .offsetSpIfFirstFrameOtherwiseStackEndsHere k) ∧ first = false) ∨
      (∃ a, fpSlotA64 rule first regs = some a ∧ mem a = some 0) ∨ NullRaA64 regs mem := by
  cases rule with
  | noOp =>
    simp only [execA64] at h
    split at h
    · cases h
    · right; right; left; exact finishA64_done h
  | offsetSp k =>
    simp only [execA64, umul] at h
    split at h
    · cases h
    · split at h
      · split at h
        · cases h
        · right; right; left; exact finishA64_done h
      · cases h
  | offsetSpIfFirstFrameOtherwiseStackEndsHere k =>
    cases first with
    | false => left; exact ⟨⟨k, rfl⟩, rfl⟩
    | true =>
      simp only [execA64, umul, Bool.not_true, Bool.false_eq_true, if_false] at h
      split at h
      · split at h
        · cases h
        · right; right; left; exact finishA64_done h
      · cases h
  | noOpIfFirstFrameOtherwiseFp =>
    cases first with
    | true =>
      simp only [execA64, if_true] at h
      right; right; left; exact finishA64_done h
    | false =>
      simp only [execA64, Bool.false_eq_true, if_false, uaddP] at h
      split at h
      · cases h
      · split at h
        · split at h
          · cases h
          · rename_i newLr hlr
            split at h
            · cases h
            · rename_i newFp hfp
              split at h
              · rename_i h0; subst h0
                right; left; exact ⟨regs.fp, rfl, hfp⟩
              · split at h
                · cases h
                · right; right; right; exact ⟨_, newLr, hlr, finishA64_done h⟩
        · cases h
  | useFramePointer =>
    simp only [execA64, uaddP] at h
    split at h
    · cases h
    · split at h
      · split at h
        · cases h
        · rename_i newLr hlr
          split at h
          · cases h
          · rename_i newFp hfp
            split at h
            · rename_i h0; subst h0
              right; left; exact ⟨regs.fp, rfl, hfp⟩
            · split at h
              · cases h
              · right; right; right; exact ⟨_, newLr, hlr, finishA64_done h⟩
      · cases h
  | offsetSpAndRestoreLr k l =>
    simp only [execA64, umul, imul] at h
    split at h
    · split at h
      · cases h
      · split at h
        · split at h
          · cases h
          · split at h
            · cases h
            · rename_i newLr hlr
              right; right; right; exact ⟨_, newLr, hlr, finishA64_done h⟩
        · cases h
    · cases h
  | offsetSpAndRestoreFpAndLr k f l =>
    simp only [execA64, umul, imul] at h
    split at h
    · split at h
      · cases h
      · split at h
        · split at h
          · cases h
          · split at h
            · cases h
            · rename_i newLr hlr
              split at h
              · split at h
                · cases h
                · split at h
                  · cases h
                  · right; right; right; exact ⟨_, newLr, hlr, finishA64_done h⟩
              · cases h
        · cases h
    · cases h
  | useFramepointerWithOffsets k f l =>
    simp only [execA64, umul, imul] at h
    split at h
    · split at h
      · cases h
      · split at h
        · split at h
          · cases h
          · split at h
            · cases h
            · rename_i newLr hlr
              split at h
              · split at h
                · cases h
                · rename_i fpLoc hloc
                  split at h
                  · cases h
                  · rename_i newFp hfp
                    split at h
                    · rename_i h0; subst h0
                      right; left; exact ⟨fpLoc, by simp [fpSlotA64, hloc], hfp⟩
                    · split at h
                      · cases h
                      · right; right; right; exact ⟨_, newLr, hlr, finishA64_done h⟩
              · cases h
        · cases h
    · cases h

end FH
