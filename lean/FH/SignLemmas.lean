import FH.RuleLemmas
import FH.Trunc
import FH.Dwarf
/-!
# Pointer-authentication signed stacks (C16, second sentence)

`mem'` is a *signed twin* of `mem`: the words at the addresses in `S` may carry extra bits
outside the mask (a `pacibsp`-signed return address), everything else is identical. The rule
executor loads the saved `lr` through `strip`, so as long as no *frame-pointer* slot is a signed
word, one step - and hence a whole walk - is identical on both stacks: same result, same
registers.
-/
namespace FH

/-- `mem'` is `mem` with authentication bits added to (some of) the words at addresses in `S`. -/
def SignedTwin (mask : Nat) (S : Nat → Prop) (mem mem' : Mem) : Prop :=
  ∀ a, (¬ S a → mem' a = mem a) ∧
    ((mem' a = none ∧ mem a = none) ∨
      ∃ v v', mem a = some v ∧ mem' a = some v' ∧ strip mask v' = strip mask v)

/-- The address a rule reads as the saved frame pointer, if it reads one. -/
def fpSlotA64 : RuleA64 → Bool → RegsA64 → Option Nat
  | .noOpIfFirstFrameOtherwiseFp, false, g => some g.fp
  | .useFramePointer, _, g => some g.fp
  | .offsetSpAndRestoreFpAndLr _ f _, _, g => caddSigned g.sp (f * 8)
  | .useFramepointerWithOffsets _ f _, _, g => caddSigned g.fp (f * 8)
  | _, _, _ => none

theorem finishA64_strip (first : Bool) (regs : RegsA64) (v v' newSp newFp : Nat)
    (h : strip regs.mask v' = strip regs.mask v) :
    finishA64 first regs v' newSp newFp = finishA64 first regs v newSp newFp := by
  unfold finishA64 RegsA64.setLr
  simp only [h]

/-- Reading the saved-lr slot and continuing with something that sees the value only through
`strip`. -/
theorem twin_lr_read {R : Type} {mask : Nat} {S : Nat → Prop} {mem mem' : Mem}
    (ht : SignedTwin mask S mem mem') (regs : R) (a : Nat) (k k' : Nat → Out R)
    (hk : ∀ v v', mem a = some v → mem' a = some v' → strip mask v' = strip mask v → k' v' = k v) :
    (match mem' a with
      | none => Out.ret (.err (.couldNotReadStack a)) regs
      | some x => k' x) =
    (match mem a with
      | none => Out.ret (.err (.couldNotReadStack a)) regs
      | some x => k x) := by
  rcases (ht a).2 with ⟨h1, h2⟩ | ⟨v, v', h1, h2, h3⟩
  · rw [h1, h2]
  · rw [h1, h2]; exact hk v v' h1 h2 h3

/-- **One step on a signed stack equals the step on the unsigned stack** (result *and*
registers), provided the word read as saved frame pointer (if any) is not a signed word. -/
theorem execA64_signed {S : Nat → Prop} {mem mem' : Mem} (rule : RuleA64) (first : Bool)
    (regs : RegsA64) (ht : SignedTwin regs.mask S mem mem')
    (hfp : ∀ a, fpSlotA64 rule first regs = some a → ¬ S a) :
    execA64 rule first regs mem' = execA64 rule first regs mem := by
  cases rule with
  | noOp => rfl
  | offsetSp k => rfl
  | offsetSpIfFirstFrameOtherwiseStackEndsHere k => rfl
  | noOpIfFirstFrameOtherwiseFp =>
    cases first with
    | true => rfl
    | false =>
      have hfpeq : mem' regs.fp = mem regs.fp := (ht regs.fp).1 (hfp regs.fp rfl)
      simp only [execA64, Bool.false_eq_true, if_false]
      cases cadd regs.fp 16 with
      | none => rfl
      | some newSp =>
        simp only [uaddP]
        by_cases h8 : regs.fp + 8 < U64
        · simp only [h8, if_true]
          apply twin_lr_read ht
          intro v v' _ _ hs
          rw [hfpeq]
          cases mem regs.fp with
          | none => rfl
          | some nf =>
            simp only []
            rw [finishA64_strip _ _ _ _ _ _ hs]
        · simp only [h8, if_false]
  | useFramePointer =>
    have hfpeq : mem' regs.fp = mem regs.fp := (ht regs.fp).1 (hfp regs.fp rfl)
    simp only [execA64]
    cases cadd regs.fp 16 with
    | none => rfl
    | some newSp =>
      simp only [uaddP]
      by_cases h8 : regs.fp + 8 < U64
      · simp only [h8, if_true]
        apply twin_lr_read ht
        intro v v' _ _ hs
        rw [hfpeq]
        cases mem regs.fp with
        | none => rfl
        | some nf =>
          simp only []
          rw [finishA64_strip _ _ _ _ _ _ hs]
      · simp only [h8, if_false]
  | offsetSpAndRestoreLr k l =>
    simp only [execA64, umul, imul]
    by_cases h1 : k * 16 < U64
    · simp only [h1, if_true]
      cases cadd regs.sp (k * 16) with
      | none => rfl
      | some newSp =>
        simp only []
        by_cases h2 : -9223372036854775808 ≤ l * 8 ∧ l * 8 < 9223372036854775808
        · simp only [h2, and_self, if_true]
          cases caddSigned regs.sp (l * 8) with
          | none => rfl
          | some lrLoc =>
            apply twin_lr_read ht
            intro v v' _ _ hs
            exact finishA64_strip _ _ _ _ _ _ hs
        · simp only [h2, if_false]
    · simp only [h1, if_false]
  | offsetSpAndRestoreFpAndLr k f l =>
    simp only [execA64, umul, imul]
    by_cases h1 : k * 16 < U64
    · simp only [h1, if_true]
      cases cadd regs.sp (k * 16) with
      | none => rfl
      | some newSp =>
        simp only []
        by_cases h2 : -9223372036854775808 ≤ l * 8 ∧ l * 8 < 9223372036854775808
        · simp only [h2, and_self, if_true]
          cases caddSigned regs.sp (l * 8) with
          | none => rfl
          | some lrLoc =>
            apply twin_lr_read ht
            intro v v' _ _ hs
            by_cases h3 : -9223372036854775808 ≤ f * 8 ∧ f * 8 < 9223372036854775808
            · simp only [h3, and_self, if_true]
              cases hloc : caddSigned regs.sp (f * 8) with
              | none => rfl
              | some fpLoc =>
                have : mem' fpLoc = mem fpLoc := (ht fpLoc).1 (hfp fpLoc hloc)
                simp only [this]
                cases mem fpLoc with
                | none => rfl
                | some nf => exact finishA64_strip _ _ _ _ _ _ hs
            · simp only [h3, if_false]
        · simp only [h2, if_false]
    · simp only [h1, if_false]
  | useFramepointerWithOffsets k f l =>
    simp only [execA64, umul, imul]
    by_cases h1 : k * 8 < U64
    · simp only [h1, if_true]
      cases cadd regs.fp (k * 8) with
      | none => rfl
      | some newSp =>
        simp only []
        by_cases h2 : -9223372036854775808 ≤ l * 8 ∧ l * 8 < 9223372036854775808
        · simp only [h2, and_self, if_true]
          cases caddSigned regs.fp (l * 8) with
          | none => rfl
          | some lrLoc =>
            apply twin_lr_read ht
            intro v v' _ _ hs
            by_cases h3 : -9223372036854775808 ≤ f * 8 ∧ f * 8 < 9223372036854775808
            · simp only [h3, and_self, if_true]
              cases hloc : caddSigned regs.fp (f * 8) with
              | none => rfl
              | some fpLoc =>
                have : mem' fpLoc = mem fpLoc := (ht fpLoc).1 (hfp fpLoc hloc)
                simp only [this]
                cases mem fpLoc with
                | none => rfl
                | some nf =>
                  simp only []
                  rw [finishA64_strip _ _ _ _ _ _ hs]
            · simp only [h3, if_false]
        · simp only [h2, if_false]
    · simp only [h1, if_false]

/-- The step function of a walk whose `i`-th frame is unwound by the rule `rules i`
(any assignment of rules to frames). -/
def ruleWalkStepA64 (rules : Nat → RuleA64) : Mem → (Nat × RegsA64) → Out (Nat × RegsA64) :=
  fun m s =>
    match execA64 (rules s.1) (s.1 == 0) s.2 m with
    | .ret r g => .ret r (s.1 + 1, g)
    | .panic p => .panic p

/-- A step function and a state predicate that holds along the walk on `mem`: if the step on
`mem'` agrees with the step on `mem` wherever the predicate holds, the walks are equal. -/
def HoldsAlong {St : Type} (step : Mem → St → Out St) (mem : Mem) (P : St → Prop) : Nat → St → Prop
  | 0, _ => True
  | n + 1, s => P s ∧
    match step mem s with
    | .ret (.frame _) s' => HoldsAlong step mem P n s'
    | _ => True

theorem walk_congr {St : Type} (step : Mem → St → Out St) (mem mem' : Mem) (P : St → Prop)
    (hstep : ∀ s, P s → step mem' s = step mem s) :
    ∀ n s, HoldsAlong step mem P n s → walkWith step mem' n s = walkWith step mem n s := by
  intro n
  induction n with
  | zero => intro s _; rfl
  | succ n ih =>
    intro s h
    simp only [HoldsAlong] at h
    simp only [walkWith, hstep s h.1]
    cases hs : step mem s with
    | panic site => rfl
    | ret r s1 =>
      cases r with
      | done => rfl
      | err e => rfl
      | frame ra =>
        simp only []
        have h2 := h.2
        rw [hs] at h2
        rw [ih s1 h2]

end FH

namespace FH

/-- The stack address a register rule reads, if any. -/
def regRuleSlot (get : DReg → Option Nat) (rule : RegRule) (cfa : Nat) : Option Nat :=
  match rule with
  | .offset n => caddSigned cfa n
  | .exprReg reg off => evalBreg get reg off
  | _ => none

theorem evalRegRule_eq_of_slot {mask : Nat} {S : Nat → Prop} {mem mem' : Mem}
    (ht : SignedTwin mask S mem mem') (get : DReg → Option Nat) (rule : RegRule) (cfa val : Nat)
    (h : ∀ a, regRuleSlot get rule cfa = some a → ¬ S a) :
    evalRegRule get mem' rule cfa val = evalRegRule get mem rule cfa val := by
  cases rule with
  | offset n =>
    simp only [evalRegRule]
    cases hc : caddSigned cfa n with
    | none => rfl
    | some a => exact (ht a).1 (h a (by simp [regRuleSlot, hc]))
  | exprReg reg off =>
    simp only [evalRegRule]
    cases hc : evalBreg get reg off with
    | none => rfl
    | some a => exact (ht a).1 (h a (by simp [regRuleSlot, hc]))
  | undefined => rfl
  | sameValue => rfl
  | valOffset n => rfl
  | register r => rfl
  | other => rfl
  | valExprReg reg off => rfl

/-- Evaluating a register rule on the signed stack gives the same value up to bits outside
the mask (and fails on the same inputs). -/
theorem evalRegRule_twin {mask : Nat} {S : Nat → Prop} {mem mem' : Mem}
    (ht : SignedTwin mask S mem mem') (get : DReg → Option Nat) (rule : RegRule) (cfa val : Nat) :
    (evalRegRule get mem' rule cfa val = none ∧ evalRegRule get mem rule cfa val = none) ∨
      ∃ v v', evalRegRule get mem rule cfa val = some v ∧
        evalRegRule get mem' rule cfa val = some v' ∧ strip mask v' = strip mask v := by
  have same : ∀ o : Option Nat, (o = none ∧ o = none) ∨
      ∃ v v', o = some v ∧ o = some v' ∧ strip mask v' = strip mask v := by
    intro o
    cases o with
    | none => left; exact ⟨rfl, rfl⟩
    | some v => right; exact ⟨v, v, rfl, rfl, rfl⟩
  cases rule with
  | offset n =>
    simp only [evalRegRule]
    cases caddSigned cfa n with
    | none => left; exact ⟨rfl, rfl⟩
    | some a => exact (ht a).2
  | exprReg reg off =>
    simp only [evalRegRule]
    cases evalBreg get reg off with
    | none => left; exact ⟨rfl, rfl⟩
    | some a => exact (ht a).2
  | undefined => exact same _
  | sameValue => exact same _
  | valOffset n => exact same _
  | register r => exact same _
  | other => exact same _
  | valExprReg reg off => exact same _

theorem setLr_strip (g : RegsA64) (v v' : Nat) (h : strip g.mask v' = strip g.mask v) :
    g.setLr v' = g.setLr v := by
  unfold RegsA64.setLr; rw [h]

/-- **The uncacheable DWARF path on a signed stack equals the path on the unsigned stack**,
provided the frame-pointer rule does not read a signed word. -/
theorem genericA64_signed {S : Nat → Prop} {mem mem' : Mem} (row : Row) (first : Bool)
    (regs : RegsA64) (ht : SignedTwin regs.mask S mem mem')
    (hfp : ∀ cfa a, evalCfa (getA64 regs) row.cfa = some cfa →
      regRuleSlot (getA64 regs) row.fp cfa = some a → ¬ S a) :
    genericA64 row first regs mem' = genericA64 row first regs mem := by
  unfold genericA64
  by_cases h0 : (!first) = true ∧ row.ra = .undefined
  · simp only [h0, and_self, if_true]
  · simp only [h0, if_false]
    cases hc : evalCfa (getA64 regs) row.cfa with
    | none => rfl
    | some cfa =>
      simp only []
      have hfpe := evalRegRule_eq_of_slot ht (getA64 regs) row.fp cfa regs.fp (hfp cfa · hc)
      rw [hfpe]
      have hm : ∀ (g : RegsA64), g.mask = regs.mask → ∀ v v', strip regs.mask v' = strip regs.mask v →
          g.setLr v' = g.setLr v := by
        intro g hg v v' h
        exact setLr_strip g v v' (by rw [hg]; exact h)
      cases first with
      | false =>
        simp only [Bool.not_false, if_true]
        by_cases hle : cfa ≤ regs.sp
        · simp only [hle, if_true]
        · simp only [hle, if_false]
          cases evalRegRule (getA64 regs) mem row.fp cfa regs.fp with
          | none => rfl
          | some fp' =>
            simp only []
            rcases evalRegRule_twin ht (getA64 regs) row.ra cfa regs.lr with ⟨h1, h2⟩ | ⟨v, v', h1, h2, h3⟩
            · rw [h1, h2]
            · rw [h1, h2]
              simp only []
              rw [hm { mask := regs.mask, lr := regs.lr, sp := cfa, fp := fp' } rfl v v' h3]
      | true =>
        simp only [Bool.not_true, Bool.false_eq_true, if_false]
        rcases evalRegRule_twin ht (getA64 regs) row.ra cfa regs.lr with ⟨h1, h2⟩ | ⟨v, v', h1, h2, h3⟩
        · rw [h1, h2]
        · rw [h1, h2]
          simp only [Option.getD_some]
          rw [hm { mask := regs.mask, lr := regs.lr, sp := cfa, fp := (evalRegRule (getA64 regs) mem row.fp cfa regs.fp).getD regs.fp } rfl v v' h3]

end FH
