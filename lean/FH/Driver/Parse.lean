import FH.Basic
/-!
# Parsing and printing helpers for the line protocol (no Mathlib, no Std)
-/
namespace FH.Driver

def hexDigit (c : Char) : Option Nat :=
  if '0' ≤ c ∧ c ≤ '9' then some (c.toNat - '0'.toNat)
  else if 'a' ≤ c ∧ c ≤ 'f' then some (c.toNat - 'a'.toNat + 10)
  else none

def parseHexChars : List Char → Nat → Option Nat
  | [], acc => some acc
  | c :: cs, acc => match hexDigit c with
    | some d => parseHexChars cs (acc * 16 + d)
    | none => none

/-- Lower-case hex without prefix; the empty string is rejected. -/
def parseHex (s : String) : Option Nat :=
  match s.toList with
  | [] => none
  | cs => parseHexChars cs 0

/-- Hex with optional leading `-`. -/
def parseHexInt (s : String) : Option Int :=
  match s.toList with
  | '-' :: cs => match cs with
    | [] => none
    | _ => (parseHexChars cs 0).map fun n => -(n : Int)
  | [] => none
  | cs => (parseHexChars cs 0).map fun n => (n : Int)

def hexChar (d : Nat) : Char :=
  if d < 10 then Char.ofNat ('0'.toNat + d) else Char.ofNat ('a'.toNat + d - 10)

partial def toHexAux (n : Nat) (acc : List Char) : List Char :=
  if n < 16 then hexChar n :: acc else toHexAux (n / 16) (hexChar (n % 16) :: acc)

def toHex (n : Nat) : String := String.ofList (toHexAux n [])

def toHexInt (i : Int) : String := if i < 0 then "-" ++ toHex i.natAbs else toHex i.toNat

def splitOn (s : String) (sep : String) : List String := s.splitOn sep

/-- `k=v` fields of a line into an association list. -/
def fields (toks : List String) : List (String × String) :=
  toks.filterMap fun t => match t.splitOn "=" with
    | [k, v] => some (k, v)
    | _ => none

def lookup (fs : List (String × String)) (k : String) : Option String :=
  (fs.find? fun p => p.1 == k).map (·.2)

def hexList (s : String) : Option (List Nat) :=
  if s == "" then some [] else (s.splitOn ",").mapM parseHex

/-- Memory description: `a:v,a:v;D[;cut]` where `D` is `F` (reads fail), `C<hex>` (constant),
`I` (a read returns its own address), `P<hex>` (address plus constant, mod 2^64). The
optional third part is a cut: reads at or above it fail. Listed entries win over the
default, the cut wins over everything. -/
structure MemDesc where
  entries : List (Nat × Option Nat)
  default : Nat → Option Nat
  cut : Option Nat

def MemDesc.toMem (d : MemDesc) : Mem := fun a =>
  match d.cut with
  | some c => if a ≥ c then none else
      match d.entries.find? (fun e => e.1 == a) with
      | some e => e.2
      | none => d.default a
  | none =>
      match d.entries.find? (fun e => e.1 == a) with
      | some e => e.2
      | none => d.default a

def parseEntry (s : String) : Option (Nat × Option Nat) :=
  match s.splitOn ":" with
  | [a, "x"] => (parseHex a).map fun a => (a, none)
  | [a, v] => do
    let a ← parseHex a
    let v ← parseHex v
    pure (a, some v)
  | _ => none

def parseDefault (s : String) : Option (Nat → Option Nat) :=
  match s.toList with
  | ['F'] => some fun _ => none
  | ['I'] => some fun a => some a
  | 'C' :: cs => (parseHexChars cs 0).map fun v => fun _ => some v
  | 'P' :: cs => (parseHexChars cs 0).map fun v => fun a => some ((a + v) % U64)
  | _ => none

def parseMem (s : String) : Option MemDesc :=
  match s.splitOn ";" with
  | [es, d] => do
    let entries ← if es == "" then some [] else (es.splitOn ",").mapM parseEntry
    let dflt ← parseDefault d
    pure { entries := entries, default := dflt, cut := none }
  | [es, d, c] => do
    let entries ← if es == "" then some [] else (es.splitOn ",").mapM parseEntry
    let dflt ← parseDefault d
    let cut ← parseHex c
    pure { entries := entries, default := dflt, cut := some cut }
  | _ => none

def showErr : Err → String
  | .couldNotReadStack a => "err:stack:" ++ toHex a
  | .fpMovedBackwards => "err:fpback"
  | .didNotAdvance => "err:noadv"
  | .integerOverflow => "err:ovf"
  | .returnAddressIsNull => "err:null"

def showRes : Res → String
  | .frame ra => "frame:" ++ toHex ra
  | .done => "done"
  | .err e => showErr e

end FH.Driver
