import FH.Driver.Parse
import FH.Select
namespace FH.Driver
open FH

def bit (c : Char) : Option Bool := if c = '1' then some true else if c = '0' then some false else none

def showKind : DataKind → String
  | .compactUnwindInfoAndEhFrame => "compactUnwindInfoAndEhFrame"
  | .peUnwindInfo => "peUnwindInfo"
  | .ehFrameHdrAndEhFrame => "ehFrameHdrAndEhFrame"
  | .dwarfCfiIndexAndEhFrame => "dwarfCfiIndexAndEhFrame"
  | .dwarfCfiIndexAndDebugFrame => "dwarfCfiIndexAndDebugFrame"
  | .none => "none"

/-- `select <id> f=<std macho pe bits> s=<unwindInfo pdata ehFrame ehFrameHdr debugFrame ehIndexBuilds debugIndexBuilds bits>` -/
def handleSelect (fs : List (String × String)) : Option String := do
  let f ← (← lookup fs "f").toList.mapM bit
  let s ← (← lookup fs "s").toList.mapM bit
  match f, s with
  | [a, b, c], [u, p, e, h, d, i, j] =>
    pure ("kind=" ++ showKind (selectUnwindData ⟨a, b, c⟩ ⟨u, p, e, h, d, i, j⟩))
  | _, _ => none

end FH.Driver
