import FH.Driver.Parse
import FH.RuleX64
import FH.RuleA64
import FH.Pe
import FH.AnaX64
import FH.AnaA64
import FH.PtrAuth
namespace FH.Driver
open FH

def parseRuleX64 (s : String) : Option RuleX64 :=
  match s.splitOn ":" with
  | ["0"] => some .endOfStack
  | ["1"] => some .justReturn
  | ["2"] => some .justReturnIfFirstFrameOtherwiseFp
  | ["3", k] => (parseHex k).map .offsetSp
  | ["4", k, b] => do pure (.offsetSpAndRestoreBp (← parseHex k) (← parseHexInt b))
  | ["5"] => some .useFramePointer
  | ["6", k, c, e] => do pure (.offsetSpAndPopRegisters (← parseHex k) (← parseHex c) (← parseHex e))
  | _ => none

def showRuleX64 : RuleX64 → String
  | .endOfStack => "0"
  | .justReturn => "1"
  | .justReturnIfFirstFrameOtherwiseFp => "2"
  | .offsetSp k => "3:" ++ toHex k
  | .offsetSpAndRestoreBp k b => "4:" ++ toHex k ++ ":" ++ toHexInt b
  | .useFramePointer => "5"
  | .offsetSpAndPopRegisters k c e => "6:" ++ toHex k ++ ":" ++ toHex c ++ ":" ++ toHex e

def parseRuleA64 (s : String) : Option RuleA64 :=
  match s.splitOn ":" with
  | ["0"] => some .noOp
  | ["1"] => some .noOpIfFirstFrameOtherwiseFp
  | ["2", k] => (parseHex k).map .offsetSp
  | ["3", k] => (parseHex k).map .offsetSpIfFirstFrameOtherwiseStackEndsHere
  | ["4", k, l] => do pure (.offsetSpAndRestoreLr (← parseHex k) (← parseHexInt l))
  | ["5", k, f, l] => do
    pure (.offsetSpAndRestoreFpAndLr (← parseHex k) (← parseHexInt f) (← parseHexInt l))
  | ["6"] => some .useFramePointer
  | ["7", k, f, l] => do
    pure (.useFramepointerWithOffsets (← parseHex k) (← parseHexInt f) (← parseHexInt l))
  | _ => none

def showRuleA64 : RuleA64 → String
  | .noOp => "0"
  | .noOpIfFirstFrameOtherwiseFp => "1"
  | .offsetSp k => "2:" ++ toHex k
  | .offsetSpIfFirstFrameOtherwiseStackEndsHere k => "3:" ++ toHex k
  | .offsetSpAndRestoreLr k l => "4:" ++ toHex k ++ ":" ++ toHexInt l
  | .offsetSpAndRestoreFpAndLr k f l => "5:" ++ toHex k ++ ":" ++ toHexInt f ++ ":" ++ toHexInt l
  | .useFramePointer => "6"
  | .useFramepointerWithOffsets k f l =>
    "7:" ++ toHex k ++ ":" ++ toHexInt f ++ ":" ++ toHexInt l

def regsX64OfList (ip : Nat) (l : List Nat) : RegsX64 := { ip := ip, r := fun i => l.getD i 0 }

def showRegsX64 (g : RegsX64) : String :=
  "ip=" ++ toHex g.ip ++ " regs=" ++ ",".intercalate ((List.range 16).map fun i => toHex (g.r i))

def showRegsA64 (g : RegsA64) : String :=
  "lr=" ++ toHex g.lr ++ " sp=" ++ toHex g.sp ++ " fp=" ++ toHex g.fp

def showOutX64 : Out RegsX64 → String
  | .ret res g => showRes res ++ " " ++ showRegsX64 g
  | .panic _ => "panic"

def showOutA64 : Out RegsA64 → String
  | .ret res g => showRes res ++ " " ++ showRegsA64 g
  | .panic _ => "panic"

def parseBool (s : String) : Option Bool :=
  if s == "1" then some true else if s == "0" then some false else none

def parseRegsX64 (fs : List (String × String)) : Option RegsX64 := do
  let ip ← parseHex (← lookup fs "ip")
  let l ← hexList (← lookup fs "regs")
  if l.length ≠ 16 then none else pure (regsX64OfList ip l)

def parseRegsA64 (fs : List (String × String)) : Option RegsA64 := do
  pure { mask := ← parseHex (← lookup fs "mask"), lr := ← parseHex (← lookup fs "lr"),
         sp := ← parseHex (← lookup fs "sp"), fp := ← parseHex (← lookup fs "fp") }

/-- `rule <id> arch=x64 rule=<r> first=<b> ip=.. regs=.. mem=..` -/
def handleRule (fs : List (String × String)) : Option String := do
  let arch ← lookup fs "arch"
  let first ← parseBool (← lookup fs "first")
  let mem := (← parseMem (← lookup fs "mem")).toMem
  if arch == "x64" then
    let rule ← parseRuleX64 (← lookup fs "rule")
    let regs ← parseRegsX64 fs
    pure (showOutX64 (execX64 rule first regs mem))
  else if arch == "a64" then
    let rule ← parseRuleA64 (← lookup fs "rule")
    let regs ← parseRegsA64 fs
    pure (showOutA64 (execA64 rule first regs mem))
  else none

/-- `regorder <id> regs=<hex list>`: the model's `register_ordering::encode` and the decode of
its result. -/
def handleRegOrder (fs : List (String × String)) : Option String := do
  let regs ← hexList (← lookup fs "regs")
  match encodeRegs regs with
  | none => pure "none"
  | some (c, e) =>
    pure ("enc=" ++ toHex c ++ ":" ++ toHex e ++ " dec=" ++ ",".intercalate ((decodeRegs c e).map toHex))

/-- `regdecode <id> c=<count> e=<encoded>` -/
def handleRegDecode (fs : List (String × String)) : Option String := do
  let c ← parseHex (← lookup fs "c")
  let e ← parseHex (← lookup fs "e")
  pure ("dec=" ++ ",".intercalate ((decodeRegs c e).map toHex))

def hexBytes : List Char → Option (List Nat)
  | [] => some []
  | a :: b :: rest => do
    let x ← hexDigit a
    let y ← hexDigit b
    let tl ← hexBytes rest
    pure ((x * 16 + y) :: tl)
  | _ => none

/-- `ana <id> arch=<a> pc=<hex> text=<hexbytes>`: instruction analysis
(`rule_from_instruction_analysis`). -/
def handleAna (fs : List (String × String)) : Option String := do
  let arch ← lookup fs "arch"
  let pc ← parseHex (← lookup fs "pc")
  let text ← hexBytes (← lookup fs "text").toList
  if arch == "x64" then
    pure (match anaX64 text pc with
      | none => "panic"
      | some none => "none"
      | some (some r) => "rule:" ++ showRuleX64 r)
  else if arch == "a64" then
    pure (match anaA64 text pc with
      | none => "panic"
      | some none => "none"
      | some (some r) => "rule:" ++ showRuleA64 r)
  else none

/-- `maxmask <id> a=<hex>`: `PtrAuthMask::from_max_known_address`. -/
def handleMaxMask (fs : List (String × String)) : Option String := do
  let a ← (← lookup fs "a") |> parseHex
  pure ("mask=" ++ toHex (fromMaxKnown a))

end FH.Driver
