import FH.Driver.Parse
import FH.PeMem
namespace FH.Driver
open FH

/-- `start:stop:len` or `-` -/
def parseSect (s : String) : Option (Option Sect) :=
  if s == "-" then some none
  else
    match s.splitOn ":" with
    | [a, b, c] => do
      let a ← parseHex a
      let b ← parseHex b
      let c ← parseHex c
      pure (some ⟨a, b, c⟩)
    | _ => none

def showMem : Option (Nat × Nat × Nat) → String
  | none => "none"
  | some (t, o, l) => s!"sec={t} off={toHex o} len={toHex l}"

/-- `pemem <id> r=<sect> x=<sect> t=<sect> text=<0|1> rva=<hex>` -/
def handlePeMem (fs : List (String × String)) : Option String := do
  let r ← (← lookup fs "r") |> parseSect
  let x ← (← lookup fs "x") |> parseSect
  let t ← (← lookup fs "t") |> parseSect
  let wantText ← lookup fs "text"
  let rva ← (← lookup fs "rva") |> parseHex
  if wantText == "1" then pure (showMem (textMemAtRva t rva))
  else pure (showMem (unwindInfoMemAtRva r x rva))

end FH.Driver
