import FH.Driver.Rules
import FH.World
import FH.DwarfSpec
namespace FH.Driver
open FH

def parseDReg (s : String) : Option DReg :=
  if s == "s" then some .sp else if s == "f" then some .fp else if s == "a" then some .ra
  else if s == "o" then some .other else none

/-- `s:10`, `f:-8`, `o:0`, `e`, `Es:10` (expression `breg<s> + 0x10`) -/
def parseCfa (s : String) : Option CfaRule :=
  match s.splitOn ":" with
  | ["e"] => some .expr
  | [r, off] =>
    if r.startsWith "E" then do pure (.exprRegOff (← parseDReg (r.drop 1).toString) (← parseHexInt off))
    else do pure (.regOff (← parseDReg r) (← parseHexInt off))
  | _ => none

/-- `u`, `s`, `o:-8`, `v:10`, `r:s`, `x` -/
def parseRegRule (s : String) : Option RegRule :=
  match s.splitOn ":" with
  | ["u"] => some .undefined
  | ["s"] => some .sameValue
  | ["x"] => some .other
  | ["o", n] => (parseHexInt n).map .offset
  | ["v", n] => (parseHexInt n).map .valOffset
  | ["r", r] => (parseDReg r).map .register
  | [k, off] =>
    if k.startsWith "X" then do pure (.exprReg (← parseDReg (k.drop 1).toString) (← parseHexInt off))
    else if k.startsWith "V" then do pure (.valExprReg (← parseDReg (k.drop 1).toString) (← parseHexInt off))
    else none
  | _ => none

/-- `off/cfa/fp/ra` -/
def parseRowAt (s : String) : Option (Nat × Row) :=
  match s.splitOn "/" with
  | [off, cfa, fp, ra] => do
    pure (← parseHex off, { cfa := ← parseCfa cfa, fp := ← parseRegRule fp, ra := ← parseRegRule ra })
  | _ => none

/-- `start@len@bad@row~row~...` -/
def parseFde (s : String) : Option Fde :=
  match s.splitOn "@" with
  | [start, len, bad, rows] => do
    let rows ← if rows == "" then some [] else (rows.splitOn "~").mapM parseRowAt
    pure { start := ← parseHex start, len := ← parseHex len, rows := rows, evalFails := bad == "1" }
  | _ => none

def parsePres (s : String) : Option Pres :=
  if s == "hdr" then some .hdr else if s == "idx" then some .indexEh
  else if s == "dbg" then some .indexDebug else none

/-- `off:p:<reg>` | `off:a:<bytes>` | `off:f` | `off:r:<reg>:<off>` | `off:x:<off>` | `off:m:<0|1>` -/
def parsePeOp (s : String) : Option (Nat × PeOp) :=
  match s.splitOn ":" with
  | [o, "p", r] => do pure (← parseHex o, .popNonVolatile (← parseHex r))
  | [o, "a", n] => do pure (← parseHex o, .unStackAlloc (← parseHex n))
  | [o, "f"] => do pure (← parseHex o, .restoreSPFromFP)
  | [o, "r", r, off] => do pure (← parseHex o, .readNonVolatile (← parseHex r) (← parseHex off))
  | [o, "x", off] => do pure (← parseHex o, .readXMM (← parseHex off))
  | [o, "m", e] => do pure (← parseHex o, .popMachineFrame (e == "1"))
  | _ => none

def parsePeInfo (s : String) : Option PeInfo :=
  if s == "" then some { ops := [] }
  else (s.splitOn ",").mapM parsePeOp |>.map fun ops => { ops := ops }

/-- `a_<n>` | `f_<n>` | `p_<reg>` -/
def parseEpiInsn (s : String) : Option EpiInsn :=
  match s.splitOn "_" with
  | ["a", n] => (parseHex n).map .addSP
  | ["f", n] => (parseHex n).map .addSPFromFP
  | ["p", r] => (parseHex r).map .pop
  | _ => none

/-- `off>ins.ins...` (an empty instruction list is `off>`) -/
def parseEpilog (s : String) : Option (Nat × List EpiInsn) :=
  match s.splitOn ">" with
  | [o, ins] => do
    let insns ← if ins == "" then some [] else (ins.splitOn ".").mapM parseEpiInsn
    pure (← parseHex o, insns)
  | _ => none

/-- `start@stop@infoOk@freg@foff@textOk@info^info@epilog~epilog` -/
def parsePeFunc (s : String) : Option PeFunc :=
  match s.splitOn "@" with
  | [start, stop, iok, freg, foff, tok, infos, epis] => do
    let infos ← (infos.splitOn "^").mapM parsePeInfo
    let epilogs ← if epis == "" then some [] else (epis.splitOn "~").mapM parseEpilog
    let fr ← if freg == "-" then some none else (parseHex freg).map some
    pure { start := ← parseHex start, stop := ← parseHex stop, infoOk := iok == "1", frameReg := fr,
           frameOff := ← parseHex foff, infos := infos, textOk := tok == "1", epilogs := epilogs }
  | _ => none

def parseCuiReg (c : Char) : Option (Option CuiReg) :=
  match c with
  | '-' => some none
  | 'b' => some (some .rbx)
  | '2' => some (some .r12)
  | '3' => some (some .r13)
  | '4' => some (some .r14)
  | '5' => some (some .r15)
  | 'p' => some (some .rbp)
  | _ => none

/-- `N` | `B` | `I.<size>.<regs>` | `X.<immoff>.<adjust>.<regs>` | `D.<fde>` | `V` | `U.<kind>` -/
def parseCuiOpX64 (s : String) : Option CuiOpX64 :=
  match s.splitOn "." with
  | ["N"] => some .null
  | ["B"] => some .frameBased
  | ["V"] => some .invalidFrameless
  | ["I", size, regs] => do pure (.framelessImmediate (← parseHex size) (← regs.toList.mapM parseCuiReg))
  | ["X", imm, adj, regs] => do
    pure (.framelessIndirect (← parseHex imm) (← parseHex adj) (← regs.toList.mapM parseCuiReg))
  | ["D", fde] => (parseHex fde).map .dwarf
  | ["U", k] => (parseHex k).map .unrecognized
  | _ => none

/-- `N` | `L.<size>` | `D.<fde>` | `B` | `U.<kind>` -/
def parseCuiOpA64 (s : String) : Option CuiOpA64 :=
  match s.splitOn "." with
  | ["N"] => some .null
  | ["B"] => some .frameBased
  | ["L", size] => (parseHex size).map .frameless
  | ["D", fde] => (parseHex fde).map .dwarf
  | ["U", k] => (parseHex k).map .unrecognized
  | _ => none

/-- `start@stop@x64op@a64op` -/
def parseCuiFunc (s : String) : Option (CuiFunc (CuiOpX64 × CuiOpA64)) :=
  match s.splitOn "@" with
  | [start, stop, x, a] => do
    pure { start := ← parseHex start, stop := ← parseHex stop, op := (← parseCuiOpX64 x, ← parseCuiOpA64 a) }
  | _ => none

def parseHexBytes : List Char → Option (List Nat)
  | [] => some []
  | a :: b :: rest => do
    let x ← hexDigit a
    let y ← hexDigit b
    let tl ← parseHexBytes rest
    pure ((x * 16 + y) :: tl)
  | _ => none

def parseRange (s : String) : Option (Nat × Nat) :=
  match s.splitOn "-" with
  | [a, b] => do pure (← parseHex a, ← parseHex b)
  | _ => none

/-- `off#fde` -/
def parseEhFde (s : String) : Option (Nat × Fde) :=
  match s.splitOn "#" with
  | [o, f] => do pure (← parseHex o, ← parseFde f)
  | _ => none

/-- `none` | `dwarf;<pres>;fde|fde|...` | `pe;func|func|...` |
`macho;<stubs a-b>;<helper a-b>;<textoff>:<hexbytes> or -;func|func|...;<- or off#fde|off#fde...>` -/
def parseData (s : String) : Option UnwindData :=
  match s.splitOn ";" with
  | ["none"] => some .none
  | ["dwarf", pres, fdes] => do
    let fdes ← if fdes == "" then some [] else (fdes.splitOn "|").mapM parseFde
    pure (.dwarf (← parsePres pres) fdes)
  | ["pe", funcs] => do
    let funcs ← if funcs == "" then some [] else (funcs.splitOn "|").mapM parsePeFunc
    pure (.pe funcs)
  | ["macho", stubs, helper, text, funcs, eh] => do
    let funcs ← if funcs == "" then some [] else (funcs.splitOn "|").mapM parseCuiFunc
    let text ← if text == "-" then some none else
      match text.splitOn ":" with
      | [o, bytes] => do pure (some (← parseHex o, ← parseHexBytes bytes.toList))
      | _ => none
    let eh ← if eh == "-" then some none else
      (if eh == "" then some [] else (eh.splitOn "|").mapM parseEhFde).map some
    pure (.macho { funcs := funcs, stubs := ← parseRange stubs, stubHelper := ← parseRange helper, text := text } eh)
  | _ => none

/-- Arch-specific parsing/printing. -/
structure ArchIO (A : Arch) where
  parseRegs : List (String × String) → Option A.Regs
  showOut : Out A.Regs → String
  showRegs : A.Regs → String
  specExpect : Row → Bool → A.Regs → Mem → Option String
  rawSpec : Row → A.Regs → Mem → Option String

structure WState (A : Arch) where
  n : Nat
  counter : Nat
  mods : List (String × Module)
  unws : List (String × Unw)
  caches : List (String × Cache A.Rule)

def assocSet {β} (l : List (String × β)) (k : String) (v : β) : List (String × β) :=
  (k, v) :: l.filter (fun p => p.1 != k)

def showStats (s : Stats) : String :=
  "stats=" ++ toHex s.hit ++ "," ++ toHex s.missEmpty ++ "," ++ toHex s.missWrongModules ++ ","
    ++ toHex s.missWrongAddress

def showItem : Item → String
  | .some (.ip a) => "ip:" ++ toHex a
  | .some (.ret a) => "ra:" ++ toHex a
  | .none => "none"
  | .err e => showErr e

/-- Runs the iterator until it has produced `none`/`err`, then `extra` more calls; at most
`fuel` calls in total. -/
def runIter (A : Arch) (N : Nat) (u : Unw) (mem : Mem) :
    Nat → Nat → Bool → Iter A → Cache A.Rule → List String → (List String × Iter A × Cache A.Rule)
  | 0, _, _, it, c, acc => (("cap" :: acc).reverse, it, c)
  | fuel + 1, extra, finished, it, c, acc =>
    if finished ∧ extra = 0 then (acc.reverse, it, c)
    else
      match Iter.next A N u mem it c with
      | none => (("panic" :: acc).reverse, it, c)
      | some (it', c', item) =>
        let fin := match item with | .some _ => false | _ => true
        let extra' := if finished then extra - 1 else extra
        runIter A N u mem fuel extra' (finished || fin) it' c' (showItem item :: acc)

/-- Which branch of `unwindFrame` a call takes (coverage information only; the harness does
not compare it with anything). -/
def pathTag (A : Arch) (N : Nat) (u : Unw) (c : Cache A.Rule) (addr : FrameAddr)
    (regs : A.Regs) (mem : Mem) : String :=
  match (c.lookup N addr.lookup u.gen).2 with
  | .hit _ => "hit"
  | .miss =>
    match findModule u.mods addr.lookup with
    | none => "no-module"
    | some (i, rel) =>
      match u.mods[i]? with
      | none => "unreachable"
      | some m =>
        match m.data with
        | .none => "no-data"
        | .dwarf pres fdes =>
          match dwarfLookup pres fdes m.baseSvma rel with
          | .noData => "index-failed"
          | .failed => "lookup-failed"
          | .uncovered => "uncovered"
          | .row r =>
            match A.translate r with
            | some _ => "row-translated"
            | none =>
              match A.generic r (!addr.isReturn) regs mem with
              | .ok _ _ => "row-generic-ok"
              | .err _ => "row-generic-err"
              | .panic _ => "row-generic-panic"
        | .macho d _ =>
          match plan A m rel (!addr.isReturn) with
          | .panic => "macho-panic"
          | .staticErr => "macho-static-error"
          | .exec _ =>
            (match A.cui d rel (!addr.isReturn) with
              | some (.needDwarf _) => "macho-dwarf-rule"
              | _ =>
                if d.stubs.1 ≤ rel ∧ rel < d.stubs.2 then "macho-stubs"
                else if d.stubHelper.1 ≤ rel ∧ rel < d.stubHelper.2 then "macho-stub-helper"
                else match cuiLookup d.funcs rel with
                  | none => "macho-outside"
                  | some f => if rel = f.start ∧ !addr.isReturn then "macho-function-start" else "macho-rule")
          | .generic r =>
            (match A.generic r (!addr.isReturn) regs mem with
              | .ok _ _ => "macho-dwarf-generic-ok"
              | .err _ => "macho-dwarf-generic-err"
              | .panic _ => "macho-dwarf-generic-panic")
          | .pe _ => "unreachable"
        | .pe funcs =>
          match A.pePlan funcs rel (!addr.isReturn) with
          | none => "pe-unsupported"
          | some (_, some _) => "pe-rule"
          | some (.staticErr, none) => "pe-static-error"
          | some (p, none) =>
            match A.peRun p (!addr.isReturn) regs mem with
            | .ok _ _ => "pe-interp-ok"
            | .err _ => "pe-interp-err"
            | .panic _ => "pe-interp-panic"

/-- The row the module's DWARF data yields for a call, if any. -/
def rowFor (A : Arch) (u : Unw) (addr : FrameAddr) : Option Row :=
  match findModule u.mods addr.lookup with
  | none => none
  | some (i, rel) =>
    match u.mods[i]? with
    | none => none
    | some m =>
      match m.data with
      | .none => none
      | .dwarf pres fdes =>
        match dwarfLookup pres fdes m.baseSvma rel with
        | .row r => some r
        | _ => none
      | .pe _ => none
      | .macho d eh =>
        -- entries that defer to DWARF: the row of the named FDE
        match A.cui d rel (!addr.isReturn), eh with
        | some (.needDwarf off), some fdes =>
          (fdes.find? (fun p => p.1 = off)).bind fun p => p.2.rowFor (m.baseSvma + rel)
        | _, _ => none

/-- What C05 demands of a call on x86-64 when the hypotheses of its theorems hold
(`C05_x64_compressed_rule_is_dwarf_step`, `C05_x64_generic_is_dwarf_step`,
`C05_x64_undefined_ra_ends_stack`): the expected answer, or `none` outside their domain. -/
def specExpectX64 (row : Row) (first : Bool) (regs : RegsX64) (mem : Mem) : Option String :=
  if row.ra = .undefined then some ("done " ++ showRegsX64 regs)
  else
    match dwarfSpec row regs.sp regs.bp regs.ip mem with
    | .step ra cfa fp' =>
      let inRange : Bool := decide (0 ≤ cfa) && decide (cfa < 18446744073709551616)
      let adv : Bool := !(decide (cfa = regs.sp) && decide (ra = regs.ip))
      let ok : Bool :=
        match translateX64 row with
        | some rule =>
          inRange && decide (ra ≠ 0) && adv &&
            (if rule = .useFramePointer then decide (regs.bp ≠ 0) && decide ((regs.sp : Int) < cfa) else true)
        | none => inRange && adv && (first || decide ((regs.sp : Int) < cfa)) && decide (ra ≠ 0)
      if ok then some ("frame:" ++ toHex ra ++ " " ++ showRegsX64 (afterX64 regs ra cfa.toNat fp'))
      else none
    | _ => none

/-- The unguarded DWARF meaning of the row for a call (used only to validate the harness's
ground truth generator): `frame:<ra> <regs>` / `done <regs>` / `none`. -/
def rawSpecX64 (row : Row) (regs : RegsX64) (mem : Mem) : Option String :=
  match dwarfSpec row regs.sp regs.bp regs.ip mem with
  | .step ra cfa fp' =>
    if 0 ≤ cfa then some ("frame:" ++ toHex ra ++ " " ++ showRegsX64 (afterX64 regs ra cfa.toNat fp'))
    else none
  | .endOfStack => some ("done " ++ showRegsX64 regs)
  | _ => none

def rawSpecA64 (row : Row) (regs : RegsA64) (mem : Mem) : Option String :=
  match dwarfSpec row regs.sp regs.fp regs.lr mem with
  | .step raRaw cfa fp' =>
    if 0 ≤ cfa then
      some ("frame:" ++ toHex (strip regs.mask raRaw) ++ " " ++
        showRegsA64 (afterA64 regs raRaw cfa.toNat fp'))
    else none
  | .endOfStack => some ("done " ++ showRegsA64 regs)
  | _ => none

/-- Same for aarch64 (`C05_a64_*`). -/
def specExpectA64 (row : Row) (first : Bool) (regs : RegsA64) (mem : Mem) : Option String :=
  match dwarfSpec row regs.sp regs.fp regs.lr mem with
  | .step raRaw cfa fp' =>
    let inRange : Bool := decide (0 ≤ cfa) && decide (cfa < 18446744073709551616)
    let raOk : Bool := decide (strip regs.mask raRaw ≠ 0)
    let isOffset : Bool := match row.ra with | .offset _ => true | _ => false
    let fpBased : Bool := match row.cfa with | .regOff .fp _ => true | _ => false
    let ok : Bool :=
      match translateA64 row with
      | some _ =>
        inRange && raOk && (first || (decide ((regs.sp : Int) < cfa) && isOffset)) &&
          (!fpBased || (decide (fp' ≠ 0) && decide (regs.fp < fp') && decide ((regs.sp : Int) < cfa)))
      | none =>
        inRange && raOk && (first || (decide ((regs.sp : Int) < cfa) && decide (row.fp ≠ .undefined)))
    if ok then
      some ("frame:" ++ toHex (strip regs.mask raRaw) ++ " " ++
        showRegsA64 (afterA64 regs raRaw cfa.toNat fp'))
    else none
  | .endOfStack => some ("done " ++ showRegsA64 regs)   -- DWARF: return address undefined = root
  | _ => none

def handleWorld (A : Arch) (io : ArchIO A) (st : WState A) (cmd : String)
    (fs : List (String × String)) : Option (WState A × String) :=
  if cmd == "mod" then do
    let m : Module := { start := ← parseHex (← lookup fs "start"), stop := ← parseHex (← lookup fs "end"),
                        baseAvma := ← parseHex (← lookup fs "base"), baseSvma := ← parseHex (← lookup fs "svma"),
                        data := ← parseData (← lookup fs "data") }
    pure ({ st with mods := assocSet st.mods (← lookup fs "m") m }, "ok")
  else if cmd == "new" then do
    let (g, c') := drawGen st.counter
    pure ({ st with counter := c', unws := assocSet st.unws (← lookup fs "u") { mods := [], gen := g } },
      "gen=" ++ toHex g)
  else if cmd == "clone" then do
    let src ← List.lookup (← lookup fs "from") st.unws
    pure ({ st with unws := assocSet st.unws (← lookup fs "u") src }, "gen=" ++ toHex src.gen)
  else if cmd == "add" then do
    let uid ← lookup fs "u"
    let u ← List.lookup uid st.unws
    let m ← List.lookup (← lookup fs "m") st.mods
    let (g, c') := drawGen st.counter
    pure ({ st with counter := c', unws := assocSet st.unws uid { mods := addModule u.mods m, gen := g } },
      "gen=" ++ toHex g)
  else if cmd == "remove" then do
    let uid ← lookup fs "u"
    let u ← List.lookup uid st.unws
    match removeModule u.mods (← parseHex (← lookup fs "start")) with
    | some mods' =>
      let (g, c') := drawGen st.counter
      pure ({ st with counter := c', unws := assocSet st.unws uid { mods := mods', gen := g } },
        "gen=" ++ toHex g)
    | none => pure (st, "gen=" ++ toHex u.gen)
  else if cmd == "find" then do
    let u ← List.lookup (← lookup fs "u") st.unws
    match findModule u.mods (← parseHex (← lookup fs "addr")) with
    | some (i, rel) => pure (st, toHex i ++ ":" ++ toHex rel)
    | none => pure (st, "none")
  else if cmd == "max" then do
    let u ← List.lookup (← lookup fs "u") st.unws
    pure (st, toHex (maxKnown u.mods))
  else if cmd == "newcache" then do
    pure ({ st with caches := assocSet st.caches (← lookup fs "c") Cache.empty }, "ok")
  else if cmd == "unwind" then do
    let u ← List.lookup (← lookup fs "u") st.unws
    let cid ← lookup fs "c"
    let c ← List.lookup cid st.caches
    let a ← parseHex (← lookup fs "addr")
    let kind ← lookup fs "kind"
    let addr ← if kind == "ip" then some (FrameAddr.ip a) else if kind == "ra" ∧ a ≠ 0 then some (FrameAddr.ret a) else none
    let regs ← io.parseRegs fs
    let mem := (← parseMem (← lookup fs "mem")).toMem
    let (c', out) := unwindFrame A st.n u c addr regs mem
    pure ({ st with caches := assocSet st.caches cid c' },
      io.showOut out ++ " " ++ showStats c'.stats ++ " t=" ++
        (if touchesSections A st.n u c addr then "1" else "0") ++
        " spec=" ++ (match (rowFor A u addr).bind (fun r => io.specExpect r (!addr.isReturn) regs mem) with
          | some e => e.replace " " "|"
          | none => "-") ++
        " raw=" ++ (match (rowFor A u addr).bind (fun r => io.rawSpec r regs mem) with
          | some e => e.replace " " "|"
          | none => "-") ++
        " br=" ++ pathTag A st.n u c addr regs mem)
  else if cmd == "iter" then do
    let u ← List.lookup (← lookup fs "u") st.unws
    let cid ← lookup fs "c"
    let c ← List.lookup cid st.caches
    let pc ← parseHex (← lookup fs "pc")
    let regs ← io.parseRegs fs
    let mem := (← parseMem (← lookup fs "mem")).toMem
    let extra ← parseHex (← lookup fs "extra")
    let fuel ← parseHex (← lookup fs "max")
    let (items, it, c') := runIter A st.n u mem fuel extra false { state := .initial pc, regs := regs } c []
    pure ({ st with caches := assocSet st.caches cid c' },
      "items=" ++ ",".intercalate items ++ " " ++ io.showRegs it.regs ++ " " ++ showStats c'.stats)
  else none

def ioX64 : ArchIO archX64 where
  parseRegs := parseRegsX64
  showOut := showOutX64
  showRegs := showRegsX64
  specExpect := specExpectX64
  rawSpec := rawSpecX64

def ioA64 : ArchIO archA64 where
  parseRegs := parseRegsA64
  showOut := showOutA64
  showRegs := showRegsA64
  specExpect := specExpectA64
  rawSpec := rawSpecA64


end FH.Driver
