import FH.RuleX64
import FH.Dwarf
/-!
# PE x64 unwinding (`x86_64/pe.rs`, `pe.rs`, and pe-unwind-info's `resolve_operation`)

The model starts from what pe-unwind-info's parsers hand over: the function table entries,
the unwind operations of each (chained) `UNWIND_INFO` with their prolog offsets, and — per
address — the result of `FunctionEpilogInstruction::parse_sequence` on the text bytes from
that address to the function end. `resolve_operation` (third-party, 40 lines) is modelled
because framehop calls it with arbitrary registers: its unchecked arithmetic is an explicit
panic outcome (`GenOut.panic`).
-/
namespace FH

/-- PE register numbering → framehop's `Reg` numbering (`convert_pe_register`). -/
def peReg (r : Nat) : Nat :=
  match r with
  | 0 => 0   -- RAX
  | 1 => 2   -- RCX
  | 2 => 1   -- RDX
  | 3 => 3   -- RBX
  | 4 => 7   -- RSP
  | 5 => 6   -- RBP
  | 6 => 4   -- RSI
  | 7 => 5   -- RDI
  | n => n   -- R8..R15

/-- `UnwindOperation` (PE register numbers). -/
inductive PeOp where
  | popNonVolatile (reg : Nat)
  | unStackAlloc (bytes : Nat)
  | restoreSPFromFP
  | readNonVolatile (reg : Nat) (offset : Nat)
  | readXMM (offset : Nat)
  | popMachineFrame (errorCode : Bool)
  deriving DecidableEq, Repr, Inhabited

/-- `FunctionEpilogInstruction` -/
inductive EpiInsn where
  | addSP (n : Nat)
  | addSPFromFP (n : Nat)
  | pop (reg : Nat)
  deriving DecidableEq, Repr, Inhabited

/-- One `UNWIND_INFO`: operations with their prolog offsets, in the order the iterator yields
them (reverse prolog order). -/
structure PeInfo where
  ops : List (Nat × PeOp)
  deriving Repr, Inhabited

structure PeFunc where
  start : Nat              -- begin_address (RVA)
  stop : Nat               -- end_address
  /-- The unwind info data for this function can be read and parsed (first info and all
  chained ones); otherwise the lookup of the info fails with a state-independent error. -/
  infoOk : Bool
  /-- Frame register of the *first* UNWIND_INFO (PE numbering) and its offset (already ×16). -/
  frameReg : Option Nat
  frameOff : Nat
  /-- The first info followed by the chained ones. -/
  infos : List PeInfo
  /-- The text bytes from the function's addresses are available. -/
  textOk : Bool
  /-- For each offset into the function at which `parse_sequence` succeeds: its result. -/
  epilogs : List (Nat × List EpiInsn)
  deriving Repr, Inhabited

/-- `FunctionTableEntries::lookup` on a table sorted by begin address with distinct keys. -/
def peLookup (funcs : List PeFunc) (addr : Nat) : Option PeFunc :=
  match funcs.filter (fun f => f.start ≤ addr) |>.getLast? with
  | some f => if f.start = addr ∨ addr < f.stop then some f else none
  | none => none

/-- `OffsetOrPop` (framehop register numbers in `pop`). -/
inductive OffsetOrPop where
  | none
  | offsetBy8 (k : Nat)
  | pop (reg : Nat)
  deriving DecidableEq, Repr

def oopOfEpi : EpiInsn → OffsetOrPop
  | .addSP n => if n % 8 = 0 ∧ n / 8 < U16 then .offsetBy8 (n / 8) else .none
  | .pop r => .pop (peReg r)
  | _ => .none

def oopOfOp : PeOp → OffsetOrPop
  | .unStackAlloc n => if n % 8 = 0 ∧ n / 8 < U16 then .offsetBy8 (n / 8) else .none
  | .popNonVolatile r => .pop (peReg r)
  | _ => .none

/-- `register_ordering::encode`'s loop. -/
def encodeLoop : List Nat → Nat → List Nat → Nat → Nat → Option Nat
  | [], _, _, r, _ => some r
  | reg :: rest, i, order, r, scale =>
    match (order.drop i).findIdx? (· == reg) with
    | none => none
    | some index =>
      let order' := if index ≠ 0 then swapAt order i (i + index) else order
      encodeLoop rest (i + 1) order' (r + index * scale) (scale * (8 - i))

/-- `register_ordering::encode`: `(count, encoded)`. -/
def encodeRegs (regs : List Nat) : Option (Nat × Nat) :=
  if regs.length > 8 then none
  else (encodeLoop regs 0 encodeRegisters 0 1).map fun r => (regs.length, r)

/-- The pops of a sequence after its optional leading offset: `none` if anything else occurs
or more than 8 registers are popped. -/
def collectPops : List OffsetOrPop → List Nat → Option (List Nat)
  | [], acc => some acc.reverse
  | .pop r :: rest, acc => if acc.length < 8 then collectPops rest (r :: acc) else none
  | _ :: _, _ => none

/-- `UnwindRuleX86_64::for_sequence_of_offset_or_pop` -/
def forSeq (items : List OffsetOrPop) : Option RuleX64 :=
  let (k, rest) := match items with
    | .offsetBy8 k :: rest => (k, rest)
    | l => (0, l)
  match collectPops rest [] with
  | none => none
  | some regs =>
    if regs.isEmpty ∧ k = 0 then some .justReturn
    else
      match encodeRegs regs with
      | none => none
      | some (count, enc) => some (.offsetSpAndPopRegisters k count enc)

/-- Result of one interpreter step. -/
inductive PeStep where
  | cont (r : Nat → Nat)
  | brk (ra : Nat) (r : Nat → Nat)
  | missing                 -- a stack read failed (`MissingStackData`)
  | panic                   -- unchecked arithmetic overflowed (in pe-unwind-info)

/-- pe-unwind-info's `resolve_operation` with the *first* info's frame register. -/
def resolveOp (frameReg : Option Nat) (frameOff : Nat) (mem : Mem) (r : Nat → Nat) : PeOp → PeStep
  | .popNonVolatile reg =>
    let rsp := r RSP
    match mem rsp with
    | none => .missing
    | some v => if rsp + 8 < U64 then .cont (setReg (setReg r (peReg reg) v) RSP (rsp + 8)) else .panic
  | .unStackAlloc n =>
    let rsp := r RSP
    if rsp + n < U64 then .cont (setReg r RSP (rsp + n)) else .panic
  | .restoreSPFromFP =>
    match frameReg with
    | none => .cont r
    | some fr => if frameOff ≤ r (peReg fr) then .cont (setReg r RSP (r (peReg fr) - frameOff)) else .panic
  | .readNonVolatile reg off =>
    let addr : Option Nat :=
      match frameReg with
      | some fr =>
        if frameOff ≤ r (peReg fr) ∧ r (peReg fr) - frameOff + off < U64 then some (r (peReg fr) - frameOff + off)
        else none
      | none => if r RSP + off < U64 then some (r RSP + off) else none
    match addr with
    | none => .panic
    | some a =>
      match mem a with
      | none => .missing
      | some v => .cont (setReg r (peReg reg) v)
  | .readXMM off =>
    let addr : Option Nat :=
      match frameReg with
      | some fr =>
        if frameOff ≤ r (peReg fr) ∧ r (peReg fr) - frameOff + off < U64 then some (r (peReg fr) - frameOff + off)
        else none
      | none => if r RSP + off < U64 then some (r RSP + off) else none
    match addr with
    | none => .panic
    | some a =>
      match mem a with
      | none => .missing
      | some _ =>
        if a + 8 < U64 then (match mem (a + 8) with | none => .missing | some _ => .cont r) else .panic
  | .popMachineFrame ec =>
    let rsp := r RSP
    let off := if ec then 8 else 0
    if rsp + off < U64 then
      match mem (rsp + off) with
      | none => .missing
      | some ra =>
        if rsp + off + 24 < U64 then
          match mem (rsp + off + 24) with
          | none => .missing
          | some newRsp => .brk ra (setReg r RSP newRsp)
        else .panic
    else .panic

/-- The final "pop the return address" of both interpreters (framehop's own code: checked). -/
def popReturnAddress (mem : Mem) (r : Nat → Nat) : GenOut (Nat → Nat) :=
  let rsp := r RSP
  match mem rsp with
  | none => .err .couldNotRecoverRa          -- MissingStackData
  | some ra =>
    match cadd rsp 8 with
    | none => .err .couldNotRecoverCfa       -- IntegerOverflow
    | some rsp' => .ok ra (setReg r RSP rsp')

/-- Interpreting the unwind operations, then popping the return address. -/
def interpOps (frameReg : Option Nat) (frameOff : Nat) (mem : Mem) : List PeOp → (Nat → Nat) → GenOut (Nat → Nat)
  | [], r => popReturnAddress mem r
  | op :: rest, r =>
    match resolveOp frameReg frameOff mem r op with
    | .cont r' => interpOps frameReg frameOff mem rest r'
    | .brk ra r' => .ok ra r'
    | .missing => .err .couldNotRecoverRa
    | .panic => .panic (.other 3)

/-- Simulating the remaining epilog instructions (framehop's own code: checked adds). -/
def interpEpilog (frameReg : Option Nat) (mem : Mem) : List EpiInsn → (Nat → Nat) → GenOut (Nat → Nat)
  | [], r => popReturnAddress mem r
  | .addSP n :: rest, r =>
    match cadd (r RSP) n with
    | none => .err .couldNotRecoverCfa
    | some v => interpEpilog frameReg mem rest (setReg r RSP v)
  | .addSPFromFP n :: rest, r =>
    match frameReg with
    | none => .panic (.other 4)       -- `expect("invalid fp register offset")`
    | some fr =>
      match cadd (r (peReg fr)) n with
      | none => .err .couldNotRecoverCfa
      | some v => interpEpilog frameReg mem rest (setReg r RSP v)
  | .pop reg :: rest, r =>
    match mem (r RSP) with
    | none => .err .couldNotRecoverRa
    | some v =>
      match cadd (r RSP) 8 with
      | none => .err .couldNotRecoverCfa
      | some v' => interpEpilog frameReg mem rest (setReg (setReg r (peReg reg) v) RSP v')

/-- The wrapper in `<ArchX86_64 as PeUnwinding>::unwind_frame`: run on a copy, require
progress in caller frames, set `ip`, commit. -/
def peCommit (first : Bool) (regs : RegsX64) : GenOut (Nat → Nat) → GenOut RegsX64
  | .ok ra r' =>
    if !first ∧ r' RSP ≤ regs.sp then .err .spMovedBackwards
    else .ok ra { ip := ra, r := r' }
  | .err e => .err e
  | .panic s => .panic s

/-- What the PE code decides before it looks at registers or memory. -/
inductive PePlan where
  | exec (rule : RuleX64)
  | epilog (frameReg : Option Nat) (insns : List EpiInsn)
  | interp (frameReg : Option Nat) (frameOff : Nat) (ops : List PeOp)
  | staticErr
  deriving Repr

/-- Operations that apply at `offset` into the function: from the first info only those whose
prolog offset is not above `offset`, from chained infos all. -/
def gatherOps (infos : List PeInfo) (offset : Nat) : List PeOp :=
  match infos with
  | [] => []
  | first :: chained =>
    ((first.ops.dropWhile fun p => p.1 > offset).map (·.2)) ++
      (chained.map fun i => i.ops.map (·.2)).flatten

def pePlan (funcs : List PeFunc) (rel : Nat) (first : Bool) : PePlan :=
  match peLookup funcs rel with
  | none => .exec .justReturn
  | some f =>
    if !f.infoOk then .staticErr
    else
      let epi : Option (Option PePlan) :=
        if first then
          if !f.textOk ∨ f.stop < rel then some none   -- MissingInstructionData
          else
            match f.epilogs.find? (fun p => p.1 = rel - f.start) with
            | some (_, insns) =>
              match forSeq (insns.map oopOfEpi) with
              | some rule => some (some (.exec rule))
              | none => some (some (.epilog f.frameReg insns))
            | none => none
        else none
      match epi with
      | some none => .staticErr
      | some (some p) => p
      | none =>
        if f.infos.length > 32 then .staticErr
        else
          let ops := gatherOps f.infos (rel - f.start)
          match forSeq (ops.map oopOfOp) with
          | some rule => .exec rule
          | none => .interp f.frameReg f.frameOff ops

/-- Running a dynamic PE plan. -/
def peRun (p : PePlan) (first : Bool) (regs : RegsX64) (mem : Mem) : GenOut RegsX64 :=
  match p with
  | .epilog fr insns => peCommit first regs (interpEpilog fr mem insns regs.r)
  | .interp fr fo ops => peCommit first regs (interpOps fr fo mem ops regs.r)
  | _ => .err .couldNotRecoverCfa

end FH
