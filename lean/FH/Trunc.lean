import FH.RuleLemmas
/-!
# Truncating the readable stack (C11)
-/
namespace FH

/-- Reads at or above the cut fail. -/
def cutMem (c : Nat) (mem : Mem) : Mem := fun a => if a ≥ c then none else mem a

/-- Truncation either leaves an outcome unchanged or turns it into an error naming an
unreadable address at or above the cut. -/
def TruncOK {R : Type} (c : Nat) (o o' : Out R) : Prop :=
  o' = o ∨ ∃ a regs', a ≥ c ∧ o' = .ret (.err (.couldNotReadStack a)) regs'

theorem cutMem_lt {c a : Nat} (mem : Mem) (h : ¬ a ≥ c) : cutMem c mem a = mem a := by
  simp [cutMem, h]

theorem cutMem_ge {c a : Nat} (mem : Mem) (h : a ≥ c) : cutMem c mem a = none := by
  simp [cutMem, h]

theorem finishX64_trunc (c : Nat) (regs1 : RegsX64) (sp newSp newBp : Nat) (mem : Mem) :
    TruncOK c (finishX64 regs1 sp newSp newBp mem)
      (finishX64 regs1 sp newSp newBp (cutMem c mem)) := by
  unfold finishX64 TruncOK
  split
  · left; rfl
  · by_cases h : newSp - 8 ≥ c
    · right; exact ⟨_, regs1, h, by simp [cutMem_ge mem h]⟩
    · left; simp [cutMem_lt mem h]

/-- If the return address slot is cut off, `finishX64` reports it, whatever `newBp` is. -/
theorem finishX64_cut_ra (c : Nat) (regs1 : RegsX64) (sp newSp newBp : Nat) (mem : Mem)
    (h8 : 8 ≤ newSp) (h : newSp - 8 ≥ c) :
    finishX64 regs1 sp newSp newBp (cutMem c mem) =
      .ret (.err (.couldNotReadStack (newSp - 8))) regs1 := by
  unfold finishX64
  have : ¬ newSp < 8 := by omega
  simp [this, cutMem_ge mem h]

theorem finishX64_small (regs1 : RegsX64) (sp newSp b1 b2 : Nat) (m1 m2 : Mem) (h : newSp < 8) :
    finishX64 regs1 sp newSp b1 m1 = finishX64 regs1 sp newSp b2 m2 := by
  simp [finishX64, h]

theorem fpStepX64_trunc (c : Nat) (regs : RegsX64) (mem : Mem) :
    TruncOK c (fpStepX64 regs mem) (fpStepX64 regs (cutMem c mem)) := by
  unfold fpStepX64
  simp only []
  split
  · left; rfl
  · split
    · left; rfl
    · split
      · left; rfl
      · by_cases h : regs.bp ≥ c
        · right
          exact ⟨regs.bp, regs, h, by simp [cutMem_ge mem h]⟩
        · rw [cutMem_lt mem h]
          split
          · left; rfl
          · exact finishX64_trunc c _ _ _ _ _

theorem popLoop_trunc (c : Nat) (mem : Mem) : ∀ (l : List Nat) (sp : Nat) (r : Nat → Nat),
    popLoop (cutMem c mem) l sp r = popLoop mem l sp r ∨
      ∃ a r', a ≥ c ∧ popLoop (cutMem c mem) l sp r = .fail (.couldNotReadStack a) r'
  | [], sp, r => Or.inl rfl
  | reg :: rest, sp, r => by
    simp only [popLoop]
    by_cases h : sp ≥ c
    · right; exact ⟨sp, r, h, by simp [cutMem_ge mem h]⟩
    · rw [cutMem_lt mem h]
      cases mem sp with
      | none => left; rfl
      | some v =>
        simp only []
        cases cadd sp 8 with
        | none => left; rfl
        | some sp' => exact popLoop_trunc c mem rest sp' _

/-- **Truncation of one x86-64 rule step.** -/
theorem execX64_trunc (c : Nat) (rule : RuleX64) (first : Bool) (regs : RegsX64) (mem : Mem)
    (hr : rule.WF) :
    TruncOK c (execX64 rule first regs mem) (execX64 rule first regs (cutMem c mem)) := by
  cases rule with
  | endOfStack => left; rfl
  | justReturn =>
    simp only [execX64]
    split
    · left; rfl
    · exact finishX64_trunc c _ _ _ _ _
  | justReturnIfFirstFrameOtherwiseFp =>
    simp only [execX64]
    split
    · split
      · left; rfl
      · exact finishX64_trunc c _ _ _ _ _
    · exact fpStepX64_trunc c _ _
  | offsetSp k =>
    simp only [RuleX64.WF, U16] at hr
    simp only [execX64]
    rw [umul_eq _ (by unfold U64; omega), umul_eq _ (by unfold U64; omega)]
    split
    · left; rfl
    · exact finishX64_trunc c _ _ _ _ _
  | useFramePointer => simp only [execX64]; exact fpStepX64_trunc c _ _
  | offsetSpAndPopRegisters k n e =>
    simp only [RuleX64.WF, U16] at hr
    simp only [execX64]
    rw [umul_eq _ (by unfold U64; omega), umul_eq _ (by unfold U64; omega)]
    split
    · left; rfl
    · rename_i sp1 _
      rcases popLoop_trunc c mem (decodeRegs n e) sp1 regs.r with h | ⟨a, r', ha, h⟩
      · rw [h]
        split
        · left; rfl
        · split
          · left; rfl
          · exact finishX64_trunc c _ _ _ _ _
      · rw [h]
        right
        exact ⟨a, _, ha, rfl⟩
  | offsetSpAndRestoreBp k b =>
    simp only [RuleX64.WF, U16] at hr
    simp only [execX64]
    rw [umul_eq _ (by unfold U64; omega), umul_eq _ (by unfold U64; omega)]
    split
    · left; rfl
    · rename_i newSp hns
      have ⟨e1, e2⟩ := cadd_some hns
      rw [imul_eq _ (by omega), imul_eq _ (by omega)]
      cases hloc : caddSigned regs.sp (b * 8) with
      | none => left; rfl
      | some bpLoc =>
        simp only []
        by_cases h : bpLoc ≥ c
        · rw [cutMem_ge mem h]
          simp only []
          by_cases hl : first = true ∧ bpLoc < regs.sp
          · -- tolerated read below sp: the return address slot lies at or above it
            simp only [hl, and_self, if_true]
            by_cases h8 : newSp < 8
            · left
              cases mem bpLoc with
              | some v => exact finishX64_small _ _ _ _ _ _ _ h8
              | none => exact finishX64_small _ _ _ _ _ _ _ h8
            · -- bpLoc = sp + 8b with b < 0, so bpLoc ≤ sp - 8 ≤ newSp - 8
              have hws : regs.sp < U64 := by omega
              have hb := caddSigned_some (a := regs.sp) (b := b * 8) hws (by omega) (by omega) hloc
              have hge : newSp - 8 ≥ c := by omega
              right
              exact ⟨newSp - 8, regs, hge, finishX64_cut_ra c _ _ _ _ _ (by omega) hge⟩
          · simp only [hl, if_false]
            right
            exact ⟨bpLoc, regs, h, rfl⟩
        · rw [cutMem_lt mem h]
          cases mem bpLoc with
          | some v => exact finishX64_trunc c _ _ _ _ _
          | none =>
            simp only []
            split
            · exact finishX64_trunc c _ _ _ _ _
            · left; rfl

end FH

namespace FH

/-- A read through the cut memory: same value below the cut, failure at or above it. -/
theorem cut_cases (c : Nat) (mem : Mem) (a : Nat) :
    (a ≥ c ∧ cutMem c mem a = none) ∨ (¬ a ≥ c ∧ cutMem c mem a = mem a) := by
  by_cases h : a ≥ c
  · left; exact ⟨h, cutMem_ge mem h⟩
  · right; exact ⟨h, cutMem_lt mem h⟩

/-- Two successive reads followed by a memory-independent continuation. -/
theorem trunc_two_reads {R : Type} (c : Nat) (mem : Mem) (regs : R) (a b : Nat)
    (k : Nat → Nat → Out R) :
    TruncOK c
      (match mem a with
        | none => Out.ret (.err (.couldNotReadStack a)) regs
        | some x => match mem b with
          | none => Out.ret (.err (.couldNotReadStack b)) regs
          | some y => k x y)
      (match cutMem c mem a with
        | none => Out.ret (.err (.couldNotReadStack a)) regs
        | some x => match cutMem c mem b with
          | none => Out.ret (.err (.couldNotReadStack b)) regs
          | some y => k x y) := by
  rcases cut_cases c mem a with ⟨h, e⟩ | ⟨h, e⟩
  · rw [e]; right; exact ⟨a, regs, h, rfl⟩
  · rw [e]
    cases mem a with
    | none => left; rfl
    | some x =>
      simp only []
      rcases cut_cases c mem b with ⟨h2, e2⟩ | ⟨h2, e2⟩
      · rw [e2]; right; exact ⟨b, regs, h2, rfl⟩
      · rw [e2]; left; rfl

theorem trunc_one_read {R : Type} (c : Nat) (mem : Mem) (regs : R) (a : Nat) (k : Nat → Out R) :
    TruncOK c
      (match mem a with
        | none => Out.ret (.err (.couldNotReadStack a)) regs
        | some x => k x)
      (match cutMem c mem a with
        | none => Out.ret (.err (.couldNotReadStack a)) regs
        | some x => k x) := by
  rcases cut_cases c mem a with ⟨h, e⟩ | ⟨h, e⟩
  · rw [e]; right; exact ⟨a, regs, h, rfl⟩
  · rw [e]; left; rfl

/-- **Truncation of one aarch64 rule step.** -/
theorem execA64_trunc (c : Nat) (rule : RuleA64) (first : Bool) (regs : RegsA64) (mem : Mem) :
    TruncOK c (execA64 rule first regs mem) (execA64 rule first regs (cutMem c mem)) := by
  cases rule with
  | noOp => left; rfl
  | offsetSp k => left; rfl
  | offsetSpIfFirstFrameOtherwiseStackEndsHere k => left; rfl
  | noOpIfFirstFrameOtherwiseFp =>
    simp only [execA64]
    split
    · left; rfl
    · split
      · left; rfl
      · simp only [uaddP]
        split
        · exact trunc_two_reads c mem regs _ _ _
        · left; rfl
  | useFramePointer =>
    simp only [execA64]
    split
    · left; rfl
    · simp only [uaddP]
      split
      · exact trunc_two_reads c mem regs _ _ _
      · left; rfl
  | offsetSpAndRestoreLr k l =>
    simp only [execA64, umul, imul]
    split
    · split
      · left; rfl
      · split
        · split
          · left; rfl
          · exact trunc_one_read c mem regs _ _
        · left; rfl
    · left; rfl
  | offsetSpAndRestoreFpAndLr k f l =>
    simp only [execA64, umul, imul]
    split
    · split
      · left; rfl
      · split
        · split
          · left; rfl
          · rename_i lrLoc _
            rcases cut_cases c mem lrLoc with ⟨h, e⟩ | ⟨h, e⟩
            · rw [e]; right; exact ⟨lrLoc, regs, h, rfl⟩
            · rw [e]
              cases mem lrLoc with
              | none => left; rfl
              | some x =>
                simp only []
                split
                · split
                  · left; rfl
                  · exact trunc_one_read c mem regs _ _
                · left; rfl
        · left; rfl
    · left; rfl
  | useFramepointerWithOffsets k f l =>
    simp only [execA64, umul, imul]
    split
    · split
      · left; rfl
      · split
        · split
          · left; rfl
          · rename_i lrLoc _
            rcases cut_cases c mem lrLoc with ⟨h, e⟩ | ⟨h, e⟩
            · rw [e]; right; exact ⟨lrLoc, regs, h, rfl⟩
            · rw [e]
              cases mem lrLoc with
              | none => left; rfl
              | some x =>
                simp only []
                split
                · split
                  · left; rfl
                  · exact trunc_one_read c mem regs _ _
                · left; rfl
        · left; rfl
    · left; rfl

end FH

namespace FH

/-- A walk: apply `step` until it stops yielding frames (at most `n` times). The state carries
whatever the step needs (address kind, registers, which rule applies where). -/
def walkWith {S : Type} (step : Mem → S → Out S) (mem : Mem) : Nat → S → List Res
  | 0, _ => []
  | n + 1, s =>
    match step mem s with
    | .ret (.frame ra) s' => .frame ra :: walkWith step mem n s'
    | .ret r _ => [r]
    | .panic _ => []

def IsFrame : Res → Prop
  | .frame _ => True
  | _ => False

/-- **Truncated walks are prefixes.** If every step is truncation-safe (`TruncOK`, which the
two theorems above establish for every rule of both architectures), then walking with reads at
or above `c` failing yields either the same walk, or a prefix of its frames followed by an
error naming an unreadable address `a ≥ c`. -/
theorem walk_trunc {S : Type} (step : Mem → S → Out S) (mem : Mem) (c : Nat)
    (hstep : ∀ s, TruncOK c (step mem s) (step (cutMem c mem) s)) :
    ∀ n s, walkWith step (cutMem c mem) n s = walkWith step mem n s ∨
      ∃ k a, a ≥ c ∧
        walkWith step (cutMem c mem) n s =
          (walkWith step mem n s).take k ++ [.err (.couldNotReadStack a)] ∧
        ∀ r ∈ (walkWith step mem n s).take k, IsFrame r := by
  intro n
  induction n with
  | zero => intro s; left; rfl
  | succ n ih =>
    intro s
    rcases hstep s with h | ⟨a, s', ha, h⟩
    · -- the step is unchanged
      simp only [walkWith, h]
      cases hs : step mem s with
      | panic site => left; rfl
      | ret r s1 =>
        cases r with
        | done => left; rfl
        | err e => left; rfl
        | frame ra =>
          simp only []
          rcases ih s1 with h2 | ⟨k, a, ha, h2, hf⟩
          · left; rw [h2]
          · right
            refine ⟨k + 1, a, ha, ?_, ?_⟩
            · rw [h2]; simp
            · intro r hr
              simp only [List.take_succ_cons, List.mem_cons] at hr
              rcases hr with rfl | hr
              · trivial
              · exact hf r hr
    · right
      refine ⟨0, a, ha, ?_, by simp⟩
      simp [walkWith, h]

end FH
