import FH.RuleX64
import FH.RuleA64
/-!
# Lemmas about rule execution used by several properties
-/
namespace FH

theorem umul_eq {R} {a b : Nat} (k : Nat → Out R) (h : a * b < U64) : umul a b k = k (a * b) := by
  simp [umul, h]

theorem imul_eq {R} {a b : Int} (k : Int → Out R)
    (h : -9223372036854775808 ≤ a * b ∧ a * b < 9223372036854775808) : imul a b k = k (a * b) := by
  simp [imul, h]

theorem uaddP_eq {R} {a b : Nat} (s : Site) (k : Nat → Out R) (h : a + b < U64) :
    uaddP a b s k = k (a + b) := by
  simp [uaddP, h]

/-- What `finishX64` can return. -/
theorem finishX64_cases (regs1 : RegsX64) (sp newSp newBp : Nat) (mem : Mem) :
    (∃ e, finishX64 regs1 sp newSp newBp mem = .ret (.err e) regs1) ∨
    finishX64 regs1 sp newSp newBp mem = .ret .done regs1 ∨
    (∃ ra, 8 ≤ newSp ∧ mem (newSp - 8) = some ra ∧ ra ≠ 0 ∧ ¬(newSp = sp ∧ ra = regs1.ip) ∧
      finishX64 regs1 sp newSp newBp mem =
        .ret (.frame ra) { ip := ra, r := setReg (setReg regs1.r RSP newSp) RBP newBp }) := by
  unfold finishX64
  split
  · left; exact ⟨_, rfl⟩
  · split
    · left; exact ⟨_, rfl⟩
    · rename_i ra hra
      split
      · right; left; rfl
      · split
        · left; exact ⟨_, rfl⟩
        · right; right
          refine ⟨ra, by omega, hra, by assumption, by assumption, rfl⟩

end FH

namespace FH

theorem finishX64_no_panic (regs1 : RegsX64) (sp newSp newBp : Nat) (mem : Mem) (s : Site) :
    finishX64 regs1 sp newSp newBp mem ≠ .panic s := by
  rcases finishX64_cases regs1 sp newSp newBp mem with ⟨e, h⟩ | h | ⟨ra, _, _, _, _, h⟩ <;>
    simp [h]

theorem fpStepX64_no_panic (regs : RegsX64) (mem : Mem) (s : Site) :
    fpStepX64 regs mem ≠ .panic s := by
  unfold fpStepX64
  simp only []
  repeat' split
  all_goals first | exact finishX64_no_panic _ _ _ _ _ _ | simp

theorem execX64_no_panic (rule : RuleX64) (first : Bool) (regs : RegsX64) (mem : Mem)
    (hr : rule.WF) (s : Site) : execX64 rule first regs mem ≠ .panic s := by
  cases rule with
  | endOfStack => simp [execX64]
  | justReturn =>
    simp only [execX64]; split
    · simp
    · exact finishX64_no_panic _ _ _ _ _ _
  | justReturnIfFirstFrameOtherwiseFp =>
    simp only [execX64]; split
    · split
      · simp
      · exact finishX64_no_panic _ _ _ _ _ _
    · exact fpStepX64_no_panic _ _ _
  | offsetSp k =>
    simp only [RuleX64.WF, U16] at hr
    simp only [execX64]
    rw [umul_eq _ (by unfold U64; omega)]
    split
    · simp
    · exact finishX64_no_panic _ _ _ _ _ _
  | offsetSpAndRestoreBp k b =>
    simp only [RuleX64.WF, U16] at hr
    simp only [execX64]
    rw [umul_eq _ (by unfold U64; omega)]
    split
    · simp
    · rw [imul_eq _ (by omega)]
      split
      · simp
      · split
        · exact finishX64_no_panic _ _ _ _ _ _
        · split
          · exact finishX64_no_panic _ _ _ _ _ _
          · simp
  | useFramePointer => simp only [execX64]; exact fpStepX64_no_panic _ _ _
  | offsetSpAndPopRegisters k c e =>
    simp only [RuleX64.WF, U16] at hr
    simp only [execX64]
    rw [umul_eq _ (by unfold U64; omega)]
    split
    · simp
    · split
      · simp
      · split
        · simp
        · exact finishX64_no_panic _ _ _ _ _ _

end FH

namespace FH

/-- Facts about a successful x86-64 step. -/
structure FrameX64 (regs regs' : RegsX64) (ra : Nat) (mem : Mem) : Prop where
  ra_ne : ra ≠ 0
  ip_eq : regs'.ip = ra
  sp_ge8 : 8 ≤ regs'.sp
  ra_read : mem (regs'.sp - 8) = some ra
  sp_mono : regs.sp ≤ regs'.sp
  advance : ¬(regs'.sp = regs.sp ∧ ra = regs.ip)
  sp_lt : regs'.sp < U64

theorem finishX64_frame {regs1 : RegsX64} {sp newSp newBp : Nat} {mem : Mem} {ra : Nat}
    {regs' : RegsX64} (h : finishX64 regs1 sp newSp newBp mem = .ret (.frame ra) regs') :
    regs' = { ip := ra, r := setReg (setReg regs1.r RSP newSp) RBP newBp } ∧ 8 ≤ newSp ∧
      mem (newSp - 8) = some ra ∧ ra ≠ 0 ∧ ¬(newSp = sp ∧ ra = regs1.ip) := by
  rcases finishX64_cases regs1 sp newSp newBp mem with ⟨e, h'⟩ | h' | ⟨ra', h1, h2, h3, h4, h'⟩
  · rw [h'] at h; cases h
  · rw [h'] at h; cases h
  · rw [h'] at h
    injection h with h5 h6
    injection h5 with h5
    subst h5
    exact ⟨h6.symm, h1, h2, h3, h4⟩

theorem sp_of_finish (r : Nat → Nat) (ra newSp newBp : Nat) :
    ({ ip := ra, r := setReg (setReg r RSP newSp) RBP newBp } : RegsX64).sp = newSp := by
  simp [RegsX64.sp, setReg, RSP, RBP]

theorem bp_of_finish (r : Nat → Nat) (ra newSp newBp : Nat) :
    ({ ip := ra, r := setReg (setReg r RSP newSp) RBP newBp } : RegsX64).bp = newBp := by
  simp [RegsX64.bp, setReg, RBP]

/-- `finishX64` with `newSp ≥ sp`, `regs1` agreeing with `regs` on `ip`. -/
theorem finishX64_frameX64 {regs regs1 : RegsX64} {newSp newBp : Nat} {mem : Mem} {ra : Nat}
    {regs' : RegsX64} (hip : regs1.ip = regs.ip) (hge : regs.sp ≤ newSp) (hlt : newSp < U64)
    (h : finishX64 regs1 regs.sp newSp newBp mem = .ret (.frame ra) regs') :
    FrameX64 regs regs' ra mem := by
  obtain ⟨h1, h2, h3, h4, h5⟩ := finishX64_frame h
  subst h1
  refine ⟨h4, rfl, ?_, ?_, ?_, ?_, ?_⟩
  · rw [sp_of_finish]; exact h2
  · rw [sp_of_finish]; exact h3
  · rw [sp_of_finish]; exact hge
  · rw [sp_of_finish, ← hip]; exact h5
  · rw [sp_of_finish]; exact hlt

theorem popLoop_ok {mem : Mem} : ∀ (l : List Nat) (sp : Nat) (r : Nat → Nat) (sp2 : Nat)
    (r2 : Nat → Nat), popLoop mem l sp r = .ok sp2 r2 → sp2 = sp + 8 * l.length ∧
      (l ≠ [] → sp2 < U64)
  | [], sp, r, sp2, r2, h => by
    simp [popLoop] at h; simp [h.1]
  | reg :: rest, sp, r, sp2, r2, h => by
    simp only [popLoop] at h
    split at h
    · cases h
    · split at h
      · cases h
      · rename_i sp' hsp'
        have ⟨e1, e2⟩ := cadd_some hsp'
        have ih := popLoop_ok rest sp' _ sp2 r2 h
        refine ⟨by simp [List.length]; omega, fun _ => ?_⟩
        cases rest with
        | nil => simp [List.length] at ih; omega
        | cons a t => exact ih.2 (by simp)

theorem fpStepX64_frame {regs : RegsX64} {mem : Mem} {ra : Nat} {regs' : RegsX64}
    (h : fpStepX64 regs mem = .ret (.frame ra) regs') :
    FrameX64 regs regs' ra mem ∧ regs.sp < regs'.sp ∧ regs'.sp = regs.bp + 16 ∧
      mem regs.bp = some regs'.bp ∧ regs.bp ≠ 0 := by
  unfold fpStepX64 at h
  simp only [] at h
  split at h
  · cases h
  · rename_i hbp
    split at h
    · cases h
    · rename_i newSp hns
      have ⟨e1, e2⟩ := cadd_some hns
      split at h
      · cases h
      · rename_i hgt
        split at h
        · cases h
        · rename_i newBp hnb
          have hf := finishX64_frameX64 rfl (by omega) (by omega) h
          obtain ⟨h1, _⟩ := finishX64_frame h
          subst h1
          refine ⟨hf, ?_, ?_, ?_, hbp⟩
          · rw [sp_of_finish]; omega
          · rw [sp_of_finish]; omega
          · rw [bp_of_finish]; exact hnb

theorem execX64_frame {rule : RuleX64} {first : Bool} {regs : RegsX64} {mem : Mem} {ra : Nat}
    {regs' : RegsX64} (hr : rule.WF)
    (h : execX64 rule first regs mem = .ret (.frame ra) regs') : FrameX64 regs regs' ra mem := by
  cases rule with
  | endOfStack => simp [execX64] at h
  | justReturn =>
    simp only [execX64] at h; split at h
    · cases h
    · rename_i newSp hns
      have ⟨e1, e2⟩ := cadd_some hns
      exact finishX64_frameX64 rfl (by omega) (by omega) h
  | justReturnIfFirstFrameOtherwiseFp =>
    simp only [execX64] at h; split at h
    · split at h
      · cases h
      · rename_i newSp hns
        have ⟨e1, e2⟩ := cadd_some hns
        exact finishX64_frameX64 rfl (by omega) (by omega) h
    · exact (fpStepX64_frame h).1
  | offsetSp k =>
    simp only [RuleX64.WF, U16] at hr
    simp only [execX64] at h
    rw [umul_eq _ (by unfold U64; omega)] at h
    split at h
    · cases h
    · rename_i newSp hns
      have ⟨e1, e2⟩ := cadd_some hns
      exact finishX64_frameX64 rfl (by omega) (by omega) h
  | offsetSpAndRestoreBp k b =>
    simp only [RuleX64.WF, U16] at hr
    simp only [execX64] at h
    rw [umul_eq _ (by unfold U64; omega)] at h
    split at h
    · cases h
    · rename_i newSp hns
      have ⟨e1, e2⟩ := cadd_some hns
      rw [imul_eq _ (by omega)] at h
      split at h
      · cases h
      · split at h
        · exact finishX64_frameX64 rfl (by omega) (by omega) h
        · split at h
          · exact finishX64_frameX64 rfl (by omega) (by omega) h
          · cases h
  | useFramePointer => simp only [execX64] at h; exact (fpStepX64_frame h).1
  | offsetSpAndPopRegisters k c e =>
    simp only [RuleX64.WF, U16] at hr
    simp only [execX64] at h
    rw [umul_eq _ (by unfold U64; omega)] at h
    split at h
    · cases h
    · rename_i sp1 hs1
      have ⟨e1, e2⟩ := cadd_some hs1
      split at h
      · cases h
      · rename_i sp2 r2 hpop
        have ⟨p1, _⟩ := popLoop_ok _ _ _ _ _ hpop
        split at h
        · cases h
        · rename_i newSp hns
          have ⟨e3, e4⟩ := cadd_some hns
          obtain ⟨h1, h2, h3, h4, h5⟩ := finishX64_frame h
          subst h1
          refine ⟨h4, rfl, ?_, ?_, ?_, ?_, ?_⟩
          · rw [sp_of_finish]; exact h2
          · rw [sp_of_finish]; exact h3
          · rw [sp_of_finish]; omega
          · rw [sp_of_finish]; exact h5
          · rw [sp_of_finish]; omega

end FH

namespace FH

/-- Facts about a successful aarch64 step. -/
structure FrameA64 (first : Bool) (regs regs' : RegsA64) (ra : Nat) : Prop where
  ra_ne : ra ≠ 0
  lr_eq : regs'.lr = ra
  mask_eq : regs'.mask = regs.mask
  stripped : Stripped regs.mask ra
  sp_mono : regs.sp ≤ regs'.sp
  caller_advance : first = false → regs.sp < regs'.sp

theorem finishA64_cases (first : Bool) (regs : RegsA64) (newLr newSp newFp : Nat) :
    (∃ e, finishA64 first regs newLr newSp newFp = .ret (.err e) regs) ∨
    finishA64 first regs newLr newSp newFp = .ret .done regs ∨
    (strip regs.mask newLr ≠ 0 ∧ ¬(first = false ∧ newSp = regs.sp) ∧
      finishA64 first regs newLr newSp newFp = .ret (.frame (strip regs.mask newLr))
        { (regs.setLr newLr) with sp := newSp, fp := newFp }) := by
  unfold finishA64
  simp only []
  split
  · right; left; rfl
  · split
    · left; exact ⟨_, rfl⟩
    · rename_i h1 h2
      right; right
      refine ⟨h1, ?_, rfl⟩
      intro ⟨a, b⟩
      apply h2
      simp [a, b]

theorem finishA64_no_panic (first : Bool) (regs : RegsA64) (newLr newSp newFp : Nat) (s : Site) :
    finishA64 first regs newLr newSp newFp ≠ .panic s := by
  rcases finishA64_cases first regs newLr newSp newFp with ⟨e, h⟩ | h | ⟨_, _, h⟩ <;> simp [h]

theorem finishA64_frame {first : Bool} {regs : RegsA64} {newLr newSp newFp ra : Nat}
    {regs' : RegsA64} (hge : regs.sp ≤ newSp)
    (h : finishA64 first regs newLr newSp newFp = .ret (.frame ra) regs') :
    FrameA64 first regs regs' ra ∧ regs'.sp = newSp ∧ regs'.fp = newFp ∧
      ra = strip regs.mask newLr := by
  rcases finishA64_cases first regs newLr newSp newFp with ⟨e, h'⟩ | h' | ⟨h1, h2, h'⟩
  · rw [h'] at h; cases h
  · rw [h'] at h; cases h
  · rw [h'] at h
    injection h with h5 h6
    injection h5 with h5
    subst h5 h6
    refine ⟨⟨h1, rfl, rfl, strip_stripped _ _, hge, ?_⟩, rfl, rfl, rfl⟩
    intro hf
    simp only []
    have : newSp ≠ regs.sp := fun e => h2 ⟨hf, e⟩
    omega

theorem execA64_no_panic (rule : RuleA64) (first : Bool) (regs : RegsA64) (mem : Mem)
    (hr : rule.WF) (s : Site) : execA64 rule first regs mem ≠ .panic s := by
  cases rule with
  | noOp =>
    simp only [execA64]; split
    · simp
    · exact finishA64_no_panic _ _ _ _ _ _
  | noOpIfFirstFrameOtherwiseFp =>
    simp only [execA64]; split
    · exact finishA64_no_panic _ _ _ _ _ _
    · split
      · simp
      · rename_i newSp hns
        have ⟨e1, e2⟩ := cadd_some hns
        rw [uaddP_eq _ _ (by omega)]
        repeat' split
        all_goals first | exact finishA64_no_panic _ _ _ _ _ _ | simp
  | offsetSp k =>
    simp only [RuleA64.WF, U16] at hr
    simp only [execA64]; split
    · simp
    · rw [umul_eq _ (by unfold U64; omega)]
      split
      · simp
      · exact finishA64_no_panic _ _ _ _ _ _
  | offsetSpIfFirstFrameOtherwiseStackEndsHere k =>
    simp only [RuleA64.WF, U16] at hr
    simp only [execA64]; split
    · simp
    · rw [umul_eq _ (by unfold U64; omega)]
      split
      · simp
      · exact finishA64_no_panic _ _ _ _ _ _
  | offsetSpAndRestoreLr k l =>
    simp only [RuleA64.WF, U16, InI16] at hr
    simp only [execA64]
    rw [umul_eq _ (by unfold U64; omega)]
    split
    · simp
    · rw [imul_eq _ (by omega)]
      repeat' split
      all_goals first | exact finishA64_no_panic _ _ _ _ _ _ | simp
  | offsetSpAndRestoreFpAndLr k f l =>
    simp only [RuleA64.WF, U16, InI16] at hr
    simp only [execA64]
    rw [umul_eq _ (by unfold U64; omega)]
    split
    · simp
    · rw [imul_eq _ (by omega)]
      split
      · simp
      · split
        · simp
        · rw [imul_eq _ (by omega)]
          repeat' split
          all_goals first | exact finishA64_no_panic _ _ _ _ _ _ | simp
  | useFramePointer =>
    simp only [execA64]
    split
    · simp
    · rename_i newSp hns
      have ⟨e1, e2⟩ := cadd_some hns
      rw [uaddP_eq _ _ (by omega)]
      repeat' split
      all_goals first | exact finishA64_no_panic _ _ _ _ _ _ | simp
  | useFramepointerWithOffsets k f l =>
    simp only [RuleA64.WF, U16, InI16] at hr
    simp only [execA64]
    rw [umul_eq _ (by unfold U64; omega)]
    split
    · simp
    · rw [imul_eq _ (by omega)]
      split
      · simp
      · split
        · simp
        · rw [imul_eq _ (by omega)]
          repeat' split
          all_goals first | exact finishA64_no_panic _ _ _ _ _ _ | simp

end FH

namespace FH

theorem execA64_frame {rule : RuleA64} {first : Bool} {regs : RegsA64} {mem : Mem} {ra : Nat}
    {regs' : RegsA64} (hr : rule.WF)
    (h : execA64 rule first regs mem = .ret (.frame ra) regs') : FrameA64 first regs regs' ra := by
  cases rule with
  | noOp =>
    simp only [execA64] at h; split at h
    · cases h
    · exact (finishA64_frame (Nat.le_refl _) h).1
  | noOpIfFirstFrameOtherwiseFp =>
    simp only [execA64] at h; split at h
    · exact (finishA64_frame (Nat.le_refl _) h).1
    · split at h
      · cases h
      · rename_i newSp hns
        have ⟨e1, e2⟩ := cadd_some hns
        rw [uaddP_eq _ _ (by omega)] at h
        split at h
        · cases h
        · split at h
          · cases h
          · split at h
            · cases h
            · split at h
              · cases h
              · exact (finishA64_frame (by omega) h).1
  | offsetSp k =>
    simp only [RuleA64.WF, U16] at hr
    simp only [execA64] at h; split at h
    · cases h
    · rw [umul_eq _ (by unfold U64; omega)] at h
      split at h
      · cases h
      · rename_i newSp hns
        have ⟨e1, e2⟩ := cadd_some hns
        exact (finishA64_frame (by omega) h).1
  | offsetSpIfFirstFrameOtherwiseStackEndsHere k =>
    simp only [RuleA64.WF, U16] at hr
    simp only [execA64] at h; split at h
    · cases h
    · rw [umul_eq _ (by unfold U64; omega)] at h
      split at h
      · cases h
      · rename_i newSp hns
        have ⟨e1, e2⟩ := cadd_some hns
        exact (finishA64_frame (by omega) h).1
  | offsetSpAndRestoreLr k l =>
    simp only [RuleA64.WF, U16, InI16] at hr
    simp only [execA64] at h
    rw [umul_eq _ (by unfold U64; omega)] at h
    split at h
    · cases h
    · rename_i newSp hns
      have ⟨e1, e2⟩ := cadd_some hns
      rw [imul_eq _ (by omega)] at h
      split at h
      · cases h
      · split at h
        · cases h
        · exact (finishA64_frame (by omega) h).1
  | offsetSpAndRestoreFpAndLr k f l =>
    simp only [RuleA64.WF, U16, InI16] at hr
    simp only [execA64] at h
    rw [umul_eq _ (by unfold U64; omega)] at h
    split at h
    · cases h
    · rename_i newSp hns
      have ⟨e1, e2⟩ := cadd_some hns
      rw [imul_eq _ (by omega)] at h
      split at h
      · cases h
      · split at h
        · cases h
        · rw [imul_eq _ (by omega)] at h
          split at h
          · cases h
          · split at h
            · cases h
            · exact (finishA64_frame (by omega) h).1
  | useFramePointer =>
    simp only [execA64] at h
    split at h
    · cases h
    · rename_i newSp hns
      have ⟨e1, e2⟩ := cadd_some hns
      rw [uaddP_eq _ _ (by omega)] at h
      split at h
      · cases h
      · split at h
        · cases h
        · split at h
          · cases h
          · split at h
            · cases h
            · exact (finishA64_frame (by omega) h).1
  | useFramepointerWithOffsets k f l =>
    simp only [RuleA64.WF, U16, InI16] at hr
    simp only [execA64] at h
    rw [umul_eq _ (by unfold U64; omega)] at h
    split at h
    · cases h
    · rw [imul_eq _ (by omega)] at h
      split at h
      · cases h
      · split at h
        · cases h
        · rw [imul_eq _ (by omega)] at h
          split at h
          · cases h
          · split at h
            · cases h
            · split at h
              · cases h
              · split at h
                · cases h
                · exact (finishA64_frame (by omega) h).1

end FH

namespace FH

theorem finishX64_err_stack {regs1 : RegsX64} {sp newSp newBp : Nat} {mem : Mem} {a : Nat}
    {regs' : RegsX64}
    (h : finishX64 regs1 sp newSp newBp mem = .ret (.err (.couldNotReadStack a)) regs') :
    mem a = none := by
  unfold finishX64 at h
  repeat' split at h
  all_goals simp_all

theorem popLoop_err_stack {mem : Mem} : ∀ (l : List Nat) (sp : Nat) (r r2 : Nat → Nat) (a : Nat),
    popLoop mem l sp r = .fail (.couldNotReadStack a) r2 → mem a = none
  | [], sp, r, r2, a, h => by simp [popLoop] at h
  | reg :: rest, sp, r, r2, a, h => by
    simp only [popLoop] at h
    split at h
    · simp at h; rw [← h.1]; assumption
    · split at h
      · simp at h
      · exact popLoop_err_stack rest _ _ _ _ h

/-- An x86-64 rule step that reports `CouldNotReadStack a` did fail to read `a`. -/
theorem execX64_err_stack {rule : RuleX64} {first : Bool} {regs : RegsX64} {mem : Mem} {a : Nat}
    {regs' : RegsX64}
    (h : execX64 rule first regs mem = .ret (.err (.couldNotReadStack a)) regs') :
    mem a = none := by
  cases rule <;> simp only [execX64, fpStepX64, umul, imul] at h <;> (repeat' split at h) <;>
    first
    | exact finishX64_err_stack h
    | (simp at h; done)
    | (simp at h; obtain ⟨h1, _⟩ := h; subst h1; assumption)
    | skip
  rename_i hpop
  simp at h
  obtain ⟨h1, _⟩ := h
  subst h1
  exact popLoop_err_stack _ _ _ _ _ hpop

theorem finishA64_not_err_stack {first : Bool} {regs : RegsA64} {newLr newSp newFp a : Nat}
    {regs' : RegsA64}
    (h : finishA64 first regs newLr newSp newFp = .ret (.err (.couldNotReadStack a)) regs') :
    False := by
  unfold finishA64 at h
  simp only [] at h
  repeat' split at h
  all_goals simp at h

/-- An aarch64 rule step that reports `CouldNotReadStack a` did fail to read `a`. -/
theorem execA64_err_stack {rule : RuleA64} {first : Bool} {regs : RegsA64} {mem : Mem} {a : Nat}
    {regs' : RegsA64}
    (h : execA64 rule first regs mem = .ret (.err (.couldNotReadStack a)) regs') :
    mem a = none := by
  cases rule <;> simp only [execA64, umul, imul, uaddP] at h <;> (repeat' split at h) <;>
    first
    | exact (finishA64_not_err_stack h).elim
    | (simp at h; done)
    | (simp at h; obtain ⟨h1, _⟩ := h; subst h1; assumption)

/-- The register file after an aarch64 step always carries a stripped `lr`, if it did before. -/
theorem execA64_lr_stripped {rule : RuleA64} {first : Bool} {regs : RegsA64} {mem : Mem}
    {res : Res} {regs' : RegsA64} (hs : Stripped regs.mask regs.lr)
    (h : execA64 rule first regs mem = .ret res regs') :
    regs'.mask = regs.mask ∧ Stripped regs'.mask regs'.lr := by
  have key : ∀ newLr newSp newFp, finishA64 first regs newLr newSp newFp = .ret res regs' →
      regs'.mask = regs.mask ∧ Stripped regs'.mask regs'.lr := by
    intro newLr newSp newFp hf
    rcases finishA64_cases first regs newLr newSp newFp with ⟨e, h'⟩ | h' | ⟨_, _, h'⟩ <;>
      rw [h'] at hf <;> injection hf with _ h2 <;> subst h2
    · exact ⟨rfl, hs⟩
    · exact ⟨rfl, hs⟩
    · exact ⟨rfl, strip_stripped _ _⟩
  cases rule <;> simp only [execA64, umul, imul, uaddP] at h <;> (repeat' split at h) <;>
    first
    | exact key _ _ _ h
    | (injection h with _ h2; subst h2; exact ⟨rfl, hs⟩)
    | (simp at h; done)

end FH
