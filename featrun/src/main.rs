//! `featrun <battery file>`: runs the battery with whatever feature subset this binary was
//! built with and prints the answers.
#[path = "../../harness/src/mem.rs"]
mod mem;
mod util {
    pub fn hex(v: u64) -> String {
        format!("{v:x}")
    }
}
mod exec;

fn main() {
    let path = std::env::args().nth(1).expect("usage: featrun <battery file>");
    let text = std::fs::read_to_string(&path).expect("battery file");
    let mut feats = Vec::new();
    if cfg!(feature = "std") {
        feats.push("std");
    }
    if cfg!(feature = "macho") {
        feats.push("macho");
    }
    if cfg!(feature = "pe") {
        feats.push("pe");
    }
    eprintln!("featrun built with features [{}]", feats.join(","));
    for l in exec::run_battery(&text) {
        println!("{l}");
    }
}
