//! Interpreter of feature-battery files (C19), written against framehop's public API only so
//! that it compiles under every subset of the optional features. Shared (via `#[path]`) by the
//! `featrun` binary, built once per feature subset, and by the main harness, which runs the
//! same battery in-process with the default features.
//!
//! Battery lines:
//!   world arch=<x64|a64> policy=<may|mustnot>
//!   module <id> start=<hex> end=<hex> base=<hex> sections: <RawSections::describe()>
//!   add <id> | remove <hex start>
//!   unwind kind=<ip|ra> addr=<hex> <regs> mem=<memdesc>
//!   iter pc=<hex> <regs> mem=<memdesc> max=<hex>
//!   find-max
//!   kind <id>            (outside a world)
//! One answer line per `unwind` / `iter` / `find-max`.
use crate::mem::MemDesc;
use crate::util::hex;
use framehop::aarch64::{CacheAarch64, PtrAuthMask, UnwindRegsAarch64, UnwinderAarch64};
use framehop::x86_64::{CacheX86_64, UnwindRegsX86_64, UnwinderX86_64};
use framehop::{
    AllocationPolicy, Error, FrameAddress, MayAllocateDuringUnwind, Module, ModuleSectionInfo, MustNotAllocateDuringUnwind, Unwinder,
};
use std::collections::BTreeMap;
use std::ops::Range;

#[derive(Clone, Default)]
struct Secs {
    base_svma: u64,
    svma: BTreeMap<String, Range<u64>>,
    data: BTreeMap<String, Vec<u8>>,
}

fn key_of(name: &[u8]) -> Option<&'static str> {
    Some(match name {
        b"__text" | b".text" => "text",
        b"__stubs" => "stubs",
        b"__stub_helper" => "stub_helper",
        b"__eh_frame" | b".eh_frame" => "eh_frame",
        b"__eh_frame_hdr" | b".eh_frame_hdr" => "eh_frame_hdr",
        b"__got" | b".got" => "got",
        b"__unwind_info" => "unwind_info",
        b".debug_frame" => "debug_frame",
        b".pdata" => "pdata",
        b".xdata" => "xdata",
        b".rdata" => "rdata",
        _ => return None,
    })
}

impl ModuleSectionInfo<Vec<u8>> for Secs {
    fn base_svma(&self) -> u64 {
        self.base_svma
    }
    fn section_svma_range(&mut self, name: &[u8]) -> Option<Range<u64>> {
        self.svma.get(key_of(name)?).cloned()
    }
    fn section_data(&mut self, name: &[u8]) -> Option<Vec<u8>> {
        self.data.get(key_of(name)?).cloned()
    }
    fn segment_svma_range(&mut self, name: &[u8]) -> Option<Range<u64>> {
        if name == b"__TEXT" { self.svma.get("text_segment").cloned() } else { None }
    }
    fn segment_data(&mut self, name: &[u8]) -> Option<Vec<u8>> {
        if name == b"__TEXT" { self.data.get("text_segment").cloned() } else { None }
    }
}

fn h(x: &str) -> Option<u64> {
    u64::from_str_radix(x, 16).ok()
}

fn parse_secs(desc: &str) -> Option<Secs> {
    let mut r = Secs::default();
    for tok in desc.split(' ').filter(|t| !t.is_empty()) {
        let (k, v) = tok.split_once('=')?;
        if k == "base_svma" {
            r.base_svma = h(v)?;
            continue;
        }
        let (range, data) = v.split_once(':')?;
        if range != "-" {
            let (a, b) = range.split_once('-')?;
            r.svma.insert(k.to_string(), h(a)?..h(b)?);
        }
        if data != "-" {
            let bytes: Option<Vec<u8>> = (0..data.len() / 2).map(|i| u8::from_str_radix(&data[2 * i..2 * i + 2], 16).ok()).collect();
            r.data.insert(k.to_string(), bytes?);
        }
    }
    Some(r)
}

fn show_err(e: &Error) -> String {
    match e {
        Error::CouldNotReadStack(a) => format!("err:stack:{}", hex(*a)),
        Error::FramepointerUnwindingMovedBackwards => "err:fpback".into(),
        Error::DidNotAdvance => "err:noadv".into(),
        Error::IntegerOverflow => "err:ovf".into(),
        Error::ReturnAddressIsNull => "err:null".into(),
    }
}

fn show_res(r: &Result<Option<u64>, Error>) -> String {
    match r {
        Ok(Some(ra)) => format!("frame:{}", hex(*ra)),
        Ok(None) => "done".into(),
        Err(e) => show_err(e),
    }
}

fn show_item(r: &Result<Option<FrameAddress>, Error>) -> String {
    match r {
        Ok(Some(FrameAddress::InstructionPointer(a))) => format!("ip:{}", hex(*a)),
        Ok(Some(FrameAddress::ReturnAddress(a))) => format!("ra:{}", hex(u64::from(*a))),
        Ok(None) => "none".into(),
        Err(e) => show_err(e),
    }
}

/// What the interpreter needs from an architecture.
trait A {
    type Regs;
    type Unw: Unwinder<UnwindRegs = Self::Regs, Module = Module<Vec<u8>>>;
    fn new_unw() -> Self::Unw;
    fn new_cache() -> <Self::Unw as Unwinder>::Cache;
    fn regs(f: &BTreeMap<&str, &str>) -> Option<Self::Regs>;
    fn show(r: &Self::Regs) -> String;
    fn stats(c: &<Self::Unw as Unwinder>::Cache) -> String;
}

struct X<P>(std::marker::PhantomData<P>);
struct Arm<P>(std::marker::PhantomData<P>);

fn stats_str(s: &framehop::CacheStats) -> String {
    format!("stats={},{},{},{}", hex(s.hit_count), hex(s.miss_empty_slot_count), hex(s.miss_wrong_modules_count), hex(s.miss_wrong_address_count))
}

impl<P: AllocationPolicy> A for X<P> {
    type Regs = UnwindRegsX86_64;
    type Unw = UnwinderX86_64<Vec<u8>, P>;
    fn new_unw() -> Self::Unw {
        UnwinderX86_64::new()
    }
    fn new_cache() -> CacheX86_64<P> {
        CacheX86_64::new_in()
    }
    fn regs(f: &BTreeMap<&str, &str>) -> Option<Self::Regs> {
        // `regs=` lists the 16 general purpose registers in hardware order (rsp = 4, rbp = 5 in
        // framehop's `Reg` numbering is not public API: the battery states sp and bp directly)
        Some(UnwindRegsX86_64::new(h(f.get("ip")?)?, h(f.get("sp")?)?, h(f.get("bp")?)?))
    }
    fn show(r: &Self::Regs) -> String {
        format!("ip={} sp={} bp={}", hex(r.ip()), hex(r.sp()), hex(r.bp()))
    }
    fn stats(c: &CacheX86_64<P>) -> String {
        stats_str(&c.stats())
    }
}

impl<P: AllocationPolicy> A for Arm<P> {
    type Regs = UnwindRegsAarch64;
    type Unw = UnwinderAarch64<Vec<u8>, P>;
    fn new_unw() -> Self::Unw {
        UnwinderAarch64::new()
    }
    fn new_cache() -> CacheAarch64<P> {
        CacheAarch64::new_in()
    }
    fn regs(f: &BTreeMap<&str, &str>) -> Option<Self::Regs> {
        let mask = h(f.get("mask")?)?;
        let m = if mask == u64::MAX { PtrAuthMask::new_no_strip() } else { PtrAuthMask::from_max_known_address(mask) };
        Some(UnwindRegsAarch64::new_with_ptr_auth_mask(m, h(f.get("lr")?)?, h(f.get("sp")?)?, h(f.get("fp")?)?))
    }
    fn show(r: &Self::Regs) -> String {
        format!("lr={} sp={} fp={}", hex(r.lr()), hex(r.sp()), hex(r.fp()))
    }
    fn stats(c: &CacheAarch64<P>) -> String {
        stats_str(&c.stats())
    }
}

struct World<T: A> {
    unw: T::Unw,
    cache: <T::Unw as Unwinder>::Cache,
}

fn run_world<T: A>(lines: &[&str], mods: &BTreeMap<String, (Range<u64>, u64, Secs)>, out: &mut Vec<String>) {
    let mut w: World<T> = World { unw: T::new_unw(), cache: T::new_cache() };
    for l in lines {
        let mut it = l.splitn(2, ' ');
        let cmd = it.next().unwrap_or("");
        let rest = it.next().unwrap_or("");
        let f: BTreeMap<&str, &str> = rest.split(' ').filter_map(|t| t.split_once('=')).collect();
        match cmd {
            "add" => {
                if let Some((range, base, secs)) = mods.get(rest.trim()) {
                    w.unw.add_module(Module::new(rest.trim().to_string(), range.clone(), *base, secs.clone()));
                }
            }
            "remove" => {
                if let Some(a) = h(rest.trim()) {
                    w.unw.remove_module(a);
                }
            }
            "find-max" => out.push(format!("max={}", hex(w.unw.max_known_code_address()))),
            "unwind" => {
                let (Some(addr), Some(mem), Some(mut regs)) = (f.get("addr").and_then(|a| h(a)), f.get("mem").and_then(|m| MemDesc::from_line(m)), T::regs(&f)) else {
                    out.push("bad-line".into());
                    continue;
                };
                let fa = if f.get("kind") == Some(&"ra") {
                    match FrameAddress::from_return_address(addr) {
                        Some(a) => a,
                        None => {
                            out.push("bad-line".into());
                            continue;
                        }
                    }
                } else {
                    FrameAddress::from_instruction_pointer(addr)
                };
                let mut rs = |a: u64| mem.read(a);
                let r = w.unw.unwind_frame(fa, &mut regs, &mut w.cache, &mut rs);
                out.push(format!("{} {} {}", show_res(&r), T::show(&regs), T::stats(&w.cache)));
            }
            "iter" => {
                let (Some(pc), Some(mem), Some(regs)) = (f.get("pc").and_then(|a| h(a)), f.get("mem").and_then(|m| MemDesc::from_line(m)), T::regs(&f)) else {
                    out.push("bad-line".into());
                    continue;
                };
                let max = f.get("max").and_then(|m| h(m)).unwrap_or(16);
                let mut rs = |a: u64| mem.read(a);
                let mut items = Vec::new();
                {
                    let mut it = w.unw.iter_frames(pc, regs, &mut w.cache, &mut rs);
                    for _ in 0..max {
                        let x = it.next();
                        let stop = !matches!(x, Ok(Some(_)));
                        items.push(show_item(&x));
                        if stop {
                            break;
                        }
                    }
                }
                out.push(format!("items={} {}", items.join(","), T::stats(&w.cache)));
            }
            _ => out.push(format!("bad-line {cmd}")),
        }
    }
}

/// Executes a battery; returns one answer line per `unwind` / `iter` / `find-max` line.
pub fn run_battery(text: &str) -> Vec<String> {
    let mut mods: BTreeMap<String, (Range<u64>, u64, Secs)> = BTreeMap::new();
    let mut out = Vec::new();
    let lines: Vec<&str> = text.lines().collect();
    let mut i = 0;
    while i < lines.len() {
        let l = lines[i];
        if let Some(rest) = l.strip_prefix("module ") {
            if let Some((meta, secs)) = rest.split_once(" sections: ") {
                let mut parts = meta.split(' ');
                let id = parts.next().unwrap_or("").to_string();
                let f: BTreeMap<&str, &str> = parts.filter_map(|t| t.split_once('=')).collect();
                if let (Some(s), Some(e), Some(b), Some(secs)) = (f.get("start").and_then(|x| h(x)), f.get("end").and_then(|x| h(x)), f.get("base").and_then(|x| h(x)), parse_secs(secs)) {
                    mods.insert(id, (s..e, b, secs));
                }
            }
            i += 1;
        } else if let Some(id) = l.strip_prefix("kind ") {
            // which unwind-data variant `Module::new` selects (needs the verification hook)
            match mods.get(id.trim()) {
                Some((range, base, secs)) => {
                    let m: Module<Vec<u8>> = Module::new(id.trim().to_string(), range.clone(), *base, secs.clone());
                    #[cfg(framehop_verif)]
                    out.push(format!("kind={}", m.verif_unwind_data_kind()));
                    #[cfg(not(framehop_verif))]
                    {
                        let _ = m;
                        out.push("kind=?".to_string());
                    }
                }
                None => out.push("bad-line".into()),
            }
            i += 1;
        } else if let Some(rest) = l.strip_prefix("world ") {
            let mut j = i + 1;
            while j < lines.len() && !lines[j].starts_with("world ") && !lines[j].starts_with("module ") && !lines[j].starts_with("kind ") {
                j += 1;
            }
            let body = &lines[i + 1..j];
            let a64 = rest.contains("arch=a64");
            let mustnot = rest.contains("policy=mustnot");
            out.push(format!("# {rest}"));
            match (a64, mustnot) {
                (false, false) => run_world::<X<MayAllocateDuringUnwind>>(body, &mods, &mut out),
                (false, true) => run_world::<X<MustNotAllocateDuringUnwind>>(body, &mods, &mut out),
                (true, false) => run_world::<Arm<MayAllocateDuringUnwind>>(body, &mods, &mut out),
                (true, true) => run_world::<Arm<MustNotAllocateDuringUnwind>>(body, &mods, &mut out),
            }
            i = j;
        } else {
            i += 1;
        }
    }
    out
}
