#!/usr/bin/env python3
"""Development aid (not a registered check): confirm a seeded change and run checks against it.

  tools/seedcheck.py verify <seed_dir>            confirm demo passes clean / fails seeded, suite unchanged
  tools/seedcheck.py run <seed_dir> <ID> [<ID>..] apply patch to /repo, run ./check <ID> quick, revert
"""
import os, subprocess, sys, shutil, json
ENV = dict(os.environ, CARGO_NET_OFFLINE="true", CARGO_TARGET_DIR="/tmp/seedtarget")

def sh(cmd, cwd=None, env=None):
    p = subprocess.run(cmd, cwd=cwd, env=env or os.environ, shell=isinstance(cmd, str), stdout=subprocess.PIPE, stderr=subprocess.STDOUT, text=True)
    return p.returncode, p.stdout

def verify(seed):
    wt = "/tmp/verify-wt"
    sh(f"git -C /repo worktree remove --force {wt}")
    rc, out = sh(f"git -C /repo worktree add -q --detach {wt} HEAD")
    assert rc == 0, out
    shutil.copy("/repo/Cargo.lock", wt)
    res = {}
    rc, out = sh(f"git -C {wt} apply {seed}/demo.diff"); assert rc == 0, out
    # find the demo test target
    demo = open(f"{seed}/demo.diff").read()
    target = "--test seed_demo" if "tests/seed_demo.rs" in demo else "--lib"
    rc, out = sh(f"cargo test --offline {target}", cwd=wt, env=ENV)
    res["demo_clean_rc"] = rc
    res["demo_clean"] = [l for l in out.splitlines() if l.startswith("test result")]
    rc, out = sh(f"git -C {wt} apply {seed}/patch.diff"); assert rc == 0, out
    rc, out = sh(f"cargo test --offline {target}", cwd=wt, env=ENV)
    res["demo_seeded_rc"] = rc
    res["demo_seeded"] = [l for l in out.splitlines() if l.startswith("test result") or "FAILED" in l][:8]
    sh(f"git -C {wt} apply -R {seed}/demo.diff")
    rc, out = sh("cargo test --workspace --no-fail-fast --offline", cwd=wt, env=ENV)
    res["suite"] = [l for l in out.splitlines() if l.startswith("test result")]
    res["suite_failed"] = sorted(l.split()[1] for l in out.splitlines() if l.startswith("test ") and l.endswith("FAILED"))
    rc, out = sh("cargo build --offline --no-default-features", cwd=wt, env=ENV)
    res["no_default_features_build_rc"] = rc
    sh(f"git -C /repo worktree remove --force {wt}")
    ok = (res["demo_clean_rc"] == 0 and res["demo_seeded_rc"] != 0 and res["no_default_features_build_rc"] == 0 and
          res["suite_failed"] == ["linux::test_epilogue_bp_already_popped", "macos::test_prologue_nofp", "macos::test_uncovered_x86_64_fp"])
    res["confirmed"] = ok
    print(json.dumps(res, indent=1))
    return ok

def run(seed, ids):
    rc, out = sh(f"git -C /repo status --porcelain")
    assert out.strip() == "", "repo not clean: " + out
    rc, out = sh(f"git -C /repo apply {seed}/patch.diff"); assert rc == 0, out
    results = {}
    try:
        for pid in ids:
            rc, out = sh(f"./check {pid} quick", cwd="/verif")
            results[pid] = {"rc": rc, "lines": ([l for l in out.splitlines() if l.startswith("VIOLATION")] + [l[:160] for l in out.splitlines() if l.startswith(("KNOWN", "OK"))])[:6]}
    finally:
        sh("git -C /repo checkout -- .")
    print(json.dumps(results, indent=1))
    return results

if __name__ == "__main__":
    if sys.argv[1] == "verify":
        sys.exit(0 if verify(sys.argv[2]) else 1)
    else:
        run(sys.argv[2], sys.argv[3:])
