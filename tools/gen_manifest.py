#!/usr/bin/env python3
"""Regenerates /verif/MANIFEST.json from tools/proptable.py (claimed checks) and properties.jsonl."""
import json, os, sys
ROOT = os.path.dirname(os.path.dirname(os.path.abspath(__file__)))
sys.path.insert(0, os.path.join(ROOT, "tools"))
from proptable import PROPS, ENGINES, NOT_APPLICABLE

props = [json.loads(l)["id"] for l in open(os.path.join(ROOT, "properties.jsonl"))]
hook_commits = ["1a85067", "d3a40f5", "94274d0", "3b8f29e"]
m = {
    "version": 1,
    "setup_cmd": "./check --setup",
    "hooks": {
        "guard": "framehop_verif",
        "enable": "--cfg framehop_verif via /verif/harness/.cargo/config.toml (rustflags); the harness depends on /repo by path, so every check rebuilds framehop from the working tree with the hooks on",
        "baseline_off_cmd": "cd /repo && cargo test --workspace --no-fail-fast --offline",
        "source_commits": hook_commits,
        "add_only": True,
    },
    "engines": [{"name": n, "path": e["path"], "serves_properties": sorted(p for p in PROPS if n in PROPS[p]["engines"]),
                 "kind_free_text": e["kind"]} for n, e in ENGINES.items()],
    "checks": [],
    "notes": "Machine-checked proof in Lean 4 of a hand-written model (lean/FH), tied to /repo on every run by a differential correspondence harness (harness/) that also judges every generated case against the property directly. See DESIGN.md.",
    "not_applicable": [],
}
for p in props:
    if p in PROPS:
        s = PROPS[p]
        m["checks"].append({
            "property_id": p,
            "quick_cmd": f"./check {p} quick",
            "thorough_cmd": f"./check {p} thorough",
            "evidence_file": f"evidence/{p}.json",
            "replay_cmd_template": f"./check {p} --replay {{path}}",
            "engine": "+".join(s["engines"]),
            "level_claimed": {
                "category": "proof",
                "text": s["level_text"],
                "design_ref": s.get("design_ref", "DESIGN.md section 5, " + p),
            },
            "level_note": s["level_note"],
            "technique": s.get("technique", "Lean 4 theorems about a hand-written model + differential correspondence check against /repo"),
        })
    else:
        m["not_applicable"].append({"property_id": p, "reason": NOT_APPLICABLE.get(p, "not yet built in this commit (work in progress; the design applies to it, see DESIGN.md section 5)")})
json.dump(m, open(os.path.join(ROOT, "MANIFEST.json"), "w"), indent=1)
print("checks:", [c["property_id"] for c in m["checks"]])
