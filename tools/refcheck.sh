#!/bin/bash
# tools/refcheck.sh <dir-with-patch.diff>: apply a behaviour-preserving change to /repo, run every quick check, revert; any VIOLATION is a false alarm
d=$1
cd /verif
[ -z "$(git -C /repo status --porcelain)" ] || { echo "repo not clean"; exit 2; }
git -C /repo apply $d/patch.diff || exit 2
for p in C01 C02 C03 C04 C05 C06 C07 C08 C09 C10 C11 C12 C13 C14 C15 C16 C17 C18 C19 C20; do
  ./check $p quick 2>&1 | grep -E "^(OK|VIOLATION)" | cut -c1-200
done
git -C /repo checkout -- .
