#!/bin/bash
# tools/all_harmless.sh [name]: every stored behaviour-preserving change (harmless/<name>/patch.diff) that still applies
# to /repo is applied, all 20 quick checks run against it (tools/refcheck.sh), and reverted; any VIOLATION line is a false alarm
cd /verif
for d in harmless/*/; do
  n=$(basename $d)
  [ -n "$1" ] && [ "$n" != "$1" ] && continue
  if git -C /repo apply --check /verif/$d/patch.diff 2>/dev/null; then
    echo "== $n: $(tools/refcheck.sh /verif/$d 2>&1 | grep -c '^VIOLATION') violation lines"
  else
    echo "== $n: does not apply to the current tree (written against an earlier commit)"
  fi
done
git -C /repo status --short | head -3
