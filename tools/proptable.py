"""Property table: Lean modules, engines and wording per property (used by ./check)."""

ENGINES = {
    "rule": {"path": "harness/src/rules.rs",
             "kind": "direct execution of arbitrary rule values through the exec_rule_* hook on a boundary grid of parameters, registers and stack readers (readers derived from the addresses the rule actually reads); impl vs Lean model + per-step oracles"},
}

NOT_APPLICABLE = {}

_NOTE = ("Trusted: Lean kernel; axioms propext/Classical.choice/Quot.sound only (audited per theorem on every run); "
         "the hand-written model and the correspondence harness that ties it to /repo by differential execution (sampling, boundary-directed); "
         "gimli/macho-unwind-info/pe-unwind-info are outside the model.")


PROPS = {
    "C09": {
        "lean": ["FH.Props.C09"],
        "engines": ["rule"],
        "level_text": "Theorems: rule execution on both architectures has no reachable panic for all parameters/registers/readers; checked_add_signed equals the mathematical definition. The model is tied to the code by executing every generated case on both; every case is also run on the implementation under catch_unwind with overflow checks on.",
        "level_note": _NOTE,
        "statement": "No model function has a reachable panic outcome: rule execution (both architectures, all parameter values of the Rust field types, all registers, all stack readers), checked_add_signed, the pointer-auth mask constructor. Every model function is total in Lean (structural recursion).",
    },
    "C10": {
        "lean": ["FH.Props.C10"],
        "engines": ["rule"],
        "level_text": "Theorems: per-step progress facts for every rule and a walk-level no-repeat/termination theorem by a lexicographic argument over (sp, address); correspondence + direct per-step progress oracle on the implementation.",
        "level_note": _NOTE,
        "statement": "Caller-frame rule steps never decrease sp, frame-pointer steps strictly increase it, success never leaves (sp, address) unchanged; along any walk no (address, sp) state repeats and walks have bounded length. aarch64: sp strictly increases in every caller-frame step.",
    },
    "C11": {
        "lean": ["FH.Props.C11"],
        "engines": ["rule"],
        "level_text": "Theorems: no null frame, error address is an unreadable address, for all rules/registers/readers; correspondence + direct oracle using a recording stack reader.",
        "level_note": _NOTE,
        "statement": "Rule-based steps never return a null frame; an Err(CouldNotReadStack(a)) names an address whose read failed.",
    },
    "C16": {
        "lean": ["FH.Props.C16"],
        "engines": ["rule"],
        "level_text": "Theorems: stripping of the returned address and of lr for every rule and outcome; from_max_known_address preserves all addresses up to its argument (all 65 leading-zero classes by a kernel-checked table + lemma); correspondence + direct bit oracle.",
        "level_note": _NOTE,
        "statement": "Every return address reported by an aarch64 rule step and the lr left in the register set have no bits outside the mask; from_max_known_address preserves every address up to its argument, including 0; constructors are total.",
    },
}
