"""Property table: Lean modules, engines and wording per property (used by ./check)."""

ENGINES = {
    "rule": {"path": "harness/src/rules.rs",
             "kind": "direct execution of arbitrary rule values through the exec_rule_* hook on a boundary grid of parameters, registers and stack readers (readers derived from the addresses the rule actually reads); impl vs Lean model + per-step oracles"},
}

ENGINES["hist"] = {"path": "harness/src/hist.rs",
    "kind": "operation histories (new/clone/add_module/remove_module/unwind_frame/iter_frames/find/max) over several real Unwinders sharing real Caches, on generated DWARF modules (eh_frame+hdr, eh_frame alone, debug_frame; CFI bytes written by harness/src/cfi.rs), mirrored op by op on the Lean world model; direct oracles: fresh-cache twin, reference module set, iterator vs manual fold, distinct generations, one-counter-per-call, hits touch no section bytes"}
ENGINES["thr"] = {"path": "harness/src/thr.rs",
    "kind": "16 threads creating/modifying unwinders concurrently; generations read through the hook must be pairwise distinct and form the contiguous run the model predicts; syntactic shape check of the fetch_add"}

ENGINES["row"] = {"path": "harness/src/row.rs",
    "kind": "one DWARF row at a time through real CFI bytes (all three presentations): systematic product of CFA register x offset grid x return-address rule x frame-pointer rule, then random fill, each with 6 register/stack states as first and caller frame; impl vs Lean model vs the DWARF specification of the row where the C05 theorems apply"}

ENGINES["scn"] = {"path": "harness/src/scn.rs (+ prog.rs)",
    "kind": "whole walks over synthesized programs with ground truth: functions from the standard prologue/epilogue shapes with real instruction bytes and the CFI rows that exactly describe every instruction boundary (x86-64: frame-pointer based, frameless with pushes/allocation incl. rbp saved and clobbered, leaf, noreturn tail call; aarch64: stp-pre-index and sub/stp/add frames, leaf, return-address signing with DW_CFA_AARCH64_negate_ra_state), call chains of depth 1-7, every interruption point of the innermost frame, three presentations, both allocation policies, missing unwind info in five ways (C04), every truncation cut (C11), relocation/presentation twins (C08/C12). Ground truth from a machine-state simulator, re-validated step by step by the Lean driver's dwarfSpec before it is used"}

ENGINES["pe"] = {"path": "harness/src/pe.rs",
    "kind": "PE x64 (incl. a boundary grid over section RVA ranges / data lengths / RVAs for pe.rs memory_at_rva through a hook, vs FH/PeMem.lean): writer for .pdata / UNWIND_INFO (.xdata) and .text; synthesized programs over the MS prolog/epilog grammar (push non-volatiles, alloc small/large, set frame register, save non-volatile by mov, functions split into chained fragments, leaf functions without table entry), walks with ground truth at every instruction boundary (prolog, body, epilog); differential part on arbitrary registers/stacks incl. unusual codes (xmm, machine frame, raw large allocations) against the Lean model and against pe-unwind-info's reference implementation of the Microsoft procedure; exhaustive register-order sweep through the hooks"}

ENGINES["macho"] = {"path": "harness/src/macho.rs (+ prog.rs)",
    "kind": "Mach-O: writer for __unwind_info (regular and compressed second-level pages, global and page-local opcode tables, merged entries), opcode encoders incl. the register permutation, text bytes as __text or __TEXT, __eh_frame for DWARF-deferred entries, __stubs/__stub_helper ranges; synthesized programs (x86-64: frame-based, frameless immediate, frameless indirect, DWARF; arm64: frame-based with Apple's frame record placement, frameless leaf, DWARF, pacibsp/retab) with simulator ground truth: walks and single steps (caller sp/fp compared) at every instruction boundary of the innermost function, threads stopped inside __stubs and at every phase of __stub_helper; plus random tables (every opcode kind incl. invalid/unrecognised, text complete/partial/shifted/absent, bad FDE offsets) looked up at random addresses and states, compared with the Lean model answer by answer"}
ENGINES["ana"] = {"path": "harness/src/macho.rs (run_ana)",
    "kind": "the four instruction analysers through the verif_hooks::analyze_* hooks on generated functions (every pc), structured words from every instruction class the analysers distinguish (with boundary immediates and register fields) and byte soup, at aligned and unaligned pcs incl. pc = len; compared with the Lean model (anaX64/anaA64) byte for byte"}

ENGINES["mut"] = {"path": "harness/src/mutate.rs",
    "kind": "hostile data: well-formed modules of every format (generated DWARF in three presentations, Mach-O compact unwind with text and __eh_frame, PE .pdata/.xdata/.text, no data; plus the ELF and Mach-O binaries under /repo/fixtures read with the object crate) are reduced to raw section tables and corrupted - bit flips, truncation, u16/u32 field edits with boundary values, random runs, splices from other sections, appended garbage, noise, swapped/missing sections, reversed/empty/shifted/oversized/below-base ranges, changed image base, absurd module ranges and base addresses; one case in ten stays well-formed - then Module::new, add_module, unwind_frame and iter_frames run under catch_unwind with overflow checks (both allocation policies); a panic located anywhere but inside the three third-party parsers (gimli, macho-unwind-info, pe-unwind-info) is a violation - that includes panics raised by utility crates or core on behalf of framehop's code, e.g. a capacity panic of arrayvec - panics inside the parsers are counted and reported as notes; the case in flight is on disk so that a hang is reported with its input"}

ENGINES["alloc"] = {"path": "harness/src/alloc.rs",
    "kind": "counting global allocator armed exactly around each unwind_frame / iterator next made with MustNotAllocateDuringUnwind (zero alloc/dealloc/realloc events demanded; the allocating call chain is named from a backtrace) and, on the same module and thread state, comparison with MayAllocateDuringUnwind (result, registers, cache statistics); modules of every format: three DWARF presentations with random rows incl. unevaluable and evaluable expression CFAs and DW_CFA_(val_)expression register rules, Mach-O compact unwind (all opcode kinds, text present/absent, DWARF-deferred), PE (prolog/body/epilog addresses, chained infos), no data; every probe optionally repeated (cache hit)"}

ENGINES["feat"] = {"path": "harness/src/feat.rs + featrun/ (public API only, built once per feature subset)",
    "kind": "all 8 subsets of {std, macho, pe}: cargo build --no-default-features --features <subset> of a crate using framehop's public API (a build failure is a violation; replay = feature set + compiler output); one battery of DWARF / frame-pointer histories as raw section bytes (both architectures, both policies, same-address repeats with failing then sane thread states, removals, iterator walks, max_known_code_address) executed by all 8 binaries and in-process by the default build - all answers incl. cache statistics must be identical; and, built with the verification cfg, the unwind-data variant Module::new selects for all 128 offers of sections x 8 subsets vs the Lean model selectUnwindData"}

ENGINES["asm"] = {"path": "harness/src/asm.rs",
    "kind": "generator check by an independent decoder: every distinct (instruction bytes, assumed effect on sp/fp/lr) pair that the program synthesizers (prog.rs for DWARF / Mach-O scenarios on both architectures, pe.rs for PE) emit is disassembled with LLVM's llvm-mc (x86-64; AArch64 with pointer authentication) and the printed instruction must be the one the ground-truth simulator assumes (register, immediate, addressing mode); skipped with a note if llvm-mc is absent"}

NOT_APPLICABLE = {}

_NOTE = ("Trusted: Lean kernel; axioms propext/Classical.choice/Quot.sound only (audited per theorem on every run); "
         "the hand-written model and the correspondence harness that ties it to /repo by differential execution (sampling, boundary-directed); "
         "gimli/macho-unwind-info/pe-unwind-info are outside the model.")


PROPS = {
    "C09": {
        "lean": ["FH.Props.C09"],
        "engines": ["rule", "hist", "pe", "row", "scn", "macho"],
        "level_text": "Theorems: (1) whole call - for every unwinder (arbitrary DWARF rows, PE tables, text bytes, ranges; Mach-O opcode fields in the range of their Rust types), every rule cache holding in-range rules (preserved by every call, true of the empty cache), every address, register file and stack reader, unwind_frame has a panic outcome only where the PE operation interpreter has one (pe-unwind-info's resolve_operation, third-party, known finding F8-dep), and on aarch64 never; lifted to every world a history of new/clone/add/remove/unwind operations can reach from the initial one (invariant by induction over operations); this rests on: every rule the miss path can produce (DWARF translation, compact-unwind opcodes, instruction analysis on arbitrary bytes, PE compression, fallbacks) has fields in the ranges for which (2) rule execution is panic free for all registers/readers, and the generic DWARF path has no panic outcome; (3) checked_add_signed equals the mathematical definition. The model is tied to the code by executing every generated case on both; every case is also run on the implementation under catch_unwind with overflow checks on.",
        "level_note": _NOTE,
        "statement": "No reachable panic outcome in a whole unwind_frame call outside the third-party PE operation interpreter: rule execution (both architectures, all parameter values of the Rust field types, all registers, all stack readers), all rule producers, the generic DWARF path, checked_add_signed, the pointer-auth mask constructor. Every model function is total in Lean.",
    },
    "C10": {
        "lean": ["FH.Props.C10"],
        "engines": ["rule", "hist", "pe", "macho"],
        "level_text": "Theorems: per-step progress facts for every rule and for the uncacheable DWARF path of both architectures with any row (C10_x64_generic_caller_step, C10_a64_generic_caller_step: a successful caller-frame step strictly increases sp or, on aarch64, ends the walk), for interpreted PE steps (C03_interpreted_step_commits_progress), and a walk-level no-repeat/termination theorem by a lexicographic argument over (sp, address); correspondence + direct per-step progress oracle on the implementation.",
        "level_note": _NOTE,
        "statement": "Caller-frame rule steps never decrease sp, frame-pointer steps strictly increase it, success never leaves (sp, address) unchanged; along any walk no (address, sp) state repeats and walks have bounded length. aarch64: sp strictly increases in every caller-frame step.",
    },
    "C11": {
        "lean": ["FH.Props.C11"],
        "engines": ["rule", "hist", "scn", "pe", "macho"],
        "level_text": "Theorems: no null frame, error address is an unreadable address, for all rules/registers/readers; Ok(None) only at a root marker - a rule step of either architecture completes the walk only through the return-address-undefined rule, a null frame pointer the rule follows / reads, or a null (stripped) return address (C11_x64_done_only_at_root_marker, C11_a64_done_only_at_root_marker), and the undefined-return-address rules do complete it; truncation at step and walk level; correspondence + direct oracle using a recording stack reader.",
        "level_note": _NOTE,
        "statement": "Rule-based steps never return a null frame; an Err(CouldNotReadStack(a)) names an address whose read failed; truncating the readable stack at any cut yields a prefix of the frames followed by such an error (walk-level theorem for arbitrary rule assignments, both architectures); a null return address is the end of the stack on every path.",
    },
    "C16": {
        "lean": ["FH.Props.C16"],
        "engines": ["rule", "hist", "macho"],
        "level_text": "Theorems: stripping of the returned address and of lr for every rule and outcome; signed stacks: a stack whose saved return addresses carry any bits outside the mask gives the identical step - result and registers - as the unsigned stack, for every rule (C16_signed_step_equals_unsigned) and for the uncacheable DWARF path with any row (C16_signed_generic_step_equals_unsigned), and hence the identical walk of any length under any assignment of rules to frames (C16_signed_walk_equals_unsigned, induction over the walk), provided no word read as a saved frame pointer is a signed word; from_max_known_address preserves all addresses up to its argument (all 65 leading-zero classes by a kernel-checked table + lemma); correspondence + direct bit oracle + signed twins.",
        "level_note": _NOTE,
        "statement": "Every return address reported by an aarch64 rule step and the lr left in the register set have no bits outside the mask; a signed stack unwinds exactly like the unsigned one (step and walk level); from_max_known_address preserves every address up to its argument, including 0; constructors are total.",
    },
    "C06": {
        "lean": ["FH.Props.C06"],
        "engines": ["hist", "macho", "pe"],
        "level_text": "Theorem C06_cache_transparency: for every history of new/clone/add/remove/unwind over any number of unwinders sharing a cache (fewer than 65 536 module-set changes, consistent ip/return use of each address) the outcome of a further call equals the outcome with a fresh cache, by an invariant over the history (every cache entry is the rule a miss would insert for its address under the module list its generation stands for) proved preserved by every operation. Tie: histories executed on real unwinders/caches and on the model; every unwind - in the DWARF histories and in the Mach-O and PE engines alike - also run against a fresh real cache.",
        "level_note": _NOTE + " The theorem's key premise - the inserted rule never depends on registers or stack - is a structural property of the model (missPath_static) that the correspondence and the fresh-cache twin check on the code.",
        "statement": "For all histories (unbounded length, any interleaving of calls on colliding and non-colliding addresses, cacheable/uncacheable/failing calls, module changes, clones, several unwinders) the result and updated registers of unwind_frame do not depend on the cache contents.",
    },
    "C07": {
        "lean": ["FH.Props.C07"],
        "engines": ["hist"],
        "level_text": "Theorems: find_module_for_address is sound and complete w.r.t. containment on non-overlapping lists (with the u32 relative-address and base-address conditions stated), add_module keeps the structure and commutes (the list is a function of the set), remove_module removes exactly the named module or nothing, removed ranges are unknown again, max_known_code_address is the largest end or 0, operations on one unwinder leave the others untouched. Tie: histories with find/max probes at every range boundary, compared with the model and with a reference set kept by the harness.",
        "level_note": _NOTE + " core::slice::binary_search_by_key is modelled by its contract on lists with distinct keys (lowerBound).",
        "statement": "Refinement of the sorted module Vec to a finite set of non-overlapping ranges, for all operation sequences and probe addresses.",
    },
    "C13": {
        "lean": ["FH.Props.C13"],
        "engines": ["hist", "macho"],
        "level_text": "Theorems: the lookup address of a return address a is a-1 and of an instruction pointer a is a; unwind_frame depends on a return address only through a-1; for adjacent modules / adjacent FDEs the boundary address resolves to the earlier one as return address and to the later one as instruction pointer; the same holds at a row boundary inside one FDE (C13_row_boundary), and the whole plan sees only the lookup address (C13_plan_sees_lookup_address). Tie: histories probe every module/FDE/row boundary +-1 in both kinds; model-free boundary scenarios (one or two modules, three presentations) check which FDE and row is consulted; in the Mach-O ground-truth programs one caller ends in a call whose return address is the first byte of the next function or of __stubs.",
        "level_note": _NOTE,
        "statement": "Return addresses are looked up at address-1 in the cache, the module list and the FDE table; instruction pointers exactly.",
    },
    "C17": {
        "lean": ["FH.Props.C17"],
        "engines": ["hist"],
        "level_text": "Theorem C17_iterator_is_fold: for every number of next() calls the items are pc followed by exactly the fold of unwind_frame over the same registers and cache, including the mapping of a null return address to an error, and Done is absorbing for any number of extra calls. Tie: iter_frames through the inherent next and through FallibleIterator::next vs a manual unwind_frame loop, 0-3 extra calls.",
        "level_note": _NOTE + " The behaviour after an Err (state stays Unwinding) is characterised exactly by the theorem and reproduced by the manual fold; the property's 'once it has finished' is read as 'once it has returned Ok(None)' (DESIGN.md C17).",
        "statement": "Iterator = fold of unwind_frame, starts at pc, stays finished.",
    },
    "C18": {
        "technique": 'Lean 4 theorems about the atomic counter (distinctness for < 65536 draws, schedule independence, reachable-state invariant) + 16-thread stress and source-shape check of the fetch_add (atomicity of the hardware RMW is assumed)',
        "lean": ["FH.Props.C18"],
        "engines": ["thr", "hist"],
        "level_text": "Theorems: any two of up to 65 536 consecutive atomic draws differ; the value of a draw depends only on its position in the global order, not on the schedule (every interleaving of atomic steps is a sequence); in every reachable state two live unwinders with the same generation have the same module list. The atomicity of fetch_add is trusted; the check verifies the source still uses a single fetch_add. Tie: 16 real threads drawing concurrently, generations read through the hook.",
        "level_note": _NOTE + " AtomicU16::fetch_add is assumed to be one atomic read-modify-write (hardware/core); OS schedules are whatever the machine gives.",
        "statement": "Distinct module-set identities for all interleavings of fewer than 65 536 new/add/remove operations.",
        "trusted_extra": ["AtomicU16::fetch_add is one atomic read-modify-write"],
    },
    "C20": {
        "lean": ["FH.Props.C20"],
        "engines": ["hist"],
        "level_text": "Theorems: every lookup increments exactly one counter, chosen by the slot content exactly as documented; one call = one lookup; a cacheable call leaves its rule in its slot; calls that map to other slots never disturb it; a call that finds its entry is a hit, returns the cached rule's execution and consults no section data. Tie: histories with exact repeats and colliding addresses, four counters and a section-access flag compared with the model per call; section bytes are supplied through a Deref wrapper that counts accesses.",
        "level_note": _NOTE,
        "statement": "The cache caches (hit after cacheable call absent slot collisions, no section access on a hit) and its four statistics are exact.",
    },
    "C05": {
        "lean": ["FH.Props.C05"],
        "engines": ["row", "hist", "rule"],
        "level_text": "Theorems (both architectures): if a row of the domain (CFA = sp|fp + k; return address / frame pointer undefined, same value or saved at a CFA-relative slot) is compressed into a cacheable rule, executing the rule performs exactly the step DWARF prescribes (dwarfSpec over mathematical integers); the generic evaluator performs exactly that step too; hence the two paths agree; 'return address undefined' ends the stack. framehop's deliberate refusals (null return address, no progress, 64-bit overflow, frame-pointer sanity checks, aarch64 caller frames needing a recoverable fp) are the explicit hypotheses. All narrowing (/8, /16, u16, i16, i64 overflow) is in the model and discharged by omega. Tie: rows written as real CFI bytes and unwound through Unwinder::unwind_frame; the Lean driver decides per case whether the theorems' hypotheses hold and, if so, the harness compares the implementation with dwarfSpec directly.",
        "level_note": _NOTE + " DWARF expressions are outside the model (rows with expressions are modelled as 'cannot evaluate', which is what the harness's CFI writer emits for them). Known finding F14 (aarch64 first frame treats an undefined return address as same-value; documented choice in the source) is proved as C05_a64_first_frame_undefined_ra_counterexample and excluded from the domain.",
        "statement": "Compressed rule = generic evaluation = DWARF semantics of the row, for all rows of the domain, all registers, all stack contents with readable slots.",
    },
    "C01": {
        "lean": ["FH.Props.C01"],
        "engines": ["scn", "row", "hist", "asm"],
        "level_text": "Theorems: unwind_frame on a fresh cache is stepRow of the row the module's CFI resolves to; stepRow performs exactly the DWARF step of the row on a real stack (both architectures, via the C05 theorems for the compressed and the generic path); a walk over any true call chain (unbounded depth) yields exactly its return addresses with the caller's registers after each step and ends with Ok(None) at the root (C01_x64_walk and C01_a64_walk, induction over the chain; on aarch64 the root is reached as a caller frame); the cache state is irrelevant (C06). Tie: synthesized programs with simulator ground truth, every instruction boundary, three presentations, both policies; each generated step is first confirmed by the Lean driver's dwarfSpec (generator check), then the implementation is judged against it.",
        "level_note": _NOTE + " Known findings: F14 (aarch64 first frame, undefined RA) and F21 (aarch64: a frame-pointer-rule step whose restored fp is null ends the walk without reporting the caller, e.g. a root running with fp = 0).",
        "statement": "Exact chain => exact walk, for all chains, rows of the domain, registers and stack contents.",
    },
    "C04": {
        "lean": ["FH.Props.C04"],
        "engines": ["scn", "hist", "rule", "asm", "macho", "pe"],
        "level_text": "Theorems: the decision table (no module / no or unusable unwind data / failed table lookup => fallback rule; address covered by no FDE => the architecture's uncovered rule = leaf in the first frame, frame pointer step otherwise), the fallback rule equals the platform frame-pointer convention under framehop's sanity checks (both architectures), null frame pointer or null return address completes with Ok(None), and a walk over any well-formed frame-record chain (any length, spacing, alignment; both architectures) yields exactly the records' return addresses and ends with Ok(None) (induction over the chain). Tie: scn with unwind info removed in five ways + hist.",
        "level_note": _NOTE + " PE (.pdata) and compact-unwind reasons are added with those formats' models.",
        "statement": "Fallback/leaf decision table and frame-pointer chain walk.",
    },
    "C08": {
        "lean": ["FH.Props.C08"],
        "engines": ["scn", "hist", "macho", "pe"],
        "level_text": "Theorems: the module search is translation invariant (same index and relative address for range, base and address moved together), the unwind plan does not look at mapped addresses, hence the rule for a relocated address under relocated modules is the original rule. Stack relocation: for every rule of both architectures, the step on the relocated thread state (stack d bytes higher, every stored word moved by an injective map that fixes 0 - stack pointers by d, code pointers with their module) is the relocated outcome of the original step - frames mapped, sp moved by d, all other registers relocated words (also after errors), the address named by CouldNotReadStack d higher, end of stack and the other errors unchanged (C08_x64_rule_step_relocation, C08_a64_rule_step_relocation; all narrowing, the pop loop and the pointer-auth strip included); lifted by induction to walks of any length under any assignment of rules to frames (C08_x64_walk_relocation, C08_a64_walk_relocation). Hypotheses, stated in the theorems: 2^20 bytes of room to both ends of the 64-bit range before and after the move, a frame pointer the rule follows is a stack pointer (or null on x86-64), on aarch64 the saved caller frame pointer is a stack pointer or null and relocation commutes with stripping. The uncacheable DWARF path is covered at the level of the DWARF step (dwarfSpec, identified with both execution paths by C05; C08_dwarf_step_stack_relocation_partial). Tie: the same program mapped at four different load addresses / stack placements / presentations (incl. crossing 2^63, non-zero stated base, range starting above the base, absolute/pc-relative/text-relative pointer encodings) must unwind to the same frames up to the shifts. The macho and pe engines replay every ground-truth walk of a Mach-O module / PE image at a second base address and stack (user-space and kernel-style placements whose slide does not fit an i64) and require the frames to differ by exactly the shift.",
        "level_note": _NOTE,
        "statement": "Position independence: module relocation (full, model level); stack relocation of every rule step and of whole rule-based walks (both architectures, all outcomes), of the uncacheable DWARF path at step level.",
    },
    "C12": {
        "lean": ["FH.Props.C12"],
        "engines": ["scn", "hist", "row"],
        "level_text": "Theorems: the three presentations resolve every relative address identically (hence the same plan); for FDEs whose non-empty ranges are pairwise disjoint, in any section order, the lookup finds the FDE covering the address (stable sort by start + last-start-not-above search, proved against containment); FDEs of length zero never influence a lookup, wherever they sit (C12_zero_length_fdes_are_ignored; the code was repaired for this, e92347e); section order is irrelevant; addresses no FDE covers never get a row, in every presentation. Tie: every generated module is written in one of the three presentations with shuffled FDE order, several CIEs and mixed pointer encodings; the scn twins compare presentations directly.",
        "level_note": _NOTE + " gimli's EhHdrTable::lookup is trusted to return the last table entry whose initial location is not above the address (first entry if none); the table is written sorted and lists the FDEs that cover code (not zero-length leftovers), as a search table with distinct keys must.",
        "statement": "Same CFI, any presentation.",
    },
    "C02": {
        "lean": ["FH.Props.C02", "FH.Props.C02A64", "FH.Props.C02Walk"],
        "engines": ["macho", "ana", "asm"],
        "level_text": "Theorems (x86-64, for every choice and order of registers, legacy and REX encodings): stopped anywhere in `pop...; ret` the analysed rule restores exactly the rsp/rbp/return address the CPU will have (machine model runPops); stopped after any prefix of the prologue's pushes the rule finds the return address above them; after `push rbp; mov rbp, rsp; push...` it is the frame pointer rule; frameless opcodes give rules that execute the documented layout (rbp slot by position: C02_x64_rbp_position_is_push_index, for rbp pushed at any index of the register list); dispatch: __stubs/__stub_helper precedence and first-frame-only, function starts are leaves, function bytes are exactly the function's slice of the text; __stub_helper tables equal the documented dyld_stub_binder layout on both architectures; arm64 body rules. x86-64 tail calls: `pop...; jmp` at every boundary (C02_x64_tail_call_exact) and the pc exactly on a jmp that follows a pop or `add rsp, imm` (C02_x64_on_tail_jmp). arm64 (FH/Props/C02A64.lean), against a machine model of the instructions with the encodings written out field by field (the bit tests of the Rust code are discharged by div/mod arithmetic, no bv_decide): any epilogue - any sequence of ldp (post-index, pre-index, signed offset; any register pair and immediate) and add sp, ended by ret / retab / b / br - analysed at any boundary yields a rule whose execution equals running the rest of the epilogue (C02_a64_epilogue_exact); the pc exactly on the tail-call branch after an sp adjustment gives NoOp (C02_a64_tail_call_after_sp_adjust); any prologue prefix - pacibsp, stp (three addressing modes), sub sp - counted from the function start or the first foreign instruction gives the rule that restores the entry sp (C02_a64_prologue_exact); once `add x29, sp, #n` has been executed the scan defers to the body rule. Whole walks (FH/Props/C02Walk.lean): x86-64 (C02_x64_walk) over any true chain of frame-based and frameless functions in any mixture and depth, the innermost stopped in its body, and arm64 (C02_a64_walk) over an optional frameless innermost function with locals followed by any number of frame-record functions - the walk yields exactly the return addresses (stripped on arm64) with the caller's registers after each step and ends with Ok(None) at the root (induction over the chain, composing the frame-record and frameless-layout step theorems with the dispatch). Hypotheses are the shape facts of real code (frame released in multiples of 16, slots 8-aligned, at most 100 instructions, sizes within the rule's fields). Tie: ana (hooks, byte for byte), macho (whole modules, ground-truth walks incl. tail calls and locals allocated after the frame setup) and asm (the generator's encodings against llvm-mc).",
        "level_note": _NOTE + " macho-unwind-info's parser (UnwindInfo::lookup, opcode field extraction) is outside the model; the model takes the parsed opcode, recomputed by the harness with the real parser, and the writer exercises regular and compressed pages.",
        "statement": "Mach-O compact unwind: x86-64 prologue/epilogue analysis sound for all push/pop sequences; body rules exact; dispatch order; stub tables; arm64 prologue/epilogue word scans proved exact against a machine model (any ldp/add/stp/sub sequence, returns and tail calls).",
    },
    "C14": {
        "technique": 'Lean 4 theorems over arbitrary module data (no panic outcome in the plan / compact-unwind dispatch / analysers) + fault injection on the implementation (byte-level corruption of generated and real sections under catch_unwind with overflow checks; this half is testing, not proof)',
        "lean": ["FH.Props.C14"],
        "engines": ["mut", "ana", "macho", "pe"],
        "level_text": "Theorems over arbitrary module data (tables, opcodes, ranges, text bytes, FDEs, rows all universally quantified - corrupt data included): the instruction analysers are total when the offset lies within the bytes; the compact-unwind dispatch always hands them a slice containing the offset (arbitrary unsorted/overlapping/inverted tables and text ranges), hence never panics; the plan is never `panic` for any module, address and frame kind on both architectures; PE RVA -> section memory (memory_at_rva and the .rdata/.xdata search order) on arbitrary, mutually inconsistent section descriptions: a returned slice always lies inside the data, degenerate ranges yield nothing (FH/PeMem.lean, tied through the pe_memory_at_rva hook on a boundary grid). Partial: the byte-level parsers are third-party and framehop's glue around them (slicing, index construction, range arithmetic) is not modelled at byte level; that part is decided by the mut engine (byte-level corruption of generated and real sections, catch_unwind, overflow checks, panic location attribution, in-flight case file for hangs).",
        "level_note": _NOTE + " Panics inside gimli / macho-unwind-info / pe-unwind-info on corrupt bytes are outside the property's letter (framehop's own code) and are reported as NOTE lines with a replay, not as violations.",
        "statement": "No reachable panic outcome in the model's format-specific code for any module data; byte-level hostile inputs by differential-free fault injection on the implementation.",
    },
    "C15": {
        "technique": 'Lean 4 theorems (policy-free model, capacity bounds of fixed-size storage) + counting-allocator instrumentation and policy differential on the implementation (the allocation half is measured, not proved)',
        "lean": ["FH.Props.C15"],
        "engines": ["alloc", "scn"],
        "level_text": "Partial by nature. Proved: the model has one semantics for both policies; the fixed-size storages of framehop's own code can never change a result (more than 32 chained UNWIND_INFOs are rejected before anything is stored; a compressed pop sequence has at most 8 registers). Measured, not proved: absence of heap events - a counting global allocator armed around every MustNotAllocateDuringUnwind call, for every format, hits and misses, cacheable and generic and expression paths, with the allocating call site from a backtrace; and equality of results with MayAllocateDuringUnwind on the same inputs. scn additionally runs its ground-truth walks under both policies against the model.",
        "level_note": _NOTE + " Whether code calls the allocator is not expressible in an input/output model; gimli's StoreOnStack capacities are third-party (the CFI the harness writes stays within them; a divergence would be reported as policies-disagree).",
        "statement": "Policy-free model; capacity bounds of own fixed-size storage; allocation events and policy agreement by instrumentation.",
    },
    "C19": {
        "technique": 'Lean 4 theorems about the feature-dependent selection of unwind data (tied to the code through a hook for all 8 subsets) + building and running all 8 feature subsets (buildability and behavioural identity are established by build-and-run, not proved)',
        "lean": ["FH.Props.C19"],
        "engines": ["feat"],
        "level_text": "Partial by nature. Proved: the only feature-dependent decision of the model - which unwind-data variant Module::new selects - does not depend on the features for modules offering neither __unwind_info nor .pdata (all 8 subsets; also as a kernel-checked finite table), std never selects anything, and the preference order among the DWARF presentations; the rest of the model has no feature parameter. The selection model is tied to the code for all 8 subsets x 128 section offers through a hook. Established by building and running, not by proof: that each subset builds (incl. no_std), and that a battery of DWARF / frame-pointer histories gives identical answers under all 8 builds and the default in-process build.",
        "level_note": _NOTE + " 'Builds' is decided by cargo on this target (x86_64 linux with std available); a no_std target is not installed, so 'without std' means the crate compiles with #![no_std] active, not that it links for a bare-metal target.",
        "statement": "Feature-independence of unwind-data selection for DWARF/fp modules (theorem + table); buildability and behavioural identity of the 8 subsets by build-and-run.",
    },
    "C03": {
        "lean": ["FH.Props.C03"],
        "engines": ["pe", "asm"],
        "level_text": "Theorems: an address without a function table entry is a frameless leaf; PE on aarch64 falls back; the cacheable rule OffsetSpAndPopRegisters performs exactly the documented procedure for push/alloc prologs (popSpec over unbounded naturals) and so does the operation interpreter on the same prolog - compression is lossless (the register-order encoding round-trips for every sequence encode accepts, proved from its mixed-radix structure; all 109 601 orderings are also swept on the implementation); exact in the body for the standard prolog with every kind of unwind code (C03_body_unwind_is_the_procedure: for a frame laid out as the Microsoft documentation describes `push...; sub rsp; lea fr,[rsp+fo]; mov [rsp+off], r...`, from any register values in the body - any rsp when a frame register is set - interpreting SAVE_NONVOL / SET_FPREG / ALLOC / PUSH_NONVOL restores the mov-saved registers from their slots, re-establishes rsp and performs the documented pop procedure); exact at every instruction boundary of the prolog (C03_prolog_offset_selects_executed_codes: on a code array sorted by descending offset the gathered operations are exactly those of the completed instructions; C03_prolog_prefix_unwind_is_the_procedure: any prefix of pushes / allocation / frame-register setup / movs unwinds as laid out); whole walks (C03_walk: over any true chain of PE frames, innermost stopped anywhere in prolog or body, any depth, the walk yields exactly the return addresses and ends with Ok(None) at the root whose return address is null; induction over the chain); interpreted steps are all-or-nothing, advance rsp in caller frames and set ip; framehop's own epilog simulation never panics. Tie: pe engine - ground-truth walks at every instruction boundary of synthesized PE programs, per-step comparison with the Lean model (plan + interpreter incl. pe-unwind-info's resolve_operation) and with pe-unwind-info's reference implementation of the Microsoft unwind procedure on arbitrary registers and stacks.",
        "level_note": _NOTE + " pe-unwind-info's parsers (function table lookup, UNWIND_INFO parsing, unwind code iteration, epilog instruction parsing) are outside the model; the model takes their output, recomputed by the harness with the real parsers. Known finding F8-dep (C09): unchecked arithmetic inside pe-unwind-info's resolve_operation.",
        "statement": "PE x64: leaf rule without table entry; pop-rule compression lossless; interpreter and rule equal the documented procedure for the standard prolog with every kind of unwind code, at every prolog boundary and in the body; whole walks over true chains; progress and atomicity of interpreted steps.",
    },
}
