#!/bin/bash
cd /verif
for d in seeded/*/; do
  n=$(basename $d); p=${n%%-*}
  [ -n "$1" ] && [[ "$n" != *"$1"* ]] && continue
  python3 tools/seedcheck.py run /verif/seeded/$n $p > /tmp/seedrun-$n.json 2>&1
  echo "$n: $(grep -c VIOLATION /tmp/seedrun-$n.json) violation lines; nfi=$(grep -c no-failing-input-found /tmp/seedrun-$n.json)"
done
git -C /repo status --short | head -3
