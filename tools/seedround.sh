#!/bin/bash
# tools/seedround.sh <round> <ID> [extra IDs to check]: verify a sub-agent's seed in /tmp/seed<round>-<ID>, run ./check against it, print the outcome
r=$1; p=$2; shift 2
d=/tmp/seed$r-$p
python3 /verif/tools/seedcheck.py verify $d > $d/verify.json 2>&1
echo "verify $p: $(grep -c '"confirmed": true' $d/verify.json)"
python3 /verif/tools/seedcheck.py run $d $p "$@" > $d/run.json 2>&1
cat $d/run.json | head -40
