#!/usr/bin/env python3
"""store_seed.py <ID> [round] : copy /tmp/seed[round]-<ID> (after seedcheck verify wrote verify.json) to /verif/seeded/<ID>."""
import json, os, shutil, subprocess, sys
pid = sys.argv[1]
rnd = sys.argv[2] if len(sys.argv) > 2 else ""      # "2" for the second round
src = f"/tmp/seed{rnd}-{pid}"
dst = f"/verif/seeded/{pid}" + (f"-{rnd}" if rnd else "")
os.makedirs(dst, exist_ok=True)
for f in ("patch.diff", "demo.diff", "notes.md"):
    if os.path.exists(os.path.join(src, f)):
        shutil.copy(os.path.join(src, f), os.path.join(dst, f))
txt = open(os.path.join(src, "verify.json")).read()
ver = json.loads(txt[txt.index("{"):])
base = subprocess.check_output(["git", "-C", "/repo", "rev-parse", "--short", "HEAD"], text=True).strip()
meta = {
    "property": pid,
    "source": "independent sub-agent given only the property text and a scratch worktree of /repo",
    "base_commit": base,
    "confirmed_by_me": bool(ver.get("confirmed")),
    "what_i_ran": "tools/seedcheck.py verify <dir>: fresh worktree; demo.diff alone -> demo test passes; patch.diff + demo.diff -> demo test fails; cargo test --workspace --no-fail-fast --offline with patch.diff -> same 37 passing / 3 fixture-less failing tests; cargo build --offline --no-default-features ok",
    "verify_result": ver,
    "needs_to_manifest": "see notes.md (trigger section)",
}
json.dump(meta, open(os.path.join(dst, "meta.json"), "w"), indent=1)
print("stored", dst, "confirmed:", meta["confirmed_by_me"])
