//! Engine `feat` (C19): every subset of {std, macho, pe} builds, and a fixed battery of DWARF
//! and frame-pointer scenarios gives identical results under all of them.
//!
//! The battery (modules as raw section bytes plus operation histories, both architectures,
//! both allocation policies) is generated here, executed in-process with the default features
//! (the build every other engine ties to the Lean model) and by the `featrun` binary, which is
//! built against /repo once per feature subset with the public API only.
use crate::gen::{gen_mem, gen_modules, gen_regs, interesting_addrs};
use crate::mem::{Dflt, MemDesc};
use crate::mutate::RawSections;
use crate::spec::*;
use crate::util::*;
use crate::world::*;
use std::process::Command;

pub const SUBSETS: [&str; 8] = ["", "std", "macho", "pe", "std,macho", "std,pe", "macho,pe", "std,macho,pe"];

fn regs_line(r: &RegsAny) -> String {
    match r {
        RegsAny::X(x) => format!("ip={} sp={} bp={}", hex(x.ip), hex(x.sp()), hex(x.bp())),
        RegsAny::A(a) => format!("mask={} lr={} sp={} fp={}", hex(a.mask), hex(a.lr), hex(a.sp), hex(a.fp)),
    }
}

pub fn gen_battery(tier: &str, seed: u64) -> String {
    let mut p = Prng::new(seed.wrapping_mul(0x9b05_688c_2b3e_6c1f).wrapping_add(29));
    let n_worlds = if tier == "thorough" { 1600 } else { 160 };
    let mut out = String::new();
    let mut mid = 0u64;
    for w in 0..n_worlds {
        let arch = if w % 2 == 0 { Arch::X64 } else { Arch::A64 };
        let policy = if (w / 2) % 3 == 2 { "mustnot" } else { "may" };
        let n_mods = 1 + p.below(3) as usize;
        let mut mods: Vec<ModSpec> = gen_modules(&mut p, arch, n_mods, None).into_iter().filter(|m| m.base_avma <= m.start).collect();
        // one world in four has a mapping nested inside another module's range (without unwind
        // data, or with the outer module's): which module such addresses are given to must not
        // depend on the enabled features either
        if p.chance(1, 4) {
            let big: Vec<usize> = (0..mods.len()).filter(|i| mods[*i].end - mods[*i].start >= 0x100).collect();
            if !big.is_empty() {
                let o = mods[*p.pick(&big)].clone();
                let len = o.end - o.start;
                let start = o.start + len / 4 + p.below(len / 4);
                let mut inner = o.clone();
                inner.start = start;
                inner.end = start + 1 + p.below(len / 4);
                if p.chance(2, 3) {
                    inner.data = DataSpec::None;
                    inner.base_avma = start;
                }
                mods.push(inner);
            }
        }
        let mut ids = Vec::new();
        for m in &mods {
            let raw = RawSections::from_provider(dwarf_section_info(arch, m));
            out.push_str(&format!("module m{mid} start={} end={} base={} sections: {}\n", hex(m.start), hex(m.end), hex(m.base_avma), raw.describe()));
            ids.push(format!("m{mid}"));
            mid += 1;
        }
        out.push_str(&format!("world arch={} policy={policy}\n", arch.name()));
        for id in &ids {
            out.push_str(&format!("add {id}\n"));
        }
        let mut addrs: Vec<u64> = Vec::new();
        for m in &mods {
            addrs.extend(interesting_addrs(m));
        }
        addrs.extend_from_slice(&[0x10, 0x7fff_0000_1234]); // outside every module: frame pointer fallback
        for _ in 0..(10 + p.below(16)) {
            let addr = *p.pick(&addrs);
            let is_ra = p.chance(1, 3) && addr != 0;
            match p.below(10) {
                0 => {
                    let regs = gen_regs(&mut p, arch, addr);
                    let mem = gen_mem(&mut p, &regs);
                    out.push_str(&format!("iter pc={} {} mem={} max=c\n", hex(addr), regs_line(&regs), mem.to_line()));
                }
                1 => out.push_str("find-max\n"),
                2 if !mods.is_empty() => {
                    let m = p.pick(&mods);
                    out.push_str(&format!("remove {}\n", hex(m.start)));
                }
                5 if !ids.is_empty() && p.chance(1, 2) => {
                    // a module registered again (after a removal, or a second time under the
                    // same start address): whatever the crate does with it, it must do under
                    // every feature combination
                    let id = p.pick(&ids).clone();
                    out.push_str(&format!("add {id}\n"));
                }
                3 | 4 => {
                    // the same address with a thread state that fails framehop's sanity checks,
                    // then with a sane one (what is cached after the first call shows in the second)
                    let sp = 0x7ffc_0000_1000u64 + 8 * p.below(64);
                    let good_fp = sp + 0x40 + 8 * p.below(16);
                    let mut mem = MemDesc::new(Dflt::Plus(0x28));
                    mem.entries.push((good_fp, Some(good_fp + 0x60)));
                    mem.entries.push((good_fp + 8, Some(0x5555_0000_2000 + p.below(0x1000))));
                    let kind = if is_ra { "ra" } else { "ip" };
                    let bad: Vec<(u64, u64)> = vec![(sp, 0x10 + 8 * p.below(4)), (sp, sp - 0x100), (sp, 0)];
                    let (bsp, bfp) = *p.pick(&bad);
                    for (s, f) in [(bsp, bfp), (sp, good_fp)] {
                        let regs = match arch {
                            Arch::X64 => {
                                let mut r = [0u64; 16];
                                r[7] = s;
                                r[6] = f;
                                RegsAny::X(crate::rules::RegsX { ip: addr, r })
                            }
                            Arch::A64 => RegsAny::A(crate::rules::RegsA { mask: u64::MAX, lr: 0x5555_0000_3000, sp: s, fp: f }),
                        };
                        out.push_str(&format!("unwind kind={kind} addr={} {} mem={}\n", hex(addr), regs_line(&regs), mem.to_line()));
                    }
                }
                _ => {
                    let mut regs = gen_regs(&mut p, arch, addr);
                    if let RegsAny::A(a) = &mut regs {
                        if a.mask != u64::MAX {
                            a.mask = u64::MAX >> 16;
                        }
                    }
                    let mem = gen_mem(&mut p, &regs);
                    out.push_str(&format!("unwind kind={} addr={} {} mem={}\n", if is_ra { "ra" } else { "ip" }, hex(addr), regs_line(&regs), mem.to_line()));
                }
            }
        }
    }
    out
}

/// Battery lines that produce an answer, in order, each with the index of its `world` line.
fn answering_lines(text: &str) -> Vec<(usize, usize)> {
    let mut v = Vec::new();
    let mut world = 0;
    for (i, l) in text.lines().enumerate() {
        if l.starts_with("world ") {
            world = i;
            v.push((i, world));
        } else if l.starts_with("unwind ") || l.starts_with("iter ") || l.starts_with("find-max") {
            v.push((i, world));
        }
    }
    v
}

/// The history needed to replay answer `k`: the modules, the world line and its operations up
/// to that point.
fn context(text: &str, k: usize) -> String {
    let lines: Vec<&str> = text.lines().collect();
    let idx = answering_lines(text);
    let Some(&(line, world)) = idx.get(k) else { return String::new() };
    let mut needed: Vec<&str> = Vec::new();
    // modules added in this world
    let adds: Vec<&str> = lines[world..=line].iter().filter_map(|l| l.strip_prefix("add ")).collect();
    for l in &lines[..world] {
        if let Some(rest) = l.strip_prefix("module ") {
            let id = rest.split(' ').next().unwrap_or("");
            if adds.contains(&id) {
                needed.push(l);
            }
        }
    }
    needed.extend_from_slice(&lines[world..=line]);
    needed.join("\n")
}

pub fn run(tier: &str, seed: u64, out: Option<&str>) -> Report {
    let mut rep = Report::new("feat");
    let battery = gen_battery(tier, seed);
    let work = out.map(|o| format!("{o}.d")).unwrap_or_else(|| "/verif/.cache/feat".into());
    let _ = std::fs::create_dir_all(&work);
    let bpath = format!("{work}/battery.txt");
    std::fs::write(&bpath, &battery).expect("write battery");
    // reference: in-process, default features, hooks on
    let reference = crate::featexec::run_battery(&battery);
    rep.cases = reference.len() as u64;
    for l in battery.lines() {
        let cmd = l.split(' ').next().unwrap_or("");
        if cmd != "module" {
            rep.count(&format!("battery line {cmd}"));
            rep.note_distinct(l);
        }
    }
    for (i, l) in reference.iter().enumerate() {
        if i % 997 == 0 {
            rep.sample(l.clone());
        }
        let class = l.split([' ', ':', '=']).next().unwrap_or("?");
        rep.count(&format!("reference answer {class}"));
    }
    let idx = answering_lines(&battery);
    for feats in SUBSETS {
        let name = if feats.is_empty() { "none".to_string() } else { feats.replace(',', "+") };
        let b = Command::new("cargo")
            .args(["build", "--offline", "--no-default-features", "--features", feats])
            .current_dir("/verif/featrun")
            .env("CARGO_NET_OFFLINE", "true")
            .output()
            .expect("cargo");
        if !b.status.success() {
            let err = String::from_utf8_lossy(&b.stderr);
            let first: Vec<&str> = err.lines().filter(|l| l.starts_with("error")).take(6).collect();
            rep.add_finding(Finding {
                props: vec!["C19".into()],
                kind: "oracle".into(),
                key: format!("feature-subset-does-not-build-{name}"),
                what: format!("framehop does not build with --no-default-features --features \"{feats}\": {}", first.join(" | ")),
                case: format!("cd /verif/featrun && cargo build --offline --no-default-features --features \"{feats}\"\n{}", &err[err.len().saturating_sub(3000)..]),
                impl_out: "build failed".into(),
                model_out: String::new(),
            });
            continue;
        }
        rep.count(&format!("subset [{feats}] builds"));
        let r = Command::new("/verif/featrun/target/debug/featrun").arg(&bpath).output().expect("featrun");
        if !r.status.success() {
            let err = String::from_utf8_lossy(&r.stderr);
            rep.add_finding(Finding {
                props: vec!["C19".into()],
                kind: "oracle".into(),
                key: format!("feature-subset-battery-crashes-{name}"),
                what: format!("the battery aborts when framehop is built with features \"{feats}\": {}", err.lines().last().unwrap_or("")),
                case: format!("features \"{feats}\"; battery {bpath}\n{}", &err[err.len().saturating_sub(2000)..]),
                impl_out: "crash".into(),
                model_out: String::new(),
            });
            continue;
        }
        let got: Vec<String> = String::from_utf8_lossy(&r.stdout).lines().map(|l| l.to_string()).collect();
        let mut differs = 0;
        for (k, (a, b)) in reference.iter().zip(got.iter()).enumerate() {
            if a != b {
                differs += 1;
                if differs <= 3 {
                    rep.add_finding(Finding {
                        props: vec!["C19".into()],
                        kind: "oracle".into(),
                        key: format!("feature-subset-changes-result-{name}"),
                        what: format!("built with features \"{feats}\" the same history gives {b} where the default feature set gives {a}"),
                        case: format!("features \"{feats}\"\n{}", context(&battery, k)),
                        impl_out: b.clone(),
                        model_out: a.clone(),
                    });
                }
            }
        }
        if got.len() != reference.len() {
            rep.add_finding(Finding {
                props: vec!["C19".into()],
                kind: "oracle".into(),
                key: format!("feature-subset-answer-count-{name}"),
                what: format!("{} answers with features \"{feats}\", {} with the default set", got.len(), reference.len()),
                case: bpath.clone(),
                impl_out: String::new(),
                model_out: String::new(),
            });
        }
        if differs == 0 && got.len() == reference.len() {
            rep.count(&format!("subset [{feats}] identical on {} answers", got.len()));
        }
        let _ = idx.len();
    }
    kinds(&mut rep, &work);
    rep
}

/// All 128 offers of sections (present/absent, index builds/fails) under all 8 feature subsets
/// (built with the verification cfg so that the selected variant can be read): the variant
/// `Module::new` selects vs the Lean model `selectUnwindData`.
fn kinds(rep: &mut Report, work: &str) {
    use crate::cfi;
    let arch = Arch::X64;
    let fde = FdeSpec { start: 0x1000, len: 0x40, rows: vec![(0, RowSpec { cfa: Cfa::RegOff(DReg::Sp, 8), fp: RR::Same, ra: RR::Offset(-8) })], eval_fails: false, pac: false };
    let eh_svma = 0x3000u64;
    let good_eh = cfi::write_eh_frame(arch, &[fde.clone()], PtrEnc::Abs8, eh_svma, 0x1000, 1);
    let good_hdr = cfi::write_eh_frame_hdr(&good_eh, 0x5000, eh_svma, true);
    let good_dbg = cfi::write_debug_frame(arch, &[fde], 4, 1);
    // an entry whose CIE pointer leads nowhere: building the index fails
    let bad: Vec<u8> = vec![0x0c, 0, 0, 0, 0x44, 0x33, 0x22, 0x11, 1, 2, 3, 4, 5, 6, 7, 8];
    let mut battery = String::new();
    let mut offers: Vec<String> = Vec::new();
    for bits in 0..128u32 {
        let b = |i: u32| bits >> i & 1 == 1;
        let (unwind_info, pdata, eh, hdr, dbg, eh_builds, dbg_builds) = (b(0), b(1), b(2), b(3), b(4), b(5), b(6));
        let mut raw = RawSections { base_svma: 0, ..Default::default() };
        raw.svma.insert("text", 0x1000..0x2000);
        if unwind_info {
            raw.data.insert("unwind_info", vec![1, 0, 0, 0, 0x1c, 0, 0, 0, 0, 0, 0, 0, 0x1c, 0, 0, 0, 0, 0, 0, 0, 0x1c, 0, 0, 0, 0, 0, 0, 0]);
        }
        if pdata {
            raw.data.insert("pdata", vec![0; 12]);
        }
        if eh {
            raw.svma.insert("eh_frame", eh_svma..eh_svma + good_eh.bytes.len() as u64);
            raw.data.insert("eh_frame", if eh_builds { good_eh.bytes.clone() } else { bad.clone() });
        }
        if hdr {
            raw.svma.insert("eh_frame_hdr", 0x5000..0x5000 + good_hdr.len() as u64);
            raw.data.insert("eh_frame_hdr", good_hdr.clone());
        }
        if dbg {
            raw.data.insert("debug_frame", if dbg_builds { good_dbg.clone() } else { bad.clone() });
        }
        battery.push_str(&format!("module k{bits} start=1000 end=2000 base=0 sections: {}\nkind k{bits}\n", raw.describe()));
        let bit = |x: bool| if x { '1' } else { '0' };
        offers.push([unwind_info, pdata, eh, hdr, dbg, eh_builds, dbg_builds].iter().map(|x| bit(*x)).collect());
    }
    let bpath = format!("{work}/kinds.txt");
    std::fs::write(&bpath, &battery).expect("write kinds battery");
    let mut lines = Vec::new();
    let mut got_all: Vec<(String, String, String)> = Vec::new(); // (features, offer, kind)
    for feats in SUBSETS {
        let b = Command::new("cargo")
            .args(["build", "--offline", "--no-default-features", "--features", feats, "--target-dir", "/verif/featrun/target-hooks"])
            .current_dir("/verif/featrun")
            .env("CARGO_NET_OFFLINE", "true")
            .env("RUSTFLAGS", "--cfg framehop_verif")
            .output()
            .expect("cargo");
        if !b.status.success() {
            let err = String::from_utf8_lossy(&b.stderr);
            rep.add_finding(Finding {
                props: vec!["C19".into()],
                kind: "correspondence".into(),
                key: format!("hooked-build-fails-{}", feats.replace(',', "+")),
                what: format!("framehop with the verification hooks does not build with features \"{feats}\" (the variant selection cannot be observed)"),
                case: err[err.len().saturating_sub(2000)..].to_string(),
                impl_out: "build failed".into(),
                model_out: String::new(),
            });
            continue;
        }
        let r = Command::new("/verif/featrun/target-hooks/debug/featrun").arg(&bpath).output().expect("featrun");
        let got: Vec<String> = String::from_utf8_lossy(&r.stdout).lines().map(|l| l.to_string()).collect();
        let fbits: String = ["std", "macho", "pe"].iter().map(|f| if feats.split(',').any(|x| x == *f) { '1' } else { '0' }).collect();
        for (k, offer) in offers.iter().enumerate() {
            let kind = got.get(k).cloned().unwrap_or_else(|| "missing".into());
            lines.push(format!("select {} f={fbits} s={offer}", lines.len()));
            rep.count(&format!("features [{feats}] select -> {}", kind.trim_start_matches("kind=")));
            got_all.push((feats.to_string(), offer.clone(), kind));
        }
    }
    let model = crate::model::run_model(&lines);
    rep.compared_with_model += model.len() as u64;
    for ((feats, offer, kind), m) in got_all.iter().zip(model.iter()) {
        if kind != m {
            rep.add_finding(Finding {
                props: vec!["C19".into()],
                kind: "correspondence".into(),
                key: "select-unwind-data".into(),
                what: "the unwind-data variant Module::new selects differs from the Lean model (FH/Select.lean selectUnwindData)".into(),
                case: format!("features \"{feats}\" sections offered (unwind_info pdata eh_frame eh_frame_hdr debug_frame eh-index-builds debug-index-builds) = {offer}"),
                impl_out: kind.clone(),
                model_out: m.clone(),
            });
        }
    }
}
