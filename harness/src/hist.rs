//! Engine `hist`: operation histories (`new/clone/add/remove/unwind/iter/find/max`) over
//! several unwinders sharing caches, on generated DWARF modules in all three presentations.
//! Every answer is compared with the Lean model's; direct oracles judge C06 (fresh-cache
//! twin), C07 (reference module set), C09, C10, C11, C16, C17 (iterator vs manual fold),
//! C18 (distinct generations), C20 (one counter per call, hits touch no section data).
use crate::gen::*;
use crate::model::run_model;
use crate::rules::{outcome_class, show_res};
use crate::spec::*;
use crate::util::*;
use crate::world::*;
use framehop::{Error, MayAllocateDuringUnwind};
use std::collections::{BTreeMap, HashSet};

pub fn cache_entry_count() -> u64 {
    let src = std::fs::read_to_string("/repo/src/rule_cache.rs").unwrap_or_default();
    for l in src.lines() {
        if let Some(rest) = l.trim().strip_prefix("const CACHE_ENTRY_COUNT: usize =") {
            if let Ok(v) = rest.trim().trim_end_matches(';').trim().parse::<u64>() {
                return v;
            }
        }
    }
    509
}

/// The part of an answer a property talks about. `br` is the model's branch for `unwind`
/// lines (hit / no-module / uncovered / row-translated / ...): a difference in the outcome
/// of a call concerns the properties that speak about that path.
pub fn project_world(pid: &str, cmd: &str, arch: &str, out: &str, br: &str, is_ra: bool) -> String {
    let toks: Vec<&str> = out.split(' ').collect();
    let stats: String = toks
        .iter()
        .filter(|t| t.starts_with("stats=") || t.starts_with("t="))
        .copied()
        .collect::<Vec<_>>()
        .join(" ");
    let without_stats: Vec<&str> = toks
        .iter()
        .filter(|t| !t.starts_with("stats=") && !t.starts_with("t="))
        .copied()
        .collect();
    let full = without_stats.join(" ");
    let row = br.starts_with("row-");
    let noinfo = matches!(br, "no-module" | "no-data" | "lookup-failed" | "uncovered" | "index-failed");
    match cmd {
        "unwind" => match pid {
            "C20" => stats.to_string(),
            "C09" | "C14" => (if out == "panic" { "panic" } else { "returns" }).to_string(),
            "C10" | "C11" | "C16" => crate::rules::project(pid, arch, &full),
            "C06" => if br == "hit" { full } else { String::new() },
            "C05" | "C01" => if row { full } else { String::new() },
            "C04" => if noinfo { full } else { String::new() },
            "C12" => if row || br == "uncovered" || br == "lookup-failed" { full } else { String::new() },
            "C13" => if is_ra { full } else { String::new() },
            "C08" => full,
            _ => String::new(),
        },
        "iter" => match pid {
            "C20" => stats.to_string(),
            "C09" | "C14" => (if out.contains("panic") { "panic" } else { "returns" }).to_string(),
            "C17" | "C01" | "C08" => full,
            "C16" if arch == "a64" => full,
            _ => String::new(),
        },
        "find" | "max" => match pid {
            "C07" | "C08" | "C13" => out.to_string(),
            _ => String::new(),
        },
        "new" | "clone" | "add" | "remove" => match pid {
            "C18" | "C06" | "C07" => out.to_string(),
            _ => String::new(),
        },
        _ => String::new(),
    }
}

const ALL_PROPS: [&str; 16] = [
    "C01", "C04", "C05", "C06", "C07", "C08", "C09", "C10", "C11", "C12", "C13", "C16", "C17",
    "C18", "C20", "C14",
];

pub struct Hist {
    pub ops: Vec<Op>,
}

fn gen_history(p: &mut Prng, arch: Arch, n_ops: usize) -> Hist {
    let mut ops = Vec::new();
    let n_mods = 2 + p.below(4) as usize;
    let mut mods = gen_modules(p, arch, n_mods, None);
    // now and then a mapping nested inside another module's range (no unwind data of its own,
    // or a copy of the outer module's): C07 does not speak about overlapping sets (its oracles
    // are switched off for them), but C06 does - which module such an address is given to must
    // not depend on what the cache has seen
    let mut nested: Option<usize> = None;
    if p.chance(1, 6) {
        let big: Vec<usize> = (0..mods.len()).filter(|i| mods[*i].end - mods[*i].start >= 0x100).collect();
        if !big.is_empty() {
            let o = mods[*p.pick(&big)].clone();
            let len = o.end - o.start;
            let start = o.start + len / 4 + p.below(len / 4);
            let end = start + 1 + p.below(len / 4);
            let mut inner = o.clone();
            inner.start = start;
            inner.end = end;
            if p.chance(2, 3) {
                inner.data = DataSpec::None;
                inner.base_avma = start;
            }
            mods.push(inner);
            nested = Some(mods.len() - 1);
        }
    }
    for (i, m) in mods.iter().enumerate() {
        ops.push(Op::Mod { m: format!("m{i}"), spec: m.clone() });
    }
    ops.push(Op::New { u: "u0".into() });
    ops.push(Op::NewCache { c: "c0".into() });
    let mut unws = vec!["u0".to_string()];
    let mut caches = vec!["c0".to_string()];
    let mut addrs: Vec<u64> = Vec::new();
    for m in &mods {
        addrs.extend(interesting_addrs(m));
    }
    // addresses that agree with a module address in their low 48 (or 32) bits: another address
    // space half, a five-level-paging user address, a 4 GiB multiple away
    if p.chance(1, 3) && !addrs.is_empty() {
        for _ in 0..4 {
            let a = *p.pick(&addrs);
            let alias = match p.below(4) {
                0 => a ^ (1 << 48),
                1 => a ^ (0xffff << 48),
                2 => a ^ (1 << 32),
                _ => a.wrapping_add(p.below(3).wrapping_add(1) << 48),
            };
            addrs.push(alias);
        }
    }
    let n_slots = cache_entry_count();
    // consistent use of each lookup address as ip or as return address
    let mut kind: BTreeMap<u64, bool> = BTreeMap::new();
    // which modules each unwinder currently holds (only non-overlapping sets are generated)
    let mut live: BTreeMap<String, Vec<usize>> = BTreeMap::new();
    live.insert("u0".into(), vec![]);
    // half of the nested mappings are registered late: after a few calls went through the outer
    // module alone (what those calls left in the cache must not answer for the new module set)
    let late_nested = nested.filter(|_| p.chance(1, 2));
    for i in 0..mods.len() {
        if Some(i) == late_nested {
            // counted as held from the start so that no second `add` is generated for it
            live.get_mut("u0").unwrap().push(i);
            continue;
        }
        if p.chance(3, 4) {
            ops.push(Op::Add { u: "u0".into(), m: format!("m{i}") });
            live.get_mut("u0").unwrap().push(i);
        }
    }
    let first_generated_op = ops.len();
    let mut last_unwind: Option<Op> = None;
    let mixed_kinds = p.chance(1, 5);
    for _ in 0..n_ops {
        let u = p.pick(&unws).clone();
        let c = p.pick(&caches).clone();
        match p.below(100) {
            0..=54 => {
                let mut la = if p.chance(5, 6) && !addrs.is_empty() {
                    *p.pick(&addrs)
                } else {
                    crate::rules::gen_u64(p)
                };
                if p.chance(1, 5) {
                    // collide with another address in the same cache slot
                    la = la.wrapping_add(n_slots * (1 + p.below(3)));
                }
                if p.chance(1, 8) {
                    la = la.wrapping_add(p.below(5)).wrapping_sub(2);
                }
                // DWARF / data-less modules decide the rule without looking at the frame kind, so
                // some histories use one lookup address both ways (pc = X after return address X+1)
                let is_ra = if mixed_kinds { p.chance(1, 2) } else { *kind.entry(la).or_insert_with(|| p.chance(1, 2)) };
                let is_ra = is_ra && la != u64::MAX;
                let addr = if is_ra { la + 1 } else { la };
                let ip = if p.chance(4, 5) { addr } else { crate::rules::gen_u64(p) };
                let regs = gen_regs(p, arch, ip);
                let mem = gen_mem(p, &regs);
                let op = Op::Unwind { u, c, is_ra, addr, regs, mem };
                last_unwind = Some(op.clone());
                ops.push(op);
            }
            55..=64 => {
                if let Some(op) = &last_unwind {
                    // exact repeat, or the same address with a different thread state
                    if p.chance(1, 2) {
                        ops.push(op.clone());
                    } else if let Op::Unwind { u, c, is_ra, addr, regs, .. } = op {
                        let regs2 = gen_regs(p, arch, regs.ip_or_lr());
                        let mem2 = gen_mem(p, &regs2);
                        ops.push(Op::Unwind {
                            u: u.clone(),
                            c: c.clone(),
                            is_ra: *is_ra,
                            addr: *addr,
                            regs: regs2,
                            mem: mem2,
                        });
                    }
                }
            }
            65..=71 => {
                let i = p.below(mods.len() as u64) as usize;
                let l = live.get_mut(&u).unwrap();
                if !l.contains(&i) {
                    l.push(i);
                    ops.push(Op::Add { u, m: format!("m{i}") });
                }
            }
            72..=77 => {
                let start = if p.chance(4, 5) {
                    mods[p.below(mods.len() as u64) as usize].start
                } else {
                    crate::rules::gen_u64(p)
                };
                live.get_mut(&u).unwrap().retain(|i| mods[*i].start != start);
                ops.push(Op::Remove { u, start });
            }
            78..=80 => {
                let nu = format!("u{}", unws.len());
                let l = live[&u].clone();
                live.insert(nu.clone(), l);
                ops.push(Op::Clone { u: nu.clone(), from: u });
                unws.push(nu);
            }
            81 | 82 => {
                let nu = format!("u{}", unws.len());
                live.insert(nu.clone(), vec![]);
                ops.push(Op::New { u: nu.clone() });
                unws.push(nu);
            }
            83 => {
                if caches.len() < 3 {
                    let nc = format!("c{}", caches.len());
                    ops.push(Op::NewCache { c: nc.clone() });
                    caches.push(nc);
                }
            }
            84..=91 => {
                let addr = if p.chance(5, 6) && !addrs.is_empty() {
                    *p.pick(&addrs)
                } else {
                    crate::rules::gen_u64(p)
                };
                ops.push(Op::Find { u, addr });
            }
            92 | 93 => ops.push(Op::Max { u }),
            _ => {
                let pc = if !addrs.is_empty() { *p.pick(&addrs) } else { 0x1000 };
                let mut regs = gen_regs(p, arch, pc);
                // the x86-64 register set carries an instruction pointer of its own; the walk
                // starts at `pc` but unwinds from the registers it is given, whatever their ip says
                if let RegsAny::X(r) = &mut regs {
                    if p.chance(1, 4) {
                        r.ip = match p.below(4) {
                            0 => pc.wrapping_add(1),
                            1 => 0,
                            2 if !addrs.is_empty() => *p.pick(&addrs),
                            _ => crate::rules::gen_u64(p),
                        };
                    }
                }
                let mem = gen_mem(p, &regs);
                ops.push(Op::Iter { u, c, pc, regs, mem, extra: p.below(4), max: 40 });
            }
        }
    }
    if let Some(ni) = late_nested {
        // after the k-th unwind call of u0, unless the mapping's start was named by a remove
        // before (then: right at the start, as for the others)
        let k = 3 + p.below(6) as usize;
        let mut seen = 0usize;
        let mut pos = first_generated_op;
        for (j, o) in ops.iter().enumerate().skip(first_generated_op) {
            match o {
                Op::Remove { start, .. } if *start == mods[ni].start => break,
                Op::Clone { .. } => break,
                Op::Unwind { u, .. } if u == "u0" => {
                    seen += 1;
                    if seen == k {
                        pos = j + 1;
                        break;
                    }
                    pos = j + 1;
                }
                _ => {}
            }
        }
        // calls at addresses of the nested mapping (and just behind its end) before and after
        // it is registered, on the same cache
        let inner = mods[ni].clone();
        let mut probes: Vec<Op> = Vec::new();
        for la in [inner.start, inner.start + (inner.end - inner.start) / 2, inner.end] {
            let is_ra = *kind.entry(la).or_insert_with(|| p.chance(1, 2)) && la != u64::MAX;
            let addr = if is_ra { la + 1 } else { la };
            let regs = gen_regs(p, arch, addr);
            let mem = gen_mem(p, &regs);
            probes.push(Op::Unwind { u: "u0".into(), c: "c0".into(), is_ra, addr, regs, mem });
        }
        let mut seq: Vec<Op> = probes.clone();
        seq.push(Op::Add { u: "u0".into(), m: format!("m{ni}") });
        for o in &probes {
            if let Op::Unwind { u, c, is_ra, addr, regs, mem } = o {
                let (regs2, mem2) = if p.chance(1, 2) { (regs.clone(), mem.clone()) } else { let r = gen_regs(p, arch, *addr); let m = gen_mem(p, &r); (r, m) };
                seq.push(Op::Unwind { u: u.clone(), c: c.clone(), is_ra: *is_ra, addr: *addr, regs: regs2, mem: mem2 });
            }
        }
        for (k, o) in seq.into_iter().enumerate() {
            ops.insert(pos + k, o);
        }
    }
    Hist { ops }
}

/// Adversarial CFI: frames of size zero whose return addresses and frame pointers come from
/// registers or from slots arranged so that the walk would alternate between two functions
/// forever if a progress check were missing (C10). On a correct unwinder these walks end with
/// an error or with the frame pointer fallback; the walk oracle checks that no state repeats.
fn gen_adversarial(p: &mut Prng, arch: Arch) -> Hist {
    let base = 0x40_0000u64;
    let a_off = 0x100u64;
    let b_off = 0x200u64;
    let zero_cfa = |p: &mut Prng| match p.below(3) {
        0 => Cfa::RegOff(DReg::Sp, 0),
        1 => Cfa::RegOff(DReg::Fp, 0),
        _ => Cfa::RegOff(DReg::Sp, *p.pick(&[0i64, 0, 8, 16])),
    };
    let variant = match (p.below(5), arch) {
        (4, Arch::A64) => 0,
        (v, _) => v,
    };
    // variant 4 (x86-64): both FDEs also carry a rule for the stack pointer column,
    // rsp = CFA - 16 = the current rsp. framehop defines the caller's rsp as the CFA and never
    // looks at that column; an unwinder that honoured it without its own progress guard would
    // alternate between A and B forever with an unchanged stack pointer.
    let sp_column = variant == 4;
    let (row_a, row_b) = match variant {
        4 => (
            RowSpec { cfa: Cfa::RegOff(DReg::Sp, 16), fp: RR::Same, ra: RR::Offset(-8) },
            RowSpec { cfa: Cfa::RegOff(DReg::Sp, 16), fp: RR::Same, ra: RR::Offset(-16) },
        ),
        // return addresses in two different slots above the (unchanged) stack pointer
        0 => (
            RowSpec { cfa: zero_cfa(p), fp: RR::Same, ra: RR::Offset(8) },
            RowSpec { cfa: zero_cfa(p), fp: RR::Same, ra: RR::Offset(16) },
        ),
        // return address and frame pointer swap through registers
        1 => (
            RowSpec { cfa: zero_cfa(p), fp: RR::Register(DReg::Ra), ra: RR::Register(DReg::Fp) },
            RowSpec { cfa: zero_cfa(p), fp: RR::Register(DReg::Ra), ra: RR::Register(DReg::Fp) },
        ),
        // value-offset rules: return address computed from the CFA
        2 => (
            RowSpec { cfa: zero_cfa(p), fp: RR::Same, ra: RR::Offset(8) },
            RowSpec { cfa: zero_cfa(p), fp: RR::Offset(16), ra: RR::Offset(24) },
        ),
        _ => (gen_row(p, arch), RowSpec { cfa: zero_cfa(p), fp: RR::Same, ra: RR::Offset(8) }),
    };
    let spec = ModSpec {
        start: base,
        end: base + 0x1000,
        base_avma: base,
        base_svma: 0,
        data: DataSpec::Dwarf(
            *p.pick(&[Pres::Hdr, Pres::Idx, Pres::Dbg]),
            vec![
                FdeSpec { start: a_off, len: 0x80, rows: vec![(0, row_a)], eval_fails: false, pac: sp_column },
                FdeSpec { start: b_off, len: 0x80, rows: vec![(0, row_b)], eval_fails: false, pac: sp_column },
            ],
        ),
        enc: PtrEnc::Abs8,
        hdr_abs: true,
        dbg_version: 4,
        n_cies: 1,
    };
    let a_ra = base + a_off + 0x11; // return address into A (lookup a_ra - 1 lies in A)
    let b_ra = base + b_off + 0x21;
    let sp = 0x7ffc_0000_1000u64;
    let mut ops = vec![
        Op::Mod { m: "m0".into(), spec },
        Op::New { u: "u0".into() },
        Op::NewCache { c: "c0".into() },
        Op::Add { u: "u0".into(), m: "m0".into() },
    ];
    for round in 0..3u64 {
        let fp = match (variant, round) {
            (1, _) => b_ra,
            (_, 0) => sp,
            (_, 1) => sp + 0x40,
            _ => 0,
        };
        let pc = base + a_off + 0x10 + round;
        let regs = match arch {
            Arch::X64 => {
                let mut r = [0u64; 16];
                r[7] = sp;
                r[6] = fp;
                RegsAny::X(crate::rules::RegsX { ip: pc, r })
            }
            Arch::A64 => RegsAny::A(crate::rules::RegsA { mask: u64::MAX, lr: b_ra, sp, fp }),
        };
        let mut mem = crate::mem::MemDesc::new(crate::mem::Dflt::Const(a_ra));
        mem.set(sp + 8, Some(b_ra));
        mem.set(sp + 16, Some(a_ra));
        mem.set(sp + 24, Some(b_ra));
        mem.set(sp, Some(if round == 2 { a_ra } else { b_ra }));
        mem.set(sp.wrapping_sub(8), Some(b_ra));
        ops.push(Op::Iter { u: "u0".into(), c: "c0".into(), pc, regs, mem, extra: 0, max: 24 });
    }
    Hist { ops }
}

/// C06 for any engine: the same call against a fresh cache must give the same result and
/// registers as the call that went through the engine's (warm) cache.
pub fn fresh_cache_twin<H: ArchH>(rep: &mut Report, w: &World<H>, op: &Op, ans: &str, case: impl FnOnce() -> String) {
    if let Op::Unwind { u, is_ra, addr, regs, mem, .. } = op {
        let Some(unw) = w.unws.get(u) else { return };
        let mut fresh = H::new_cache();
        let (r2, _) = World::<H>::unwind_once(unw, &mut fresh, *is_ra, *addr, regs, mem);
        let twin = match &r2 {
            Ok((res, after)) => format!("{} {}", show_res(res), after.show()),
            Err(_) => "panic".into(),
        };
        let got: String = ans.split(' ').filter(|t| !t.starts_with("stats=") && !t.starts_with("t=")).collect::<Vec<_>>().join(" ");
        rep.count("fresh-cache twins outside hist");
        if twin != got {
            let c = case();
            add_oracle(rep, &["C06"], "cache-changes-outcome", format!("outcome with the shared cache differs from a fresh cache: fresh={twin}"), c.clone(), &got);
            if got.starts_with("done ") && !twin.starts_with("done ") && twin != "panic" {
                add_oracle(rep, &["C11"], "end-of-stack-reported-without-a-root-marker",
                    format!("the call completed the walk with Ok(None), but the same unwinder on the same registers and stack with a fresh cache gives {twin}: what ended the walk is not a root marker of this stack"), c, &got);
            }
        }
    }
}

fn add_oracle(rep: &mut Report, props: &[&str], key: &str, what: String, case: String, impl_out: &str) {
    rep.add_finding(Finding {
        props: props.iter().map(|s| s.to_string()).collect(),
        kind: "oracle".into(),
        key: key.into(),
        what,
        case,
        impl_out: impl_out.into(),
        model_out: String::new(),
    });
}

/// Format-independent oracles on one executed operation (used by the engines that drive
/// Mach-O and PE modules through the same operations as `hist`): progress of caller-frame
/// steps (C10), no null frame and a truthful unreadable address (C11), stripped addresses and
/// an unchanged mask on aarch64 (C16), walks that never revisit a state (C10).
pub fn step_oracles(rep: &mut Report, op: &Op, obs: &Obs, ans: &str, case: impl Fn() -> String) {
    match op {
        Op::Unwind { is_ra, regs, .. } => {
            let (Some(res), Some(after)) = (&obs.res, &obs.regs_after) else { return };
            match res {
                Ok(Some(ra)) => {
                    if *ra == 0 {
                        add_oracle(rep, &["C11"], "null-frame", "null address reported as a frame".into(), case(), ans);
                        // C16: a null left after stripping is a signed (or plain) null return
                        // address - the unsigned variant of this stack ends here with Ok(None)
                        if let RegsAny::A(a) = regs {
                            if a.mask != u64::MAX {
                                add_oracle(rep, &["C16"], "signed-null-return-address-reported-as-a-frame", "the saved return address is null once the authentication bits are stripped: the unsigned stack ends here, the signed one reports a frame".into(), case(), ans);
                            }
                        }
                    }
                    if *is_ra {
                        let (sp0, sp1) = (regs.sp(), after.sp());
                        if sp1 < sp0 {
                            add_oracle(rep, &["C10"], "sp-decreased", "stack pointer decreased in a caller frame".into(), case(), ans);
                        }
                        match (regs, after) {
                            (RegsAny::X(r0), RegsAny::X(r1)) => {
                                if sp1 == sp0 && *ra == r0.ip {
                                    add_oracle(rep, &["C10"], "no-advance", "success with sp and address unchanged".into(), case(), ans);
                                }
                                if r1.ip != *ra {
                                    add_oracle(rep, &["C10"], "ip-not-ra", "ip register differs from the returned address".into(), case(), ans);
                                }
                            }
                            (RegsAny::A(_), RegsAny::A(_)) => {
                                if sp1 <= sp0 {
                                    add_oracle(rep, &["C10"], "sp-not-increased", "aarch64 caller-frame step did not increase sp".into(), case(), ans);
                                }
                            }
                            _ => {}
                        }
                    }
                    if let (RegsAny::A(r0), RegsAny::A(r1)) = (regs, after) {
                        if ra & !r0.mask != 0 {
                            add_oracle(rep, &["C16"], "ra-unstripped", "returned address has bits outside the mask".into(), case(), ans);
                        }
                        if r1.lr & !r0.mask != 0 {
                            add_oracle(rep, &["C16"], "lr-unstripped", "lr has bits outside the mask".into(), case(), ans);
                        }
                        if r1.mask != r0.mask {
                            add_oracle(rep, &["C16"], "mask-replaced", format!("the register set carries the mask {:#x} after the step instead of the caller's {:#x}", r1.mask, r0.mask), case(), ans);
                        }
                    }
                }
                Err(Error::CouldNotReadStack(a)) => {
                    if !obs.reads.iter().any(|(ra, failed)| ra == a && *failed) {
                        add_oracle(rep, &["C11"], "wrong-unreadable-address", "CouldNotReadStack names an address whose read did not fail".into(), case(), ans);
                    }
                }
                _ => {}
            }
        }
        Op::Iter { pc, regs, .. } => {
            for (i, st) in obs.states.iter().enumerate() {
                if i >= 2 && obs.states[1..i].contains(st) {
                    add_oracle(rep, &["C10"], "walk-revisits-state", format!("state (address={:#x}, sp={:#x}, fp={:#x}) visited twice in one walk", st.0, st.1, st.2), case(), ans);
                    break;
                }
                if i >= 2 && st.1 < obs.states[i - 1].1 {
                    add_oracle(rep, &["C10"], "walk-sp-decreased", format!("sp decreased from {:#x} to {:#x} across a caller frame", obs.states[i - 1].1, st.1), case(), ans);
                    break;
                }
            }
            if let RegsAny::A(r0) = regs {
                for it in &obs.items {
                    if let Some(v) = it.strip_prefix("ra:").and_then(|h| u64::from_str_radix(h, 16).ok()) {
                        if v & !r0.mask != 0 {
                            add_oracle(rep, &["C16"], "walk-reports-unstripped-address", format!("the walk reports {v:#x}, which has bits outside the caller's mask {:#x}", r0.mask), case(), ans);
                            break;
                        }
                    }
                }
            }
            if obs.items.iter().any(|s| s == "ra:0" || s == "ip:0" && *pc != 0) {
                add_oracle(rep, &["C11", "C17"], "iterator-null-frame", "iterator yielded a null frame".into(), case(), ans);
            }
        }
        _ => {}
    }
}

/// For a first frame at `pc`: if `pc` lies in a live module with at least one FDE, usable
/// lookup structures and no FDE covering it, the outcome of treating it as a frameless leaf.
fn uncovered_leaf_expectation<H: ArchH>(w: &World<H>, u: &str, pc: u64, regs: &RegsAny, mem: &crate::mem::MemDesc) -> Option<String> {
    let live = w.live.get(u)?;
    // (with nested mappings "the module that contains the pc" is not defined by containment)
    if !no_overlap(live, &w.mods) {
        return None;
    }
    let mut found = None;
    for id in live {
        let m = &w.mods[id].0;
        if m.start <= pc && pc < m.end {
            found = Some(m);
        }
    }
    let m = found?;
    let DataSpec::Dwarf(pres, fdes) = &m.data else { return None };
    if fdes.is_empty() || pc < m.base_avma || pc - m.base_avma > u32::MAX as u64 {
        return None;
    }
    let svma = m.base_svma.checked_add(pc - m.base_avma)?;
    if fdes.iter().any(|f| f.start <= svma && svma - f.start < f.len) {
        return None;
    }
    // the index (eh_frame alone / debug_frame) must be buildable
    if *pres != Pres::Hdr && fdes.iter().any(|f| f.start < m.base_svma || f.start - m.base_svma > u32::MAX as u64) {
        return None;
    }
    Some(leaf_outcome(regs, mem))
}

/// What treating the frame as a frameless leaf gives: the return address is the word at rsp
/// (x86-64, which is popped) / the link register (arm64).
pub fn leaf_outcome(regs: &RegsAny, mem: &crate::mem::MemDesc) -> String {
    match regs {
        RegsAny::X(r) => {
            let sp = r.sp();
            let Some(new_sp) = sp.checked_add(8) else { return format!("err:ovf {}", regs.show()) };
            match mem.read(sp) {
                Err(()) => format!("err:stack:{} {}", hex(sp), regs.show()),
                Ok(0) => format!("done {}", regs.show()),
                Ok(ra) => {
                    let mut after = r.clone();
                    after.ip = ra;
                    after.r[7] = new_sp;
                    format!("frame:{} {}", hex(ra), RegsAny::X(after).show())
                }
            }
        }
        RegsAny::A(r) => {
            let ra = r.lr & r.mask;
            if ra == 0 {
                format!("done {}", regs.show())
            } else {
                let mut after = r.clone();
                after.lr = ra;
                format!("frame:{} {}", hex(ra), RegsAny::A(after).show())
            }
        }
    }
}

fn context_of(lines: &[String], upto: usize) -> String {
    // the whole history up to and including the failing op is the replay
    lines[..=upto].join("\n")
}

pub fn run_history<H: ArchH>(rep: &mut Report, h: &Hist, hist_id: u64, all_gens: &mut Vec<u16>) {
    let arch = H::ARCH.name();
    let mut w: World<H> = World::new();
    let n_slots = cache_entry_count();
    let mut lines = vec![w.init_line(0, n_slots)];
    let mut impl_outs = vec!["ok".to_string()];
    let mut cmds = vec!["init".to_string()];
    let mut draws: Vec<u16> = vec![];
    // C20, which miss category: what a slot certainly holds (set by a hit, forgotten by a miss,
    // which may or may not have inserted something), per cache
    let mut known_slot: BTreeMap<(String, u64), (u64, u16)> = BTreeMap::new();
    for (i, op) in h.ops.iter().enumerate() {
        let id = i as u64 + 1;
        let line = op.line(id);
        let cmd = line.split(' ').next().unwrap().to_string();
        let (ans, obs) = w.exec(op);
        lines.push(line.clone());
        cmds.push(cmd.clone());
        impl_outs.push(ans.clone());
        let here = lines.len() - 1;
        rep.count(&format!("{arch} {cmd} -> {}", if cmd == "unwind" { outcome_class(&ans) } else if cmd == "iter" { "items".into() } else if cmd == "find" { (if ans == "none" { "none" } else { "found" }).to_string() } else { "ok".to_string() }));
        // ------------------------------------------------------------ direct oracles
        if let Some(loc) = &obs.panicked {
            let own = panic_in_own_code(loc);
            add_oracle(rep, if own { &["C09", "C14"] } else { &["C09"] },
                &format!("panic-{cmd}-{}", loc.split(':').take(2).collect::<Vec<_>>().join(":")),
                format!("{cmd} panicked at {loc}"), context_of(&lines, here), "panic");
            continue;
        }
        if obs.drew {
            if let Some(g) = obs.gen {
                draws.push(g);
                all_gens.push(g);
            }
        }
        match op {
            Op::Unwind { u, is_ra, addr, regs, mem, .. } => {
                // C06: fresh-cache twin
                let mut fresh = H::new_cache();
                let (r2, _) = World::<H>::unwind_once(&w.unws[u], &mut fresh, *is_ra, *addr, regs, mem);
                let twin = match &r2 {
                    Ok((res, after)) => format!("{} {}", show_res(res), after.show()),
                    Err(_) => "panic".into(),
                };
                let got: String = ans.split(' ').filter(|t| !t.starts_with("stats=") && !t.starts_with("t=")).collect::<Vec<_>>().join(" ");
                if twin != got {
                    add_oracle(rep, &["C06"], "cache-changes-outcome",
                        format!("outcome with the shared cache differs from a fresh cache: fresh={twin}"),
                        context_of(&lines, here), &got);
                    // C11: Ok(None) although this unwinder, on this very thread state, finds a
                    // frame or an error when nothing is cached - there is no root marker here
                    if got.starts_with("done ") && !twin.starts_with("done ") && twin != "panic" {
                        add_oracle(rep, &["C11"], "end-of-stack-reported-without-a-root-marker",
                            format!("the call completed the walk with Ok(None), but the same unwinder on the same registers and stack with a fresh cache gives {twin}: what ended the walk is not a root marker of this stack"),
                            context_of(&lines, here), &got);
                    }
                }
                // C04: an address given to no module, or to a module without unwind data, is
                // unwound with the fallback rule - whatever the cache has seen. "Given to": the
                // registered module with the greatest start at or below the lookup address, if
                // the address is below its end (the search's meaning for any set of ranges,
                // theorem C07_greatest_start_decides). Expected outcome: the implementation's
                // own fallback rule executed through the hook on the same registers and stack
                // (that rule is judged against the frame-pointer convention by the `rule` engine).
                {
                    let la = if *is_ra { addr.wrapping_sub(1) } else { *addr };
                    let mut best: Option<&ModSpec> = None;
                    for id in &w.live[u] {
                        let m = &w.mods[id].0;
                        if m.start <= la && best.map_or(true, |b| m.start > b.start) {
                            best = Some(m);
                        }
                    }
                    let data_less = match best {
                        None => true,
                        Some(m) => la >= m.end || matches!(m.data, DataSpec::None),
                    };
                    if data_less {
                        let expect = match regs {
                            RegsAny::X(r) => crate::rules::CaseX { rule: framehop::verif_hooks::fallback_rule_x86_64(), first: !*is_ra, regs: r.clone(), mem: mem.clone() }.run().map(|t| t.0),
                            RegsAny::A(r) => crate::rules::CaseA { rule: framehop::verif_hooks::fallback_rule_aarch64(), first: !*is_ra, regs: r.clone(), mem: mem.clone() }.run().map(|t| t.0),
                        };
                        rep.count("calls at addresses without unwind data judged against the fallback rule");
                        if let Ok(e) = expect {
                            if e != got {
                                add_oracle(rep, &["C04"], "no-unwind-data-not-the-fallback-rule",
                                    format!("the lookup address {la:#x} belongs to no module or to a module without unwind data: the fallback rule gives {e}"),
                                    context_of(&lines, here), &got);
                            }
                        }
                    }
                }
                // C04: a first frame at an address of a DWARF module that no FDE covers is a
                // frameless leaf (decided from the generator's own description of the module)
                if !*is_ra {
                    if let Some(expect) = uncovered_leaf_expectation::<H>(&w, u, *addr, regs, mem) {
                        if expect != got {
                            add_oracle(rep, &["C04"], "uncovered-first-frame-not-a-leaf",
                                format!("the pc lies in a module with DWARF CFI but in no FDE: a first frame there is a frameless leaf, expected {expect}"),
                                context_of(&lines, here), &got);
                        }
                    }
                }
                // C20: exactly one counter, hits touch no section data
                if let (Some(b), Some(a)) = (obs.stats_before, obs.stats_after) {
                    let d: Vec<u64> = (0..4).map(|i| a[i].wrapping_sub(b[i])).collect();
                    if d.iter().sum::<u64>() != 1 || d.iter().any(|x| *x > 1) {
                        add_oracle(rep, &["C20"], "not-exactly-one-counter",
                            format!("statistics delta {d:?} is not exactly one increment"), context_of(&lines, here), &ans);
                    }
                    if d[0] == 1 && obs.section_touches != 0 {
                        add_oracle(rep, &["C20"], "hit-touches-sections",
                            format!("a call counted as hit dereferenced section data {} times", obs.section_touches),
                            context_of(&lines, here), &ans);
                    }
                    // the documented meaning of the counters, judged where the slot content is certain
                    let la = if *is_ra { addr.wrapping_sub(1) } else { *addr };
                    let gen = H::gen(&w.unws[u]);
                    let cname = match op { Op::Unwind { c, .. } => c.clone(), _ => String::new() };
                    let key = (cname, la % n_slots);
                    if let Some((ka, kg)) = known_slot.get(&key).copied() {
                        let expect = if kg != gen { 2 } else if ka != la { 3 } else { 0 };
                        let names = ["hit", "miss_empty_slot", "miss_wrong_modules", "miss_wrong_address"];
                        if d.iter().sum::<u64>() == 1 && d[expect] != 1 {
                            let got = d.iter().position(|x| *x == 1).unwrap_or(0);
                            add_oracle(rep, &["C20"], "wrong-statistics-category",
                                format!("the slot holds the rule for address {ka:#x} cached under module generation {kg} (the previous call on this slot was a hit); this lookup of {la:#x} under generation {gen} must count as {} but counted as {}", names[expect], names[got]),
                                context_of(&lines, here), &ans);
                        }
                    }
                    if d[0] == 1 {
                        known_slot.insert(key, (la, gen));
                    } else {
                        known_slot.remove(&key);
                    }
                }
                if let (Some(res), Some(after)) = (&obs.res, &obs.regs_after) {
                    match res {
                        Ok(Some(ra)) => {
                            if *ra == 0 {
                                add_oracle(rep, &["C11"], "null-frame", "null address reported as a frame".into(), context_of(&lines, here), &ans);
                                if let RegsAny::A(a) = regs {
                                    if a.mask != u64::MAX {
                                        add_oracle(rep, &["C16"], "signed-null-return-address-reported-as-a-frame", "the saved return address is null once the authentication bits are stripped: the unsigned stack ends here, the signed one reports a frame".into(), context_of(&lines, here), &ans);
                                    }
                                }
                            }
                            if *is_ra {
                                let (sp0, sp1) = (regs.sp(), after.sp());
                                if sp1 < sp0 {
                                    add_oracle(rep, &["C10"], "sp-decreased", "stack pointer decreased in a caller frame".into(), context_of(&lines, here), &ans);
                                }
                                match (regs, after) {
                                    (RegsAny::X(r0), RegsAny::X(r1)) => {
                                        if sp1 == sp0 && *ra == r0.ip {
                                            add_oracle(rep, &["C10"], "no-advance", "success with sp and address unchanged".into(), context_of(&lines, here), &ans);
                                        }
                                        if r1.ip != *ra {
                                            add_oracle(rep, &["C10"], "ip-not-ra", "ip register differs from the returned address".into(), context_of(&lines, here), &ans);
                                        }
                                    }
                                    (RegsAny::A(_), RegsAny::A(_)) => {
                                        if sp1 <= sp0 {
                                            add_oracle(rep, &["C10"], "sp-not-increased", "aarch64 caller-frame step did not increase sp".into(), context_of(&lines, here), &ans);
                                        }
                                    }
                                    _ => {}
                                }
                            }
                            if let (RegsAny::A(r0), RegsAny::A(r1)) = (regs, after) {
                                if ra & !r0.mask != 0 {
                                    add_oracle(rep, &["C16"], "ra-unstripped", "returned address has bits outside the mask".into(), context_of(&lines, here), &ans);
                                }
                                if r1.lr & !r0.mask != 0 {
                                    add_oracle(rep, &["C16"], "lr-unstripped", "lr has bits outside the mask".into(), context_of(&lines, here), &ans);
                                }
                                if r1.mask != r0.mask {
                                    add_oracle(rep, &["C16"], "mask-replaced",
                                        format!("the register set carries the mask {:#x} after the step instead of the caller's {:#x}: later steps strip with the wrong mask", r1.mask, r0.mask),
                                        context_of(&lines, here), &ans);
                                }
                            }
                        }
                        Err(Error::CouldNotReadStack(a)) => {
                            if !obs.reads.iter().any(|(ra, failed)| ra == a && *failed) {
                                add_oracle(rep, &["C11"], "wrong-unreadable-address", "CouldNotReadStack names an address whose read did not fail".into(), context_of(&lines, here), &ans);
                            }
                        }
                        _ => {}
                    }
                }
            }
            Op::Find { u, addr } => {
                // C07: reference semantics over the live set
                let live = &w.live[u];
                let mut expect: Option<(u64, u64, u64)> = None;
                for mid in live {
                    let s = &w.mods[mid].0;
                    if s.start <= *addr && *addr < s.end {
                        expect = Some((s.start, s.end, s.base_avma));
                    }
                }
                let expect_rel = expect.and_then(|(_, _, base)| addr.checked_sub(base)).and_then(|r| u32::try_from(r).ok());
                let got = H::find(&w.unws[u], *addr);
                let ranges = H::ranges(&w.unws[u]);
                let ok = match (got, expect, expect_rel) {
                    (None, None, _) => true,
                    (None, Some(_), None) => true,
                    (Some((i, rel)), Some(e), Some(er)) => ranges.get(i) == Some(&e) && rel == er,
                    _ => false,
                };
                if !ok && no_overlap(live, &w.mods) {
                    add_oracle(rep, &["C07"], "wrong-module-for-address",
                        format!("find_module_for_address({addr:#x}) = {got:?}, expected module {expect:?} rel {expect_rel:?}"),
                        context_of(&lines, here), &ans);
                }
            }
            Op::Max { u } => {
                let live = &w.live[u];
                let expect = live.iter().map(|mid| w.mods[mid].0.end).max().unwrap_or(0);
                let got = u64::from_str_radix(&ans, 16).unwrap_or(u64::MAX);
                if got != expect && no_overlap(live, &w.mods) {
                    add_oracle(rep, &["C07"], "wrong-max-known-address",
                        format!("max_known_code_address = {got:#x}, expected {expect:#x}"), context_of(&lines, here), &ans);
                }
            }
            Op::Iter { u, pc, regs, mem, extra, max, c } => {
                // the walk's lookups are not tracked one by one
                known_slot.retain(|k, _| k.0 != *c);
                // C17: iterator (fresh cache, both interfaces) vs manual fold (fresh cache)
                let manual = manual_fold::<H>(&w.unws[u], *pc, regs, mem, *extra, *max, false);
                for via_trait in [false, true] {
                    let it = iter_fresh::<H>(&w.unws[u], *pc, regs, mem, *extra, *max, via_trait, false);
                    if it != manual {
                        add_oracle(rep, &["C17"], if via_trait { "fallible-iterator-differs-from-fold" } else { "iterator-differs-from-fold" },
                            format!("iterator: {it} ; repeated unwind_frame: {manual}"), context_of(&lines, here), &ans);
                        // C11: a walk that failed must not be reported as complete when polled
                        // again (repeated unwind_frame keeps failing / goes on, it does not say
                        // "end of stack")
                        let iv: Vec<&str> = it.split(',').collect();
                        let mv: Vec<&str> = manual.split(',').collect();
                        if let Some(k) = iv.iter().position(|x| x.starts_with("err")) {
                            if iv.get(k + 1) == Some(&"none") && mv.get(k + 1).map_or(false, |x| *x != "none") {
                                add_oracle(rep, &["C11"], "end-of-stack-reported-after-an-error",
                                    format!("after {} the iterator reports Ok(None) although no root marker was reached (repeated unwind_frame: {manual})", iv[k]),
                                    context_of(&lines, here), &ans);
                            }
                        }
                    }
                }
                // C17 with a reader that changes its answers: after the first failed read the
                // whole stack is readable; polling again after the Err must continue exactly as
                // repeated unwind_frame calls from the same frame do
                if *extra > 0 && manual.contains("err:stack") {
                    let manual_h = manual_fold::<H>(&w.unws[u], *pc, regs, mem, *extra, *max, true);
                    for via_trait in [false, true] {
                        let it_h = iter_fresh::<H>(&w.unws[u], *pc, regs, mem, *extra, *max, via_trait, true);
                        rep.count("iterator vs fold with a stack that becomes readable after the first failure");
                        if it_h != manual_h {
                            add_oracle(rep, &["C17"], if via_trait { "fallible-iterator-differs-from-fold-after-the-stack-became-readable" } else { "iterator-differs-from-fold-after-the-stack-became-readable" },
                                format!("read_stack fails once and then succeeds everywhere: iterator: {it_h} ; repeated unwind_frame: {manual_h}"), context_of(&lines, here), &ans);
                        }
                    }
                }
                // C10: across the caller frames (states[0] is the interrupted first frame, whose
                // step may legitimately lower sp) no (address, sp, fp) state twice; sp never decreases
                for (i, st) in obs.states.iter().enumerate() {
                    if i >= 2 && obs.states[1..i].contains(st) {
                        add_oracle(rep, &["C10"], "walk-revisits-state",
                            format!("state (address={:#x}, sp={:#x}, fp={:#x}) visited twice in one walk", st.0, st.1, st.2),
                            context_of(&lines, here), &ans);
                        break;
                    }
                    if i >= 2 && st.1 < obs.states[i - 1].1 {
                        add_oracle(rep, &["C10"], "walk-sp-decreased",
                            format!("sp decreased from {:#x} to {:#x} across a caller frame", obs.states[i - 1].1, st.1),
                            context_of(&lines, here), &ans);
                        break;
                    }
                }
                // C16: every return address the walk reports is stripped with the caller's mask
                // (the mask must survive every kind of step, also the uncacheable ones)
                if let RegsAny::A(r0) = regs {
                    for it in &obs.items {
                        if let Some(v) = it.strip_prefix("ra:").and_then(|h| u64::from_str_radix(h, 16).ok()) {
                            if v & !r0.mask != 0 {
                                add_oracle(rep, &["C16"], "walk-reports-unstripped-address",
                                    format!("the walk reports {v:#x}, which has bits outside the caller's mask {:#x}", r0.mask),
                                    context_of(&lines, here), &ans);
                                break;
                            }
                        }
                    }
                }
                if obs.items.iter().any(|s| s == "ra:0" || s == "ip:0" && *pc != 0) {
                    add_oracle(rep, &["C11", "C17"], "iterator-null-frame", "iterator yielded a null frame".into(), context_of(&lines, here), &ans);
                }
            }
            _ => {}
        }
    }
    // C18: all generation draws of this history distinct
    let mut seen = HashSet::new();
    if draws.len() < 65536 {
        for g in &draws {
            if !seen.insert(*g) {
                add_oracle(rep, &["C18"], "generation-drawn-twice", format!("generation {g} drawn twice within one history of {} draws", draws.len()),
                    lines.join("\n"), "");
                break;
            }
        }
    }
    PENDING.with(|q| {
        q.borrow_mut().push(Pending {
            arch: arch.to_string(),
            hist_id,
            lines,
            impl_outs,
            cmds,
            truth: Vec::new(),
            truth_props: Vec::new(),
        })
    });
    let n = PENDING.with(|q| q.borrow().len());
    if n >= 64 {
        flush(rep);
    }
}

pub struct Pending {
    pub arch: String,
    pub hist_id: u64,
    pub lines: Vec<String>,
    pub impl_outs: Vec<String>,
    pub cmds: Vec<String>,
    /// Ground truth per op (engine `scn`): what the true call chain demands as the answer
    /// (without statistics), and the scenario group the op belongs to.
    pub truth: Vec<Option<(String, u32, String)>>,
    /// Properties a ground-truth failure bears on.
    pub truth_props: Vec<String>,
}

pub fn push_pending(rep: &mut Report, p: Pending) {
    PENDING.with(|q| q.borrow_mut().push(p));
    let n = PENDING.with(|q| q.borrow().len());
    if n >= 64 {
        flush(rep);
    }
}

thread_local! {
    static PENDING: std::cell::RefCell<Vec<Pending>> = const { std::cell::RefCell::new(Vec::new()) };
}

/// Sends all pending histories to one Lean driver process and compares.
pub fn flush(rep: &mut Report) {
    let batch: Vec<Pending> = PENDING.with(|q| std::mem::take(&mut *q.borrow_mut()));
    if batch.is_empty() {
        return;
    }
    let mut all: Vec<String> = Vec::new();
    for b in &batch {
        all.extend(b.lines.iter().cloned());
    }
    let outs = run_model(&all);
    let mut pos = 0;
    for b in batch {
        let n = b.lines.len();
        compare_history(rep, &b, &outs[pos..pos + n]);
        pos += n;
    }
}

fn compare_history(rep: &mut Report, b: &Pending, raw_model_outs: &[String]) {
    let arch = b.arch.as_str();
    let hist_id = b.hist_id;
    let lines = &b.lines;
    let impl_outs = &b.impl_outs;
    let cmds = &b.cmds;
    rep.cases += lines.len() as u64 - 1;
    let mut branches: Vec<String> = Vec::new();
    let mut specs: Vec<Option<String>> = Vec::new();
    let mut raws: Vec<Option<String>> = Vec::new();
    let model_outs: Vec<String> = raw_model_outs
        .iter()
        .cloned()
        .map(|a| {
            let (a, br) = crate::model::split_branch(&a);
            if let Some(br) = &br {
                rep.count(&format!("{arch} model branch {br}"));
            }
            branches.push(br.unwrap_or_default());
            let (a, raw) = crate::model::split_raw(&a);
            raws.push(raw);
            let (a, spec) = crate::model::split_spec(&a);
            if spec.is_some() {
                rep.count(&format!("{arch} in the domain of the C05 theorems"));
            }
            specs.push(spec);
            a
        })
        .collect();
    // Ground truth (engine `scn`): first make sure the DWARF specification confirms the
    // generator's truth for every single step (otherwise the scenario is a generator bug, not a
    // violation), then judge the implementation against the truth.
    if !b.truth.is_empty() {
        let strip = |o: &str| -> String {
            o.split(' ')
                .filter(|t| !t.starts_with("stats=") && !t.starts_with("t="))
                .collect::<Vec<_>>()
                .join(" ")
        };
        let mut bad_groups: std::collections::HashSet<u32> = std::collections::HashSet::new();
        for (idx, t) in b.truth.iter().enumerate() {
            if let Some((want, group, _)) = t {
                if cmds[idx] == "unwind" {
                    match &raws[idx] {
                        Some(sp) if sp == want => {}
                        other => {
                            bad_groups.insert(*group);
                            rep.count("scn generator check: truth not confirmed by the DWARF specification");
                            if rep.notes.len() < 12 {
                                rep.notes.push(format!("GENERATOR: truth `{want}` vs spec `{other:?}` for {}", lines[idx]));
                            }
                        }
                    }
                }
            }
        }
        for (idx, t) in b.truth.iter().enumerate() {
            if let Some((want, group, tag)) = t {
                if bad_groups.contains(group) {
                    continue;
                }
                rep.count("scn steps/walks judged against ground truth");
                let got = strip(&impl_outs[idx]);
                // walks are compared on the frame list only
                let (got_c, want_c) = if cmds[idx] == "iter" {
                    (got.split(' ').next().unwrap_or("").to_string(), want.split(' ').next().unwrap_or("").to_string())
                } else {
                    (got.clone(), want.clone())
                };
                if got_c != want_c {
                    let props: Vec<&str> = b.truth_props.iter().map(|s| s.as_str()).collect();
                    add_oracle(rep, &props, &format!("scn-{arch}-{}-differs-from-true-chain-{}{}", cmds[idx], branches[idx], tag),
                        format!("the true call chain demands {want_c}"), context_of(lines, idx), &got_c);
                }
            }
        }
    }
    // C20: an exact repeat of a call whose rule is cacheable (per the model's branch) must be
    // counted as a hit by the implementation and must not touch section data.
    let parse_stats = |o: &str| -> Option<Vec<u64>> {
        let t = o.split(' ').find_map(|t| t.strip_prefix("stats="))?;
        let v: Vec<u64> = t.split(',').filter_map(|x| u64::from_str_radix(x, 16).ok()).collect();
        if v.len() == 4 { Some(v) } else { None }
    };
    let strip_id = |l: &str| -> String { l.splitn(3, ' ').nth(2).unwrap_or("").to_string() };
    for idx in 1..lines.len() {
        if cmds[idx] != "unwind" || cmds[idx - 1] != "unwind" || strip_id(&lines[idx]) != strip_id(&lines[idx - 1]) {
            continue;
        }
        let cacheable = matches!(branches[idx - 1].as_str(), "hit" | "row-translated" | "uncovered" | "no-module" | "no-data" | "lookup-failed" | "index-failed");
        if !cacheable {
            continue;
        }
        if let (Some(a), Some(b)) = (parse_stats(&impl_outs[idx - 1]), parse_stats(&impl_outs[idx])) {
            let touched = impl_outs[idx].contains(" t=1");
            if b[0] != a[0] + 1 || touched {
                add_oracle(rep, &["C20"], "repeat-of-cacheable-call-not-a-hit",
                    format!("an immediately repeated call for an address whose rule is cacheable was not served from the cache (stats {a:?} -> {b:?}, section data touched: {touched})"),
                    context_of(lines, idx), &impl_outs[idx]);
            }
        }
    }
    // C05 / C01: the implementation against the DWARF specification, wherever the theorems'
    // hypotheses hold (decided by the Lean driver)
    for (idx, spec) in specs.iter().enumerate() {
        if let Some(expect) = spec {
            let got: String = impl_outs[idx]
                .split(' ')
                .filter(|t| !t.starts_with("stats=") && !t.starts_with("t="))
                .collect::<Vec<_>>()
                .join(" ");
            if &got != expect && expect.starts_with("done ") {
                let kind = if lines[idx].contains(" kind=ra ") { "caller" } else { "first" };
                add_oracle(rep, &["C05", "C01", "C11"], &format!("dwarf-undefined-ra-not-end-of-stack-{arch}-{kind}-{}", branches[idx]),
                    "the row declares the return address undefined (root function) but the step does not end the walk".to_string(),
                    context_of(lines, idx), &got);
            } else if &got != expect {
                let is_ra = lines[idx].contains(" kind=ra ");
                let props: &[&str] = if branches[idx] == "hit" {
                    // the row at this address says otherwise: a wrong rule was served from the cache
                    if is_ra { &["C05", "C01", "C06", "C13"] } else { &["C05", "C01", "C06"] }
                } else if is_ra { &["C05", "C01", "C13"] } else { &["C05", "C01"] };
                add_oracle(rep, props, &format!("dwarf-step-differs-from-spec-{arch}-{}", branches[idx]),
                    format!("one step does not do what DWARF prescribes for the row: expected {expect}"),
                    context_of(lines, idx), &got);
            }
        }
    }
    rep.compared_with_model += model_outs.len() as u64 - 1;
    for (idx, ((line, i), m)) in lines.iter().zip(impl_outs.iter()).zip(model_outs.iter()).enumerate() {
        rep.note_distinct(&format!("{hist_id}:{}", &line[line.find(' ').map(|x| x + 1).unwrap_or(0)..]));
        // section accesses: the property (C20) demands none on a hit; on a miss the model says
        // "touched", but an implementation that gets by with fewer accesses (a memo, a
        // smarter lookup) is not wrong - only the hit side is compared strictly
        let i_norm: String;
        let i = if m.contains(" t=1") && i.contains(" t=0") {
            i_norm = i.replace(" t=0", " t=1");
            &i_norm
        } else {
            i
        };
        if i != m {
            let cmd = &cmds[idx];
            let mut props: Vec<String> = Vec::new();
            let br = &branches[idx];
            let is_ra = line.contains(" kind=ra ");
            for pid in ALL_PROPS {
                if project_world(pid, cmd, arch, i, br, is_ra) != project_world(pid, cmd, arch, m, br, is_ra) {
                    props.push(pid.to_string());
                }
            }
            rep.add_finding(Finding {
                props,
                kind: "correspondence".into(),
                key: format!("world-{arch}-{cmd}-{}", branches[idx]),
                what: format!("`{cmd}` differs from the Lean model (FH/World.lean)"),
                case: context_of(lines, idx),
                impl_out: i.clone(),
                model_out: m.clone(),
            });
            break; // later differences are consequences of diverged state
        }
    }
    if hist_id % 97 == 0 {
        if let Some(l) = lines.iter().find(|l| l.starts_with("unwind")) {
            rep.sample(format!("history {hist_id} ({} ops), e.g. {l}", lines.len() - 1));
        }
    }
}

fn no_overlap(live: &[String], mods: &BTreeMap<String, (ModSpec, framehop::Module<Bytes>)>) -> bool {
    let mut r: Vec<(u64, u64)> = live.iter().map(|m| (mods[m].0.start, mods[m].0.end)).collect();
    r.sort();
    r.windows(2).all(|w| w[0].1 <= w[1].0 && w[0].0 != w[1].0)
}

/// A stack reader whose first failed read makes the whole stack readable afterwards (a
/// profiler that fetches more of the sampled stack after a failure): `read_stack` is `FnMut`,
/// and polling the iterator again after an `Err` must do what calling `unwind_frame` again does.
struct Healing<'a> {
    mem: &'a crate::mem::MemDesc,
    healed: crate::mem::MemDesc,
    heal: bool,
    failed: std::cell::Cell<bool>,
}

impl<'a> Healing<'a> {
    fn new(mem: &'a crate::mem::MemDesc, heal: bool) -> Self {
        let mut healed = mem.clone();
        healed.cut = None;
        if healed.default == crate::mem::Dflt::Fail {
            healed.default = crate::mem::Dflt::Ident;
        }
        for e in healed.entries.iter_mut() {
            if e.1.is_none() {
                e.1 = Some(e.0 ^ 0x5a5a);
            }
        }
        Healing { mem, healed, heal, failed: std::cell::Cell::new(false) }
    }
    fn read(&self, a: u64) -> Result<u64, ()> {
        if self.heal && self.failed.get() {
            return self.healed.read(a);
        }
        let r = self.mem.read(a);
        if r.is_err() {
            self.failed.set(true);
        }
        r
    }
}

fn manual_fold<H: ArchH>(unw: &H::Unw, pc: u64, regs: &RegsAny, mem: &crate::mem::MemDesc, extra: u64, max: u64, heal: bool) -> String {
    use framehop::{FrameAddress, Unwinder};
    let mut cache = H::new_cache();
    let mut items = vec![format!("ip:{}", hex(pc))];
    let mut g = H::to_fh(regs);
    let hr = Healing::new(mem, heal);
    let mut rs = |a: u64| hr.read(a);
    let mut addr = FrameAddress::from_instruction_pointer(pc);
    let mut fuel = max.saturating_sub(1);
    let r = catch(|| {
        loop {
            if fuel == 0 {
                items.push("cap".into());
                return;
            }
            fuel -= 1;
            match unw.unwind_frame(addr, &mut g, &mut cache, &mut rs) {
                Ok(Some(ra)) => match FrameAddress::from_return_address(ra) {
                    Some(a) => {
                        items.push(format!("ra:{}", hex(ra)));
                        addr = a;
                    }
                    None => {
                        items.push("err:null".into());
                        break;
                    }
                },
                Ok(None) => {
                    items.push("none".into());
                    // finished: further calls keep returning none
                    for _ in 0..extra {
                        if fuel == 0 {
                            items.push("cap".into());
                            return;
                        }
                        fuel -= 1;
                        items.push("none".into());
                    }
                    // the iterator-side loop tests the cap before it tests "nothing left to do"
                    if fuel == 0 {
                        items.push("cap".into());
                    }
                    return;
                }
                Err(e) => {
                    items.push(crate::rules::show_err(&e));
                    break;
                }
            }
        }
        // After an error the iterator re-runs the step on the registers as they are now.
        let mut extra = extra;
        while extra > 0 {
            if fuel == 0 {
                items.push("cap".into());
                return;
            }
            fuel -= 1;
            extra -= 1;
            match unw.unwind_frame(addr, &mut g, &mut cache, &mut rs) {
                Ok(Some(ra)) => match FrameAddress::from_return_address(ra) {
                    Some(a) => {
                        items.push(format!("ra:{}", hex(ra)));
                        addr = a;
                    }
                    None => items.push("err:null".into()),
                },
                Ok(None) => {
                    items.push("none".into());
                    for _ in 0..extra {
                        if fuel == 0 {
                            items.push("cap".into());
                            return;
                        }
                        fuel -= 1;
                        items.push("none".into());
                    }
                    // the iterator-side loop tests the cap before it tests "nothing left to do"
                    if fuel == 0 {
                        items.push("cap".into());
                    }
                    return;
                }
                Err(e) => items.push(crate::rules::show_err(&e)),
            }
        }
        if fuel == 0 {
            items.push("cap".into());
        }
    });
    if r.is_err() {
        items.push("panic".into());
    }
    items.join(",")
}

fn iter_fresh<H: ArchH>(unw: &H::Unw, pc: u64, regs: &RegsAny, mem: &crate::mem::MemDesc, extra: u64, max: u64, via_trait: bool, heal: bool) -> String {
    use framehop::Unwinder;
    let mut cache = H::new_cache();
    let mut items: Vec<String> = Vec::new();
    let hr = Healing::new(mem, heal);
    let mut rs = |a: u64| hr.read(a);
    let r = catch(|| {
        let mut it = unw.iter_frames(pc, H::to_fh(regs), &mut cache, &mut rs);
        let mut fuel = max;
        let mut extra = extra;
        let mut finished = false;
        let mut after_done = false;
        loop {
            if fuel == 0 {
                items.push("cap".to_string());
                break;
            }
            if finished && extra == 0 {
                break;
            }
            fuel -= 1;
            let item = if via_trait {
                fallible_iterator::FallibleIterator::next(&mut it)
            } else {
                it.next()
            };
            if finished {
                extra -= 1;
            }
            let fin = !matches!(item, Ok(Some(_)));
            finished = finished || fin;
            if matches!(item, Ok(None)) {
                after_done = true;
            }
            let _ = after_done;
            items.push(show_item(&item));
        }
    });
    if r.is_err() {
        items.push("panic".into());
    }
    items.join(",")
}

/// C08 with several modules: the same modules placed in a different order and at different
/// distances (still non-overlapping, each moved as a whole) must give the same outcome for
/// corresponding addresses. Implementation against itself; no model involved.
fn placement_twins<H: ArchH>(rep: &mut Report, p: &mut Prng, id: u64) {
    let arch = H::ARCH;
    let n_mods = 2 + p.below(4) as usize;
    let mods_a: Vec<ModSpec> = gen_modules(p, arch, n_mods, None).into_iter().filter(|m| m.base_avma <= m.start).collect();
    if mods_a.len() < 2 {
        return;
    }
    // x86-64 rows that compute the CFA or a register from the instruction pointer (DWARF
    // register 16) legitimately depend on where the code is mapped
    let uses_ip = |m: &ModSpec| match &m.data {
        DataSpec::Dwarf(_, fdes) => fdes.iter().any(|f| {
            f.rows.iter().any(|(_, r)| {
                let ip_rule = |x: &RR| matches!(x, RR::Register(DReg::Ra) | RR::ExprReg(DReg::Ra, _) | RR::ValExprReg(DReg::Ra, _));
                matches!(r.cfa, Cfa::RegOff(DReg::Ra, _) | Cfa::ExprRegOff(DReg::Ra, _)) || ip_rule(&r.fp) || ip_rule(&r.ra)
            })
        }),
        _ => false,
    };
    if arch == Arch::X64 && mods_a.iter().any(uses_ip) {
        return;
    }
    // placement B: another order, packed so that small modules land between a module's base
    // address and the start of its mapped range
    let mut order: Vec<usize> = (0..mods_a.len()).collect();
    for i in (1..order.len()).rev() {
        order.swap(i, p.below(i as u64 + 1) as usize);
    }
    let region: u64 = *p.pick(&[0x20_0000u64, 0x7f11_0000_0000, 0x5555_0000_0000, 0xffff_8000_0010_0000, 0xffff_ff80_0020_0000]);
    let mut cur = region;
    let mut mods_b: Vec<Option<ModSpec>> = vec![None; mods_a.len()];
    for &i in &order {
        let m = &mods_a[i];
        let size = m.end - m.start;
        let delta = cur.wrapping_sub(m.start);
        let mut nm = m.clone();
        nm.start = cur;
        nm.end = cur + size;
        nm.base_avma = m.base_avma.wrapping_add(delta);
        if nm.base_avma > nm.start {
            // moving down would wrap the base address below zero: keep this placement legal
            return;
        }
        mods_b[i] = Some(nm);
        cur += size + if size == 0 { 1 } else { 0 } + if p.chance(1, 2) { 0 } else { p.below(0x800) };
    }
    let mods_b: Vec<ModSpec> = mods_b.into_iter().map(|m| m.unwrap()).collect();
    let mut wa: World<H> = World::new();
    let mut wb: World<H> = World::new();
    let mut la = vec![wa.init_line(0, cache_entry_count())];
    let mut lb = la.clone();
    let mut setup = |w: &mut World<H>, mods: &[ModSpec], lines: &mut Vec<String>| {
        let mut ops = vec![Op::New { u: "u0".into() }, Op::NewCache { c: "c0".into() }];
        for (i, m) in mods.iter().enumerate() {
            ops.push(Op::Mod { m: format!("m{i}"), spec: m.clone() });
            ops.push(Op::Add { u: "u0".into(), m: format!("m{i}") });
        }
        for o in ops {
            lines.push(o.line(lines.len() as u64));
            w.exec(&o);
        }
    };
    setup(&mut wa, &mods_a, &mut la);
    setup(&mut wb, &mods_b, &mut lb);
    for _ in 0..24 {
        let mi = p.below(mods_a.len() as u64) as usize;
        let (ma, mb) = (&mods_a[mi], &mods_b[mi]);
        let addrs = interesting_addrs(ma);
        let inside: Vec<u64> = addrs.into_iter().filter(|a| *a >= ma.start && *a < ma.end).collect();
        if inside.is_empty() {
            continue;
        }
        let a = *p.pick(&inside);
        let delta = mb.start.wrapping_sub(ma.start);
        let b = a.wrapping_add(delta);
        let is_ra = p.chance(1, 3) && a > ma.start;
        let regs_a = gen_regs(p, arch, a);
        let mem = gen_mem(p, &regs_a);
        if mem.entries.iter().any(|(_, v)| *v == Some(a) || *v == Some(b)) {
            continue; // a stack word equal to the code address would have to move too
        }
        let regs_b = match &regs_a {
            RegsAny::X(r) => RegsAny::X(crate::rules::RegsX { ip: b, r: r.r }),
            other => other.clone(),
        };
        let oa = Op::Unwind { u: "u0".into(), c: "c0".into(), is_ra, addr: a, regs: regs_a, mem: mem.clone() };
        let ob = Op::Unwind { u: "u0".into(), c: "c0".into(), is_ra, addr: b, regs: regs_b, mem };
        la.push(oa.line(la.len() as u64));
        lb.push(ob.line(lb.len() as u64));
        let (ra, _) = wa.exec(&oa);
        let (rb, _) = wb.exec(&ob);
        let strip = |s: &str| s.split(' ').filter(|t| !t.starts_with("stats=") && !t.starts_with("t=")).collect::<Vec<_>>().join(" ");
        rep.count(&format!("{} multi-module placement twins", arch.name()));
        // an unchanged instruction pointer is the (moved) input
        // the input address itself may come back (unchanged ip, or "return address = ip" rows)
        let norm = |s: String, x: u64| {
            if arch == Arch::A64 {
                return s;
            }
            s.split(' ')
                .map(|t| if t == format!("ip={}", hex(x)) { "ip=<input>".to_string() } else if t == format!("frame:{}", hex(x)) { "frame:<input>".to_string() } else { t.to_string() })
                .collect::<Vec<_>>()
                .join(" ")
        };
        let na = norm(strip(&ra), a);
        let nb = norm(strip(&rb), b);
        // (a value that merely coincides with the input address in one placement is not the input)
        if na != nb && strip(&ra) != strip(&rb) {
            add_oracle(rep, &["C08"], "multi-module-placement-changes-outcome",
                format!("the same modules placed differently (each moved as a whole, no overlap) give another outcome for the corresponding address; placement B:\n{}\n=> {}", lb.join("\n"), strip(&rb)),
                la.join("\n"), &strip(&ra));
            return;
        }
    }
    let _ = id;
}

/// Direct oracles for C13 and C12 that need no model: FDEs with one row each whose CFA offsets
/// are pairwise different (so the answer shows which FDE was consulted), adjacent or separated,
/// split over one or two adjacent modules, boundaries on and off page boundaries, tables on both
/// sides of 16 entries; written in all three presentations. Every boundary is probed as pc and
/// as return address; the expected answer is computed here from the row of the FDE that
/// contains the lookup address (pc: the address; return address: the address minus one).
fn boundary_scenarios<H: ArchH>(rep: &mut Report, p: &mut Prng, _id: u64) {
    let arch = H::ARCH;
    let n = *p.pick(&[2usize, 3, 5, 8, 15, 16, 17, 24]);
    let base_svma: u64 = *p.pick(&[0u64, 0x1000, 0x40_0000]);
    let base_avma: u64 = *p.pick(&[0x40_0000u64, 0x5555_5555_0000, 0x7f00_0000_0000]);
    // (offset 0: with a stated base of 0 the first function starts at stated address 0)
    let text_off: u64 = *p.pick(&[0u64, 0x1000, 0x2000, 0x1f00]);
    let mut fdes: Vec<FdeSpec> = Vec::new();
    let mut cur = base_svma + text_off;
    for i in 0..n {
        let len = match p.below(5) {
            0 => 1,
            1 => 0x10 + p.below(0x40),
            // end exactly on a page boundary
            2 | 3 => 0x1000 - (cur % 0x1000),
            _ => 0x100 + p.below(0x200),
        };
        let k = match arch {
            Arch::X64 => 8 * (i as i64 % 30 + 2),
            Arch::A64 => 16 * (i as i64 % 30 + 1),
        };
        let row = match arch {
            Arch::X64 => RowSpec { cfa: Cfa::RegOff(DReg::Sp, k), fp: RR::Same, ra: RR::Offset(-8) },
            Arch::A64 => RowSpec { cfa: Cfa::RegOff(DReg::Sp, k), fp: RR::Offset(-16), ra: RR::Offset(-8) },
        };
        fdes.push(FdeSpec { start: cur, len, rows: vec![(0, row)], eval_fails: false, pac: false });
        cur += len;
        if p.chance(1, 4) {
            cur += 1 + p.below(0x30);
        }
    }
    let end = cur;
    // one module, or two adjacent modules split at an FDE start
    let split = if n >= 3 && p.chance(1, 2) { Some(1 + p.below(n as u64 - 1) as usize) } else { None };
    let to_avma = |svma: u64| svma - base_svma + base_avma;
    let row_k = |f: &FdeSpec| match f.rows[0].1.cfa { Cfa::RegOff(_, k) => k as u64, _ => 0 };
    let expect = |lookup_avma: u64, regs: &RegsAny, mem: &crate::mem::MemDesc| -> Option<String> {
        // (a lookup address below the image - the address before a function at the very start -
        // lies in no FDE)
        let svma = lookup_avma.checked_sub(base_avma)? + base_svma;
        let f = fdes.iter().find(|f| f.start <= svma && svma - f.start < f.len)?;
        let k = row_k(f);
        Some(match regs {
            RegsAny::X(r) => {
                let cfa = r.sp() + k;
                let ra = mem.read(cfa - 8).ok()?;
                let mut after = r.clone();
                after.ip = ra;
                after.r[7] = cfa;
                format!("frame:{} {}", hex(ra), RegsAny::X(after).show())
            }
            RegsAny::A(r) => {
                let cfa = r.sp + k;
                let lr = mem.read(cfa - 8).ok()? & r.mask;
                let fp = mem.read(cfa - 16).ok()?;
                let after = crate::rules::RegsA { mask: r.mask, lr, sp: cfa, fp };
                format!("frame:{} {}", hex(lr), RegsAny::A(after).show())
            }
        })
    };
    // probes
    let mut probes: Vec<(u64, bool)> = Vec::new();
    for f in &fdes {
        let a = to_avma(f.start);
        let e = to_avma(f.start + f.len);
        probes.extend_from_slice(&[(a, false), (a, true), (a + 1, true), (e, true), (e - 1, false)]);
        if a > base_avma + text_off {
            probes.push((a - 1, false));
        }
    }
    let mut answers: Vec<Vec<String>> = Vec::new();
    let mut lines_per: Vec<Vec<String>> = Vec::new();
    let mut order: Vec<usize> = (0..n).collect();
    for i in (1..n).rev() {
        order.swap(i, p.below(i as u64 + 1) as usize);
    }
    let enc = *p.pick(&[PtrEnc::Abs8, PtrEnc::PcRel4, PtrEnc::PcRel8]);
    let n_cies = 1 + p.below(3) as u8;
    let sp0 = 0x7ffc_0000_1000u64;
    let mem = crate::mem::MemDesc::new(crate::mem::Dflt::Plus(0x1111_0000));
    for pres in [Pres::Hdr, Pres::Idx, Pres::Dbg] {
        let mk = |lo: usize, hi: usize| -> ModSpec {
            let mut fs: Vec<FdeSpec> = order.iter().filter(|i| **i >= lo && **i < hi).map(|i| fdes[*i].clone()).collect();
            if fs.is_empty() {
                fs.push(fdes[lo].clone());
            }
            let start = to_avma(fdes[lo].start);
            let stop = if hi == n { to_avma(end) } else { to_avma(fdes[hi].start) };
            ModSpec { start, end: stop, base_avma, base_svma, data: DataSpec::Dwarf(pres, fs), enc, hdr_abs: true, dbg_version: 4, n_cies }
        };
        let mods: Vec<ModSpec> = match split {
            Some(k) => vec![mk(0, k), mk(k, n)],
            None => vec![mk(0, n)],
        };
        let mut w: World<H> = World::new();
        let mut lines = vec![w.init_line(0, cache_entry_count())];
        let mut ops = vec![Op::New { u: "u0".into() }, Op::NewCache { c: "c0".into() }];
        for (i, m) in mods.iter().enumerate() {
            ops.push(Op::Mod { m: format!("m{i}"), spec: m.clone() });
            ops.push(Op::Add { u: "u0".into(), m: format!("m{i}") });
        }
        for o in ops {
            lines.push(o.line(lines.len() as u64));
            w.exec(&o);
        }
        let mut ans = Vec::new();
        for (j, (addr, is_ra)) in probes.iter().enumerate() {
            let sp = sp0 + 16 * (j as u64 % 8);
            let regs = match arch {
                Arch::X64 => {
                    let mut r = [0u64; 16];
                    r[7] = sp;
                    r[6] = sp + 0x800;
                    RegsAny::X(crate::rules::RegsX { ip: *addr, r })
                }
                Arch::A64 => RegsAny::A(crate::rules::RegsA { mask: u64::MAX, lr: 0x5555_0000_1000, sp, fp: sp + 0x800 }),
            };
            let o = Op::Unwind { u: "u0".into(), c: "c0".into(), is_ra: *is_ra, addr: *addr, regs, mem: mem.clone() };
            lines.push(o.line(lines.len() as u64));
            let (a, _) = w.exec(&o);
            ans.push(a.split(' ').filter(|t| !t.starts_with("stats=") && !t.starts_with("t=")).collect::<Vec<_>>().join(" "));
        }
        answers.push(ans);
        lines_per.push(lines);
    }
    for (j, (addr, is_ra)) in probes.iter().enumerate() {
        let sp = sp0 + 16 * (j as u64 % 8);
        let regs = match arch {
            Arch::X64 => {
                let mut r = [0u64; 16];
                r[7] = sp;
                r[6] = sp + 0x800;
                RegsAny::X(crate::rules::RegsX { ip: *addr, r })
            }
            Arch::A64 => RegsAny::A(crate::rules::RegsA { mask: u64::MAX, lr: 0x5555_0000_1000, sp, fp: sp + 0x800 }),
        };
        let lookup = if *is_ra { addr - 1 } else { *addr };
        let Some(want) = expect(lookup, &regs, &mem) else { continue };
        rep.count(&format!("{} boundary probes judged ({})", arch.name(), if *is_ra { "return address" } else { "pc" }));
        let differ = answers.iter().any(|a| a[j] != answers[0][j]);
        for (pi, pres) in ["eh_frame_hdr", "eh_frame", "debug_frame"].iter().enumerate() {
            let got = &answers[pi][j];
            if *got == want {
                continue;
            }
            // which property: the return address looked up without the minus one?
            let unshifted = if *is_ra { expect(*addr, &regs, &mem) } else { None };
            let (props, key): (&[&str], String) = if unshifted.as_deref() == Some(got.as_str()) {
                (&["C13"], "return-address-looked-up-without-minus-one".into())
            } else if differ {
                (&["C12"], format!("presentation-{pres}-consults-another-fde"))
            } else {
                (&["C01"], "lookup-consults-another-fde".into())
            };
            let upto = lines_per[pi].len() - (probes.len() - 1 - j);
            add_oracle(rep, props, &key,
                format!("{} {:#x}: the FDE containing the lookup address {:#x} prescribes {want} ({pres} presentation, {} FDEs{})", if *is_ra { "return address" } else { "pc" }, addr, lookup, n, if split.is_some() { ", two adjacent modules" } else { "" }),
                lines_per[pi][..upto].join("\n"), got);
            break;
        }
    }
}

pub fn run(tier: &str, seed: u64) -> Report {
    let mut rep = Report::new("hist");
    let mut p = Prng::new(seed.wrapping_mul(0x1234_5678_9abc_def1).wrapping_add(7));
    let (n_hist, n_ops) = if tier == "thorough" { (60000u64, 120usize) } else { (2500u64, 80usize) };
    let mut gens_x = Vec::new();
    for i in 0..n_hist {
        let arch = if i % 2 == 0 { Arch::X64 } else { Arch::A64 };
        let len = 10 + p.below(n_ops as u64) as usize;
        if i % 16 == 3 || i % 16 == 10 {
            match arch {
                Arch::X64 => boundary_scenarios::<X64H<MayAllocateDuringUnwind>>(&mut rep, &mut p, i),
                Arch::A64 => boundary_scenarios::<A64H<MayAllocateDuringUnwind>>(&mut rep, &mut p, i),
            }
            continue;
        }
        if i % 16 == 9 || i % 16 == 12 {
            match arch {
                Arch::X64 => placement_twins::<X64H<MayAllocateDuringUnwind>>(&mut rep, &mut p, i),
                Arch::A64 => placement_twins::<A64H<MayAllocateDuringUnwind>>(&mut rep, &mut p, i),
            }
            continue;
        }
        let h = if i % 16 == 15 || i % 16 == 6 { gen_adversarial(&mut p, arch) } else { gen_history(&mut p, arch, len) };
        match arch {
            Arch::X64 => run_history::<X64H<MayAllocateDuringUnwind>>(&mut rep, &h, i, &mut gens_x),
            Arch::A64 => run_history::<A64H<MayAllocateDuringUnwind>>(&mut rep, &h, i, &mut gens_x),
        }
    }
    flush(&mut rep);
    // C18 across histories: all draws of this process distinct while fewer than 65536.
    if gens_x.len() < 65536 {
        let mut seen = HashSet::new();
        for g in &gens_x {
            if !seen.insert(*g) {
                add_oracle(&mut rep, &["C18"], "generation-drawn-twice-process", format!("generation {g} drawn twice among {} draws of this process", gens_x.len()), String::new(), "");
                break;
            }
        }
    }
    // histories across the wrap of the 16-bit generation counter: the counter is advanced (by
    // creating unwinders) to just below 65536 first, so that unwinders of the history hold the
    // generations 0xfffc..=0xffff, 0, 1, ... - they must behave like any others (C06, C18 within
    // the history, C20: generation 0 is not special)
    let n_wrap = if tier == "thorough" { 48u64 } else { 8 };
    let mut scratch = Vec::new();
    for k in 0..n_wrap {
        let target = 0u16.wrapping_sub(p.below(5) as u16);
        let mut burnt = 0u32;
        while framehop::verif_hooks::peek_global_modules_generation() != target && burnt < 70000 {
            let _ = <X64H<MayAllocateDuringUnwind> as ArchH>::new_unw();
            burnt += 1;
        }
        let arch = if k % 2 == 0 { Arch::X64 } else { Arch::A64 };
        let len = 30 + p.below(60) as usize;
        let h = gen_history(&mut p, arch, len);
        match arch {
            Arch::X64 => run_history::<X64H<MayAllocateDuringUnwind>>(&mut rep, &h, n_hist + k, &mut scratch),
            Arch::A64 => run_history::<A64H<MayAllocateDuringUnwind>>(&mut rep, &h, n_hist + k, &mut scratch),
        }
        rep.count("histories across the generation counter wrap");
    }
    flush(&mut rep);
    rep.notes.push(format!("histories={n_hist} generation_draws={} wrap_histories={n_wrap}", gens_x.len()));
    rep
}
