//! Small utilities: PRNG, hex, JSON writing, panic capture.
use std::cell::RefCell;
use std::collections::BTreeMap;
use std::fmt::Write as _;

#[derive(Clone)]
pub struct Prng(pub u64);

impl Prng {
    pub fn new(seed: u64) -> Self {
        Prng(seed ^ 0x9e37_79b9_7f4a_7c15)
    }
    pub fn next(&mut self) -> u64 {
        self.0 = self.0.wrapping_add(0x9e37_79b9_7f4a_7c15);
        let mut z = self.0;
        z = (z ^ (z >> 30)).wrapping_mul(0xbf58_476d_1ce4_e5b9);
        z = (z ^ (z >> 27)).wrapping_mul(0x94d0_49bb_1331_11eb);
        z ^ (z >> 31)
    }
    pub fn below(&mut self, n: u64) -> u64 {
        if n == 0 {
            0
        } else {
            self.next() % n
        }
    }
    pub fn pick<'a, T>(&mut self, xs: &'a [T]) -> &'a T {
        &xs[self.below(xs.len() as u64) as usize]
    }
    pub fn chance(&mut self, num: u64, den: u64) -> bool {
        self.below(den) < num
    }
}

pub fn hex(v: u64) -> String {
    format!("{:x}", v)
}

pub fn hex_i(v: i64) -> String {
    if v < 0 {
        format!("-{:x}", (v as i128).unsigned_abs())
    } else {
        format!("{:x}", v)
    }
}

pub fn json_str(s: &str) -> String {
    let mut o = String::with_capacity(s.len() + 2);
    o.push('"');
    for c in s.chars() {
        match c {
            '"' => o.push_str("\\\""),
            '\\' => o.push_str("\\\\"),
            '\n' => o.push_str("\\n"),
            '\t' => o.push_str("\\t"),
            c if (c as u32) < 0x20 => {
                let _ = write!(o, "\\u{:04x}", c as u32);
            }
            c => o.push(c),
        }
    }
    o.push('"');
    o
}

thread_local! {
    static LAST_PANIC: RefCell<Option<String>> = const { RefCell::new(None) };
    static CATCHING: std::cell::Cell<bool> = const { std::cell::Cell::new(false) };
}

pub fn install_quiet_panic_hook() {
    std::panic::set_hook(Box::new(|info| {
        let loc = info
            .location()
            .map(|l| format!("{}:{}", l.file(), l.line()))
            .unwrap_or_else(|| "?".into());
        let msg = if let Some(s) = info.payload().downcast_ref::<&str>() {
            s.to_string()
        } else if let Some(s) = info.payload().downcast_ref::<String>() {
            s.clone()
        } else {
            "?".into()
        };
        if !CATCHING.with(|c| c.get()) {
            eprintln!("harness panic at {loc}: {msg}");
        }
        LAST_PANIC.with(|p| *p.borrow_mut() = Some(format!("{loc}: {msg}")));
    }));
}

/// Runs `f`, returning `Err(location: message)` if it panicked.
pub fn catch<T>(f: impl FnOnce() -> T) -> Result<T, String> {
    let prev = CATCHING.with(|c| c.replace(true));
    let r = std::panic::catch_unwind(std::panic::AssertUnwindSafe(f));
    CATCHING.with(|c| c.set(prev));
    match r {
        Ok(v) => Ok(v),
        Err(_) => Err(LAST_PANIC
            .with(|p| p.borrow_mut().take())
            .unwrap_or_else(|| "?".into())),
    }
}

/// Whether a panic is framehop's own: every panic except those located inside the three
/// third-party *parsers* the model excludes (gimli, macho-unwind-info, pe-unwind-info). A panic
/// located in a utility crate (e.g. arrayvec's capacity panic) or in core is raised on behalf of
/// the framehop code that called it.
pub fn panic_in_own_code(loc: &str) -> bool {
    !(loc.contains("/gimli-") || loc.contains("/macho-unwind-info-") || loc.contains("/pe-unwind-info-"))
}

#[derive(Default, Clone)]
pub struct Finding {
    /// Properties this finding bears on.
    pub props: Vec<String>,
    /// "oracle" (the implementation fails the property on this input) or
    /// "correspondence" (implementation and model differ).
    pub kind: String,
    /// Stable key used to match known findings.
    pub key: String,
    pub what: String,
    pub case: String,
    pub impl_out: String,
    pub model_out: String,
}

#[derive(Default)]
pub struct Report {
    pub engine: String,
    pub cases: u64,
    pub compared_with_model: u64,
    pub findings: Vec<Finding>,
    pub finding_counts: BTreeMap<String, u64>,
    pub histogram: BTreeMap<String, u64>,
    pub distinct: std::collections::HashSet<u64>,
    pub samples: Vec<String>,
    pub notes: Vec<String>,
}

impl Report {
    pub fn new(engine: &str) -> Self {
        Report {
            engine: engine.into(),
            ..Default::default()
        }
    }
    pub fn count(&mut self, key: &str) {
        beat();
        *self.histogram.entry(key.to_string()).or_insert(0) += 1;
    }
    pub fn add_finding(&mut self, f: Finding) {
        let k = format!("{}|{}|{}", f.kind, f.props.join(","), f.key);
        let n = self.finding_counts.entry(k).or_insert(0);
        *n += 1;
        // Keep the first few of each kind; they are the replays.
        if *n <= 3 {
            self.findings.push(f);
        }
    }
    pub fn note_distinct(&mut self, line: &str) {
        use std::hash::{Hash, Hasher};
        let mut h = std::collections::hash_map::DefaultHasher::new();
        line.hash(&mut h);
        self.distinct.insert(h.finish());
    }
    pub fn sample(&mut self, s: String) {
        if self.samples.len() < 8 {
            self.samples.push(s);
        }
    }
    pub fn to_json(&self) -> String {
        let mut o = String::new();
        o.push_str("{\n");
        let _ = writeln!(o, " \"engine\": {},", json_str(&self.engine));
        let _ = writeln!(o, " \"cases\": {},", self.cases);
        let _ = writeln!(o, " \"compared_with_model\": {},", self.compared_with_model);
        let _ = writeln!(o, " \"distinct\": {},", self.distinct.len());
        o.push_str(" \"histogram\": {");
        let mut first = true;
        for (k, v) in &self.histogram {
            if !first {
                o.push(',');
            }
            first = false;
            let _ = write!(o, "\n  {}: {}", json_str(k), v);
        }
        o.push_str("\n },\n \"finding_counts\": {");
        first = true;
        for (k, v) in &self.finding_counts {
            if !first {
                o.push(',');
            }
            first = false;
            let _ = write!(o, "\n  {}: {}", json_str(k), v);
        }
        o.push_str("\n },\n \"findings\": [");
        first = true;
        for f in &self.findings {
            if !first {
                o.push(',');
            }
            first = false;
            let props: Vec<String> = f.props.iter().map(|p| json_str(p)).collect();
            let _ = write!(
                o,
                "\n  {{\"props\": [{}], \"kind\": {}, \"key\": {}, \"what\": {}, \"case\": {}, \"impl\": {}, \"model\": {}}}",
                props.join(","),
                json_str(&f.kind),
                json_str(&f.key),
                json_str(&f.what),
                json_str(&f.case),
                json_str(&f.impl_out),
                json_str(&f.model_out)
            );
        }
        o.push_str("\n ],\n \"samples\": [");
        first = true;
        for s in &self.samples {
            if !first {
                o.push(',');
            }
            first = false;
            let _ = write!(o, "\n  {}", json_str(s));
        }
        o.push_str("\n ],\n \"notes\": [");
        first = true;
        for s in &self.notes {
            if !first {
                o.push(',');
            }
            first = false;
            let _ = write!(o, "\n  {}", json_str(s));
        }
        o.push_str("\n ]\n}\n");
        o
    }
}

/// Progress counter for the watchdog: bumped by every histogram count and every executed
/// operation. An implementation that hangs in one call stops it.
pub static HEARTBEAT: std::sync::atomic::AtomicU64 = std::sync::atomic::AtomicU64::new(0);

pub fn beat() {
    HEARTBEAT.fetch_add(1, std::sync::atomic::Ordering::Relaxed);
}

/// The text of the operation in flight (for the watchdog's report), if the engine records it.
pub static IN_FLIGHT: std::sync::Mutex<String> = std::sync::Mutex::new(String::new());

/// Kills the process (exit code 7) when no progress was made for `limit_s` seconds, after
/// writing what was in flight to `<out>.inflight` (unless the engine keeps that file itself).
pub fn start_watchdog(limit_s: u64, out: Option<String>) {
    std::thread::spawn(move || {
        let mut last = HEARTBEAT.load(std::sync::atomic::Ordering::Relaxed);
        let mut still = 0u64;
        loop {
            std::thread::sleep(std::time::Duration::from_secs(1));
            let now = HEARTBEAT.load(std::sync::atomic::Ordering::Relaxed);
            if now != last {
                last = now;
                still = 0;
                continue;
            }
            still += 1;
            if still >= limit_s {
                eprintln!("watchdog: no progress for {limit_s} s - a call into the implementation does not return");
                if let Some(o) = &out {
                    let f = format!("{o}.inflight");
                    if !std::path::Path::new(&f).exists() {
                        if let Ok(t) = IN_FLIGHT.try_lock() {
                            if !t.is_empty() {
                                let _ = std::fs::write(&f, t.as_bytes());
                            }
                        }
                    }
                }
                std::process::exit(7);
            }
        }
    });
}
