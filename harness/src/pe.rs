//! PE x64: writer for `.pdata` / `UNWIND_INFO`, abstract description shared with the Lean
//! model, synthesized programs over the MS x64 prolog/epilog grammar, and the engine `pe`
//! (C03): ground-truth walks at every instruction boundary (prolog, body, epilog), plus a
//! differential part on arbitrary registers/stacks against (a) the Lean model and (b) the
//! reference implementation of the documented Microsoft unwind procedure that ships with
//! pe-unwind-info (`FunctionTableEntries::unwind_frame`).
use crate::hist::{push_pending, Pending};
use crate::mem::{Dflt, MemDesc};
use crate::rules::RegsX;
use crate::spec::*;
use crate::util::*;
use crate::world::*;
use framehop::MayAllocateDuringUnwind;
use pe_unwind_info::x86_64 as pex;

#[derive(Clone, Debug, PartialEq)]
pub enum PeOpSpec {
    Push(u8),              // UWOP_PUSH_NONVOL reg
    Alloc(u32),            // UWOP_ALLOC_SMALL / LARGE (chosen by size)
    AllocLargeRaw(u32),    // UWOP_ALLOC_LARGE with a raw 32-bit size (may be any value)
    SetFp,                 // UWOP_SET_FPREG
    SaveNonvol(u8, u32),   // UWOP_SAVE_NONVOL(_FAR) reg, offset
    SaveXmm(u8, u32),
    MachFrame(bool),
}

#[derive(Clone, Debug, PartialEq)]
pub struct PeInfoSpec {
    /// (prolog offset, op) in the order of the unwind code array (reverse prolog order).
    pub codes: Vec<(u8, PeOpSpec)>,
}

#[derive(Clone, Debug, PartialEq)]
pub struct PeFuncSpec {
    pub begin: u32,
    pub end: u32,
    pub frame_reg: Option<u8>,
    /// Frame register offset in bytes (multiple of 16, at most 240).
    pub frame_off: u8,
    pub infos: Vec<PeInfoSpec>,
    /// Text bytes of the function.
    pub bytes: Vec<u8>,
}

fn op_to_model(op: &PeOpSpec) -> String {
    match op {
        PeOpSpec::Push(r) => format!("p:{}", hex(*r as u64)),
        PeOpSpec::Alloc(n) | PeOpSpec::AllocLargeRaw(n) => format!("a:{}", hex(*n as u64)),
        PeOpSpec::SetFp => "f".into(),
        PeOpSpec::SaveNonvol(r, o) => format!("r:{}:{}", hex(*r as u64), hex(*o as u64)),
        PeOpSpec::SaveXmm(_, o) => format!("x:{}", hex(*o as u64)),
        PeOpSpec::MachFrame(e) => format!("m:{}", *e as u8),
    }
}

fn show_epi(i: &pex::FunctionEpilogInstruction) -> String {
    match i {
        pex::FunctionEpilogInstruction::AddSP(n) => format!("a_{}", hex(*n as u64)),
        pex::FunctionEpilogInstruction::AddSPFromFP(n) => format!("f_{}", hex(*n as u64)),
        pex::FunctionEpilogInstruction::Pop(r) => format!("p_{}", hex(*r as u8 as u64)),
    }
}

fn pe_register(n: u8) -> pex::Register {
    pex::Register::try_from(n).unwrap()
}

impl PeFuncSpec {
    /// `start@stop@infoOk@freg@foff@textOk@info^info@epilog~epilog`; the epilog table is
    /// produced by the real `parse_sequence` at every offset of the function.
    pub fn show(&self) -> String {
        let infos: Vec<String> = self
            .infos
            .iter()
            .map(|i| {
                i.codes
                    .iter()
                    .map(|(o, op)| format!("{}:{}", hex(*o as u64), op_to_model(op)))
                    .collect::<Vec<_>>()
                    .join(",")
            })
            .collect();
        let mut epis = Vec::new();
        for off in 0..self.bytes.len() {
            if let Ok(seq) = pex::FunctionEpilogInstruction::parse_sequence(&self.bytes[off..], self.frame_reg.map(pe_register)) {
                epis.push(format!("{}>{}", hex(off as u64), seq.iter().map(show_epi).collect::<Vec<_>>().join(".")));
            }
        }
        format!(
            "{}@{}@1@{}@{}@1@{}@{}",
            hex(self.begin as u64),
            hex(self.end as u64),
            self.frame_reg.map(|r| hex(r as u64)).unwrap_or_else(|| "-".into()),
            hex(self.frame_off as u64),
            infos.join("^"),
            epis.join("~")
        )
    }
}

fn write_codes(codes: &[(u8, PeOpSpec)]) -> Vec<u8> {
    let mut out = Vec::new();
    for (off, op) in codes {
        let mut slot = |code: u8, info: u8| {
            out.push(*off);
            out.push(code | (info << 4));
        };
        match op {
            PeOpSpec::Push(r) => slot(0, *r),
            PeOpSpec::Alloc(n) => {
                if *n >= 8 && *n <= 128 && n % 8 == 0 {
                    slot(2, (*n / 8 - 1) as u8);
                } else if n % 8 == 0 && *n / 8 <= 0xffff {
                    slot(1, 0);
                    out.extend_from_slice(&((*n / 8) as u16).to_le_bytes());
                } else {
                    slot(1, 1);
                    out.extend_from_slice(&n.to_le_bytes());
                }
            }
            PeOpSpec::AllocLargeRaw(n) => {
                slot(1, 1);
                out.extend_from_slice(&n.to_le_bytes());
            }
            PeOpSpec::SetFp => slot(3, 0),
            PeOpSpec::SaveNonvol(r, o) => {
                if o % 8 == 0 && o / 8 <= 0xffff {
                    slot(4, *r);
                    out.extend_from_slice(&((o / 8) as u16).to_le_bytes());
                } else {
                    slot(5, *r);
                    out.extend_from_slice(&o.to_le_bytes());
                }
            }
            PeOpSpec::SaveXmm(r, o) => {
                if o % 16 == 0 && o / 16 <= 0xffff {
                    slot(8, *r);
                    out.extend_from_slice(&((o / 16) as u16).to_le_bytes());
                } else {
                    slot(9, *r);
                    out.extend_from_slice(&o.to_le_bytes());
                }
            }
            PeOpSpec::MachFrame(e) => slot(10, *e as u8),
        }
    }
    out
}

pub struct PeImage {
    pub pdata: Vec<u8>,
    pub xdata: Vec<u8>,
    pub text: Vec<u8>,
    pub xdata_rva: u32,
    pub text_rva: std::ops::Range<u32>,
    /// The UNWIND_INFO blob `xdata` is presented as `.rdata` (its first `rdata_len` bytes)
    /// followed immediately by `.xdata` (the rest): all in `.xdata` (0), all in `.rdata` (the
    /// whole length) or split at the start of a record, the two sections back to back.
    pub rdata_len: u32,
}

/// Lays out `.text`, `.xdata` (UNWIND_INFOs, chained via CHAININFO) and `.pdata`.
pub fn write_pe(funcs: &[PeFuncSpec], text_rva: u32) -> PeImage {
    let text_end = funcs.iter().map(|f| f.end).max().unwrap_or(text_rva) + 0x20;
    let mut text = vec![0xccu8; (text_end - text_rva) as usize];
    for f in funcs {
        let o = (f.begin - text_rva) as usize;
        text[o..o + f.bytes.len()].copy_from_slice(&f.bytes);
    }
    let xdata_rva = (text_end + 0xfff) & !0xfff;
    let mut xdata: Vec<u8> = Vec::new();
    let mut pdata: Vec<u8> = Vec::new();
    let mut info_starts: Vec<u32> = Vec::new();
    let mut sorted: Vec<&PeFuncSpec> = funcs.iter().collect();
    sorted.sort_by_key(|f| f.begin);
    for f in sorted {
        // chained infos are written last-first so that each knows its parent's address
        let mut parent: Option<u32> = None;
        for (i, info) in f.infos.iter().enumerate().rev() {
            while xdata.len() % 4 != 0 {
                xdata.push(0);
            }
            let addr = xdata_rva + xdata.len() as u32;
            info_starts.push(xdata.len() as u32);
            let codes = write_codes(&info.codes);
            let flags: u8 = if parent.is_some() { 0x4 } else { 0 };
            xdata.push(1 | (flags << 3));
            xdata.push(info.codes.first().map(|c| c.0).unwrap_or(0)); // prolog size
            xdata.push((codes.len() / 2) as u8);
            let fr = if i == 0 || true { f.frame_reg.unwrap_or(0) } else { 0 };
            xdata.push(fr | ((f.frame_off / 16) << 4));
            xdata.extend_from_slice(&codes);
            if let Some(p) = parent {
                // RUNTIME_FUNCTION of the parent
                xdata.extend_from_slice(&f.begin.to_le_bytes());
                xdata.extend_from_slice(&f.end.to_le_bytes());
                xdata.extend_from_slice(&p.to_le_bytes());
            }
            parent = Some(addr);
        }
        pdata.extend_from_slice(&f.begin.to_le_bytes());
        pdata.extend_from_slice(&f.end.to_le_bytes());
        pdata.extend_from_slice(&parent.unwrap_or(xdata_rva).to_le_bytes());
    }
    // the section layout is a function of the image (so that every rebuild of the same module
    // presents it the same way)
    let sel = xdata.len() / 4 + funcs.len();
    let rdata_len = match sel % 4 {
        0 => 0,
        1 => xdata.len() as u32,
        _ if info_starts.is_empty() => 0,
        _ => info_starts[(sel / 4) % info_starts.len()],
    };
    PeImage { pdata, xdata, text, xdata_rva, text_rva: text_rva..text_end, rdata_len }
}

/// Section provider for PE modules (`ExplicitModuleSectionInfo` has no `.pdata`).
pub struct PeSectionInfo {
    pub base_svma: u64,
    pub image: PeImage,
}

impl framehop::ModuleSectionInfo<Bytes> for PeSectionInfo {
    fn base_svma(&self) -> u64 {
        self.base_svma
    }
    fn section_svma_range(&mut self, name: &[u8]) -> Option<std::ops::Range<u64>> {
        let b = self.base_svma;
        match name {
            b".text" => Some(b + self.image.text_rva.start as u64..b + self.image.text_rva.end as u64),
            b".xdata" if (self.image.rdata_len as usize) < self.image.xdata.len() => {
                Some(b + (self.image.xdata_rva + self.image.rdata_len) as u64..b + self.image.xdata_rva as u64 + self.image.xdata.len() as u64)
            }
            b".rdata" if self.image.rdata_len > 0 => Some(b + self.image.xdata_rva as u64..b + (self.image.xdata_rva + self.image.rdata_len) as u64),
            _ => None,
        }
    }
    fn section_data(&mut self, name: &[u8]) -> Option<Bytes> {
        match name {
            b".pdata" => Some(Bytes(std::sync::Arc::new(self.image.pdata.clone()))),
            b".xdata" if (self.image.rdata_len as usize) < self.image.xdata.len() => {
                Some(Bytes(std::sync::Arc::new(self.image.xdata[self.image.rdata_len as usize..].to_vec())))
            }
            b".rdata" if self.image.rdata_len > 0 => Some(Bytes(std::sync::Arc::new(self.image.xdata[..self.image.rdata_len as usize].to_vec()))),
            b".text" => Some(Bytes(std::sync::Arc::new(self.image.text.clone()))),
            _ => None,
        }
    }
}

/// Lengthens the chain of unwind infos of some functions with empty chained infos (no unwind
/// codes: the meaning of the function's unwind data is unchanged) - chains of up to 32 infos are
/// legal, longer ones must be refused.
pub fn pad_chains(p: &mut Prng, specs: &mut [PeFuncSpec], beyond_limit: bool) {
    for s in specs.iter_mut() {
        if p.chance(1, 3) {
            let k = match p.below(8) {
                0..=3 => 1 + p.below(6) as usize,
                4 => 30 - s.infos.len().min(30),
                5 => 32 - s.infos.len().min(32),
                6 if beyond_limit => 33 - s.infos.len().min(33),
                _ => 8 + p.below(20) as usize,
            };
            for _ in 0..k {
                let at = 1 + p.below(s.infos.len() as u64) as usize;
                s.infos.insert(at, PeInfoSpec { codes: vec![] });
            }
        }
    }
}

pub fn build_pe_module(name: &str, m: &ModSpec, funcs: &[PeFuncSpec]) -> framehop::Module<Bytes> {
    let text_rva = (m.start - m.base_avma) as u32;
    let image = write_pe(funcs, text_rva);
    framehop::Module::new(
        name.to_string(),
        m.start..m.end,
        m.base_avma,
        PeSectionInfo { base_svma: m.base_svma, image },
    )
}

// ------------------------------------------------------------------------------------------
// Programs over the MS x64 prolog/epilog grammar

/// PE register numbers of the non-volatile registers the generator pushes/saves.
const NONVOL: [(u8, &[u8], &[u8]); 6] = [
    (3, &[0x53], &[0x5b]),              // rbx
    (6, &[0x56], &[0x5e]),              // rsi
    (7, &[0x57], &[0x5f]),              // rdi
    (12, &[0x41, 0x54], &[0x41, 0x5c]), // r12
    (13, &[0x41, 0x55], &[0x41, 0x5d]), // r13
    (14, &[0x41, 0x56], &[0x41, 0x5e]), // r14
];

#[derive(Clone, Debug)]
pub enum PeEff {
    None,
    Push(u8),
    Pop(u8),
    Sub(u32),
    Add(u32),
    /// `lea rbp, [rsp + k]`
    LeaFp(u32),
    /// `lea rsp, [rbp + x]`
    LeaSp(u32),
    /// `mov [rsp + off], reg`
    Save(u8, u32),
    Call,
    Ret,
}

#[derive(Clone, Debug)]
pub struct PeInsn {
    pub bytes: Vec<u8>,
    pub eff: PeEff,
}

#[derive(Clone, Debug)]
pub struct PeFunc {
    /// If set: the function is split into two table entries at this instruction index; the
    /// second entry's UNWIND_INFO has no codes of its own and chains to the first one's.
    pub split_at: Option<usize>,
    pub spec: PeFuncSpec,
    pub insns: Vec<PeInsn>,
    pub calls: Vec<usize>,
    pub leaf_without_entry: bool,
}

fn ins(bytes: &[u8], eff: PeEff) -> PeInsn {
    PeInsn { bytes: bytes.to_vec(), eff }
}

fn sub_rsp(n: u32) -> Vec<u8> {
    if n < 128 {
        vec![0x48, 0x83, 0xec, n as u8]
    } else {
        let mut v = vec![0x48, 0x81, 0xec];
        v.extend_from_slice(&n.to_le_bytes());
        v
    }
}

fn add_rsp(n: u32) -> Vec<u8> {
    if n < 128 {
        vec![0x48, 0x83, 0xc4, n as u8]
    } else {
        let mut v = vec![0x48, 0x81, 0xc4];
        v.extend_from_slice(&n.to_le_bytes());
        v
    }
}

pub fn gen_pe_func(p: &mut Prng, begin: u32, n_calls: usize, is_root: bool) -> PeFunc {
    let mut insns: Vec<PeInsn> = Vec::new();
    let mut codes_fwd: Vec<(u8, PeOpSpec)> = Vec::new(); // in prolog order
    let mut off = 0usize;
    let leaf = n_calls == 0 && !is_root && p.chance(1, 4);
    let uses_fp = !leaf && p.chance(1, 3);
    let n_push = if leaf { 0 } else { p.below(4) as usize };
    let mut pushed: Vec<usize> = Vec::new();
    let mut push = |insns: &mut Vec<PeInsn>, codes: &mut Vec<(u8, PeOpSpec)>, off: &mut usize, bytes: &[u8], reg: u8| {
        insns.push(ins(bytes, PeEff::Push(reg)));
        *off += bytes.len();
        codes.push((*off as u8, PeOpSpec::Push(reg)));
    };
    if uses_fp {
        push(&mut insns, &mut codes_fwd, &mut off, &[0x55], 5); // push rbp
    }
    for i in 0..n_push {
        push(&mut insns, &mut codes_fwd, &mut off, NONVOL[i].1, NONVOL[i].0);
        pushed.push(i);
    }
    // keep rsp 16-byte aligned at calls: pushes + return address + alloc
    let n_slots = n_push + uses_fp as usize + 1;
    let mut alloc: u32 = if leaf { 0 } else { 32 + 16 * p.below(20) as u32 + if p.chance(1, 8) { 0x1000 } else { 0 } };
    if !leaf && (n_slots * 8 + alloc as usize) % 16 != 0 {
        alloc += 8;
    }
    if alloc > 0 {
        let b = sub_rsp(alloc);
        insns.push(ins(&b, PeEff::Sub(alloc)));
        off += b.len();
        codes_fwd.push((off as u8, PeOpSpec::Alloc(alloc)));
    }
    let mut frame_off = 0u8;
    if uses_fp {
        // lea rbp, [rsp + k] with k a multiple of 16, at most 240 and at most alloc
        let k = (16 * p.below(6) as u32).min(alloc / 16 * 16).min(240);
        frame_off = k as u8;
        let b = [0x48, 0x8d, 0x6c, 0x24, k as u8]; // lea rbp,[rsp+disp8]
        insns.push(ins(&b, PeEff::LeaFp(k)));
        off += b.len();
        codes_fwd.push((off as u8, PeOpSpec::SetFp));
    }
    // optionally save a non-volatile register with a mov instead of a push
    let mut saved: Option<(u8, u32)> = None;
    if !leaf && alloc >= 32 && n_push < NONVOL.len() && p.chance(1, 3) {
        let reg = 15u8; // r15
        let so = 8 * p.below((alloc / 8).min(12) as u64) as u32;
        let b = [0x4c, 0x89, 0x7c, 0x24, so as u8]; // mov [rsp+disp8], r15
        insns.push(ins(&b, PeEff::Save(reg, so)));
        off += b.len();
        // the offset of SAVE_NONVOL is relative to rsp, or to the frame base if a frame register is set
        codes_fwd.push((off as u8, PeOpSpec::SaveNonvol(reg, so)));
        saved = Some((reg, so));
    }
    let _ = saved;
    // body with calls
    let mut calls = Vec::new();
    // long functions: the body (and with it every call's return address and the epilog) lies
    // beyond offset 256 / 512 / 768, with an instruction boundary at every byte around the
    // multiple of 256 - offsets whose low byte is smaller than the prolog's code offsets
    if !leaf && p.chance(1, 3) {
        let target = 256 * (1 + p.below(3) as usize);
        let cur = |insns: &Vec<PeInsn>| insns.iter().map(|i| i.bytes.len()).sum::<usize>();
        insns.push(ins(&[0x90], PeEff::None));
        while cur(&insns) + 9 <= target - 4 {
            insns.push(ins(&[0x66, 0x0f, 0x1f, 0x84, 0x00, 0x00, 0x00, 0x00, 0x00], PeEff::None));
        }
        while cur(&insns) < target + 30 {
            insns.push(ins(&[0x90], PeEff::None));
        }
    }
    let n_body = 2 + p.below(3) as usize;
    for i in 0..n_body.max(n_calls) {
        // (some of these start with a byte in 0x20..0x2f: after a call whose last byte is 0xff the
        // bytes at return address - 1 read `ff 2x`, which looks like an indirect jmp)
        let b: Vec<u8> = p
            .pick(&[vec![0x90u8], vec![0x48, 0x89, 0xc3], vec![0x31, 0xc0], vec![0x2b, 0xc1], vec![0x25, 0xff, 0, 0, 0], vec![0x28, 0xc8], vec![0x2d, 1, 0, 0, 0]])
            .clone();
        insns.push(ins(&b, PeEff::None));
        if i < n_calls {
            calls.push(insns.len());
            // forward, backward (last byte 0xff), register-indirect and rip-relative calls
            let c: Vec<u8> = p.pick(&[vec![0xe8u8, 0x10, 0, 0, 0], vec![0xe8, 0xf0, 0xff, 0xff, 0xff], vec![0xff, 0xd0], vec![0xff, 0x15, 0x10, 0, 0, 0]]).clone();
            insns.push(ins(&c, PeEff::Call));
        }
    }
    insns.push(ins(&[0x90], PeEff::None));
    if is_root {
        calls.push(insns.len());
        insns.push(ins(&[0xe8, 0x10, 0, 0, 0], PeEff::Call));
        insns.push(ins(&[0xcc], PeEff::None));
    } else {
        // epilog
        if uses_fp {
            // lea rsp, [rbp + (alloc - k)]
            let x = alloc - frame_off as u32;
            if x < 128 {
                insns.push(ins(&[0x48, 0x8d, 0x65, x as u8], PeEff::LeaSp(x)));
            } else {
                let mut b = vec![0x48, 0x8d, 0xa5];
                b.extend_from_slice(&x.to_le_bytes());
                insns.push(ins(&b, PeEff::LeaSp(x)));
            }
        } else if alloc > 0 {
            insns.push(ins(&add_rsp(alloc), PeEff::Add(alloc)));
        }
        for i in pushed.iter().rev() {
            insns.push(ins(NONVOL[*i].2, PeEff::Pop(NONVOL[*i].0)));
        }
        if uses_fp {
            insns.push(ins(&[0x5d], PeEff::Pop(5)));
        }
        insns.push(ins(&[0xc3], PeEff::Ret));
    }
    let bytes: Vec<u8> = insns.iter().flat_map(|i| i.bytes.clone()).collect();
    codes_fwd.reverse();
    let infos = vec![PeInfoSpec { codes: codes_fwd }];
    let end = begin + bytes.len() as u32;
    // a body position (after the prolog, before the epilog) at which the function may be split
    let first_body = insns.iter().position(|i| matches!(i.eff, PeEff::None)).unwrap_or(0);
    let split_at = if !leaf && first_body + 1 < insns.len() && p.chance(1, 4) { Some(first_body + 1) } else { None };
    PeFunc {
        split_at,
        spec: PeFuncSpec { begin, end, frame_reg: if uses_fp { Some(5) } else { None }, frame_off, infos, bytes },
        insns,
        calls,
        leaf_without_entry: leaf,
    }
}

/// (sp, rbp) machine state plus the values of the registers the generator saves.
#[derive(Clone, Debug)]
pub struct PeMach {
    pub sp: u64,
    pub regs: [u64; 16], // PE numbering
}

pub struct PeTruth {
    /// Innermost first: (address, machine state in that frame).
    pub frames: Vec<(u64, PeMach)>,
    pub stack: Vec<(u64, u64)>,
    pub stack_top: u64,
}

pub fn simulate_pe(funcs: &[PeFunc], chain: &[(usize, usize)], image_base: u64, stack_top: u64, g: &mut Prng) -> PeTruth {
    let mut mem: std::collections::BTreeMap<u64, u64> = std::collections::BTreeMap::new();
    let mut regs = [0u64; 16];
    for (i, r) in regs.iter_mut().enumerate() {
        *r = 0x9000 + i as u64;
    }
    let mut sp = stack_top - 8;
    mem.insert(sp, 0); // the root's (null) return address
    let mut frames = Vec::new();
    for (depth, (fi, sel)) in chain.iter().enumerate() {
        let f = &funcs[*fi];
        let innermost = depth + 1 == chain.len();
        let stop = if innermost { *sel } else { f.calls[*sel] };
        for i in &f.insns[..stop] {
            match i.eff {
                PeEff::None | PeEff::Call | PeEff::Ret => {}
                PeEff::Push(r) => {
                    sp -= 8;
                    mem.insert(sp, regs[r as usize]);
                }
                PeEff::Pop(r) => {
                    regs[r as usize] = *mem.get(&sp).unwrap_or(&0);
                    sp += 8;
                }
                PeEff::Sub(n) => sp -= n as u64,
                PeEff::Add(n) => sp += n as u64,
                PeEff::LeaFp(k) => regs[5] = sp + k as u64,
                PeEff::LeaSp(x) => sp = regs[5] + x as u64,
                PeEff::Save(r, o) => {
                    mem.insert(sp + o as u64, regs[r as usize]);
                }
            }
        }
        // the body clobbers the saved non-volatile registers it owns
        let mut here = PeMach { sp, regs };
        here.regs[4] = sp;
        let off: u64 = f.insns[..stop].iter().map(|i| i.bytes.len() as u64).sum();
        if innermost {
            frames.push((image_base + f.spec.begin as u64 + off, here));
        } else {
            let ra = image_base + f.spec.begin as u64 + off + f.insns[stop].bytes.len() as u64;
            frames.push((ra, here));
            // callee sees clobbered non-volatiles? no: they are preserved across calls; give the
            // callee fresh garbage in the registers this function pushed (it owns them now)
            for i in &f.insns[..stop] {
                if let PeEff::Push(r) | PeEff::Save(r, _) = i.eff {
                    if r != 5 || f.spec.frame_reg.is_none() {
                        regs[r as usize] = 0xa000_0000 + g.below(0x1000);
                    }
                }
            }
            sp -= 8;
            mem.insert(sp, ra);
        }
    }
    frames.reverse();
    PeTruth { frames, stack: mem.into_iter().collect(), stack_top }
}

fn pe_regs_to_x(addr: u64, m: &PeMach) -> RegsX {
    // framehop order: RAX,RDX,RCX,RBX,RSI,RDI,RBP,RSP,R8..R15 ; PE order: RAX,RCX,RDX,RBX,RSP,RBP,RSI,RDI,R8..
    let p = &m.regs;
    let mut r = [0u64; 16];
    r[0] = p[0];
    r[1] = p[2];
    r[2] = p[1];
    r[3] = p[3];
    r[4] = p[6];
    r[5] = p[7];
    r[6] = p[5];
    r[7] = m.sp;
    r[8..16].copy_from_slice(&p[8..16]);
    RegsX { ip: addr, r }
}

struct RefState<'a> {
    regs: [u64; 16],
    mem: &'a MemDesc,
}

impl pex::UnwindState for RefState<'_> {
    fn read_register(&mut self, register: pex::Register) -> u64 {
        self.regs[register as usize]
    }
    fn read_stack(&mut self, addr: u64) -> Option<u64> {
        self.mem.read(addr).ok()
    }
    fn write_register(&mut self, register: pex::Register, value: u64) {
        self.regs[register as usize] = value
    }
    fn write_xmm_register(&mut self, _register: pex::XmmRegister, _value: u128) {}
}

/// The reference implementation of the Microsoft procedure on the same image.
fn reference_unwind(image: &PeImage, rel: u32, regs: &RegsX, mem: &MemDesc) -> Result<Option<(u64, [u64; 16])>, String> {
    let mut pe = [0u64; 16];
    let r = &regs.r;
    pe[0] = r[0];
    pe[2] = r[1];
    pe[1] = r[2];
    pe[3] = r[3];
    pe[6] = r[4];
    pe[7] = r[5];
    pe[5] = r[6];
    pe[4] = r[7];
    pe[8..16].copy_from_slice(&r[8..16]);
    let mut st = RefState { regs: pe, mem };
    let entries = pex::FunctionTableEntries::parse(&image.pdata);
    let xr = image.xdata_rva;
    let tr = image.text_rva.clone();
    let res = catch(|| {
        entries.unwind_frame(
            &mut st,
            |rva| {
                if rva >= xr && ((rva - xr) as usize) < image.xdata.len() {
                    Some(&image.xdata[(rva - xr) as usize..])
                } else if tr.contains(&rva) {
                    Some(&image.text[(rva - tr.start) as usize..])
                } else {
                    None
                }
            },
            rel,
        )
    })?;
    Ok(res.map(|ra| (ra, st.regs)))
}

fn pe_to_x(pe: &[u64; 16], ip: u64) -> RegsX {
    let m = PeMach { sp: pe[4], regs: *pe };
    pe_regs_to_x(ip, &m)
}

/// Exhaustive sweep of the register-order encoding through the hooks: every duplicate-free
/// sequence of up to `max_len` of the 8 encodable registers must encode, decode back to itself,
/// and agree with the model's `encodeRegs`/`decodeRegs`; every (count, encoded) pair of the
/// u8 x u16 boundary grid must decode without panicking and like the model.
fn reg_order_sweep(rep: &mut Report, max_len: usize) {
    use crate::rules::REGS;
    use framehop::verif_hooks as hooks;
    let enc_regs: [usize; 8] = [3, 6, 5, 4, 12, 13, 14, 15];
    let mut lines = Vec::new();
    let mut impls = Vec::new();
    fn rec(pre: &mut Vec<usize>, max_len: usize, all: &[usize; 8], out: &mut Vec<Vec<usize>>) {
        out.push(pre.clone());
        if pre.len() == max_len {
            return;
        }
        for x in all {
            if !pre.contains(x) {
                pre.push(*x);
                rec(pre, max_len, all, out);
                pre.pop();
            }
        }
    }
    let mut seqs = Vec::new();
    rec(&mut Vec::new(), max_len, &enc_regs, &mut seqs);
    // a few invalid ones: duplicates, non-encodable registers, too long
    seqs.push(vec![3, 3]);
    seqs.push(vec![0]);
    seqs.push(vec![7]);
    seqs.push(vec![3, 6, 5, 4, 12, 13, 14, 15, 3]);
    for (i, sq) in seqs.iter().enumerate() {
        let regs: Vec<_> = sq.iter().map(|r| REGS[*r]).collect();
        let r = catch(|| hooks::reg_order_encode(&regs).map(|(c, e)| (c, e, hooks::reg_order_decode(c, e))));
        let out = match r {
            Err(loc) => {
                rep.add_finding(Finding { props: vec!["C09".into(), "C03".into()], kind: "oracle".into(), key: "reg-order-panic".into(), what: format!("register_ordering panicked at {loc}"), case: format!("{sq:?}"), impl_out: "panic".into(), model_out: String::new() });
                "panic".to_string()
            }
            Ok(None) => "none".to_string(),
            Ok(Some((c, e, dec))) => {
                let dec_idx: Vec<usize> = dec.iter().map(|d| REGS.iter().position(|x| x == d).unwrap()).collect();
                if &dec_idx != sq {
                    rep.add_finding(Finding { props: vec!["C03".into()], kind: "oracle".into(), key: "reg-order-roundtrip".into(), what: "decode(encode(l)) != l".into(), case: format!("{sq:?}"), impl_out: format!("{dec_idx:?}"), model_out: String::new() });
                }
                format!("enc={}:{} dec={}", hex(c as u64), hex(e as u64), dec_idx.iter().map(|d| hex(*d as u64)).collect::<Vec<_>>().join(","))
            }
        };
        lines.push(format!("regorder {i} regs={}", sq.iter().map(|d| hex(*d as u64)).collect::<Vec<_>>().join(",")));
        impls.push(out);
    }
    let base = lines.len();
    for (j, (c, e)) in [(0u8, 0u16), (8, 40319), (8, 40320), (9, 65535), (255, 65535), (3, 12345), (0, 1), (8, 1), (1, 7), (2, 57)].iter().enumerate() {
        let r = catch(|| hooks::reg_order_decode(*c, *e));
        let out = match r {
            Err(loc) => {
                rep.add_finding(Finding { props: vec!["C09".into()], kind: "oracle".into(), key: "reg-order-decode-panic".into(), what: format!("decode panicked at {loc}"), case: format!("count={c} enc={e}"), impl_out: "panic".into(), model_out: String::new() });
                "panic".to_string()
            }
            Ok(dec) => format!("dec={}", dec.iter().map(|d| hex(REGS.iter().position(|x| x == d).unwrap() as u64)).collect::<Vec<_>>().join(",")),
        };
        lines.push(format!("regdecode {} c={} e={}", base + j, hex(*c as u64), hex(*e as u64)));
        impls.push(out);
    }
    let model = crate::model::run_model(&lines);
    rep.cases += lines.len() as u64;
    rep.compared_with_model += lines.len() as u64;
    rep.count(&format!("register orderings swept (up to length {max_len})"));
    for ((l, i), m) in lines.iter().zip(impls.iter()).zip(model.iter()) {
        if i != m {
            rep.add_finding(Finding { props: vec!["C03".into()], kind: "correspondence".into(), key: "reg-order-model".into(), what: "register_ordering differs from the Lean model (encodeRegs/decodeRegs)".into(), case: l.clone(), impl_out: i.clone(), model_out: m.clone() });
        }
    }
}

/// `pe.rs` RVA -> section memory through the `pe_memory_at_rva` hook vs the Lean model
/// (`FH/PeMem.lean`): section descriptions whose RVA range and data length need not agree (empty,
/// inverted, larger or smaller than the data, overlapping .rdata/.xdata), RVAs at every boundary.
#[cfg(feature = "pemem")]
fn pemem_grid(rep: &mut Report, p: &mut Prng, n_random: usize) {
    use framehop::verif_hooks as hooks;
    let bounds: [u32; 12] = [0, 1, 0x1000, 0x107f, 0x1080, 0x1081, 0x1100, 0x2000, 0x7fff_ffff, 0x8000_0000, 0xffff_fffe, 0xffff_ffff];
    let lens: [usize; 7] = [1, 2, 0x7f, 0x80, 0x81, 0x100, 0x1000];
    let mut cases: Vec<(Option<(u32, u32, usize)>, Option<(u32, u32, usize)>, Option<(u32, u32, usize)>, bool, u32)> = Vec::new();
    // systematic: one section, every start/stop pair of the grid, every length, RVAs around all boundaries
    for &a in &bounds {
        for &b in &bounds {
            for &l in &lens {
                let mut rvas: Vec<u32> = vec![a, a.wrapping_add(1), a.wrapping_sub(1), b, b.wrapping_sub(1), b.wrapping_add(1)];
                for d in [-1i64, 0, 1] {
                    rvas.push((a as i64 + l as i64 + d).clamp(0, u32::MAX as i64) as u32);
                }
                for rva in rvas {
                    cases.push((Some((a, b, l)), None, None, false, rva));
                    cases.push((None, Some((a, b, l)), None, false, rva));
                    cases.push((None, None, Some((a, b, l)), true, rva));
                }
            }
        }
    }
    // random: both unwind-info sections present, overlapping / adjacent / short data
    for _ in 0..n_random {
        let mut sect = |p: &mut Prng| -> Option<(u32, u32, usize)> {
            if p.chance(1, 8) {
                return None;
            }
            let a = *p.pick(&bounds[2..8]) + p.below(4) as u32;
            let b = if p.chance(1, 6) { a.wrapping_sub(p.below(3) as u32) } else { a + p.below(0x200) as u32 };
            Some((a, b, 1 + p.below(0x180) as usize))
        };
        let (r, x, t) = (sect(p), sect(p), sect(p));
        let base = *p.pick(&[r, x, t]).as_ref().map(|s| &s.0).unwrap_or(&0x1000);
        let rva = base.wrapping_add(p.below(0x220) as u32).wrapping_sub(2);
        cases.push((r, x, t, p.chance(1, 3), rva));
    }
    let show = |s: &Option<(u32, u32, usize)>| match s {
        None => "-".to_string(),
        Some((a, b, l)) => format!("{}:{}:{}", hex(*a as u64), hex(*b as u64), hex(*l as u64)),
    };
    let mut lines = Vec::new();
    let mut impls = Vec::new();
    let bufs: Vec<Vec<u8>> = (0..3).map(|i| vec![i as u8; 0x1000]).collect();
    for (i, (r, x, t, want_text, rva)) in cases.iter().enumerate() {
        let mk = |s: &Option<(u32, u32, usize)>, k: usize| s.map(|(a, b, l)| (&bufs[k][..l], a..b));
        let (rr, xx, tt) = (mk(r, 0), mk(x, 1), mk(t, 2));
        let got = catch(|| hooks::pe_memory_at_rva(rr.clone(), xx.clone(), tt.clone(), *want_text, *rva));
        let out = match got {
            Err(loc) => {
                rep.add_finding(Finding { props: vec!["C14".into(), "C09".into()], kind: "oracle".into(), key: "pe-memory-at-rva-panic".into(), what: format!("memory_at_rva panicked at {loc}"), case: format!("r={} x={} t={} text={} rva={:#x}", show(r), show(x), show(t), want_text, rva), impl_out: "panic".into(), model_out: String::new() });
                "panic".to_string()
            }
            Ok(None) => "none".to_string(),
            Ok(Some((sec, off, len))) => format!("sec={sec} off={} len={}", hex(off as u64), hex(len as u64)),
        };
        lines.push(format!("pemem {i} r={} x={} t={} text={} rva={}", show(r), show(x), show(t), if *want_text { 1 } else { 0 }, hex(*rva as u64)));
        impls.push(out);
    }
    let model = crate::model::run_model(&lines);
    rep.cases += lines.len() as u64;
    rep.compared_with_model += lines.len() as u64;
    for ((l, i), m) in lines.iter().zip(impls.iter()).zip(model.iter()) {
        rep.count(&format!("pemem -> {}", i.split(' ').next().unwrap_or("")));
        if i != m {
            rep.add_finding(Finding {
                props: vec!["C14".into(), "C03".into()],
                kind: "correspondence".into(),
                key: "pe-memory-at-rva".into(),
                what: "PeSections::{unwind_info,text}_memory_at_rva differs from the Lean model (FH/PeMem.lean)".into(),
                case: l.clone(),
                impl_out: i.clone(),
                model_out: m.clone(),
            });
        }
    }
}

/// A function with unusual unwind codes (xmm saves, machine frame, raw large allocation, far
/// saves, more pushes / epilog pops than a cacheable rule can hold): structurally valid, outside
/// what the ground-truth simulator covers.
pub fn gen_unusual_pe_func(p: &mut Prng, begin: u32) -> PeFuncSpec {
    let mut codes = Vec::new();
    let mut o = 40u8;
    // 0: more pushes than a rule holds; 1: pushes and allocations interleaved (allocation after a
    // push in the prolog = after a pop when unwinding); otherwise a random mix of unusual codes
    let mode = p.below(5);
    let many_pushes = mode == 0;
    let n_codes = match mode {
        0 => 7 + p.below(6),
        1 => 2 + p.below(5),
        _ => 1 + p.below(4),
    };
    for i in 0..n_codes {
        let op = match mode {
            0 => PeOpSpec::Push(*p.pick(&[3u8, 5, 6, 7, 12, 13, 14, 15, 0, 4])),
            1 => {
                if (i + p.below(2)) % 2 == 0 {
                    PeOpSpec::Push(*p.pick(&[3u8, 5, 6, 7, 12, 13, 14, 15]))
                } else {
                    PeOpSpec::Alloc(8 * (1 + p.below(20) as u32))
                }
            }
            _ => match p.below(7) {
                0 => PeOpSpec::SaveXmm(6, 16 * p.below(8) as u32),
                1 => PeOpSpec::MachFrame(p.chance(1, 2)),
                2 => PeOpSpec::AllocLargeRaw(*p.pick(&[12u32, 0x8_0000, 0x7_fff8, 0x8_0004, 1])),
                3 => PeOpSpec::SaveNonvol(3, 0x10_0000 + 8 * p.below(4) as u32),
                4 => PeOpSpec::Alloc(8 * (1 + p.below(40) as u32)),
                5 => PeOpSpec::Push(*p.pick(&[3u8, 5, 6, 7, 12, 13, 14, 15, 0, 4])),
                _ => PeOpSpec::SetFp,
            },
        };
        codes.push((o, op));
        o = o.saturating_sub(if many_pushes { 2 } else { 4 + p.below(6) as u8 });
    }
    let fr = if p.chance(1, 2) { Some(*p.pick(&[5u8, 3, 13])) } else { None };
    let mut bytes = vec![0x90u8; 48];
    if p.chance(1, 4) {
        // an epilog with more pops than a rule can hold: add rsp,16; pop x 7..12; ret
        bytes.extend_from_slice(&[0x48, 0x83, 0xc4, 0x10]);
        for _ in 0..(7 + p.below(6)) {
            bytes.extend_from_slice(*p.pick(&[&[0x5bu8][..], &[0x5e], &[0x5f], &[0x41, 0x5c], &[0x41, 0x5d], &[0x41, 0x5e], &[0x41, 0x5f], &[0x5d]]));
        }
        bytes.push(0xc3);
    } else {
        bytes.extend_from_slice(&[0x48, 0x83, 0xc4, 0x0c, 0x5b, 0xc3]); // add rsp,12; pop rbx; ret
    }
    PeFuncSpec { begin, end: begin + bytes.len() as u32, frame_reg: fr, frame_off: 16 * p.below(4) as u8, infos: vec![PeInfoSpec { codes }], bytes }
}

pub fn run(tier: &str, seed: u64) -> Report {
    let mut rep = Report::new("pe");
    reg_order_sweep(&mut rep, if tier == "thorough" { 8 } else { 5 });
    #[cfg(feature = "pemem")]
    {
        let mut pm = Prng::new(seed.wrapping_mul(0x51ed_270b_0a35_9d1f).wrapping_add(7));
        pemem_grid(&mut rep, &mut pm, if tier == "thorough" { 200_000 } else { 20_000 });
    }
    #[cfg(not(feature = "pemem"))]
    rep.notes.push("built without the pe_memory_at_rva hook: FH/PeMem.lean is not tied on this run".into());
    let mut p = Prng::new(seed.wrapping_mul(0x6a09_e667_f3bc_c909).wrapping_add(5));
    let n: u64 = if tier == "thorough" { 4000 } else { 250 };
    for id in 0..n {
        // ---------------------------------------------------------------- program
        let depth = 1 + p.below(5) as usize;
        let mut funcs = Vec::new();
        let mut begin = 0x1000u32;
        let mut chain = Vec::new();
        for d in 0..=depth {
            let innermost = d == depth;
            let n_calls = if innermost { p.below(2) as usize } else { 1 + p.below(2) as usize };
            let f = gen_pe_func(&mut p, begin, n_calls, d == 0);
            begin = f.spec.end + if p.chance(1, 2) { 0 } else { p.below(0x20) as u32 };
            let sel = if innermost { 0 } else { p.below(f.calls.len() as u64) as usize };
            chain.push((funcs.len(), sel));
            funcs.push(f);
        }
        // a function with unusual unwind codes, exercised only in the differential part
        {
            let spec = gen_unusual_pe_func(&mut p, begin);
            begin = spec.end;
            funcs.push(PeFunc { split_at: None, spec, insns: vec![], calls: vec![], leaf_without_entry: false });
        }
        let image_base: u64 = *p.pick(&[0x1_4000_0000u64, 0x7ff6_1234_0000, 0x40_0000]);
        let stack_top: u64 = *p.pick(&[0x7ffc_1000_0000u64, 0x14_fff0, 0xc0_0000_f000]);
        let text_end = begin + 0x40;
        let mut specs: Vec<PeFuncSpec> = Vec::new();
        for f in funcs.iter().filter(|f| !f.leaf_without_entry) {
            match f.split_at {
                None => specs.push(f.spec.clone()),
                Some(k) => {
                    let off: usize = f.insns[..k].iter().map(|i| i.bytes.len()).sum();
                    let mid = f.spec.begin + off as u32;
                    let mut a = f.spec.clone();
                    a.end = mid;
                    a.bytes = f.spec.bytes[..off].to_vec();
                    let mut b = f.spec.clone();
                    b.begin = mid;
                    b.bytes = f.spec.bytes[off..].to_vec();
                    b.infos = vec![PeInfoSpec { codes: vec![] }, f.spec.infos[0].clone()];
                    specs.push(a);
                    specs.push(b);
                }
            }
        }
        pad_chains(&mut p, &mut specs, false);
        let mspec = ModSpec {
            start: image_base + 0x1000,
            end: image_base + text_end as u64,
            base_avma: image_base,
            base_svma: *p.pick(&[0x1_4000_0000u64, 0x1000_0000, 0]),
            data: DataSpec::Pe(specs.clone()),
            enc: PtrEnc::Abs8,
            hdr_abs: true,
            dbg_version: 4,
            n_cies: 1,
        };
        let image = write_pe(&specs, 0x1000);
        let mut w: World<X64H<MayAllocateDuringUnwind>> = World::new();
        let n_slots = crate::hist::cache_entry_count();
        let mut lines = vec![w.init_line(0, n_slots)];
        let mut impl_outs = vec!["ok".to_string()];
        let mut cmds = vec!["init".to_string()];
        let mut truth_v: Vec<Option<(String, u32, String)>> = vec![None];
        let mut do_op = |w: &mut World<X64H<MayAllocateDuringUnwind>>, op: Op, rep: &mut Report, lines: &mut Vec<String>, impl_outs: &mut Vec<String>, cmds: &mut Vec<String>, truth_v: &mut Vec<Option<(String, u32, String)>>| -> String {
            let idx = lines.len() as u64;
            let line = op.line(idx);
            let cmd = line.split(' ').next().unwrap().to_string();
            let (ans, obs) = w.exec(&op);
            if let Some(loc) = &obs.panicked {
                let own = panic_in_own_code(loc);
                rep.add_finding(Finding {
                    props: if own { vec!["C09".into(), "C03".into(), "C14".into()] } else { vec!["C09".into()] },
                    kind: "oracle".into(),
                    key: pe_panic_key(loc),
                    what: format!("{cmd} panicked at {loc}"),
                    case: format!("{}\n{line}", lines.join("\n")),
                    impl_out: "panic".into(),
                    model_out: String::new(),
                });
            }
            crate::hist::fresh_cache_twin(rep, w, &op, &ans, || format!("{}\n{line}", lines.join("\n")));
            crate::hist::step_oracles(rep, &op, &obs, &ans, || format!("{}\n{line}", lines.join("\n")));
            lines.push(line);
            cmds.push(cmd);
            impl_outs.push(ans.clone());
            truth_v.push(None);
            ans
        };
        macro_rules! op {
            ($o:expr) => {
                do_op(&mut w, $o, &mut rep, &mut lines, &mut impl_outs, &mut cmds, &mut truth_v)
            };
        }
        op!(Op::New { u: "u0".into() });
        op!(Op::NewCache { c: "c0".into() });
        op!(Op::NewCache { c: "c1".into() });
        op!(Op::Mod { m: "m0".into(), spec: mspec.clone() });
        op!(Op::Add { u: "u0".into(), m: "m0".into() });
        // ---------------------------------------------------------------- the same image elsewhere (C08)
        let image_base_b: u64 = *p.pick(&[0x1_4000_0000u64, 0x7ff6_1234_0000, 0x40_0000, 0xffff_f800_0000_0000, 0xffff_f803_5a20_0000]);
        let stack_top_b: u64 = *p.pick(&[0x7ffc_1000_0000u64, 0x14_fff0, 0xc0_0000_f000, 0xffff_a00f_1234_f000]);
        let code_delta = image_base_b.wrapping_sub(image_base);
        let mut mspec_b = mspec.clone();
        mspec_b.base_avma = image_base_b;
        mspec_b.start = mspec.start.wrapping_add(code_delta);
        mspec_b.end = mspec.end.wrapping_add(code_delta);
        let mut wb: World<X64H<MayAllocateDuringUnwind>> = World::new();
        let mut lines_b = vec![wb.init_line(0, n_slots)];
        for o in [Op::New { u: "u0".into() }, Op::NewCache { c: "c0".into() }, Op::Mod { m: "m0".into(), spec: mspec_b.clone() }, Op::Add { u: "u0".into(), m: "m0".into() }] {
            lines_b.push(o.line(lines_b.len() as u64));
            wb.exec(&o);
        }
        // ---------------------------------------------------------------- ground truth walks
        let inner = &funcs[chain.last().unwrap().0];
        for stop in 0..inner.insns.len() {
            let mut ch = chain.clone();
            ch.last_mut().unwrap().1 = stop;
            let mut g = Prng::new(id * 977 + stop as u64);
            let truth = simulate_pe(&funcs, &ch, image_base, stack_top, &mut g);
            let mut mem = MemDesc::new(Dflt::Const(0x6666_0000_0000 + g.below(0x100)));
            for (a, v) in &truth.stack {
                mem.entries.push((*a, Some(*v)));
            }
            mem.cut = Some(stack_top + 8);
            let (pc, m0) = &truth.frames[0];
            let regs0 = RegsAny::X(pe_regs_to_x(*pc, m0));
            let want: Vec<String> = std::iter::once(format!("ip:{}", hex(*pc)))
                .chain(truth.frames[1..].iter().map(|(a, _)| format!("ra:{}", hex(*a))))
                .chain(std::iter::once("none".to_string()))
                .collect();
            let ans = op!(Op::Iter { u: "u0".into(), c: "c0".into(), pc: *pc, regs: regs0.clone(), mem: mem.clone(), extra: 0, max: 64 });
            rep.count("pe ground-truth walks");
            let got = ans.split(' ').next().unwrap_or("").trim_start_matches("items=").to_string();
            if got != want.join(",") {
                rep.add_finding(Finding {
                    // a function without a RUNTIME_FUNCTION entry is a leaf by the PE convention (C04)
                    props: if inner.leaf_without_entry { vec!["C03".into(), "C04".into()] } else { vec!["C03".into()] },
                    kind: "oracle".into(),
                    key: if inner.leaf_without_entry { "pe-leaf-without-entry-walk-differs-from-true-chain".into() } else { "pe-walk-differs-from-true-chain".into() },
                    what: format!("the true call chain is {}", want.join(",")),
                    case: lines.join("\n"),
                    impl_out: got.clone(),
                    model_out: String::new(),
                });
            }
            if code_delta != 0 {
                let mut g = Prng::new(id * 977 + stop as u64);
                let truth_b = simulate_pe(&funcs, &ch, image_base_b, stack_top_b, &mut g);
                let mut mem_b = MemDesc::new(mem.default.clone());
                for (a, v) in &truth_b.stack {
                    mem_b.entries.push((*a, Some(*v)));
                }
                mem_b.cut = Some(stack_top_b + 8);
                let (pc_b, mb0) = &truth_b.frames[0];
                let ob = Op::Iter { u: "u0".into(), c: "c0".into(), pc: *pc_b, regs: RegsAny::X(pe_regs_to_x(*pc_b, mb0)), mem: mem_b, extra: 0, max: 64 };
                lines_b.push(ob.line(lines_b.len() as u64));
                let (ans_b, _) = wb.exec(&ob);
                let got_b = ans_b.split(' ').next().unwrap_or("").trim_start_matches("items=").to_string();
                let shifted: Vec<String> = got
                    .split(',')
                    .map(|it| match it.split_once(':') {
                        Some((k, h)) => match u64::from_str_radix(h, 16) {
                            Ok(v) => format!("{k}:{}", hex(v.wrapping_add(code_delta))),
                            Err(_) => it.to_string(),
                        },
                        None => it.to_string(),
                    })
                    .collect();
                rep.count("pe relocation twins");
                if shifted.join(",") != got_b {
                    rep.add_finding(Finding {
                        props: vec!["C08".into()],
                        kind: "oracle".into(),
                        key: "pe-relocated-module-unwinds-differently".into(),
                        what: format!(
                            "the same PE image and thread state, mapped {code_delta:#x} higher (image base {image_base_b:#x} instead of {image_base:#x}, stack top {stack_top_b:#x} instead of {stack_top:#x}): frames {got} should become {} but are {got_b}; twin history:\n{}",
                            shifted.join(","),
                            lines_b.join("\n")
                        ),
                        case: lines.join("\n"),
                        impl_out: got_b,
                        model_out: String::new(),
                    });
                }
            }
            // per-step: sp and rbp after the step are the caller's; compare with the reference too
            for i in 0..truth.frames.len() {
                let (addr, m) = &truth.frames[i];
                let before = pe_regs_to_x(*addr, m);
                let is_ra = i > 0;
                let ans = op!(Op::Unwind { u: "u0".into(), c: "c0".into(), is_ra, addr: *addr, regs: RegsAny::X(before.clone()), mem: mem.clone() });
                let la = if is_ra { addr - 1 } else { *addr };
                let rel = (la - image_base) as u32;
                let got = ans.split(' ').filter(|t| !t.starts_with("stats=") && !t.starts_with("t=")).collect::<Vec<_>>().join(" ");
                if i + 1 < truth.frames.len() {
                    let (na, nm) = &truth.frames[i + 1];
                    let ok = got.starts_with(&format!("frame:{} ", hex(*na)))
                        && got.contains(&format!("ip={} ", hex(*na)))
                        && field_reg(&got, 7) == Some(nm.sp)
                        && field_reg(&got, 6) == Some(nm.regs[5]);
                    if !ok {
                        rep.add_finding(Finding {
                            props: vec!["C03".into()],
                            kind: "oracle".into(),
                            key: "pe-step-differs-from-true-caller-state".into(),
                            what: format!("the caller is at {:#x} with rsp={:#x} rbp={:#x}", na, nm.sp, nm.regs[5]),
                            case: lines.join("\n"),
                            impl_out: got.clone(),
                            model_out: String::new(),
                        });
                    }
                }
                judge_against_reference(&mut rep, &image, rel, &before, &mem, &got, &lines, is_ra);
            }
        }
        // ---------------------------------------------------------------- differential part
        for _ in 0..24 {
            let f = p.pick(&funcs).clone();
            let off = p.below(f.spec.bytes.len() as u64 + 2) as u32;
            let la = image_base + f.spec.begin as u64 + off as u64;
            // each lookup address is used consistently as instruction pointer or return address
            let is_ra = (la.wrapping_mul(0x9e37_79b9_7f4a_7c15) >> 40) & 1 == 1;
            let addr = if is_ra { la + 1 } else { la };
            let ip = if p.chance(4, 5) { addr } else { crate::rules::gen_u64(&mut p) };
            let regs = match crate::gen::gen_regs(&mut p, Arch::X64, ip) {
                RegsAny::X(mut r) => {
                    for v in r.r.iter_mut() {
                        if p.chance(1, 6) {
                            *v = crate::rules::gen_u64(&mut p);
                        }
                    }
                    r
                }
                _ => unreachable!(),
            };
            let mem = crate::gen::gen_mem(&mut p, &RegsAny::X(regs.clone()));
            let ans = op!(Op::Unwind { u: "u0".into(), c: "c1".into(), is_ra, addr, regs: RegsAny::X(regs.clone()), mem: mem.clone() });
            let got = ans.split(' ').filter(|t| !t.starts_with("stats=") && !t.starts_with("t=")).collect::<Vec<_>>().join(" ");
            let rel = (la - image_base) as u32;
            judge_against_reference(&mut rep, &image, rel, &regs, &mem, &got, &lines, is_ra);
        }
        push_pending(&mut rep, Pending {
            arch: "x64".into(),
            hist_id: id,
            lines,
            impl_outs,
            cmds,
            truth: truth_v,
            truth_props: vec!["C03".into()],
        });
    }
    crate::hist::flush(&mut rep);
    rep
}

/// Panics inside pe-unwind-info's `resolve_operation` / `resolve_offset` (unchecked register
/// arithmetic, lines 416-473 of x86_64.rs in version 0.3.0) are one recorded finding; anything
/// else keeps its exact location.
fn pe_panic_key(loc: &str) -> String {
    let short = loc.split(':').take(2).collect::<Vec<_>>().join(":");
    if loc.contains("pe-unwind-info-0.3.0/src/x86_64.rs") {
        if let Some(line) = loc.split(':').nth(1).and_then(|l| l.parse::<u32>().ok()) {
            if (416..=473).contains(&line) && loc.contains("overflow") {
                return "pe-dependency-resolve-operation-arithmetic-overflow".into();
            }
        }
    }
    format!("pe-panic-{}", short.rsplit('/').next().unwrap_or("?"))
}

fn field_reg(out: &str, idx: usize) -> Option<u64> {
    let regs = out.split(' ').find_map(|t| t.strip_prefix("regs="))?;
    u64::from_str_radix(regs.split(',').nth(idx)?, 16).ok()
}

/// C03, second half: wherever the reference implementation of the Microsoft procedure
/// succeeds (and framehop's deliberate refusals do not apply), framehop returns the same
/// return address, stack pointer and non-volatile registers.
fn judge_against_reference(rep: &mut Report, image: &PeImage, rel: u32, before: &RegsX, mem: &MemDesc, got: &str, lines: &[String], is_ra: bool) {
    let Ok(Some((ra, pe))) = reference_unwind(image, rel, before, mem) else { return };
    let after = pe_to_x(&pe, ra);
    // framehop's refusals: null return address = end of stack; caller frames must advance;
    // epilogs are only recognised in the first frame
    if ra == 0 || (is_ra && after.sp() <= before.sp()) {
        return;
    }
    if is_ra {
        let entries = pex::FunctionTableEntries::parse(&image.pdata);
        if let Some(f) = entries.lookup(rel) {
            let o = (rel - image.text_rva.start) as usize;
            let e = (f.end_address.get() - image.text_rva.start) as usize;
            let fr = {
                let a = f.unwind_info_address.get();
                if a >= image.xdata_rva && ((a - image.xdata_rva) as usize) < image.xdata.len() {
                    pex::UnwindInfo::parse(&image.xdata[(a - image.xdata_rva) as usize..]).and_then(|i| i.frame_register())
                } else {
                    None
                }
            };
            if o <= e && e <= image.text.len() {
                if pex::FunctionEpilogInstruction::parse_sequence(&image.text[o..e], fr).is_ok() {
                    return;
                }
            }
        }
    }
    rep.count("pe steps compared with the reference procedure");
    let want = format!("frame:{} {}", hex(ra), after.show());
    if got != want {
        // a lookup address that is the first or the last byte of a function's .pdata range: the
        // step must use that function's data, not its neighbour's (C13)
        let at_boundary = pex::FunctionTableEntries::parse(&image.pdata)
            .lookup(rel)
            .map_or(false, |f| rel == f.begin_address.get() || rel + 1 == f.end_address.get());
        rep.add_finding(Finding {
            props: if at_boundary { vec!["C03".into(), "C13".into()] } else { vec!["C03".into()] },
            kind: "oracle".into(),
            key: (if at_boundary { "pe-step-at-function-boundary-differs-from-reference-procedure" } else { "pe-step-differs-from-reference-procedure" }).into(),
            what: format!("the Microsoft unwind procedure (pe-unwind-info's reference implementation) yields {want}"),
            case: lines.join("\n"),
            impl_out: got.to_string(),
            model_out: String::new(),
        });
    }
}
