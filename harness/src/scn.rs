//! Engine `scn`: whole walks over synthesized programs with ground truth (C01, C04, C08, C11,
//! C12, C13, C16). Programs come from `prog.rs`; the unwind information is DWARF CFI in each of
//! the three presentations, or deliberately missing (C04). For every instruction boundary of
//! the innermost function the walk must yield exactly the true chain, leave the caller's sp/fp
//! after every step and end with `Ok(None)`; truncating the readable stack must yield a prefix
//! followed by an `Err` naming an unreadable address; relocating modules and stack must shift
//! the results only.
use crate::hist::{push_pending, Pending};
use crate::mem::{Dflt, MemDesc};
use crate::prog::*;
use crate::rules::{RegsA, RegsX};
use crate::spec::*;
use crate::util::*;
use crate::world::*;
use framehop::{AllocationPolicy, MayAllocateDuringUnwind, MustNotAllocateDuringUnwind};

/// Why unwind information is unavailable (C04).
#[derive(Clone, Copy, Debug, PartialEq, Eq)]
pub enum Info {
    Dwarf(Pres),
    NoModule,
    EmptyModule,
    /// DWARF module whose FDE list omits every function (lookup fails / uncovered).
    NoFdes(Pres),
    /// DWARF module that covers everything except the innermost function.
    GapAtInnermost(Pres),
}

pub struct Layout {
    pub base_avma: u64,
    pub text_off: u64,
    pub base_svma: u64,
    pub stack_top: u64,
}

pub struct Scenario {
    pub arch: Arch,
    pub funcs: Vec<Func>,
    /// (function, call index) for callers; the innermost function index last.
    pub chain_funcs: Vec<(usize, usize)>,
    pub info: Info,
    pub mask: u64,
}

fn gen_program(p: &mut Prng, arch: Arch, info: Info) -> Scenario {
    let depth = 1 + p.below(6) as usize; // callers above the innermost frame (root included)
    let fp_only = matches!(info, Info::NoModule | Info::EmptyModule | Info::NoFdes(_));
    let mut funcs = Vec::new();
    let mut start = 0x100u64;
    let mut chain = Vec::new();
    let mut any_pac = false;
    for d in 0..=depth {
        let innermost = d == depth;
        let shape = if fp_only {
            Shape::FramePointer
        } else if innermost {
            *p.pick(&[Shape::FramePointer, Shape::Frameless, Shape::Leaf, Shape::Frameless])
        } else if d == 0 {
            *p.pick(&[Shape::Leaf, Shape::FramePointer])
        } else {
            *p.pick(&[Shape::FramePointer, Shape::Frameless, Shape::FramePointer])
        };
        // a root that calls must keep lr on aarch64? it never returns, so lr is dead: any shape works
        let n_calls = if innermost { if shape == Shape::Leaf { 0 } else { p.below(2) as usize } } else { 1 + p.below(2) as usize };
        let call_last = !innermost && d != 0 && p.chance(1, 4);
        let f = gen_func(p, arch, shape, d == 0, start, n_calls, call_last);
        any_pac |= f.pac;
        start += f.len();
        if !p.chance(1, 3) {
            start += p.below(0x20); // padding between functions; otherwise adjacent
        }
        let sel = if innermost { 0 } else { p.below(f.calls.len() as u64) as usize };
        chain.push((funcs.len(), sel));
        funcs.push(f);
    }
    let mask = if any_pac || p.chance(1, 3) { u64::MAX >> 16 } else { u64::MAX };
    Scenario { arch, funcs, chain_funcs: chain, info, mask }
}

fn gen_layout(p: &mut Prng, high_ok: bool) -> Layout {
    let base_avma = match p.below(6) {
        0 => 0x1000,
        1 => 0x40_0000,
        2 | 3 => 0x5555_5555_0000,
        4 => 0x7f00_1234_0000,
        _ => {
            if high_ok {
                0xffff_8000_1000_0000
            } else {
                0x1_0000_0000
            }
        }
    };
    Layout {
        base_avma,
        text_off: *p.pick(&[0u64, 0x1000, 0x40]),
        base_svma: *p.pick(&[0u64, 0x1000, 0x40_0000, 0x1_4000_0000]),
        stack_top: match p.below(4) {
            0 => 0x7ffc_1000_0000,
            1 => 0x7fff_ffff_f000,
            2 => 0x40_0000,
            _ => {
                if high_ok {
                    0xffff_c900_0000_8000
                } else {
                    0x7ffd_2000_0000
                }
            }
        },
    }
}

fn module_for(sc: &Scenario, lay: &Layout, p: &mut Prng, omit: Option<usize>) -> Option<ModSpec> {
    let text_len = sc.funcs.last().map(|f| f.start + f.len()).unwrap_or(0) + 0x40;
    let start = lay.base_avma + lay.text_off;
    let fdes = |omit: Option<usize>, all: bool| -> Vec<FdeSpec> {
        let mut v: Vec<FdeSpec> = sc
            .funcs
            .iter()
            .enumerate()
            .filter(|(i, _)| all && Some(*i) != omit)
            .map(|(_, f)| FdeSpec {
                start: lay.base_svma + lay.text_off + f.start,
                len: f.len(),
                rows: f.fde_rows(),
                eval_fails: false,
                pac: f.pac,
            })
            .collect();
        // shuffled section order
        let mut q = Prng::new(v.len() as u64 * 7919 + lay.text_off);
        for i in (1..v.len()).rev() {
            let j = q.below(i as u64 + 1) as usize;
            v.swap(i, j);
        }
        v
    };
    let data = match sc.info {
        Info::NoModule => return None,
        Info::EmptyModule => DataSpec::None,
        Info::Dwarf(pres) => DataSpec::Dwarf(pres, fdes(None, true)),
        Info::NoFdes(pres) => DataSpec::Dwarf(pres, fdes(None, false)),
        Info::GapAtInnermost(pres) => DataSpec::Dwarf(pres, fdes(omit, true)),
    };
    Some(ModSpec {
        start,
        end: start + text_len,
        base_avma: lay.base_avma,
        base_svma: lay.base_svma,
        data,
        enc: *p.pick(&[PtrEnc::Abs8, PtrEnc::PcRel4, PtrEnc::PcRel8, PtrEnc::TextRel4]),
        hdr_abs: p.chance(1, 2),
        dbg_version: *p.pick(&[1u8, 3, 4]),
        n_cies: 1 + p.below(5) as u8,
    })
}

fn regs_for(arch: Arch, mask: u64, addr: u64, m: &Mach, innermost: bool) -> RegsAny {
    match arch {
        Arch::X64 => {
            let mut r = [0u64; 16];
            for (i, v) in r.iter_mut().enumerate() {
                *v = 0x1000 + i as u64;
            }
            r[7] = m.sp;
            r[6] = m.fp;
            RegsAny::X(RegsX { ip: addr, r })
        }
        Arch::A64 => RegsAny::A(RegsA {
            mask,
            // the unwinder's lr after stepping into a caller is that caller's return address
            lr: (if innermost { m.lr } else { addr }) & mask,
            sp: m.sp,
            fp: m.fp,
        }),
    }
}

fn mem_for(truth: &Truth, filler: u64) -> MemDesc {
    let mut mem = MemDesc::new(Dflt::Const(filler));
    for (a, v) in &truth.stack {
        mem.entries.push((*a, Some(*v)));
    }
    // nothing is readable above the top of the stack
    mem.cut = Some(truth.stack_top + 8);
    mem
}

fn show_regs_after(arch: Arch, mask: u64, before: &RegsAny, ra: u64, m: &Mach) -> String {
    match (arch, before) {
        (Arch::X64, RegsAny::X(b)) => {
            let mut r = b.r;
            r[7] = m.sp;
            r[6] = m.fp;
            RegsX { ip: ra, r }.show()
        }
        (Arch::A64, _) => RegsA { mask, lr: ra & mask, sp: m.sp, fp: m.fp }.show(),
        _ => unreachable!(),
    }
}

/// Expected answers for one stop position: per-frame `unwind` results and the whole walk.
struct Expect {
    steps: Vec<(bool, u64, RegsAny, String)>, // (is_ra, addr, regs before, expected "res regs")
    walk_items: String,
}

fn expectations(sc: &Scenario, truth: &Truth, drop_last_frame_a64_fp: bool) -> Expect {
    let arch = sc.arch;
    let mask = sc.mask;
    let n = truth.frames.len();
    let mut steps = Vec::new();
    let mut items = vec![format!("ip:{}", hex(truth.frames[0].addr))];
    for i in 0..n {
        let fr = &truth.frames[i];
        let before = regs_for(arch, mask, fr.addr & mask, &fr.mach, i == 0);
        let is_ra = i > 0;
        let expected = if i + 1 < n && !(drop_last_frame_a64_fp && i + 2 == n) {
            let next = &truth.frames[i + 1];
            let ra = next.addr & mask;
            items.push(format!("ra:{}", hex(ra)));
            format!("frame:{} {}", hex(ra), show_regs_after(arch, mask, &before, ra, &next.mach))
        } else {
            items.push("none".into());
            format!("done {}", before.show())
        };
        let stop_here = expected.starts_with("done");
        steps.push((is_ra, fr.addr & mask, before, expected));
        if stop_here {
            break;
        }
    }
    Expect { steps, walk_items: format!("items={}", items.join(",")) }
}

fn run_scenario<H: ArchH>(rep: &mut Report, p: &mut Prng, sc: &Scenario, id: u64, policy_name: &str) {
    let arch = sc.arch;
    let high_ok = sc.mask == u64::MAX;
    let lay = gen_layout(p, high_ok);
    let text_avma = lay.base_avma + lay.text_off;
    let innermost_fi = sc.chain_funcs.last().unwrap().0;
    let inner = &sc.funcs[innermost_fi];
    let mut w: World<H> = World::new();
    let n_slots = crate::hist::cache_entry_count();
    let mut rec = Recorder {
        lines: vec![w.init_line(0, n_slots)],
        impl_outs: vec!["ok".to_string()],
        cmds: vec!["init".to_string()],
        truth: vec![None],
    };
    let module = module_for(sc, &lay, p, Some(innermost_fi));
    rec.op(&mut w, Op::New { u: "u0".into() }, None, rep);
    rec.op(&mut w, Op::NewCache { c: "c0".into() }, None, rep);
    if let Some(m) = &module {
        rec.op(&mut w, Op::Mod { m: "m0".into(), spec: m.clone() }, None, rep);
        rec.op(&mut w, Op::Add { u: "u0".into(), m: "m0".into() }, None, rep);
    }
    // which stop positions make sense
    let stops: Vec<usize> = match sc.info {
        Info::Dwarf(_) => (0..inner.insns.len()).collect(),
        // frame pointer convention: only inside the body (frame record set up, not yet torn down)
        Info::NoModule | Info::EmptyModule | Info::NoFdes(_) => {
            let first_body = inner.insns.iter().position(|i| i.eff == Eff::None).unwrap_or(0);
            let last_body = inner.insns.iter().rposition(|i| i.eff == Eff::None).unwrap_or(0);
            (first_body..=last_body).collect()
        }
        // leaf assumption for an uncovered first frame: exact at the function's first instruction
        Info::GapAtInnermost(_) => vec![0],
    };
    let fp_walk = !matches!(sc.info, Info::Dwarf(_));
    for (gi, stop) in stops.iter().enumerate() {
        let group = gi as u32;
        let mut chain = sc.chain_funcs.clone();
        chain.last_mut().unwrap().1 = *stop;
        let mut g = Prng::new(id * 1000 + gi as u64);
        let truth = simulate(arch, &sc.funcs, &chain, text_avma, lay.stack_top, &mut g);
        // aarch64 frame pointer walks end when the *restored* fp is null, i.e. one frame early
        // relative to a root that has no frame record of its own; our roots have one, see gen.
        let exp = expectations(sc, &truth, false);
        // Known deviation (recorded finding): on aarch64 a frame whose row is compressed into a
        // frame pointer rule ends the walk when the *caller's* saved fp is null, without reporting
        // the caller; it shows up whenever the root function runs with fp = 0 (as `_start` does).
        let n_fr = truth.frames.len();
        let tag = if arch == Arch::A64 && n_fr >= 2 && truth.frames[n_fr - 1].mach.fp == 0
            && sc.funcs[truth.frames[n_fr - 2].func].shape != Shape::Leaf
        {
            "-root-with-null-fp".to_string()
        } else {
            String::new()
        };
        let mem = mem_for(&truth, 0x6666_0000_0000 + g.below(0x1000));
        let judged = match sc.info {
            Info::Dwarf(_) => true,
            // fp-convention scenarios have no DWARF spec to confirm the truth; they are judged
            // directly (the truth is the frame-pointer convention applied to the simulated stack)
            _ => false,
        };
        // whole walk through the iterator
        let pc = truth.frames[0].addr & sc.mask;
        let regs0 = regs_for(arch, sc.mask, pc, &truth.frames[0].mach, true);
        let (ans, obs) = rec.op(
            &mut w,
            Op::Iter { u: "u0".into(), c: "c0".into(), pc, regs: regs0.clone(), mem: mem.clone(), extra: 1, max: 64 },
            if judged { Some((format!("{},none", exp.walk_items), group, tag.clone())) } else { None },
            rep,
        );
        rep.count(&format!("{} {:?} {policy_name} walk depth {}", arch.name(), sc.info, truth.frames.len().min(8)));
        let _ = obs;
        if !judged {
            // direct judgement for the frame-pointer convention (C04)
            let got_items = ans.split(' ').next().unwrap_or("").to_string();
            let want = format!("{},none", exp.walk_items);
            if got_items != want && !fp_truth_excluded(sc, *stop) && tag.is_empty() {
                rep.add_finding(Finding {
                    props: vec!["C04".into()],
                    kind: "oracle".into(),
                    key: format!("scn-{}-fp-walk-{:?}", arch.name(), sc.info).replace(['(', ')'], "-"),
                    what: format!("frames without unwind info must follow the frame pointer convention (leaf assumption for an uncovered first frame): expected {want}"),
                    case: rec.lines.join("\n"),
                    impl_out: got_items,
                    model_out: String::new(),
                });
            }
        }
        // every step on its own, with the true registers of that frame
        for (is_ra, addr, before, expected) in &exp.steps {
            rec.op(
                &mut w,
                Op::Unwind { u: "u0".into(), c: "c0".into(), is_ra: *is_ra, addr: *addr, regs: before.clone(), mem: mem.clone() },
                if judged { Some((expected.clone(), group, tag.clone())) } else { None },
                rep,
            );
        }
        // C11: truncation. Reads at or above the cut fail: the walk must be a prefix of the true
        // chain followed by an error naming an unreadable address (or complete unharmed).
        if (fp_walk || gi % 3 == 0) && tag.is_empty() {
            let want_items: Vec<String> = exp.walk_items.trim_start_matches("items=").split(',').map(|s| s.to_string()).collect();
            let mut cuts: Vec<u64> = truth.stack.iter().map(|(a, _)| *a).collect();
            cuts.push(truth.stack_top);
            for cut in cuts {
                let mut m2 = mem.clone();
                m2.cut = Some(cut);
                let unw = &w.unws["u0"];
                let got = iter_with_fresh_cache::<H>(unw, pc, &regs0, &m2, 64);
                rep.count("truncated walks");
                let frames_got: Vec<&String> = got.iter().take_while(|s| s.starts_with("ip:") || s.starts_with("ra:")).collect();
                let k = frames_got.len();
                let prefix_ok = k <= want_items.len() && frames_got.iter().zip(want_items.iter()).all(|(a, b)| *a == b);
                let tail = got.get(k).cloned().unwrap_or_default();
                let tail_ok = if tail == "none" && k + 1 == want_items.len() {
                    true
                } else if let Some(a) = tail.strip_prefix("err:stack:") {
                    u64::from_str_radix(a, 16).map(|a| a >= cut).unwrap_or(false)
                } else {
                    // other errors are acceptable only where a rule-based step is not involved:
                    // scenarios without DWARF, and steps through a function whose frame is too
                    // large for a cacheable rule (such rows take the generic path, whose
                    // failures end in the frame pointer fallback - which reports its own error
                    // or, with a null frame pointer register, the end of the chain)
                    let failing_fn_is_huge = frames_got.last().and_then(|s| u64::from_str_radix(&s[3..], 16).ok()).map_or(false, |a| {
                        let rel = a.wrapping_sub(text_avma).wrapping_sub(if frames_got.len() > 1 { 1 } else { 0 });
                        sc.funcs.iter().any(|f| {
                            rel >= f.start && rel < f.start + f.len() && f.insns.iter().any(|i| matches!(i.eff, Eff::SubSp(n) if n >= 0x10000))
                        })
                    });
                    (tail != "none" && !judged) || failing_fn_is_huge
                };
                if !(prefix_ok && tail_ok) {
                    rep.add_finding(Finding {
                        props: vec!["C11".into()],
                        kind: "oracle".into(),
                        key: format!("scn-{}-truncation-not-prefix-plus-error", arch.name()),
                        what: format!("with reads at or above {cut:#x} failing the walk must be a prefix of {want_items:?} followed by Err(CouldNotReadStack(a)) with a >= the cut"),
                        case: format!("{}\n(cut={cut:#x} pc={pc:#x})", rec.lines.join("\n")),
                        impl_out: got.join(","),
                        model_out: String::new(),
                    });
                }
            }
        }
    }
    let props: Vec<String> = match sc.info {
        Info::Dwarf(_) => vec!["C01".into()],
        _ => vec!["C04".into()],
    };
    push_pending(rep, Pending {
        arch: arch.name().to_string(),
        hist_id: id,
        lines: rec.lines,
        impl_outs: rec.impl_outs,
        cmds: rec.cmds,
        truth: rec.truth,
        truth_props: props,
    });
}

struct Recorder {
    lines: Vec<String>,
    impl_outs: Vec<String>,
    cmds: Vec<String>,
    truth: Vec<Option<(String, u32, String)>>,
}

impl Recorder {
    fn op<H: ArchH>(&mut self, w: &mut World<H>, op: Op, truth: Option<(String, u32, String)>, rep: &mut Report) -> (String, Obs) {
        let idx = self.lines.len() as u64;
        let line = op.line(idx);
        let cmd = line.split(' ').next().unwrap().to_string();
        let (ans, obs) = w.exec(&op);
        if let Some(loc) = &obs.panicked {
            rep.add_finding(Finding {
                props: vec!["C09".into(), "C01".into()],
                kind: "oracle".into(),
                key: format!("scn-panic-{}", loc.split(':').take(2).collect::<Vec<_>>().join(":")),
                what: format!("{cmd} panicked at {loc}"),
                case: format!("{}\n{line}", self.lines.join("\n")),
                impl_out: "panic".into(),
                model_out: String::new(),
            });
        }
        self.lines.push(line);
        self.cmds.push(cmd);
        self.impl_outs.push(ans.clone());
        self.truth.push(truth);
        (ans, obs)
    }
}

/// Stop positions at which the frame pointer convention is not expected to give the truth
/// even inside the body (none for the generated shapes).
fn fp_truth_excluded(_sc: &Scenario, _stop: usize) -> bool {
    false
}

pub fn iter_with_fresh_cache<H: ArchH>(unw: &H::Unw, pc: u64, regs: &RegsAny, mem: &MemDesc, max: u64) -> Vec<String> {
    use framehop::Unwinder;
    let mut cache = H::new_cache();
    let mut items: Vec<String> = Vec::new();
    let mut rs = |a: u64| mem.read(a);
    let r = catch(|| {
        let mut it = unw.iter_frames(pc, H::to_fh(regs), &mut cache, &mut rs);
        for _ in 0..max {
            let item = it.next();
            let fin = !matches!(item, Ok(Some(_)));
            items.push(show_item(&item));
            if fin {
                return;
            }
        }
        items.push("cap".into());
    });
    if r.is_err() {
        items.push("panic".into());
    }
    items
}

/// C08 / C12: the same program unwound under different load addresses, stack placements and
/// presentations must give the same frames up to the shifts.
fn relocation_twins<H: ArchH>(rep: &mut Report, p: &mut Prng, sc: &Scenario, id: u64) {
    let arch = sc.arch;
    let innermost_fi = sc.chain_funcs.last().unwrap().0;
    let inner = &sc.funcs[innermost_fi];
    let high_ok = sc.mask == u64::MAX;
    let stop = p.below(inner.insns.len() as u64) as usize;
    let mut chain = sc.chain_funcs.clone();
    chain.last_mut().unwrap().1 = stop;
    let mut reference: Option<(Vec<i128>, String)> = None;
    for variant in 0..4u64 {
        let lay = gen_layout(p, high_ok);
        let pres = [Pres::Hdr, Pres::Idx, Pres::Dbg][(variant % 3) as usize];
        let sc2 = Scenario { arch, funcs: sc.funcs.clone(), chain_funcs: sc.chain_funcs.clone(), info: Info::Dwarf(pres), mask: sc.mask };
        let module = module_for(&sc2, &lay, p, None).unwrap();
        let text_avma = lay.base_avma + lay.text_off;
        let mut g = Prng::new(id);
        let truth = simulate(arch, &sc.funcs, &chain, text_avma, lay.stack_top, &mut g);
        let mem = mem_for(&truth, 0x6666_0000_0000);
        let mut unw = H::new_unw();
        use framehop::Unwinder;
        unw.add_module(build_module(arch, "m", &module));
        let pc = truth.frames[0].addr & sc.mask;
        let regs0 = regs_for(arch, sc.mask, pc, &truth.frames[0].mach, true);
        let got = iter_with_fresh_cache::<H>(&unw, pc, &regs0, &mem, 64);
        // normalise: code addresses relative to the text mapping
        let norm: Vec<i128> = got
            .iter()
            .filter_map(|s| s.split_once(':').and_then(|(k, v)| if k == "ip" || k == "ra" { u64::from_str_radix(v, 16).ok() } else { None }))
            .map(|a| a as i128 - text_avma as i128)
            .collect();
        let tail = got.last().cloned().unwrap_or_default();
        rep.cases += 1;
        rep.count("relocation/presentation twins");
        match &reference {
            None => reference = Some((norm, tail)),
            Some((rn, rt)) => {
                if *rn != norm || *rt != tail {
                    rep.add_finding(Finding {
                        props: vec!["C08".into(), "C12".into()],
                        kind: "oracle".into(),
                        key: format!("scn-{}-relocated-or-represented-twin-differs", arch.name()),
                        what: format!("the same program mapped at {:#x} (stack top {:#x}, {:?}) unwinds to {:?} {}, the reference mapping to {:?} {}", text_avma, lay.stack_top, pres, norm, tail, rn, rt),
                        case: format!("program seed id={id} stop={stop} module={}", module.line_fields()),
                        impl_out: got.join(","),
                        model_out: String::new(),
                    });
                }
            }
        }
    }
}

fn run_policy<P: AllocationPolicy>(rep: &mut Report, tier: &str, seed: u64, policy_name: &str) {
    let mut p = Prng::new(seed.wrapping_mul(0x2545_f491_4f6c_dd1d).wrapping_add(3));
    let n: u64 = if tier == "thorough" { 3000 } else { 160 };
    for i in 0..n {
        let arch = if i % 2 == 0 { Arch::X64 } else { Arch::A64 };
        let pres = [Pres::Hdr, Pres::Idx, Pres::Dbg][(i / 2 % 3) as usize];
        let info = match i % 8 {
            0..=4 => Info::Dwarf(pres),
            5 => *p.pick(&[Info::NoModule, Info::EmptyModule]),
            6 => Info::NoFdes(pres),
            _ => Info::GapAtInnermost(pres),
        };
        let sc = gen_program(&mut p, arch, info);
        match arch {
            Arch::X64 => run_scenario::<X64H<P>>(rep, &mut p, &sc, i, policy_name),
            Arch::A64 => run_scenario::<A64H<P>>(rep, &mut p, &sc, i, policy_name),
        }
        if matches!(info, Info::Dwarf(_)) {
            match arch {
                Arch::X64 => relocation_twins::<X64H<P>>(rep, &mut p, &sc, i),
                Arch::A64 => relocation_twins::<A64H<P>>(rep, &mut p, &sc, i),
            }
        }
    }
}

pub fn run(tier: &str, seed: u64) -> Report {
    let mut rep = Report::new("scn");
    run_policy::<MayAllocateDuringUnwind>(&mut rep, tier, seed, "may-allocate");
    run_policy::<MustNotAllocateDuringUnwind>(&mut rep, tier, seed ^ 0x55, "must-not-allocate");
    crate::hist::flush(&mut rep);
    rep
}
