//! Engine `row`: one DWARF row at a time through real CFI bytes. A module with a single FDE
//! whose rows come from a boundary grid (CFA register/offset, return-address and frame-pointer
//! rules, including offsets that do not fit or are not multiples of the rule granularity) is
//! registered in each of the three presentations and unwound with many register/stack states,
//! as first frame and as caller frame. Every answer is compared with the Lean model and, where
//! the C05 theorems apply, with the DWARF specification of the row.
use crate::gen::*;
use crate::hist::{run_history, Hist};
use crate::mem::{Dflt, MemDesc};
use crate::spec::*;
use crate::util::*;
use crate::world::*;
use framehop::MayAllocateDuringUnwind;

fn grid_row(p: &mut Prng, arch: Arch, i: u64) -> RowSpec {
    // systematic part: walk the product of small grids, then random fill
    let cfa_regs = [DReg::Sp, DReg::Fp];
    let offs = &OFF_GRID;
    let ras = [RR::Offset(-8), RR::Undef, RR::Same, RR::Offset(-16), RR::Offset(8), RR::Offset(-4)];
    let fps = [
        RR::Undef,
        RR::Same,
        RR::Offset(-16),
        RR::Offset(-24),
        RR::Offset(-12),
        RR::Offset(16),
        RR::Offset(-8 * 32768 - 16),
        RR::Offset(8 * 32767),
    ];
    let n = (cfa_regs.len() * offs.len() * ras.len() * fps.len()) as u64;
    if i < n {
        let mut k = i as usize;
        let fp = fps[k % fps.len()];
        k /= fps.len();
        let ra = ras[k % ras.len()];
        k /= ras.len();
        let off = offs[k % offs.len()];
        k /= offs.len();
        let reg = cfa_regs[k % cfa_regs.len()];
        RowSpec { cfa: Cfa::RegOff(reg, off), fp, ra }
    } else {
        gen_row(p, arch)
    }
}

fn state_for(p: &mut Prng, arch: Arch, row: &RowSpec, ip: u64, variant: u64) -> (RegsAny, MemDesc) {
    // registers such that the slots named by the row are usually readable and in range
    let mut regs = gen_regs(p, arch, ip);
    if variant % 4 == 3 {
        // stack in the upper half of the address space
        match &mut regs {
            RegsAny::X(r) => {
                r.r[7] = 0xffff_8000_0000_2000 + p.below(0x100) * 8;
                r.r[6] = r.r[7] + p.below(0x20) * 8;
            }
            RegsAny::A(r) => {
                r.sp = 0xffff_8000_0000_2000 + p.below(0x100) * 16;
                r.fp = r.sp + p.below(0x20) * 8;
            }
        }
    }
    let mut mem = MemDesc::new(match variant % 3 {
        0 => Dflt::Ident,
        1 => Dflt::Plus(0x10),
        _ => Dflt::Const(0x5555_0000_3000 + p.below(0x100)),
    });
    if let Cfa::RegOff(reg, off) = row.cfa {
        let base = match reg {
            DReg::Sp => regs.sp(),
            DReg::Fp => regs.fp(),
            _ => 0,
        };
        let cfa = base.wrapping_add(off as u64);
        if p.chance(1, 5) {
            mem.set(cfa.wrapping_sub(8), Some(*p.pick(&[0u64, ip, 1])));
        }
        if p.chance(1, 8) {
            mem.set(cfa.wrapping_sub(8), None);
        }
        if p.chance(1, 8) {
            mem.set(cfa.wrapping_sub(16), if p.chance(1, 2) { None } else { Some(0) });
        }
    }
    (regs, mem)
}

pub fn run(tier: &str, seed: u64) -> Report {
    let mut rep = Report::new("row");
    let mut p = Prng::new(seed.wrapping_mul(0x9e37_79b9).wrapping_add(11));
    let n_rows: u64 = if tier == "thorough" { 600_000 } else { 30_000 };
    let mut gens = Vec::new();
    for i in 0..n_rows {
        let arch = if i % 2 == 0 { Arch::X64 } else { Arch::A64 };
        let row = grid_row(&mut p, arch, i / 2);
        let pres = [Pres::Hdr, Pres::Idx, Pres::Dbg][(i / 2 % 3) as usize];
        let base = 0x40_0000u64;
        let spec = ModSpec {
            start: base,
            end: base + 0x1000,
            base_avma: base,
            base_svma: 0x1000,
            data: DataSpec::Dwarf(
                pres,
                vec![FdeSpec {
                    start: 0x1000 + 0x100,
                    len: 0x80,
                    rows: vec![(0, row)],
                    eval_fails: false,
                    pac: arch == Arch::A64 && i % 7 == 0,
                }],
            ),
            enc: *p.pick(&[PtrEnc::Abs8, PtrEnc::PcRel4, PtrEnc::PcRel8, PtrEnc::TextRel4]),
            hdr_abs: p.chance(1, 2),
            dbg_version: *p.pick(&[1u8, 3, 4]),
            n_cies: 1,
        };
        let mut ops = vec![
            Op::Mod { m: "m0".into(), spec },
            Op::New { u: "u0".into() },
            Op::NewCache { c: "c0".into() },
            Op::Add { u: "u0".into(), m: "m0".into() },
        ];
        for v in 0..6u64 {
            let is_ra = v % 2 == 1;
            // distinct lookup addresses per kind so that each address is used consistently
            let la = base + 0x100 + 0x10 + v;
            let addr = if is_ra { la + 1 } else { la };
            let ip = if p.chance(5, 6) { addr } else { crate::rules::gen_u64(&mut p) };
            let (regs, mem) = state_for(&mut p, arch, &row, ip, v + i);
            ops.push(Op::Unwind { u: "u0".into(), c: "c0".into(), is_ra, addr, regs, mem });
        }
        let h = Hist { ops };
        match arch {
            Arch::X64 => run_history::<X64H<MayAllocateDuringUnwind>>(&mut rep, &h, i, &mut gens),
            Arch::A64 => run_history::<A64H<MayAllocateDuringUnwind>>(&mut rep, &h, i, &mut gens),
        }
    }
    crate::hist::flush(&mut rep);
    rep.notes.push(format!("rows={n_rows}"));
    rep
}
