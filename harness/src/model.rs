//! Talks to the compiled Lean driver over its line protocol.
use std::io::{BufRead, BufReader, Write};
use std::process::{Command, Stdio};

pub fn driver_path() -> String {
    std::env::var("FHV_DRIVER").unwrap_or_else(|_| "/verif/lean/.lake/build/bin/driver".into())
}

/// Sends `lines` (each `<cmd> <id> ...`) to a fresh driver process and returns its
/// answers, one per line, with the leading `<id> ` removed (ids are checked).
pub fn run_model(lines: &[String]) -> Vec<String> {
    let mut child = Command::new(driver_path())
        .stdin(Stdio::piped())
        .stdout(Stdio::piped())
        .spawn()
        .expect("cannot start the Lean driver; run ./check --setup");
    let mut stdin = child.stdin.take().unwrap();
    let stdout = child.stdout.take().unwrap();
    let mut out = Vec::with_capacity(lines.len());
    std::thread::scope(|s| {
        s.spawn(move || {
            let mut w = std::io::BufWriter::new(&mut stdin);
            for l in lines {
                w.write_all(l.as_bytes()).unwrap();
                w.write_all(b"\n").unwrap();
            }
            w.flush().unwrap();
            drop(w);
            drop(stdin);
        });
        let r = BufReader::new(stdout);
        for l in r.lines() {
            out.push(l.unwrap());
        }
    });
    let _ = child.wait();
    assert_eq!(
        out.len(),
        lines.len(),
        "driver answered {} lines for {} cases",
        out.len(),
        lines.len()
    );
    out.iter()
        .zip(lines.iter())
        .map(|(o, l)| {
            let id = l.split(' ').nth(1).unwrap_or("?");
            let (oid, rest) = o.split_once(' ').unwrap_or((o.as_str(), ""));
            assert_eq!(oid, id, "driver answer out of order: {o} for {l}");
            rest.to_string()
        })
        .collect()
}

/// Splits the specification verdict (` spec=<expected answer with | for spaces>`) off a
/// model answer (after `split_branch`).
pub fn split_spec(ans: &str) -> (String, Option<String>) {
    match ans.rsplit_once(" spec=") {
        Some((a, b)) => (a.to_string(), if b == "-" { None } else { Some(b.replace('|', " ")) }),
        None => (ans.to_string(), None),
    }
}

/// Splits the unguarded specification (` raw=...`) off a model answer (after `split_branch`).
pub fn split_raw(ans: &str) -> (String, Option<String>) {
    match ans.rsplit_once(" raw=") {
        Some((a, b)) => (a.to_string(), if b == "-" { None } else { Some(b.replace('|', " ")) }),
        None => (ans.to_string(), None),
    }
}

/// Splits the coverage tag (` br=<tag>`) off a model answer.
pub fn split_branch(ans: &str) -> (String, Option<String>) {
    match ans.rsplit_once(" br=") {
        Some((a, b)) => (a.to_string(), Some(b.to_string())),
        None => (ans.to_string(), None),
    }
}

#[allow(dead_code)]
fn _unused(lines: &[String]) -> Vec<String> {
    lines
        .iter()
        .map(|l| {
            l.clone()
        })
        .collect()
}
