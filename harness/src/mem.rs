//! Stack reader descriptions shared with the Lean driver (`FH/Driver/Parse.lean`).
use crate::util::hex;

#[derive(Clone, Debug, PartialEq)]
pub enum Dflt {
    Fail,
    Const(u64),
    Ident,
    Plus(u64),
}

#[derive(Clone, Debug, PartialEq)]
pub struct MemDesc {
    /// Explicit entries; `None` = this address fails. First match wins.
    pub entries: Vec<(u64, Option<u64>)>,
    pub default: Dflt,
    /// Reads at or above the cut fail.
    pub cut: Option<u64>,
}

impl MemDesc {
    pub fn new(default: Dflt) -> Self {
        MemDesc {
            entries: vec![],
            default,
            cut: None,
        }
    }
    pub fn read(&self, a: u64) -> Result<u64, ()> {
        if let Some(c) = self.cut {
            if a >= c {
                return Err(());
            }
        }
        for (ea, ev) in &self.entries {
            if *ea == a {
                return ev.ok_or(());
            }
        }
        match self.default {
            Dflt::Fail => Err(()),
            Dflt::Const(v) => Ok(v),
            Dflt::Ident => Ok(a),
            Dflt::Plus(v) => Ok(a.wrapping_add(v)),
        }
    }
    pub fn set(&mut self, a: u64, v: Option<u64>) {
        self.entries.retain(|e| e.0 != a);
        self.entries.push((a, v));
    }
    pub fn to_line(&self) -> String {
        let es: Vec<String> = self
            .entries
            .iter()
            .map(|(a, v)| match v {
                Some(v) => format!("{}:{}", hex(*a), hex(*v)),
                None => format!("{}:x", hex(*a)),
            })
            .collect();
        let d = match self.default {
            Dflt::Fail => "F".to_string(),
            Dflt::Const(v) => format!("C{}", hex(v)),
            Dflt::Ident => "I".to_string(),
            Dflt::Plus(v) => format!("P{}", hex(v)),
        };
        match self.cut {
            Some(c) => format!("{};{};{}", es.join(","), d, hex(c)),
            None => format!("{};{}", es.join(","), d),
        }
    }
    pub fn from_line(l: &str) -> Option<MemDesc> {
        let parts: Vec<&str> = l.split(';').collect();
        if parts.len() < 2 {
            return None;
        }
        let h = |x: &str| u64::from_str_radix(x, 16).ok();
        let mut entries = Vec::new();
        for e in parts[0].split(',').filter(|e| !e.is_empty()) {
            let (a, v) = e.split_once(':')?;
            entries.push((h(a)?, if v == "x" { None } else { Some(h(v)?) }));
        }
        let d = parts[1];
        let default = match d.chars().next()? {
            'F' => Dflt::Fail,
            'I' => Dflt::Ident,
            'C' => Dflt::Const(h(&d[1..])?),
            'P' => Dflt::Plus(h(&d[1..])?),
            _ => return None,
        };
        let cut = match parts.get(2) {
            Some(c) => Some(h(c)?),
            None => None,
        };
        Some(MemDesc { entries, default, cut })
    }
}
