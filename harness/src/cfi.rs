//! Writers for .eh_frame, .eh_frame_hdr and .debug_frame from abstract FDE descriptions.
use crate::spec::*;

fn uleb(out: &mut Vec<u8>, mut v: u64) {
    loop {
        let b = (v & 0x7f) as u8;
        v >>= 7;
        if v == 0 {
            out.push(b);
            break;
        }
        out.push(b | 0x80);
    }
}

fn sleb(out: &mut Vec<u8>, mut v: i64) {
    loop {
        let b = (v & 0x7f) as u8;
        v >>= 7;
        let done = (v == 0 && b & 0x40 == 0) || (v == -1 && b & 0x40 != 0);
        if done {
            out.push(b);
            break;
        }
        out.push(b | 0x80);
    }
}

/// An expression framehop's evaluator gives up on: `DW_OP_breg<sp> 0; DW_OP_deref`.
fn unevaluable_expr(arch: Arch) -> Vec<u8> {
    let spn = DReg::Sp.num(arch) as u8;
    vec![0x70 + spn, 0x00, 0x06]
}

fn reg_rule_instr(out: &mut Vec<u8>, arch: Arch, reg: DReg, rule: &RR) {
    let rn = reg.num(arch);
    match rule {
        RR::Undef => {
            out.push(0x07);
            uleb(out, rn);
        }
        RR::Same => {
            out.push(0x08);
            uleb(out, rn);
        }
        RR::Offset(n) => {
            out.push(0x11); // DW_CFA_offset_extended_sf (data alignment factor is 1)
            uleb(out, rn);
            sleb(out, *n);
        }
        RR::ValOffset(n) => {
            out.push(0x15); // DW_CFA_val_offset_sf
            uleb(out, rn);
            sleb(out, *n);
        }
        RR::Register(r2) => {
            out.push(0x09);
            uleb(out, rn);
            uleb(out, r2.num(arch));
        }
        RR::ExprReg(r2, off) | RR::ValExprReg(r2, off) => {
            out.push(if matches!(rule, RR::ExprReg(..)) { 0x10 } else { 0x16 }); // DW_CFA_(val_)expression
            uleb(out, rn);
            let e = breg_expr(r2.num(arch), *off);
            uleb(out, e.len() as u64);
            out.extend_from_slice(&e);
        }
        RR::Other => {
            out.push(0x10); // DW_CFA_expression
            uleb(out, rn);
            let e = unevaluable_expr(arch);
            uleb(out, e.len() as u64);
            out.extend_from_slice(&e);
        }
    }
}

fn row_instrs(out: &mut Vec<u8>, arch: Arch, row: &RowSpec) {
    match row.cfa {
        Cfa::RegOff(r, off) => {
            out.push(0x12); // DW_CFA_def_cfa_sf
            uleb(out, r.num(arch));
            sleb(out, off);
        }
        Cfa::ExprRegOff(r, off) => {
            out.push(0x0f); // DW_CFA_def_cfa_expression
            let e = breg_expr(r.num(arch), off);
            uleb(out, e.len() as u64);
            out.extend_from_slice(&e);
        }
        Cfa::Expr => {
            out.push(0x0f); // DW_CFA_def_cfa_expression
            let e = unevaluable_expr(arch);
            uleb(out, e.len() as u64);
            out.extend_from_slice(&e);
        }
    }
    reg_rule_instr(out, arch, DReg::Fp, &row.fp);
    reg_rule_instr(out, arch, DReg::Ra, &row.ra);
}

thread_local! {
    /// Semantically neutral padding of every FDE program and expression written on this thread
    /// (`alloc` engine: both sides of the fixed capacities of `StoreOnStack`):
    /// (`DW_CFA_remember_state` count, extra `DW_CFA_undefined` registers, expression stack padding).
    static STRESS: std::cell::Cell<(u8, u16, u8)> = const { std::cell::Cell::new((0, 0, 0)) };
}

pub fn set_stress(remember: u8, extra_regs: u16, expr_pad: u8) {
    STRESS.with(|s| s.set((remember, extra_regs, expr_pad)));
}

/// `DW_OP_breg<r> off` computed under `pad` extra stack entries (pushed first, removed after).
fn breg_expr(reg: u64, off: i64) -> Vec<u8> {
    let pad = STRESS.with(|s| s.get()).2;
    let mut e = vec![0x31u8; pad as usize]; // DW_OP_lit1
    e.push(0x70 + reg as u8);
    sleb(&mut e, off);
    for _ in 0..pad {
        e.push(0x16); // DW_OP_swap
        e.push(0x13); // DW_OP_drop
    }
    e
}

fn fde_program(arch: Arch, fde: &FdeSpec) -> Vec<u8> {
    let mut out = Vec::new();
    let mut prev = 0u64;
    let (remember, extra_regs, _) = STRESS.with(|s| s.get());
    for _ in 0..remember {
        out.push(0x0a); // DW_CFA_remember_state
    }
    for r in 0..extra_regs {
        out.push(0x07); // DW_CFA_undefined
        uleb(&mut out, 40 + r as u64);
    }
    if fde.pac {
        match arch {
            Arch::A64 => {
                out.push(0x2d);
                out.push(0x2d);
            }
            // x86-64: the flag stands for a rule in the stack pointer column, which framehop
            // does not read: DW_CFA_val_offset_sf r7, -16 (rsp = CFA - 16)
            Arch::X64 => {
                out.push(0x15);
                uleb(&mut out, 7);
                sleb(&mut out, -16);
            }
        }
    }
    for (i, (off, row)) in fde.rows.iter().enumerate() {
        if i > 0 {
            let delta = off - prev;
            out.push(0x04); // DW_CFA_advance_loc4
            out.extend_from_slice(&(delta as u32).to_le_bytes());
        }
        prev = *off;
        row_instrs(&mut out, arch, row);
    }
    if fde.eval_fails {
        // An opcode gimli does not know: evaluating the program fails for every address.
        out.insert(0, 0x3d);
    }
    out
}

fn pad8(v: &mut Vec<u8>, start: usize) {
    while (v.len() - start) % 8 != 0 {
        v.push(0); // DW_CFA_nop
    }
}

pub struct EhFrame {
    pub bytes: Vec<u8>,
    /// (fde start svma, offset of the FDE in the section), in section order.
    pub fde_offsets: Vec<(u64, u64)>,
    /// (start, offset) of the FDEs that cover something: what a linker's search table lists.
    pub table_entries: Vec<(u64, u64)>,
}

fn enc_byte(enc: PtrEnc) -> u8 {
    match enc {
        PtrEnc::Abs8 => 0x00,
        PtrEnc::PcRel4 => 0x1b,
        PtrEnc::PcRel8 => 0x1c,
        PtrEnc::TextRel4 => 0x2b,
    }
}

/// Writes `.eh_frame`: `n_cies` CIEs (FDEs are distributed round-robin over them, each CIE
/// emitted just before its first FDE), FDEs in the given order, a zero terminator.
pub fn write_eh_frame(
    arch: Arch,
    fdes: &[FdeSpec],
    enc: PtrEnc,
    section_svma: u64,
    text_svma: u64,
    n_cies: u8,
) -> EhFrame {
    let mut out: Vec<u8> = Vec::new();
    let mut fde_offsets = Vec::new();
    let mut table_entries = Vec::new();
    // `n_cies` encodes the layout too: values above 3 mean "all CIEs first, then the FDEs".
    let cies_first = n_cies > 3;
    let n_cies = (if cies_first { n_cies - 2 } else { n_cies }).max(1) as usize;
    // CIEs differ in their FDE pointer encoding (where the addresses allow it)
    let alt = [PtrEnc::Abs8, PtrEnc::PcRel8, PtrEnc::PcRel4, PtrEnc::TextRel4];
    let cie_enc: Vec<PtrEnc> = (0..n_cies)
        .map(|ci| {
            if ci == 0 {
                enc
            } else {
                let e = alt[(ci + enc as usize) % alt.len()];
                if enc_fits(e, fdes, section_svma, text_svma) { e } else { PtrEnc::Abs8 }
            }
        })
        .collect();
    let mut cie_off: Vec<Option<usize>> = vec![None; n_cies];
    // some CIEs carry the signal-frame augmentation 'S' (as the CIE of a sigreturn trampoline
    // does); it has no augmentation data and must not change how a row is evaluated
    let n_fdes = fdes.len();
    let emit_cie = |out: &mut Vec<u8>, enc: PtrEnc| -> usize {
        let start = out.len();
        out.extend_from_slice(&[0, 0, 0, 0]); // length, patched below
        out.extend_from_slice(&0u32.to_le_bytes()); // CIE id
        out.push(1); // version
        if (n_fdes + start / 8) % 3 == 0 {
            out.extend_from_slice(b"zRS\0");
        } else {
            out.extend_from_slice(b"zR\0");
        }
        uleb(out, 1); // code alignment
        sleb(out, 1); // data alignment
        out.push(DReg::Ra.num(arch) as u8); // return address register
        uleb(out, 1); // augmentation data length
        out.push(enc_byte(enc));
        pad8(out, start + 4);
        let len = (out.len() - start - 4) as u32;
        out[start..start + 4].copy_from_slice(&len.to_le_bytes());
        start
    };
    if cies_first {
        for ci in 0..n_cies.min(fdes.len().max(1)) {
            cie_off[ci] = Some(emit_cie(&mut out, cie_enc[ci]));
        }
    }
    for (i, fde) in fdes.iter().enumerate() {
        let ci = i % n_cies;
        let enc = cie_enc[ci];
        if cie_off[ci].is_none() {
            cie_off[ci] = Some(emit_cie(&mut out, enc));
        }
        let start = out.len();
        fde_offsets.push((fde.start, start as u64));
        if fde.len > 0 {
            table_entries.push((fde.start, start as u64));
        }
        out.extend_from_slice(&[0, 0, 0, 0]);
        let cie_ptr = (out.len() - cie_off[ci].unwrap()) as u32;
        out.extend_from_slice(&cie_ptr.to_le_bytes());
        let field_svma = section_svma.wrapping_add(out.len() as u64);
        match enc {
            PtrEnc::Abs8 => {
                out.extend_from_slice(&fde.start.to_le_bytes());
                out.extend_from_slice(&fde.len.to_le_bytes());
            }
            PtrEnc::PcRel4 => {
                out.extend_from_slice(&(fde.start.wrapping_sub(field_svma) as u32).to_le_bytes());
                out.extend_from_slice(&(fde.len as u32).to_le_bytes());
            }
            PtrEnc::PcRel8 => {
                out.extend_from_slice(&fde.start.wrapping_sub(field_svma).to_le_bytes());
                out.extend_from_slice(&fde.len.to_le_bytes());
            }
            PtrEnc::TextRel4 => {
                out.extend_from_slice(&(fde.start.wrapping_sub(text_svma) as u32).to_le_bytes());
                out.extend_from_slice(&(fde.len as u32).to_le_bytes());
            }
        }
        uleb(&mut out, 0); // augmentation data length
        out.extend_from_slice(&fde_program(arch, fde));
        pad8(&mut out, start + 4);
        let len = (out.len() - start - 4) as u32;
        out[start..start + 4].copy_from_slice(&len.to_le_bytes());
    }
    out.extend_from_slice(&[0, 0, 0, 0]);
    EhFrame {
        bytes: out,
        fde_offsets,
        table_entries,
    }
}

/// Whether all FDEs can be expressed with this encoding.
pub fn enc_fits(enc: PtrEnc, fdes: &[FdeSpec], section_svma: u64, text_svma: u64) -> bool {
    match enc {
        PtrEnc::Abs8 | PtrEnc::PcRel8 => true,
        PtrEnc::PcRel4 => fdes.iter().all(|f| {
            let d = f.start.wrapping_sub(section_svma) as i64;
            d > -(1 << 30) && d < (1 << 30) && f.len < (1 << 31)
        }),
        PtrEnc::TextRel4 => fdes.iter().all(|f| {
            let d = f.start.wrapping_sub(text_svma) as i64;
            d > -(1 << 30) && d < (1 << 30) && f.len < (1 << 31)
        }),
    }
}

/// `.eh_frame_hdr` with a table sorted by initial location (stable), as linkers write it.
pub fn write_eh_frame_hdr(eh: &EhFrame, hdr_svma: u64, eh_frame_svma: u64, abs: bool) -> Vec<u8> {
    let mut out = Vec::new();
    out.push(1);
    // FDEs of length zero (leftovers that cover no code) are not listed: the table is a
    // search table over the functions that exist, with distinct keys
    let mut table: Vec<(u64, u64)> = eh.table_entries.clone();
    table.sort_by_key(|e| e.0);
    if abs {
        out.push(0x04); // eh_frame_ptr: absolute udata8
        out.push(0x03); // fde count: udata4
        out.push(0x04); // table: absolute udata8
        out.extend_from_slice(&eh_frame_svma.to_le_bytes());
        out.extend_from_slice(&(table.len() as u32).to_le_bytes());
        for (loc, off) in table {
            out.extend_from_slice(&loc.to_le_bytes());
            out.extend_from_slice(&eh_frame_svma.wrapping_add(off).to_le_bytes());
        }
    } else {
        out.push(0x1b); // pcrel sdata4
        out.push(0x03);
        out.push(0x3b); // datarel sdata4
        let field = hdr_svma.wrapping_add(4);
        out.extend_from_slice(&(eh_frame_svma.wrapping_sub(field) as u32).to_le_bytes());
        out.extend_from_slice(&(table.len() as u32).to_le_bytes());
        for (loc, off) in table {
            out.extend_from_slice(&(loc.wrapping_sub(hdr_svma) as u32).to_le_bytes());
            out.extend_from_slice(
                &(eh_frame_svma.wrapping_add(off).wrapping_sub(hdr_svma) as u32).to_le_bytes(),
            );
        }
    }
    out
}

pub fn hdr_rel_fits(fdes: &[FdeSpec], hdr_svma: u64, eh_frame_svma: u64) -> bool {
    let ok = |a: u64| {
        let d = a.wrapping_sub(hdr_svma) as i64;
        d > -(1 << 30) && d < (1 << 30)
    };
    fdes.iter().all(|f| ok(f.start)) && ok(eh_frame_svma) && ok(eh_frame_svma.wrapping_add(1 << 24))
}

/// `.debug_frame` (64-bit addresses, 32-bit DWARF format).
pub fn write_debug_frame(arch: Arch, fdes: &[FdeSpec], version: u8, n_cies: u8) -> Vec<u8> {
    let mut out: Vec<u8> = Vec::new();
    let n_cies = n_cies.max(1) as usize;
    let mut cie_off: Vec<Option<usize>> = vec![None; n_cies];
    for (i, fde) in fdes.iter().enumerate() {
        let ci = i % n_cies;
        if cie_off[ci].is_none() {
            let start = out.len();
            cie_off[ci] = Some(start);
            out.extend_from_slice(&[0, 0, 0, 0]);
            out.extend_from_slice(&0xffff_ffffu32.to_le_bytes());
            out.push(version);
            out.push(0); // augmentation ""
            if version >= 4 {
                out.push(8); // address size
                out.push(0); // segment selector size
            }
            uleb(&mut out, 1);
            sleb(&mut out, 1);
            if version == 1 {
                out.push(DReg::Ra.num(arch) as u8);
            } else {
                uleb(&mut out, DReg::Ra.num(arch));
            }
            pad8(&mut out, start + 4);
            let len = (out.len() - start - 4) as u32;
            out[start..start + 4].copy_from_slice(&len.to_le_bytes());
        }
        let start = out.len();
        out.extend_from_slice(&[0, 0, 0, 0]);
        out.extend_from_slice(&(cie_off[ci].unwrap() as u32).to_le_bytes());
        out.extend_from_slice(&fde.start.to_le_bytes());
        out.extend_from_slice(&fde.len.to_le_bytes());
        out.extend_from_slice(&fde_program(arch, fde));
        pad8(&mut out, start + 4);
        let len = (out.len() - start - 4) as u32;
        out[start..start + 4].copy_from_slice(&len.to_le_bytes());
    }
    out
}
