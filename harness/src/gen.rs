//! Generators shared by the world-based engines: rows, FDE sets, modules, registers, readers.
use crate::mem::{Dflt, MemDesc};
use crate::rules::{gen_u64, RegsA, RegsX, MASK_GRID};
use crate::spec::*;
use crate::util::Prng;
use crate::world::RegsAny;

pub const OFF_GRID: [i64; 30] = [
    0,
    8,
    16,
    24,
    32,
    48,
    64,
    0x1000,
    4,
    12,
    17,
    20,
    1,
    7,
    9,
    15,
    -8,
    -16,
    -4,
    -1,
    8 * 65535,
    8 * 65536,
    16 * 65535,
    16 * 65536,
    8 * 32767,
    8 * 32768,
    -8 * 32768,
    -8 * 32769,
    i64::MAX,
    i64::MIN,
];

pub fn gen_off(p: &mut Prng) -> i64 {
    match p.below(10) {
        0..=5 => *p.pick(&OFF_GRID[..8]),
        6 | 7 => *p.pick(&OFF_GRID),
        8 => (p.below(64) as i64 - 16) * 8,
        _ => p.next() as i64 >> p.below(60),
    }
}

pub fn gen_reg(p: &mut Prng) -> DReg {
    *p.pick(&[DReg::Sp, DReg::Fp, DReg::Ra, DReg::Other])
}

pub fn gen_rr(p: &mut Prng, typical: i64) -> RR {
    match p.below(16) {
        0..=5 => RR::Offset(typical),
        6 => RR::Undef,
        7 | 8 => RR::Same,
        9 | 10 => RR::Offset(-gen_off(p).saturating_abs()),
        11 => RR::Offset(gen_off(p)),
        12 => RR::ValOffset(gen_off(p)),
        13 => RR::Register(gen_reg(p)),
        14 => match p.below(3) {
            0 => RR::Register(gen_reg(p)),
            1 => RR::ExprReg(gen_reg(p), gen_off(p)),
            _ => RR::ValExprReg(gen_reg(p), gen_off(p)),
        },
        _ => RR::Other,
    }
}

/// A row biased towards what compilers emit, with every unusual shape mixed in.
pub fn gen_row(p: &mut Prng, arch: Arch) -> RowSpec {
    let cfa = match p.below(20) {
        0..=10 => Cfa::RegOff(DReg::Sp, gen_off(p)),
        11..=15 => Cfa::RegOff(DReg::Fp, if p.chance(2, 3) { 16 } else { gen_off(p) }),
        16 => Cfa::RegOff(DReg::Ra, gen_off(p)),
        17 => Cfa::RegOff(DReg::Other, gen_off(p)),
        18 => Cfa::ExprRegOff(gen_reg(p), gen_off(p)),
        _ => Cfa::Expr,
    };
    match arch {
        Arch::X64 => {
            let ra = match p.below(10) {
                0..=6 => RR::Offset(-8),
                7 => RR::Undef,
                _ => gen_rr(p, -8),
            };
            let fp = match p.below(10) {
                0..=2 => RR::Undef,
                3 => RR::Same,
                4..=6 => RR::Offset(-16),
                _ => gen_rr(p, -16),
            };
            RowSpec { cfa, fp, ra }
        }
        Arch::A64 => {
            let ra = match p.below(10) {
                0..=3 => RR::Offset(-8),
                4 | 5 => RR::Undef,
                6 => RR::Same,
                _ => gen_rr(p, -8),
            };
            let fp = match p.below(10) {
                0..=3 => RR::Offset(-16),
                4 | 5 => RR::Undef,
                6 => RR::Same,
                _ => gen_rr(p, -16),
            };
            RowSpec { cfa, fp, ra }
        }
    }
}

/// FDEs inside `[lo, hi)` (stated addresses): gaps, adjacent ranges, one-byte ranges,
/// shuffled section order.
pub fn gen_fdes(p: &mut Prng, arch: Arch, lo: u64, hi: u64, max_fdes: u64) -> Vec<FdeSpec> {
    // now and then a table of hundreds of (short) FDEs: deep binary searches
    let many = hi - lo > 0x8000 && p.chance(1, 40);
    let n = if many { 64 + p.below(500) } else { p.below(max_fdes + 1) };
    let mut fdes = Vec::new();
    let mut cur = lo + if p.chance(1, 2) { 0 } else { p.below(0x40) };
    for _ in 0..n {
        if cur >= hi {
            break;
        }
        let len = match p.below(6) {
            0 => 1,
            1 => 2,
            _ => 1 + p.below(if many { 0x20 } else { 0x200 }),
        }
        .min(hi - cur);
        let n_rows = 1 + p.below(3);
        let mut rows = Vec::new();
        let mut off = 0;
        for i in 0..n_rows {
            if i > 0 {
                off += 1 + p.below(len.max(2) / 2 + 1);
                if off >= len {
                    break;
                }
            }
            rows.push((off, gen_row(p, arch)));
        }
        fdes.push(FdeSpec {
            start: cur,
            len,
            rows,
            eval_fails: p.chance(1, 16),
            pac: arch == Arch::A64 && p.chance(1, 6),
        });
        cur += len;
        if !p.chance(1, 3) {
            cur += p.below(0x80); // gap
        }
    }
    // leftovers: FDEs of length zero (e.g. of discarded function copies) on the start of a real
    // FDE, at its end, or in a gap; anywhere in the section, with rows of their own
    if !fdes.is_empty() && p.chance(1, 4) {
        for _ in 0..1 + p.below(2) {
            let at = fdes[p.below(fdes.len() as u64) as usize].clone();
            let start = match p.below(3) {
                0 => at.start,
                1 => at.start + at.len,
                _ => at.start + at.len + p.below(4),
            };
            if start < hi {
                fdes.push(FdeSpec { start, len: 0, rows: vec![(0, gen_row(p, arch))], eval_fails: false, pac: false });
            }
        }
    }
    // shuffle section order
    for i in (1..fdes.len()).rev() {
        let j = p.below(i as u64 + 1) as usize;
        fdes.swap(i, j);
    }
    fdes
}

/// Non-overlapping modules; some adjacent, some near 0 or near 2^64, some with a base below
/// (or, rarely, above) the range start.
pub fn gen_modules(p: &mut Prng, arch: Arch, n: usize, pres_choice: Option<Pres>) -> Vec<ModSpec> {
    let region: u64 = *p.pick(&[
        0x1000u64,
        0x40_0000,
        0x5555_5555_0000,
        0x7f00_0000_0000,
        0xffff_8000_0000_0000,
        0xffff_ffff_fff0_0000,
    ]);
    let mut mods = Vec::new();
    let mut cur = region;
    for _ in 0..n {
        // now and then a module with an empty range (a mapping of length zero): it contains no
        // address but is registered, counted and removable like any other
        let empty = p.chance(1, 12);
        let size = if empty { 0 } else { 0x100 + p.below(0x4000) };
        let Some(end) = cur.checked_add(size) else { break };
        let start = cur;
        let base_avma = match p.below(10) {
            0..=5 => start,
            6..=8 => start.saturating_sub(*p.pick(&[0x10u64, 0x1000, 0x10_0000])),
            _ => start + p.below(size / 2 + 1),
        };
        let base_svma = match p.below(8) {
            0..=2 => 0,
            3 => 0x1000,
            4 => 0x40_0000,
            5 => base_avma,
            6 => 0x1_4000_0000,
            _ => 0xffff_fff0_0000_0000,
        };
        // stated range of the mapped text
        let lo = base_svma.wrapping_add(start.wrapping_sub(base_avma));
        let lo = if base_avma > start { base_svma } else { lo };
        let hi = lo.saturating_add(size.min(0x4000));
        let data = if p.chance(1, 10) {
            DataSpec::None
        } else {
            let pres = pres_choice.unwrap_or(*p.pick(&[Pres::Hdr, Pres::Idx, Pres::Dbg]));
            DataSpec::Dwarf(pres, gen_fdes(p, arch, lo, hi, 5))
        };
        mods.push(ModSpec {
            start,
            end,
            base_avma,
            base_svma,
            data,
            enc: *p.pick(&[PtrEnc::Abs8, PtrEnc::PcRel4, PtrEnc::PcRel8, PtrEnc::TextRel4]),
            hdr_abs: p.chance(1, 3),
            dbg_version: *p.pick(&[1u8, 3, 4]),
            n_cies: 1 + p.below(5) as u8,
        });
        cur = end;
        if empty {
            // keep range starts distinct
            let Some(c) = cur.checked_add(1 + p.below(0x40)) else { break };
            cur = c;
        }
        if !p.chance(1, 3) {
            let Some(c) = cur.checked_add(p.below(0x2000)) else { break };
            cur = c;
        }
    }
    mods
}

/// Addresses worth probing for a module: range and FDE/row boundaries ±1.
pub fn interesting_addrs(m: &ModSpec) -> Vec<u64> {
    let mut v = vec![
        m.start.wrapping_sub(1),
        m.start,
        m.start.wrapping_add(1),
        m.end.wrapping_sub(1),
        m.end,
        m.end.wrapping_add(1),
        m.base_avma,
        m.base_avma.wrapping_sub(1),
    ];
    if let DataSpec::Dwarf(_, fdes) = &m.data {
        for f in fdes {
            let a = f.start.wrapping_sub(m.base_svma).wrapping_add(m.base_avma);
            for d in [0u64, 1, f.len.wrapping_sub(1), f.len, f.len + 1] {
                v.push(a.wrapping_add(d));
            }
            v.push(a.wrapping_sub(1));
            for (off, _) in &f.rows {
                v.push(a.wrapping_add(*off));
                v.push(a.wrapping_add(*off).wrapping_sub(1));
            }
        }
    }
    v
}

pub fn gen_regs(p: &mut Prng, arch: Arch, ip: u64) -> RegsAny {
    let sp = match p.below(10) {
        0..=6 => 0x7ffc_0000_0000 + p.below(0x200) * 8,
        7 => 0xffff_8000_0000_1000 + p.below(0x200) * 8,
        _ => gen_u64(p),
    };
    let fp = match p.below(10) {
        0..=5 => sp.wrapping_add(p.below(0x40) * 8),
        6 => 0,
        7 => sp.wrapping_sub(8 * p.below(4)),
        _ => gen_u64(p),
    };
    match arch {
        Arch::X64 => {
            let mut r = [0u64; 16];
            for v in r.iter_mut() {
                *v = p.below(0x1000);
            }
            r[7] = sp;
            r[6] = fp;
            RegsAny::X(RegsX { ip, r })
        }
        Arch::A64 => {
            let mask = if p.chance(2, 3) { u64::MAX } else { *p.pick(&MASK_GRID) };
            RegsAny::A(RegsA {
                mask,
                lr: (if p.chance(2, 3) { 0x5555_0000_1000 + p.below(0x1000) } else { gen_u64(p) }) & mask,
                sp,
                fp,
            })
        }
    }
}

pub fn gen_mem(p: &mut Prng, regs: &RegsAny) -> MemDesc {
    let mut m = MemDesc::new(match p.below(10) {
        0..=3 => Dflt::Ident,
        4 | 5 => Dflt::Plus(8 * (1 + p.below(4))),
        6 => Dflt::Const(0x5555_0000_2000 + p.below(0x100)),
        7 => Dflt::Const(0),
        8 => Dflt::Fail,
        _ => Dflt::Plus(gen_u64(p)),
    });
    let sp = regs.sp();
    let fp = regs.fp();
    for _ in 0..p.below(4) {
        let a = if p.chance(1, 2) { sp } else { fp }.wrapping_add(((p.below(12) as i64 - 3) * 8) as u64);
        let v = match p.below(5) {
            0 => None,
            1 => Some(0),
            2 => Some(regs.ip_or_lr()),
            _ => Some(gen_u64(p)),
        };
        m.set(a, v);
    }
    if p.chance(1, 6) {
        m.cut = Some(sp.wrapping_add(p.below(16) * 8));
    }
    m
}
