mod alloc;
mod asm;
mod cfi;
mod feat;
#[path = "../../featrun/src/exec.rs"]
mod featexec;
mod gen;
mod hist;
mod macho;
mod mem;
mod model;
mod mutate;
mod pe;
mod prog;
mod row;
mod rules;
mod scn;
mod spec;
mod thr;
mod util;
mod world;

#[global_allocator]
static GLOBAL: alloc::Counting = alloc::Counting;

fn main() {
    let args: Vec<String> = std::env::args().collect();
    if args.len() < 2 {
        eprintln!("usage: fhv <engine> [--tier quick|thorough] [--seed N] [--out FILE]");
        std::process::exit(2);
    }
    let engine = args[1].clone();
    let mut tier = std::env::var("VERIF_TIER").unwrap_or_else(|_| "quick".into());
    let mut seed: u64 = std::env::var("VERIF_SEED")
        .ok()
        .and_then(|s| s.parse().ok())
        .unwrap_or(1);
    let mut out: Option<String> = None;
    let mut i = 2;
    while i < args.len() {
        match args[i].as_str() {
            "--tier" => {
                tier = args[i + 1].clone();
                i += 1;
            }
            "--seed" => {
                seed = args[i + 1].parse().expect("seed");
                i += 1;
            }
            "--out" => {
                out = Some(args[i + 1].clone());
                i += 1;
            }
            other => {
                eprintln!("unknown argument {other}");
                std::process::exit(2);
            }
        }
        i += 1;
    }
    util::install_quiet_panic_hook();
    if engine != "mut-replay" {
        // generous: the longest legitimate silent stretch is one batch sent to the Lean driver
        let limit = match (engine.as_str(), tier.as_str()) {
            // cases of the hostile-data engine take milliseconds; it records the case in flight
            ("mut", "thorough") => 120,
            ("mut", _) => 45,
            (_, "thorough") => 900,
            _ => 240,
        };
        util::start_watchdog(limit, out.clone());
    }
    let t0 = std::time::Instant::now();
    let mut rep = match engine.as_str() {
        "rule" => rules::run(&tier, seed),
        "hist" => hist::run(&tier, seed),
        "thr" => thr::run(&tier, seed),
        "row" => row::run(&tier, seed),
        "scn" => scn::run(&tier, seed),
        "pe" => pe::run(&tier, seed),
        "macho" => macho::run(&tier, seed),
        "ana" => macho::run_ana(&tier, seed),
        "alloc" => alloc::run(&tier, seed),
        "asm" => asm::run(&tier, seed),
        "feat" => feat::run(&tier, seed, out.as_deref()),
        "mut" => mutate::run(&tier, seed, out.as_deref()),
        "mut-replay" => {
            let text = std::fs::read_to_string(out.as_deref().expect("--out <case file>")).expect("case file");
            let panics = mutate::replay(&text);
            for (loc, phase) in &panics {
                println!("panic in {phase} at {loc}");
            }
            println!("{} panic(s)", panics.len());
            std::process::exit(if panics.iter().any(|(l, _)| util::panic_in_own_code(l)) { 1 } else { 0 });
        }
        _ => {
            eprintln!("unknown engine {engine}");
            std::process::exit(2);
        }
    };
    rep.notes.push(format!("wall_s={:.2}", t0.elapsed().as_secs_f64()));
    rep.notes.push(format!("tier={tier} seed={seed}"));
    let js = rep.to_json();
    match out {
        Some(f) => std::fs::write(f, js).unwrap(),
        None => print!("{js}"),
    }
}
