//! Abstract module descriptions shared by the implementation side (built into real
//! section bytes by `cfi.rs`) and the Lean model (sent as text, see `FH/Driver/World.lean`).
use crate::util::{hex, hex_i};

#[derive(Clone, Copy, Debug, PartialEq, Eq)]
pub enum Arch {
    X64,
    A64,
}

impl Arch {
    pub fn name(self) -> &'static str {
        match self {
            Arch::X64 => "x64",
            Arch::A64 => "a64",
        }
    }
}

#[derive(Clone, Copy, Debug, PartialEq, Eq)]
pub enum DReg {
    Sp,
    Fp,
    Ra,
    Other,
}

impl DReg {
    pub fn tag(self) -> &'static str {
        match self {
            DReg::Sp => "s",
            DReg::Fp => "f",
            DReg::Ra => "a",
            DReg::Other => "o",
        }
    }
    /// DWARF register number.
    pub fn num(self, arch: Arch) -> u64 {
        match (arch, self) {
            (Arch::X64, DReg::Sp) => 7,
            (Arch::X64, DReg::Fp) => 6,
            (Arch::X64, DReg::Ra) => 16,
            (Arch::X64, DReg::Other) => 3,
            (Arch::A64, DReg::Sp) => 31,
            (Arch::A64, DReg::Fp) => 29,
            (Arch::A64, DReg::Ra) => 30,
            (Arch::A64, DReg::Other) => 19,
        }
    }
}

#[derive(Clone, Copy, Debug, PartialEq, Eq)]
pub enum Cfa {
    RegOff(DReg, i64),
    /// A CFA expression framehop cannot evaluate (it needs a memory read).
    Expr,
    /// `DW_CFA_def_cfa_expression {DW_OP_breg<r> off}`: the same value as `RegOff`, but computed
    /// by the expression evaluator (never compressed into a rule). Not in the Lean model; used
    /// by the `alloc` engine only.
    ExprRegOff(DReg, i64),
}

#[derive(Clone, Copy, Debug, PartialEq, Eq)]
pub enum RR {
    Undef,
    Same,
    Offset(i64),
    ValOffset(i64),
    Register(DReg),
    /// A register rule framehop evaluates to "unknown" (an expression needing a memory read).
    Other,
    /// `DW_CFA_expression {DW_OP_breg<r> off}`: saved at the address `r + off`. `alloc` engine only.
    ExprReg(DReg, i64),
    /// `DW_CFA_val_expression {DW_OP_breg<r> off}`: the value `r + off`. `alloc` engine only.
    ValExprReg(DReg, i64),
}

#[derive(Clone, Copy, Debug, PartialEq, Eq)]
pub struct RowSpec {
    pub cfa: Cfa,
    pub fp: RR,
    pub ra: RR,
}

#[derive(Clone, Debug, PartialEq)]
pub struct FdeSpec {
    pub start: u64,
    pub len: u64,
    pub rows: Vec<(u64, RowSpec)>,
    pub eval_fails: bool,
    /// aarch64: the CFA program contains DW_CFA_AARCH64_negate_ra_state (twice); x86-64: it
    /// contains a rule for the stack pointer column (no effect on the rows framehop looks at).
    pub pac: bool,
}

#[derive(Clone, Copy, Debug, PartialEq, Eq)]
pub enum Pres {
    Hdr,
    Idx,
    Dbg,
}

#[derive(Clone, Debug, PartialEq)]
pub enum DataSpec {
    None,
    Dwarf(Pres, Vec<FdeSpec>),
    Pe(Vec<crate::pe::PeFuncSpec>),
    Macho(crate::macho::MachoSpec),
}

/// How FDE addresses and the hdr table are encoded (irrelevant to the model).
#[derive(Clone, Copy, Debug, PartialEq, Eq)]
pub enum PtrEnc {
    Abs8,
    PcRel4,
    PcRel8,
    TextRel4,
}

#[derive(Clone, Debug, PartialEq)]
pub struct ModSpec {
    pub start: u64,
    pub end: u64,
    pub base_avma: u64,
    pub base_svma: u64,
    pub data: DataSpec,
    pub enc: PtrEnc,
    pub hdr_abs: bool,
    /// CIE version for .debug_frame (1, 3 or 4).
    pub dbg_version: u8,
    pub n_cies: u8,
}

impl Cfa {
    pub fn show(&self) -> String {
        match self {
            Cfa::RegOff(r, o) => format!("{}:{}", r.tag(), hex_i(*o)),
            Cfa::Expr => "e".into(),
            Cfa::ExprRegOff(r, o) => format!("E{}:{}", r.tag(), hex_i(*o)),
        }
    }
}

impl RR {
    pub fn show(&self) -> String {
        match self {
            RR::Undef => "u".into(),
            RR::Same => "s".into(),
            RR::Offset(n) => format!("o:{}", hex_i(*n)),
            RR::ValOffset(n) => format!("v:{}", hex_i(*n)),
            RR::Register(r) => format!("r:{}", r.tag()),
            RR::Other => "x".into(),
            RR::ExprReg(r, o) => format!("X{}:{}", r.tag(), hex_i(*o)),
            RR::ValExprReg(r, o) => format!("V{}:{}", r.tag(), hex_i(*o)),
        }
    }
}

impl RowSpec {
    pub fn show(&self) -> String {
        format!("{}/{}/{}", self.cfa.show(), self.fp.show(), self.ra.show())
    }
}

impl FdeSpec {
    pub fn show(&self) -> String {
        let rows: Vec<String> = self
            .rows
            .iter()
            .map(|(o, r)| format!("{}/{}", hex(*o), r.show()))
            .collect();
        format!(
            "{}@{}@{}@{}",
            hex(self.start),
            hex(self.len),
            self.eval_fails as u8,
            rows.join("~")
        )
    }
}

impl ModSpec {
    pub fn data_show(&self) -> String {
        match &self.data {
            DataSpec::None => "none".into(),
            DataSpec::Dwarf(p, fdes) => {
                let p = match p {
                    Pres::Hdr => "hdr",
                    Pres::Idx => "idx",
                    Pres::Dbg => "dbg",
                };
                let f: Vec<String> = fdes.iter().map(|f| f.show()).collect();
                format!("dwarf;{};{}", p, f.join("|"))
            }
            DataSpec::Pe(funcs) => {
                let mut sorted: Vec<&crate::pe::PeFuncSpec> = funcs.iter().collect();
                sorted.sort_by_key(|f| f.begin);
                let f: Vec<String> = sorted.iter().map(|f| f.show()).collect();
                format!("pe;{}", f.join("|"))
            }
            DataSpec::Macho(m) => m.show(),
        }
    }
    pub fn line_fields(&self) -> String {
        format!(
            "start={} end={} base={} svma={} data={}",
            hex(self.start),
            hex(self.end),
            hex(self.base_avma),
            hex(self.base_svma),
            self.data_show()
        )
    }
}
