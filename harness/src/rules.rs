//! Engine `rule`: executes arbitrary rule values directly (hook `exec_rule_*`) on a
//! boundary grid of parameters, registers and stack readers; compares every outcome with
//! the Lean model and judges it against the per-step parts of C09, C10, C11 and C16.
use crate::mem::{Dflt, MemDesc};
use crate::model::run_model;
use crate::util::*;
use framehop::aarch64::{PtrAuthMask, UnwindRegsAarch64, UnwindRuleAarch64};
use framehop::verif_hooks as hooks;
use framehop::x86_64::{Reg, UnwindRegsX86_64, UnwindRuleX86_64};
use framehop::Error;

pub const REGS: [Reg; 16] = [
    Reg::RAX,
    Reg::RDX,
    Reg::RCX,
    Reg::RBX,
    Reg::RSI,
    Reg::RDI,
    Reg::RBP,
    Reg::RSP,
    Reg::R8,
    Reg::R9,
    Reg::R10,
    Reg::R11,
    Reg::R12,
    Reg::R13,
    Reg::R14,
    Reg::R15,
];

pub fn show_err(e: &Error) -> String {
    match e {
        Error::CouldNotReadStack(a) => format!("err:stack:{}", hex(*a)),
        Error::FramepointerUnwindingMovedBackwards => "err:fpback".into(),
        Error::DidNotAdvance => "err:noadv".into(),
        Error::IntegerOverflow => "err:ovf".into(),
        Error::ReturnAddressIsNull => "err:null".into(),
    }
}

pub fn show_res(r: &Result<Option<u64>, Error>) -> String {
    match r {
        Ok(Some(ra)) => format!("frame:{}", hex(*ra)),
        Ok(None) => "done".into(),
        Err(e) => show_err(e),
    }
}

#[derive(Clone, Debug, PartialEq)]
pub struct RegsX {
    pub ip: u64,
    pub r: [u64; 16],
}

impl RegsX {
    pub fn to_fh(&self) -> UnwindRegsX86_64 {
        let mut g = UnwindRegsX86_64::new(self.ip, 0, 0);
        for (i, reg) in REGS.iter().enumerate() {
            g.set(*reg, self.r[i]);
        }
        g
    }
    pub fn from_fh(g: &UnwindRegsX86_64) -> Self {
        let mut r = [0u64; 16];
        for (i, reg) in REGS.iter().enumerate() {
            r[i] = g.get(*reg);
        }
        RegsX { ip: g.ip(), r }
    }
    pub fn sp(&self) -> u64 {
        self.r[7]
    }
    pub fn bp(&self) -> u64 {
        self.r[6]
    }
    pub fn show(&self) -> String {
        let rs: Vec<String> = self.r.iter().map(|v| hex(*v)).collect();
        format!("ip={} regs={}", hex(self.ip), rs.join(","))
    }
}

#[derive(Clone, Debug, PartialEq)]
pub struct RegsA {
    pub mask: u64,
    pub lr: u64,
    pub sp: u64,
    pub fp: u64,
}

impl RegsA {
    pub fn to_fh(&self) -> UnwindRegsAarch64 {
        UnwindRegsAarch64::new_with_ptr_auth_mask(PtrAuthMask(self.mask), self.lr, self.sp, self.fp)
    }
    pub fn from_fh(g: &UnwindRegsAarch64) -> Self {
        RegsA {
            mask: g.lr_mask().0,
            lr: g.lr(),
            sp: g.sp(),
            fp: g.fp(),
        }
    }
    pub fn show_in(&self) -> String {
        format!(
            "mask={} lr={} sp={} fp={}",
            hex(self.mask),
            hex(self.lr),
            hex(self.sp),
            hex(self.fp)
        )
    }
    pub fn show(&self) -> String {
        format!("lr={} sp={} fp={}", hex(self.lr), hex(self.sp), hex(self.fp))
    }
}

pub fn show_rule_x(r: &UnwindRuleX86_64) -> String {
    use UnwindRuleX86_64::*;
    match r {
        EndOfStack => "0".into(),
        JustReturn => "1".into(),
        JustReturnIfFirstFrameOtherwiseFp => "2".into(),
        OffsetSp { sp_offset_by_8 } => format!("3:{}", hex(*sp_offset_by_8 as u64)),
        OffsetSpAndRestoreBp {
            sp_offset_by_8,
            bp_storage_offset_from_sp_by_8,
        } => format!(
            "4:{}:{}",
            hex(*sp_offset_by_8 as u64),
            hex_i(*bp_storage_offset_from_sp_by_8 as i64)
        ),
        UseFramePointer => "5".into(),
        OffsetSpAndPopRegisters {
            sp_offset_by_8,
            register_count,
            encoded_registers_to_pop,
        } => format!(
            "6:{}:{}:{}",
            hex(*sp_offset_by_8 as u64),
            hex(*register_count as u64),
            hex(*encoded_registers_to_pop as u64)
        ),
    }
}

pub fn show_rule_a(r: &UnwindRuleAarch64) -> String {
    use UnwindRuleAarch64::*;
    match r {
        NoOp => "0".into(),
        NoOpIfFirstFrameOtherwiseFp => "1".into(),
        OffsetSp { sp_offset_by_16 } => format!("2:{}", hex(*sp_offset_by_16 as u64)),
        OffsetSpIfFirstFrameOtherwiseStackEndsHere { sp_offset_by_16 } => {
            format!("3:{}", hex(*sp_offset_by_16 as u64))
        }
        OffsetSpAndRestoreLr {
            sp_offset_by_16,
            lr_storage_offset_from_sp_by_8,
        } => format!(
            "4:{}:{}",
            hex(*sp_offset_by_16 as u64),
            hex_i(*lr_storage_offset_from_sp_by_8 as i64)
        ),
        OffsetSpAndRestoreFpAndLr {
            sp_offset_by_16,
            fp_storage_offset_from_sp_by_8,
            lr_storage_offset_from_sp_by_8,
        } => format!(
            "5:{}:{}:{}",
            hex(*sp_offset_by_16 as u64),
            hex_i(*fp_storage_offset_from_sp_by_8 as i64),
            hex_i(*lr_storage_offset_from_sp_by_8 as i64)
        ),
        UseFramePointer => "6".into(),
        UseFramepointerWithOffsets {
            sp_offset_from_fp_by_8,
            fp_storage_offset_from_fp_by_8,
            lr_storage_offset_from_fp_by_8,
        } => format!(
            "7:{}:{}:{}",
            hex(*sp_offset_from_fp_by_8 as u64),
            hex_i(*fp_storage_offset_from_fp_by_8 as i64),
            hex_i(*lr_storage_offset_from_fp_by_8 as i64)
        ),
    }
}

pub const U64_GRID: [u64; 24] = [
    0,
    1,
    7,
    8,
    9,
    15,
    16,
    17,
    0x1000,
    0x7ffc_0000_1000,
    0x7ffc_0000_1008,
    0xffff_ffff,
    0x1_0000_0000,
    0x1_0000_0001,
    0x7fff_ffff_ffff_fff8,
    0x7fff_ffff_ffff_ffff,
    0x8000_0000_0000_0000,
    0x8000_0000_0000_0001,
    0xffff_8000_0000_1000,
    0xffff_ffff_ffff_ffe8,
    0xffff_ffff_ffff_fff0,
    0xffff_ffff_ffff_fff7,
    0xffff_ffff_ffff_fff8,
    0xffff_ffff_ffff_ffff,
];

const K_GRID: [u16; 9] = [0, 1, 2, 3, 0x7fff, 0x8000, 0xfffe, 0xffff, 5];
const B_GRID: [i16; 11] = [-32768, -32767, -3, -2, -1, 0, 1, 2, 3, 32766, 32767];
const CNT_GRID: [u8; 8] = [0, 1, 2, 3, 7, 8, 9, 255];
const ENC_GRID: [u16; 10] = [0, 1, 7, 8, 57, 40319, 40320, 40321, 65535, 12345];

pub fn gen_rule_x(p: &mut Prng) -> UnwindRuleX86_64 {
    use UnwindRuleX86_64::*;
    let k = if p.chance(3, 4) {
        *p.pick(&K_GRID)
    } else {
        p.next() as u16
    };
    let b = if p.chance(3, 4) {
        *p.pick(&B_GRID)
    } else {
        p.next() as i16
    };
    match p.below(9) {
        0 => EndOfStack,
        1 => JustReturn,
        2 => JustReturnIfFirstFrameOtherwiseFp,
        3 => OffsetSp { sp_offset_by_8: k },
        4 | 5 => OffsetSpAndRestoreBp {
            sp_offset_by_8: k,
            bp_storage_offset_from_sp_by_8: b,
        },
        6 => UseFramePointer,
        _ => OffsetSpAndPopRegisters {
            sp_offset_by_8: k,
            register_count: if p.chance(3, 4) {
                *p.pick(&CNT_GRID)
            } else {
                p.next() as u8
            },
            encoded_registers_to_pop: if p.chance(1, 2) {
                *p.pick(&ENC_GRID)
            } else {
                p.next() as u16
            },
        },
    }
}

pub fn gen_rule_a(p: &mut Prng) -> UnwindRuleAarch64 {
    use UnwindRuleAarch64::*;
    let mut k = || {
        if p.chance(3, 4) {
            *p.pick(&K_GRID)
        } else {
            p.next() as u16
        }
    };
    let k1 = k();
    let mut b = || {
        if p.chance(3, 4) {
            *p.pick(&B_GRID)
        } else {
            p.next() as i16
        }
    };
    let b1 = b();
    let b2 = b();
    match p.below(10) {
        0 => NoOp,
        1 => NoOpIfFirstFrameOtherwiseFp,
        2 => OffsetSp { sp_offset_by_16: k1 },
        3 => OffsetSpIfFirstFrameOtherwiseStackEndsHere { sp_offset_by_16: k1 },
        4 => OffsetSpAndRestoreLr {
            sp_offset_by_16: k1,
            lr_storage_offset_from_sp_by_8: b1,
        },
        5 | 6 => OffsetSpAndRestoreFpAndLr {
            sp_offset_by_16: k1,
            fp_storage_offset_from_sp_by_8: b1,
            lr_storage_offset_from_sp_by_8: b2,
        },
        7 => UseFramePointer,
        _ => UseFramepointerWithOffsets {
            sp_offset_from_fp_by_8: k1,
            fp_storage_offset_from_fp_by_8: b1,
            lr_storage_offset_from_fp_by_8: b2,
        },
    }
}

pub fn gen_u64(p: &mut Prng) -> u64 {
    match p.below(8) {
        0..=4 => *p.pick(&U64_GRID),
        5 => 0x7ffc_0000_0000 + (p.below(0x1000) * 8),
        6 => p.next(),
        _ => (*p.pick(&U64_GRID)).wrapping_add(p.below(33)).wrapping_sub(16),
    }
}

pub fn gen_default(p: &mut Prng) -> Dflt {
    match p.below(8) {
        0 | 1 => Dflt::Ident,
        2 => Dflt::Fail,
        3 => Dflt::Const(0),
        4 => Dflt::Const(gen_u64(p)),
        5 => Dflt::Plus(8),
        6 => Dflt::Plus(16),
        _ => Dflt::Plus(gen_u64(p)),
    }
}

pub const MASK_GRID: [u64; 8] = [
    u64::MAX,
    u64::MAX >> 24,
    u64::MAX >> 16,
    u64::MAX >> 17,
    0x0000_7fff_ffff_ffff,
    0xffff,
    1,
    0,
];

pub struct CaseX {
    pub rule: UnwindRuleX86_64,
    pub first: bool,
    pub regs: RegsX,
    pub mem: MemDesc,
}

impl CaseX {
    pub fn line(&self, id: u64) -> String {
        format!(
            "rule {} arch=x64 rule={} first={} {} mem={}",
            id,
            show_rule_x(&self.rule),
            self.first as u8,
            self.regs.show(),
            self.mem.to_line()
        )
    }
    /// Runs the implementation; returns (outcome line, result, regs after, addresses read
    /// with whether each read failed).
    #[allow(clippy::type_complexity)]
    pub fn run(
        &self,
    ) -> Result<(String, Result<Option<u64>, Error>, RegsX, Vec<(u64, bool)>), String> {
        let mut reads = Vec::new();
        let mem = &self.mem;
        let mut g = self.regs.to_fh();
        let res = catch(|| {
            let mut rs = |a: u64| {
                let v = mem.read(a);
                reads.push((a, v.is_err()));
                v
            };
            hooks::exec_rule_x86_64(self.rule, self.first, &mut g, &mut rs)
        })?;
        let after = RegsX::from_fh(&g);
        Ok((format!("{} {}", show_res(&res), after.show()), res, after, reads))
    }
}

pub struct CaseA {
    pub rule: UnwindRuleAarch64,
    pub first: bool,
    pub regs: RegsA,
    pub mem: MemDesc,
}

impl CaseA {
    pub fn line(&self, id: u64) -> String {
        format!(
            "rule {} arch=a64 rule={} first={} {} mem={}",
            id,
            show_rule_a(&self.rule),
            self.first as u8,
            self.regs.show_in(),
            self.mem.to_line()
        )
    }
    #[allow(clippy::type_complexity)]
    pub fn run(
        &self,
    ) -> Result<(String, Result<Option<u64>, Error>, RegsA, Vec<(u64, bool)>), String> {
        let mut reads = Vec::new();
        let mem = &self.mem;
        let mut g = self.regs.to_fh();
        let res = catch(|| {
            let mut rs = |a: u64| {
                let v = mem.read(a);
                reads.push((a, v.is_err()));
                v
            };
            hooks::exec_rule_aarch64(self.rule, self.first, &mut g, &mut rs)
        })?;
        let after = RegsA::from_fh(&g);
        Ok((format!("{} {}", show_res(&res), after.show()), res, after, reads))
    }
}

/// `frame`, `done`, `err:stack`, `err:ovf`, ... without addresses.
pub fn outcome_class(s: &str) -> String {
    let t = s.split(' ').next().unwrap_or("");
    let mut parts = t.split(':');
    match parts.next() {
        Some("frame") => "frame".into(),
        Some("err") => format!("err:{}", parts.next().unwrap_or("?")),
        Some(x) => x.to_string(),
        None => "?".into(),
    }
}

/// The part of an outcome line a property talks about (DESIGN.md 3.2): a disagreement
/// between implementation and model concerns a property only if the projections differ.
pub fn project(pid: &str, arch: &str, out: &str) -> String {
    let class = outcome_class(out);
    let field = |k: &str| -> String {
        out.split(' ')
            .find_map(|t| t.strip_prefix(k))
            .unwrap_or("")
            .to_string()
    };
    let res = out.split(' ').next().unwrap_or("").to_string();
    match pid {
        "C09" => (if class == "panic" { "panic" } else { "returns" }).to_string(),
        "C10" => {
            if class == "frame" {
                if arch == "x64" {
                    let regs = field("regs=");
                    let sp = regs.split(',').nth(7).unwrap_or("").to_string();
                    format!("{res} ip={} sp={sp}", field("ip="))
                } else {
                    format!("{res} sp={}", field("sp="))
                }
            } else if class == "err:noadv" || class == "err:fpback" {
                class
            } else {
                "no-frame".into()
            }
        }
        "C11" => res,
        "C16" => {
            if arch == "a64" {
                format!("{} lr={} mask={}", if class == "frame" { res } else { String::new() }, field("lr="), field("mask="))
            } else {
                String::new()
            }
        }
        _ => out.to_string(),
    }
}

fn is_fp_rule_x(r: &UnwindRuleX86_64, first: bool) -> bool {
    matches!(r, UnwindRuleX86_64::UseFramePointer)
        || (!first && matches!(r, UnwindRuleX86_64::JustReturnIfFirstFrameOtherwiseFp))
}

/// Per-step oracles on one x86-64 outcome.
pub fn judge_x(
    rep: &mut Report,
    line: &str,
    c: &CaseX,
    out: &Result<(String, Result<Option<u64>, Error>, RegsX, Vec<(u64, bool)>), String>,
) {
    let mut fail = |props: &[&str], key: &str, what: String, impl_out: &str| {
        rep.add_finding(Finding {
            props: props.iter().map(|s| s.to_string()).collect(),
            kind: "oracle".into(),
            key: key.into(),
            what,
            case: line.into(),
            impl_out: impl_out.into(),
            model_out: String::new(),
        });
    };
    // C04: the frame pointer convention and the leaf assumption, stated directly (reference
    // semantics; framehop's sanity checks are the guards, as in the C04 theorems)
    if let Ok((s, _, _, _)) = out {
        let sp = c.regs.sp();
        let bp = c.regs.bp();
        let uses_fp = matches!(c.rule, UnwindRuleX86_64::UseFramePointer)
            || (!c.first && matches!(c.rule, UnwindRuleX86_64::JustReturnIfFirstFrameOtherwiseFp));
        let is_leaf = c.first && matches!(c.rule, UnwindRuleX86_64::JustReturnIfFirstFrameOtherwiseFp);
        let mut expect: Option<String> = None;
        if uses_fp {
            if bp == 0 {
                expect = Some(format!("done {}", c.regs.show()));
            } else if let (Some(nsp), Ok(nbp), Some(Ok(ra))) = (bp.checked_add(16), c.mem.read(bp), bp.checked_add(8).map(|a| c.mem.read(a))) {
                if nsp > sp && ra != 0 {
                    let mut r = c.regs.r;
                    r[7] = nsp;
                    r[6] = nbp;
                    expect = Some(format!("frame:{} {}", hex(ra), RegsX { ip: ra, r }.show()));
                }
            }
        } else if is_leaf {
            if let (Some(nsp), Ok(ra)) = (sp.checked_add(8), c.mem.read(sp)) {
                if ra != 0 {
                    let mut r = c.regs.r;
                    r[7] = nsp;
                    expect = Some(format!("frame:{} {}", hex(ra), RegsX { ip: ra, r }.show()));
                }
            }
        }
        if let Some(e) = expect {
            if &e != s {
                fail(&["C04"], &format!("x64-{}-not-the-convention", if is_leaf { "uncovered-first-frame-leaf" } else { "frame-pointer-step" }),
                    format!("frame pointer convention / leaf assumption demands {e}"), s);
            }
        }
    }
    match out {
        Err(loc) => fail(
            &["C09"],
            &format!("panic-x64-rule-{}", show_rule_x(&c.rule).split(':').next().unwrap()),
            format!("rule execution panicked at {loc}"),
            "panic",
        ),
        Ok((s, res, after, reads)) => {
            // C11: a stack read that failed while the step reports success. The only read a rule
            // may lose silently is x86-64's restore of rbp from a slot *below* the stack pointer in
            // the first frame (already-popped register in an epilogue; documented in exec).
            if res.is_ok() {
                if let Some((a, _)) = reads.iter().find(|(a, failed)| *failed && !(c.first && *a < c.regs.sp())) {
                    fail(&["C11"], "unreadable-slot-swallowed", format!("the read of {a:#x} failed, yet the step did not end with Err(CouldNotReadStack)"), s);
                }
            }
            match res {
                Ok(Some(ra)) => {
                    if *ra == 0 {
                        fail(&["C11"], "null-frame", "null address reported as a frame".into(), s);
                    }
                    if after.ip != *ra {
                        fail(&["C10"], "ip-not-ra", "ip register differs from the returned address".into(), s);
                    }
                    if !c.first {
                        if after.sp() < c.regs.sp() {
                            fail(&["C10"], "sp-decreased", "stack pointer decreased in a caller frame".into(), s);
                        }
                        if is_fp_rule_x(&c.rule, c.first) && after.sp() <= c.regs.sp() {
                            fail(&["C10"], "fp-step-no-increase", "frame pointer step did not increase sp".into(), s);
                        }
                        if after.sp() == c.regs.sp() && *ra == c.regs.ip {
                            fail(&["C10"], "no-advance", "success with sp and address unchanged".into(), s);
                        }
                    }
                }
                Ok(None) => {}
                Err(Error::CouldNotReadStack(a)) => {
                    if !reads.iter().any(|(ra, failed)| ra == a && *failed) {
                        fail(&["C11"], "wrong-unreadable-address", "CouldNotReadStack names an address whose read did not fail".into(), s);
                    }
                }
                Err(_) => {}
            }
        }
    }
}

pub fn judge_a(
    rep: &mut Report,
    line: &str,
    c: &CaseA,
    out: &Result<(String, Result<Option<u64>, Error>, RegsA, Vec<(u64, bool)>), String>,
) {
    let mut fail = |props: &[&str], key: &str, what: String, impl_out: &str| {
        rep.add_finding(Finding {
            props: props.iter().map(|s| s.to_string()).collect(),
            kind: "oracle".into(),
            key: key.into(),
            what,
            case: line.into(),
            impl_out: impl_out.into(),
            model_out: String::new(),
        });
    };
    if let Ok((s, _, _, _)) = out {
        let (sp, fp, mask) = (c.regs.sp, c.regs.fp, c.regs.mask);
        let uses_fp = matches!(c.rule, UnwindRuleAarch64::UseFramePointer)
            || (!c.first && matches!(c.rule, UnwindRuleAarch64::NoOpIfFirstFrameOtherwiseFp));
        let strict = matches!(c.rule, UnwindRuleAarch64::UseFramePointer);
        let is_leaf = c.first && matches!(c.rule, UnwindRuleAarch64::NoOpIfFirstFrameOtherwiseFp);
        let mut expect: Option<String> = None;
        if uses_fp {
            if let (Some(nsp), Some(Ok(lr)), Ok(nfp)) = (fp.checked_add(16), fp.checked_add(8).map(|a| c.mem.read(a)), c.mem.read(fp)) {
                if nfp == 0 {
                    expect = Some(format!("done {}", c.regs.show()));
                } else if nsp > sp && (!strict || nfp > fp) && lr & mask != 0 {
                    expect = Some(format!("frame:{} {}", hex(lr & mask), RegsA { mask, lr: lr & mask, sp: nsp, fp: nfp }.show()));
                }
            }
        } else if is_leaf && c.regs.lr & mask != 0 {
            expect = Some(format!("frame:{} {}", hex(c.regs.lr & mask), c.regs.show()));
        }
        if let Some(e) = expect {
            if &e != s {
                fail(&["C04"], &format!("a64-{}-not-the-convention", if is_leaf { "uncovered-first-frame-leaf" } else { "frame-pointer-step" }),
                    format!("frame pointer convention / leaf assumption demands {e}"), s);
            }
        }
    }
    match out {
        Err(loc) => fail(
            &["C09"],
            &format!("panic-a64-rule-{}", show_rule_a(&c.rule).split(':').next().unwrap()),
            format!("rule execution panicked at {loc}"),
            "panic",
        ),
        Ok((s, res, after, reads)) => {
            // C11: no aarch64 rule may lose a failed stack read
            if res.is_ok() {
                if let Some((a, _)) = reads.iter().find(|(_, failed)| *failed) {
                    fail(&["C11"], "unreadable-slot-swallowed", format!("the read of {a:#x} failed, yet the step did not end with Err(CouldNotReadStack)"), s);
                }
            }
            if after.lr & !c.regs.mask != 0 {
                fail(&["C16"], "lr-unstripped", "lr left in the register set has bits outside the mask".into(), s);
            }
            match res {
                Ok(Some(ra)) => {
                    if *ra == 0 {
                        fail(&["C11"], "null-frame", "null address reported as a frame".into(), s);
                        if c.regs.mask != u64::MAX {
                            fail(&["C16"], "signed-null-return-address-reported-as-a-frame", "the saved return address is null once the authentication bits are stripped: the unsigned stack ends here, the signed one reports a frame".into(), s);
                        }
                    }
                    if ra & !c.regs.mask != 0 {
                        fail(&["C16"], "ra-unstripped", "returned address has bits outside the mask".into(), s);
                    }
                    if !c.first && after.sp <= c.regs.sp {
                        fail(&["C10"], "sp-not-increased", "caller-frame step did not increase sp".into(), s);
                    }
                    if after.sp < c.regs.sp {
                        fail(&["C10"], "sp-decreased", "stack pointer decreased".into(), s);
                    }
                }
                Ok(None) => {}
                Err(Error::CouldNotReadStack(a)) => {
                    if !reads.iter().any(|(ra, failed)| ra == a && *failed) {
                        fail(&["C11"], "wrong-unreadable-address", "CouldNotReadStack names an address whose read did not fail".into(), s);
                    }
                }
                Err(_) => {}
            }
        }
    }
}

fn variants_from_reads(p: &mut Prng, base: &MemDesc, reads: &[(u64, bool)], ip: u64, sp: u64) -> Vec<MemDesc> {
    let mut v = Vec::new();
    for (a, _) in reads.iter().take(12) {
        for val in [None, Some(0), Some(ip), Some(sp), Some(gen_u64(p))] {
            let mut m = base.clone();
            m.set(*a, val);
            v.push(m);
        }
        let mut m = base.clone();
        m.cut = Some(*a);
        v.push(m);
        let mut m = base.clone();
        m.cut = Some(a.wrapping_add(1));
        v.push(m);
    }
    v
}


/// `PtrAuthMask::from_max_known_address` on every power of two and its neighbours, 0, u64::MAX
/// and random values: compared with the Lean model (`fromMaxKnown`), and judged directly - the
/// mask must preserve every address up to its argument (the argument itself, its predecessor,
/// half of it, 0, random smaller values).
fn max_known_mask_grid(rep: &mut Report, p: &mut Prng) {
    let mut args: Vec<u64> = vec![0, 1, 2, 3, u64::MAX, u64::MAX - 1];
    for k in 0..64u32 {
        let b = 1u64 << k;
        args.extend_from_slice(&[b, b.wrapping_sub(1), b.wrapping_add(1), b | (b >> 1), b | p.below(b.max(1))]);
    }
    for _ in 0..2000 {
        args.push(gen_u64(p));
    }
    let mut lines = Vec::new();
    let mut impls = Vec::new();
    for (i, a) in args.iter().enumerate() {
        let got = catch(|| PtrAuthMask::from_max_known_address(*a).0);
        let out = match got {
            Err(loc) => {
                rep.add_finding(Finding { props: vec!["C16".into(), "C09".into()], kind: "oracle".into(), key: "from-max-known-address-panics".into(), what: format!("from_max_known_address({a:#x}) panicked at {loc}"), case: format!("a={a:#x}"), impl_out: "panic".into(), model_out: String::new() });
                "panic".to_string()
            }
            Ok(mask) => {
                let mut xs = vec![*a, a.saturating_sub(1), a / 2, 0, 1.min(*a)];
                for _ in 0..4 {
                    xs.push(if *a == u64::MAX { gen_u64(p) } else { p.below(a + 1) });
                }
                if let Some(x) = xs.iter().find(|x| **x <= *a && (**x & mask) != **x) {
                    rep.add_finding(Finding {
                        props: vec!["C16".into()],
                        kind: "oracle".into(),
                        key: "mask-from-max-known-address-loses-an-address".into(),
                        what: format!("the mask derived from the highest known address {a:#x} is {mask:#x}; stripping the address {x:#x} (which is not above {a:#x}) gives {:#x}", x & mask),
                        case: format!("from_max_known_address({a:#x})"),
                        impl_out: format!("mask={mask:#x}"),
                        model_out: String::new(),
                    });
                }
                format!("mask={}", hex(mask))
            }
        };
        lines.push(format!("maxmask {i} a={}", hex(*a)));
        impls.push(out);
    }
    let model = crate::model::run_model(&lines);
    rep.cases += lines.len() as u64;
    rep.compared_with_model += lines.len() as u64;
    for ((l, i), m) in lines.iter().zip(impls.iter()).zip(model.iter()) {
        if i != m {
            rep.add_finding(Finding { props: vec!["C16".into()], kind: "correspondence".into(), key: "from-max-known-address".into(), what: "PtrAuthMask::from_max_known_address differs from the Lean model fromMaxKnown".into(), case: l.clone(), impl_out: i.clone(), model_out: m.clone() });
        }
    }
    rep.count("from_max_known_address grid");
}

pub fn run(tier: &str, seed: u64) -> Report {
    let mut rep = Report::new("rule");
    let mut p = Prng::new(seed);
    {
        let mut pm = Prng::new(seed.wrapping_mul(0x9e37_79b9_7f4a_7c15).wrapping_add(3));
        max_known_mask_grid(&mut rep, &mut pm);
    }
    let n_base: u64 = if tier == "thorough" { 150_000 } else { 6_000 };

    let mut lines: Vec<String> = Vec::new();
    let mut impl_outs: Vec<String> = Vec::new();
    let mut id: u64 = 0;

    // x86-64
    for _ in 0..n_base {
        let rule = gen_rule_x(&mut p);
        let first = p.chance(1, 2);
        let mut r = [0u64; 16];
        for v in r.iter_mut() {
            *v = if p.chance(1, 3) { gen_u64(&mut p) } else { p.below(0x100) };
        }
        r[7] = gen_u64(&mut p);
        r[6] = if p.chance(1, 4) { r[7].wrapping_add(p.below(64) * 8) } else { gen_u64(&mut p) };
        let regs = RegsX { ip: gen_u64(&mut p), r };
        let base = MemDesc::new(gen_default(&mut p));
        let c0 = CaseX { rule, first, regs: regs.clone(), mem: base.clone() };
        let out0 = c0.run();
        let reads: Vec<(u64, bool)> = out0.as_ref().map(|o| o.3.clone()).unwrap_or_default();
        let mut cases = vec![c0];
        for m in variants_from_reads(&mut p, &base, &reads, regs.ip, regs.sp()) {
            cases.push(CaseX { rule, first, regs: regs.clone(), mem: m });
        }
        for c in cases {
            let line = c.line(id);
            id += 1;
            let out = c.run();
            judge_x(&mut rep, &line, &c, &out);
            let s = match &out {
                Ok(o) => o.0.clone(),
                Err(_) => "panic".to_string(),
            };
            rep.count(&format!("x64 rule {} first={} -> {}", show_rule_x(&c.rule).split(':').next().unwrap(), c.first as u8, outcome_class(&s)));
            rep.note_distinct(&line[line.find("arch").unwrap()..]);
            if id % 9973 == 1 {
                rep.sample(format!("{line} => {s}"));
            }
            lines.push(line);
            impl_outs.push(s);
        }
    }
    // aarch64
    for _ in 0..n_base {
        let rule = gen_rule_a(&mut p);
        let first = p.chance(1, 2);
        let mask = if p.chance(7, 8) { *p.pick(&MASK_GRID) } else { p.next() };
        let sp = gen_u64(&mut p);
        let fp = if p.chance(1, 4) { sp.wrapping_add(p.below(64) * 8) } else { gen_u64(&mut p) };
        let regs = RegsA { mask, lr: gen_u64(&mut p) & mask, sp, fp };
        let base = MemDesc::new(gen_default(&mut p));
        let c0 = CaseA { rule, first, regs: regs.clone(), mem: base.clone() };
        let out0 = c0.run();
        let reads: Vec<(u64, bool)> = out0.as_ref().map(|o| o.3.clone()).unwrap_or_default();
        let mut cases = vec![c0];
        for m in variants_from_reads(&mut p, &base, &reads, regs.lr, regs.sp) {
            cases.push(CaseA { rule, first, regs: regs.clone(), mem: m });
        }
        // signed twins: set bits outside the mask in every value the rule reads
        for c in cases {
            let line = c.line(id);
            id += 1;
            let out = c.run();
            judge_a(&mut rep, &line, &c, &out);
            let s = match &out {
                Ok(o) => o.0.clone(),
                Err(_) => "panic".to_string(),
            };
            rep.count(&format!("a64 rule {} first={} -> {}", show_rule_a(&c.rule).split(':').next().unwrap(), c.first as u8, outcome_class(&s)));
            rep.note_distinct(&line[line.find("arch").unwrap()..]);
            if id % 9973 == 1 {
                rep.sample(format!("{line} => {s}"));
            }
            lines.push(line);
            impl_outs.push(s);
        }
    }
    rep.cases = lines.len() as u64;
    let model_outs = run_model(&lines);
    rep.compared_with_model = model_outs.len() as u64;
    for ((line, i), m) in lines.iter().zip(impl_outs.iter()).zip(model_outs.iter()) {
        if i != m {
            let arch = if line.contains("arch=x64") { "x64" } else { "a64" };
            let rule_tag = line.split("rule=").nth(1).unwrap().split([' ', ':']).next().unwrap().to_string();
            let mut props: Vec<String> = Vec::new();
            for pid in ["C09", "C10", "C11", "C16", "C05", "C04", "C01", "C03"] {
                if project(pid, arch, i) != project(pid, arch, m) {
                    props.push(pid.to_string());
                }
            }
            rep.add_finding(Finding {
                props,
                kind: "correspondence".into(),
                key: format!("rule-exec-{arch}-{rule_tag}"),
                what: "rule execution differs from the Lean model (execX64/execA64)".into(),
                case: line.clone(),
                impl_out: i.clone(),
                model_out: m.clone(),
            });
        }
    }
    rep
}

/// Parses the register fields of an operation line (`ip=.. regs=..` / `mask=.. lr=.. sp=.. fp=..`).
pub fn parse_regs_any(arch: crate::spec::Arch, fs: &std::collections::BTreeMap<&str, &str>) -> Option<crate::world::RegsAny> {
    let h = |k: &str| fs.get(k).and_then(|v| u64::from_str_radix(v, 16).ok());
    match arch {
        crate::spec::Arch::X64 => {
            let mut r = [0u64; 16];
            for (i, v) in fs.get("regs")?.split(',').enumerate().take(16) {
                r[i] = u64::from_str_radix(v, 16).ok()?;
            }
            Some(crate::world::RegsAny::X(RegsX { ip: h("ip")?, r }))
        }
        crate::spec::Arch::A64 => Some(crate::world::RegsAny::A(RegsA { mask: h("mask")?, lr: h("lr")?, sp: h("sp")?, fp: h("fp")? })),
    }
}
